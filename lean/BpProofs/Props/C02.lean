import BpModel.All
import BpModel.Spec
import BpProofs.SpecCore
import BpProofs.SpecPack
import BpProofs.SpecEnc
import BpProofs.SpecPerm2
import BpProofs.SpecPerm3
/-
  C02 — wire interoperability with the reference protobuf implementation.

  The reference (`google.protobuf`) cannot be brought into Lean: it is the oracle of the
  differential part of the check.  What is proved here is that the MODEL OF THE DECODER
  (`loadFields` + `foldFields`/`applyField`, i.e. `load_fields` + the loop of `Message.load`)
  is insensitive to exactly the re-encodings the property lists — for all schemas, all record
  lists / byte strings, every starting state and every loader `rec` of nested payloads, by
  induction over record lists; no bounds.

  "The decoded message" is `core st`: field values, oneof selection, presence — the state
  without the raw bytes retained for unknown fields.  Hypotheses are decidable predicates:
  `Targets d pf idx f` (the record's number is declared by field `idx` = `f` of the class and
  its wire type fits), `IsRepScalar f`, `WfState d st` (slot typing; holds for a fresh
  instance, `wf_fresh`, and is kept by every decode step, `wf_step`).
-/
namespace Bp.C02
open Bp Gen

/-! ### the invariant the statements below assume holds on every path of the decoder -/

/-- a fresh instance satisfies the slot typing invariant (for every class in which no
    repeated field is also marked optional — true of every class generated from a .proto) -/
theorem wf_fresh (d : MsgD) (hd : NoRepeatedOptional d) : WfState d (freshState d) := freshState_wf d hd

/-- … and every record, known or unknown, well-typed or not, keeps it -/
theorem wf_step (S : Schema) (rec : Loader) (d : MsgD) (pfs : List PField) (st st' : MState)
    (hw : WfState d st) (h : foldFields S rec d st pfs = .ok st') : WfState d st' :=
  foldFields_wf S rec d pfs st st' hw h

/-! ### interleaved unknown fields -/

/-- **interleaved unknown fields** — "… and interleaved unknown fields": two record lists
    whose known records (numbers the class declares, with a fitting wire type) are the
    same sequence decode to the same message; unknown records may be added, dropped or
    moved to any position, of any of the four wire types.  Failure is preserved too. -/
theorem load_unknown_interleave (S : Schema) (rec : Loader) (d : MsgD) (st : MState) (pfs pfs' : List PField)
    (h : (pfs.filter fun pf => !isUnknownField d pf) = (pfs'.filter fun pf => !isUnknownField d pf)) :
    (foldFields S rec d st pfs).map core = (foldFields S rec d st pfs').map core := by
  rw [foldFields_core_filter, foldFields_core_filter S rec d pfs', h]


/-! ### any field order -/

/-- **any field order** — the reordering the wire format permits without changing the
    meaning.  Every record has a class for the receiving message class `d` (`classOf`): the
    declared field its number denotes (if the wire type fits and the field is in no oneof),
    the oneof group of that field, or "unknown".  If two record lists contain, for every
    field and every oneof group, the same records of that class in the same relative order,
    they decode to the same field values, oneof selection and presence — records of
    different fields that are not members of one oneof group may be interleaved in ANY way,
    and unknown records may stand anywhere (or be missing).  If the first list decodes, so
    does the second.  `st.onWire = true` is what `Message.load` establishes before its loop.

    Proof: frame (`applyField_other_class`: a record leaves the footprint of every other
    class untouched) + locality (`applyField_local`: its effect on its own footprint depends
    on that footprint only) ⟹ the footprint of a class after the whole list is the footprint
    after the sub-list of that class (`proj_fold`), by induction over the record list. -/
theorem load_perm_classes (S : Schema) (rec : Loader) (d : MsgD) (pfs pfs' : List PField) (st st1 : MState)
    (how : st.onWire = true)
    (hsame : ∀ c, Legit d c → c ≠ Cls.unknown → pfs.filter (ofClass d c) = pfs'.filter (ofClass d c))
    (h : foldFields S rec d st pfs = .ok st1) :
    ∃ st2, foldFields S rec d st pfs' = .ok st2 ∧ core st2 = core st1 :=
  foldFields_perm S rec d pfs pfs' st st1 how hsame h


/-- **any field order**, in the words of the property: ANY permutation of the records that
    keeps the relative order of the records with the same field number and of the records
    belonging to members of the same oneof group gives the same decoded field values, oneof
    selection and presence.  (This is all the reordering the wire format itself permits without
    changing the meaning: records of one repeated field, occurrences of one singular field and
    members of one oneof are order-sensitive by the specification.)  The hypothesis `hperm`
    is not even needed by the proof: the two order conditions already determine the known
    records; unknown records may be permuted freely, added or dropped. -/
theorem load_perm (S : Schema) (rec : Loader) (d : MsgD) (pfs pfs' : List PField) (st st1 : MState)
    (how : st.onWire = true) (_hperm : pfs.Perm pfs')
    (hnum : ∀ n, pfs.filter (fun pf => pf.num == n) = pfs'.filter (fun pf => pf.num == n))
    (hgrp : ∀ g, pfs.filter (inGroup d g) = pfs'.filter (inGroup d g))
    (h : foldFields S rec d st pfs = .ok st1) :
    ∃ st2, foldFields S rec d st pfs' = .ok st2 ∧ core st2 = core st1 :=
  foldFields_perm S rec d pfs pfs' st st1 how (classes_of_numbers d pfs pfs' hnum hgrp) h

/-- byte-level form: the records may be any records the framing produces; re-assembled in the
    permuted order they are framed into exactly the permuted list (`loadFields_join`), so the
    permuted BYTES decode to the same message -/
theorem load_perm_bytes (S : Schema) (fuel : Nat) (d : MsgD) (bs : Bytes) (pfs pfs' : List PField) (st st1 : MState)
    (hp : loadFields bs = .ok pfs) (hperm : pfs.Perm pfs')
    (hnum : ∀ n, pfs.filter (fun pf => pf.num == n) = pfs'.filter (fun pf => pf.num == n))
    (hgrp : ∀ g, pfs.filter (inGroup d g) = pfs'.filter (inGroup d g))
    (h : loadInto S (fuel + 1) d st bs = .ok st1) :
    ∃ st2, loadInto S (fuel + 1) d st (joinRaw pfs') = .ok st2 ∧ core st2 = core st1 := by
  have hparsed : ∀ pf ∈ pfs', Parsed pf := fun pf hpf => loadFields_parsed bs pfs hp pf (hperm.mem_iff.mpr hpf)
  rw [loadInto_succ, hp] at h
  simp only [bind_ok] at h
  rw [loadInto_succ, loadFields_join pfs' hparsed]
  simp only [bind_ok]
  exact load_perm S _ d pfs pfs' _ st1 rfl hperm hnum hgrp h

/-- the two-record case (the commutation lemma): records of different classes commute -/
theorem load_swap (S : Schema) (rec : Loader) (d : MsgD) (before after : List PField) (p q : PField) (st st1 : MState)
    (how : st.onWire = true) (hpq : classOf d p ≠ classOf d q)
    (h : foldFields S rec d st (before ++ p :: q :: after) = .ok st1) :
    ∃ st2, foldFields S rec d st (before ++ q :: p :: after) = .ok st2 ∧ core st2 = core st1 := by
  apply foldFields_perm S rec d _ _ st st1 how _ h
  intro c _ _
  simp only [List.filter_append, List.filter_cons]
  by_cases h1 : ofClass d c p = true <;> by_cases h2 : ofClass d c q = true
  · exfalso
    simp only [ofClass, decide_eq_true_eq] at h1 h2
    exact hpq (h1.trans h2.symm)
  · simp [h1, h2]
  · simp [h1, h2]
  · simp [h1, h2]

/-! ### packed / unpacked repeated scalars, chunks -/

/-- **packed or unpacked repeated scalars, a packed field split into several chunks, in any
    mix**: for a repeated field of a packable scalar type, two non-empty runs of records —
    each record a packed chunk (LEN) or a single unpacked element, in any combination —
    that carry the same elements in the same order leave the SAME state, wherever the run
    stands in the message (`before`, `after` arbitrary: other fields, unknown fields, further
    records of the same field). -/
theorem load_pack_mix (S : Schema) (rec : Loader) (d : MsgD) (idx : Nat) (f : FieldD) (hr : IsRepScalar f)
    (before after run run' : List PField) (st : MState) (hw : WfState d st)
    (hne : run ≠ []) (hne' : run' ≠ [])
    (hall : ∀ pf ∈ run, Targets d pf idx f) (hall' : ∀ pf ∈ run', Targets d pf idx f)
    (es : List Val) (he : elemsOfRecs S rec f run = .ok es) (he' : elemsOfRecs S rec f run' = .ok es) :
    foldFields S rec d st (before ++ run ++ after) = foldFields S rec d st (before ++ run' ++ after) := by
  rw [List.append_assoc, List.append_assoc, foldFields_append, foldFields_append S rec d before]
  cases hb : foldFields S rec d st before with
  | error e => rfl
  | ok s1 =>
    simp only [bind_ok]
    have hw1 := foldFields_wf S rec d before st s1 hw hb
    rw [foldFields_append, foldFields_append S rec d run',
      foldFields_repeated S rec d idx f hr run hne hall s1 hw1 es he,
      foldFields_repeated S rec d idx f hr run' hne' hall' s1 hw1 es he']

/-- what the list is afterwards: the old elements followed by the run's elements -/
theorem load_pack_value (S : Schema) (rec : Loader) (d : MsgD) (idx : Nat) (f : FieldD) (hr : IsRepScalar f)
    (run : List PField) (st : MState) (hw : WfState d st) (hne : run ≠ [])
    (hall : ∀ pf ∈ run, Targets d pf idx f) (es : List Val) (he : elemsOfRecs S rec f run = .ok es) :
    ∃ st', foldFields S rec d st run = .ok st' ∧ st'.slots.getD idx .ph = .list (curList st idx ++ es) := by
  refine ⟨_, foldFields_repeated S rec d idx f hr run hne hall st hw es he, ?_⟩
  have hl := idx_lt_of_wf d st idx f (hall _ (List.getLast_mem hne)).2.1 hw
  simp only [appendAt]
  rw [setAt_getD]; simp [hl]


/-- concrete instance of `load_pack_mix` — **one packed record holding `xs ++ ys`, two packed
    records holding `xs` and `ys` (a packed field split into chunks; any number of chunks,
    an empty chunk included), and the unpacked records of the same elements decode alike**.
    `chunks`, `chunks'`: two ways of cutting the same element sequence into packed records;
    elements are 4 / 8-byte values or varints written minimally or padded (`ValidElem`). -/
theorem load_chunk_split (S : Schema) (rec : Loader) (d : MsgD) (idx : Nat) (f : FieldD) (hr : IsRepScalar f)
    (before after : List PField) (st : MState) (hw : WfState d st) (num : Nat)
    (chunks chunks' : List (List Bytes)) (raws raws' : List Bytes → Bytes)
    (hne : chunks ≠ []) (hne' : chunks' ≠ []) (hsame : chunks.flatten = chunks'.flatten)
    (hv : ∀ c ∈ chunks, ∀ e ∈ c, ValidElem f.ty e) (hv' : ∀ c ∈ chunks', ∀ e ∈ c, ValidElem f.ty e)
    (ht : ∀ p raw, Targets d (packedRec num p raw) idx f)
    (vs : List Val) (hd : decodeElems f.ty chunks.flatten = .ok vs) :
    foldFields S rec d st (before ++ (chunks.map fun c => packedRec num c.flatten (raws c)) ++ after)
      = foldFields S rec d st (before ++ (chunks'.map fun c => packedRec num c.flatten (raws' c)) ++ after) := by
  apply load_pack_mix S rec d idx f hr before after _ _ st hw (by simpa using hne) (by simpa using hne')
    (by intro pf hpf; simp only [List.mem_map] at hpf; obtain ⟨c, _, e⟩ := hpf; rw [← e]; exact ht _ _)
    (by intro pf hpf; simp only [List.mem_map] at hpf; obtain ⟨c, _, e⟩ := hpf; rw [← e]; exact ht _ _) vs
  · exact elemsOfRecs_chunks S rec f hr.2.1 num chunks raws hv vs hd
  · exact elemsOfRecs_chunks S rec f hr.2.1 num chunks' raws' hv' vs (by rw [← hsame]; exact hd)

/-- concrete instance of `load_pack_mix` — **packed ↔ unpacked**: the packed chunks of an
    element sequence and the unpacked records of the same elements (one VARINT / I32 / I64
    record each) decode alike. -/
theorem load_pack_toggle (S : Schema) (rec : Loader) (d : MsgD) (idx : Nat) (f : FieldD) (hr : IsRepScalar f)
    (before after : List PField) (st : MState) (hw : WfState d st) (num : Nat)
    (chunks : List (List Bytes)) (raws : List Bytes → Bytes) (raws' : Bytes → Bytes)
    (hne : chunks ≠ []) (hne' : chunks.flatten ≠ [])
    (hv : ∀ c ∈ chunks, ∀ e ∈ c, ValidElem f.ty e)
    (ht : ∀ p raw, Targets d (packedRec num p raw) idx f)
    (ht' : ∀ e raw, Targets d (unpackedRec num f.ty e raw) idx f)
    (vs : List Val) (hd : decodeElems f.ty chunks.flatten = .ok vs) (hnl : ∀ v ∈ vs, isListVal v = false) :
    foldFields S rec d st (before ++ (chunks.map fun c => packedRec num c.flatten (raws c)) ++ after)
      = foldFields S rec d st (before ++ (chunks.flatten.map fun e => unpackedRec num f.ty e (raws' e)) ++ after) := by
  apply load_pack_mix S rec d idx f hr before after _ _ st hw (by simpa using hne) (by simpa using hne')
    (by intro pf hpf; simp only [List.mem_map] at hpf; obtain ⟨c, _, e⟩ := hpf; rw [← e]; exact ht _ _)
    (by intro pf hpf; simp only [List.mem_map] at hpf; obtain ⟨c, _, e⟩ := hpf; rw [← e]; exact ht' _ _) vs
  · exact elemsOfRecs_chunks S rec f hr.2.1 num chunks raws hv vs hd
  · exact elemsOfRecs_unpacked S rec f num chunks.flatten raws' vs hd hnl

/-! ### non-minimal varints -/

/-- **non-minimal varints, framing**: a byte string assembled from records whose tag, length
    and value varints are each written in ANY well-shaped way of at most 10 bytes (minimal or
    padded with redundant continuation groups) is split into exactly the records those
    varints denote (`C16.load_padded` lifted to whole messages). -/
theorem framing_padded (rs : List EncRec) (hv : ∀ r ∈ rs, r.Valid) :
    loadFields (rs.map EncRec.bytes).flatten = .ok (rs.map EncRec.toPField) := loadFields_encRecs rs hv

/-- **non-minimal varints**: replacing any varints — tags, lengths, values — of the records
    of a message by other well-shaped encodings (≤ 10 bytes) of the same numbers does not
    change the decoded message (nor whether decoding fails), for every class, every starting
    state and every nesting budget.  (The raw bytes retained for UNKNOWN records do keep
    their padding; they are not part of `core`.) -/
theorem load_varint_padding (S : Schema) (fuel : Nat) (d : MsgD) (st : MState) (rs rs' : List EncRec)
    (hv : ∀ r ∈ rs, r.Valid) (hv' : ∀ r ∈ rs', r.Valid) (hsame : List.Forall₂ EncRec.SamePad rs rs') :
    (loadInto S (fuel + 1) d st (rs.map EncRec.bytes).flatten).map core
      = (loadInto S (fuel + 1) d st (rs'.map EncRec.bytes).flatten).map core := by
  rw [loadInto_succ, loadInto_succ, loadFields_encRecs rs hv, loadFields_encRecs rs' hv']
  simp only [bind_ok]
  exact foldFields_congr S _ d _ _
    (forall₂_map _ _ EncRec.toPField rs rs' (fun a b h => samePad_sameMeaning S _ d a b h) hsame) _ _ rfl

/-- … inside a packed chunk: the elements may be padded too -/
theorem load_varint_padding_packed (S : Schema) (rec : Loader) (f : FieldD) (hp : isPacked f.ty = true) (num : Nat)
    (es es' : List Bytes) (raw raw' : Bytes) (hv : ∀ e ∈ es, ValidElem f.ty e) (hv' : ∀ e ∈ es', ValidElem f.ty e)
    (hsame : decodeElems f.ty es = decodeElems f.ty es') :
    decodeValue S rec f (packedRec num es.flatten raw) = decodeValue S rec f (packedRec num es'.flatten raw') := by
  rw [decodeValue_packedRec S rec f num _ _ hp, decodeValue_packedRec S rec f num _ _ hp,
    decodePacked_elems f.ty es hv, decodePacked_elems f.ty es' hv', hsame]

/-- … inside a nested message / map entry: if the nested loader reads the re-padded payload
    like the original one (this theorem one level down), so does the enclosing record.
    Together with `load_same_meaning` this propagates padding invariance level by level. -/
theorem load_varint_padding_nested (S : Schema) (rec : Loader) (f : FieldD) (num : Nat) (p p' raw raw' : Bytes)
    (hty : f.ty = .message ∨ f.ty = .map) (h : ∀ d' st', rec d' st' p = rec d' st' p') :
    decodeValue S rec f (packedRec num p raw) = decodeValue S rec f (packedRec num p' raw') :=
  decodeValue_nested_congr S rec f num p p' raw raw' hty h

/-- records that mean the same (same number and wire type, same decoded value for the field
    they target) are interchangeable, one by one, anywhere in a message -/
theorem load_same_meaning (S : Schema) (rec : Loader) (d : MsgD) (st : MState) (pfs pfs' : List PField)
    (hs : List.Forall₂ (SameMeaning S rec d) pfs pfs') :
    (foldFields S rec d st pfs).map core = (foldFields S rec d st pfs').map core :=
  foldFields_congr S rec d pfs pfs' hs st st rfl

/-! ### repeated occurrences of a singular scalar / of oneof members: the last one wins -/

/-- **repeated occurrences of a singular scalar (last one wins)**: whatever records came
    before — earlier occurrences of the same field with other values included — after a
    record of a singular scalar field the field holds exactly that record's value. -/
theorem load_last_wins (S : Schema) (rec : Loader) (d : MsgD) (st st' : MState) (earlier : List PField)
    (pf : PField) (idx : Nat) (f : FieldD) (v : Val) (hw : WfState d st)
    (ht : Targets d pf idx f) (hrep : f.repeated = false) (hm : f.ty ≠ .map) (hmsg : f.ty ≠ .message)
    (hv : decodeValue S rec f pf = .ok v)
    (h : foldFields S rec d st (earlier ++ [pf]) = .ok st') : st'.slots.getD idx .ph = v := by
  rw [foldFields_append] at h
  cases hb : foldFields S rec d st earlier with
  | error e => rw [hb] at h; simp at h
  | ok s1 =>
    rw [hb] at h; simp only [bind_ok, foldFields] at h
    cases ha : applyField S rec d s1 pf with
    | error e => rw [ha] at h; simp at h
    | ok s2 =>
      rw [ha] at h; simp only [bind_ok] at h
      injection h with h; subst h
      exact applyField_singular S rec d s1 s2 pf idx f v ht hrep hm hmsg
        (foldFields_wf S rec d earlier st s1 hw hb) hv ha

/-- **repeated occurrences of oneof members (last one wins)**: whatever records came before
    — other members of the group, or the same member — after a record of member `idx` of
    group `g` that member is the selected one, and every other member of the group is unset
    (PLACEHOLDER, or None for an optional member), so reading it raises AttributeError and it
    is not re-encoded.  Scalar or message member alike. -/
theorem load_last_wins_oneof (S : Schema) (rec : Loader) (d : MsgD) (st st' : MState) (earlier : List PField)
    (pf : PField) (idx : Nat) (f : FieldD) (g : Nat)
    (hwg : WfGroups d.fields d.nGroups) (hinv : Inv d.fields d.nGroups st)
    (ht : Targets d pf idx f) (hg : f.group = some g)
    (h : foldFields S rec d st (earlier ++ [pf]) = .ok st') :
    st'.cur.getD g Option.none = some idx
    ∧ ∀ j fj, d.fields[j]? = some fj → fj.group = some g → j ≠ idx → SentinelAt fj (st'.slots.getD j .ph) := by
  have hinv' := foldFields_inv S rec d d.nGroups _ st st' hwg hinv h
  rw [foldFields_append] at h
  cases hb : foldFields S rec d st earlier with
  | error e => rw [hb] at h; simp at h
  | ok s1 =>
    rw [hb] at h; simp only [bind_ok, foldFields] at h
    cases ha : applyField S rec d s1 pf with
    | error e => rw [ha] at h; simp at h
    | ok s2 =>
      rw [ha] at h; simp only [bind_ok] at h
      injection h with h; subst h
      have hgn : g < d.nGroups := hwg f (List.mem_of_getElem? ht.2.1) g hg
      have hl : g < s1.cur.length := by
        rw [(foldFields_lengths S rec d earlier st s1 hb).2, hinv.1]; exact hgn
      have hsel := applyField_selects S rec d s1 s2 pf idx f g ht hg hl ha
      refine ⟨hsel, ?_⟩
      intro j fj hfj hgj hne
      exact hinv'.2 j fj g hfj hgj (by rw [hsel]; intro e; injection e with e; exact hne e.symm)

/-- the value part for scalar members of a oneof -/
theorem load_last_wins_oneof_value (S : Schema) (rec : Loader) (d : MsgD) (st st' : MState) (earlier : List PField)
    (pf : PField) (idx : Nat) (f : FieldD) (v : Val) (hw : WfState d st)
    (ht : Targets d pf idx f) (hrep : f.repeated = false) (hm : f.ty ≠ .map) (hmsg : f.ty ≠ .message)
    (hv : decodeValue S rec f pf = .ok v)
    (h : foldFields S rec d st (earlier ++ [pf]) = .ok st') : st'.slots.getD idx .ph = v :=
  load_last_wins S rec d st st' earlier pf idx f v hw ht hrep hm hmsg hv h


/-! ### non-vacuity: concrete instances, evaluated on the model (`decide`) -/

def T : Schema := [{ fields := [{ name := "a", num := 1, ty := .int32 },
                                 { name := "r", num := 2, ty := .sint32, repeated := true },
                                 { name := "x", num := 3, ty := .bytes, group := some 0 },
                                 { name := "y", num := 4, ty := .int64, group := some 0 }], nGroups := 1 }]

example : NoRepeatedOptional T[0] := by decide
example : IsRepScalar { name := "r", num := 2, ty := .sint32, repeated := true } := by decide
-- D11's witness: 1, 2 unpacked + packed [3, 4] + 5 unpacked decodes like one packed record of five
example : (parse T 0 [0x10, 0x02, 0x10, 0x04, 0x12, 0x02, 0x06, 0x08, 0x10, 0x0a]).bind (dumpVal T)
    = .ok [0x12, 0x05, 0x02, 0x04, 0x06, 0x08, 0x0a] := by decide
-- padded tag (3 bytes), padded value (4 bytes): same message as the minimal encoding 08 05
example : (parse T 0 [0x88, 0x80, 0x00, 0x85, 0x80, 0x80, 0x00]).bind (dumpVal T) = .ok [0x08, 0x05] := by decide
-- last wins: a = 7 then a = 5; oneof: x = b"A" then y = 9 leaves y selected and x unset
example : (parse T 0 [0x08, 0x07, 0x08, 0x05]).bind (dumpVal T) = .ok [0x08, 0x05] := by decide
example : (parse T 0 [0x1a, 0x01, 0x41, 0x20, 0x09]).bind (dumpVal T) = .ok [0x20, 0x09] := by decide
-- order: (y = 9, a = 5) decodes like (a = 5, y = 9); an unknown record (#9) in between changes nothing known
example : (parse T 0 [0x20, 0x09, 0x08, 0x05]).bind (dumpVal T) = .ok [0x08, 0x05, 0x20, 0x09] := by decide
example : (parse T 0 [0x20, 0x09, 0x48, 0x01, 0x08, 0x05]).bind (dumpVal T) = .ok [0x08, 0x05, 0x20, 0x09, 0x48, 0x01] := by decide
-- the spec-level parser accepts padded varints and yields the same records
example : Spec.parse [0x88, 0x80, 0x00, 0x85, 0x80, 0x80, 0x00] = Spec.parse [0x08, 0x05] := by decide
example : (Spec.decodeBytes T 0 [0x1a, 0x01, 0x41, 0x20, 0x09]).map (·.sel) = some [some 3] := by decide

end Bp.C02
