import BpModel.All
import BpModel.Spec
import BpProofs.SpecCore
import BpProofs.SpecPack
import BpProofs.SpecEnc
import BpProofs.SpecPerm2
import BpProofs.SpecPerm3
import BpProofs.SpecLink
/-
  C02 — wire interoperability with the reference protobuf implementation.

  The reference (`google.protobuf`) cannot be brought into Lean: it is the oracle of the
  differential part of the check.  What is proved here is that the MODEL OF THE DECODER
  (`loadFields` + `foldFields`/`applyField`, i.e. `load_fields` + the loop of `Message.load`)
  is insensitive to exactly the re-encodings the property lists — for all schemas, all record
  lists / byte strings, every starting state and every loader `rec` of nested payloads, by
  induction over record lists; no bounds.

  "The decoded message" is `core st`: field values, oneof selection, presence — the state
  without the raw bytes retained for unknown fields.  Hypotheses are decidable predicates:
  `Targets d pf idx f` (the record's number is declared by field `idx` = `f` of the class and
  its wire type fits), `IsRepScalar f`, `WfState d st` (slot typing; holds for a fresh
  instance, `wf_fresh`, and is kept by every decode step, `wf_step`).

  LINK TO THE INDEPENDENT SPEC DECODER (`BpModel/Spec.lean`; section at the end of this file,
  helper files `BpProofs/SpecLink*.lean`):
    * `framing_agree` / `framing_accepts`: `Spec.parse` and `loadFields` accept the same byte
      strings and yield the same records — all inputs, no hypothesis, no exception;
    * `load_complete`: for every schema with `GoodSchema S` (decidable) and every byte string
      with `narrow32` (decidable: no over-wide uint32 / sint32 varint) that the model decoder
      accepts, `Spec.decodeBytes` gives the abstraction of the model's message — ALL field
      kinds (scalars singular / optional / oneof / repeated / packed, nested messages to any
      depth, maps, wrappers, Timestamp / Duration);
    * `dump_sound` is in `BpProofs/Props/C02Dump.lean` (it needs the C01 files, which cannot be
      imported together with the C02 helper files: both define `Bp.foldFields_append_s`).
-/
namespace Bp.C02
open Bp Gen

/-! ### the invariant the statements below assume holds on every path of the decoder -/

/-- a fresh instance satisfies the slot typing invariant (for every class in which no
    repeated field is also marked optional — true of every class generated from a .proto) -/
theorem wf_fresh (d : MsgD) (hd : NoRepeatedOptional d) : WfState d (freshState d) := freshState_wf d hd

/-- … and every record, known or unknown, well-typed or not, keeps it -/
theorem wf_step (S : Schema) (rec : Loader) (d : MsgD) (pfs : List PField) (st st' : MState)
    (hw : WfState d st) (h : foldFields S rec d st pfs = .ok st') : WfState d st' :=
  foldFields_wf S rec d pfs st st' hw h

/-! ### interleaved unknown fields -/

/-- **interleaved unknown fields** — "… and interleaved unknown fields": two record lists
    whose known records (numbers the class declares, with a fitting wire type) are the
    same sequence decode to the same message; unknown records may be added, dropped or
    moved to any position, of any of the four wire types.  Failure is preserved too. -/
theorem load_unknown_interleave (S : Schema) (rec : Loader) (d : MsgD) (st : MState) (pfs pfs' : List PField)
    (h : (pfs.filter fun pf => !isUnknownField d pf) = (pfs'.filter fun pf => !isUnknownField d pf)) :
    (foldFields S rec d st pfs).map core = (foldFields S rec d st pfs').map core := by
  rw [foldFields_core_filter, foldFields_core_filter S rec d pfs', h]


/-! ### any field order -/

/-- **any field order** — the reordering the wire format permits without changing the
    meaning.  Every record has a class for the receiving message class `d` (`classOf`): the
    declared field its number denotes (if the wire type fits and the field is in no oneof),
    the oneof group of that field, or "unknown".  If two record lists contain, for every
    field and every oneof group, the same records of that class in the same relative order,
    they decode to the same field values, oneof selection and presence — records of
    different fields that are not members of one oneof group may be interleaved in ANY way,
    and unknown records may stand anywhere (or be missing).  If the first list decodes, so
    does the second.  `st.onWire = true` is what `Message.load` establishes before its loop.

    Proof: frame (`applyField_other_class`: a record leaves the footprint of every other
    class untouched) + locality (`applyField_local`: its effect on its own footprint depends
    on that footprint only) ⟹ the footprint of a class after the whole list is the footprint
    after the sub-list of that class (`proj_fold`), by induction over the record list. -/
theorem load_perm_classes (S : Schema) (rec : Loader) (d : MsgD) (pfs pfs' : List PField) (st st1 : MState)
    (how : st.onWire = true)
    (hsame : ∀ c, Legit d c → c ≠ Cls.unknown → pfs.filter (ofClass d c) = pfs'.filter (ofClass d c))
    (h : foldFields S rec d st pfs = .ok st1) :
    ∃ st2, foldFields S rec d st pfs' = .ok st2 ∧ core st2 = core st1 :=
  foldFields_perm S rec d pfs pfs' st st1 how hsame h


/-- **any field order**, in the words of the property: ANY permutation of the records that
    keeps the relative order of the records with the same field number and of the records
    belonging to members of the same oneof group gives the same decoded field values, oneof
    selection and presence.  (This is all the reordering the wire format itself permits without
    changing the meaning: records of one repeated field, occurrences of one singular field and
    members of one oneof are order-sensitive by the specification.)  The hypothesis `hperm`
    is not even needed by the proof: the two order conditions already determine the known
    records; unknown records may be permuted freely, added or dropped. -/
theorem load_perm (S : Schema) (rec : Loader) (d : MsgD) (pfs pfs' : List PField) (st st1 : MState)
    (how : st.onWire = true) (_hperm : pfs.Perm pfs')
    (hnum : ∀ n, pfs.filter (fun pf => pf.num == n) = pfs'.filter (fun pf => pf.num == n))
    (hgrp : ∀ g, pfs.filter (inGroup d g) = pfs'.filter (inGroup d g))
    (h : foldFields S rec d st pfs = .ok st1) :
    ∃ st2, foldFields S rec d st pfs' = .ok st2 ∧ core st2 = core st1 :=
  foldFields_perm S rec d pfs pfs' st st1 how (classes_of_numbers d pfs pfs' hnum hgrp) h

/-- byte-level form: the records may be any records the framing produces; re-assembled in the
    permuted order they are framed into exactly the permuted list (`loadFields_join`), so the
    permuted BYTES decode to the same message -/
theorem load_perm_bytes (S : Schema) (fuel : Nat) (d : MsgD) (bs : Bytes) (pfs pfs' : List PField) (st st1 : MState)
    (hp : loadFields bs = .ok pfs) (hperm : pfs.Perm pfs')
    (hnum : ∀ n, pfs.filter (fun pf => pf.num == n) = pfs'.filter (fun pf => pf.num == n))
    (hgrp : ∀ g, pfs.filter (inGroup d g) = pfs'.filter (inGroup d g))
    (h : loadInto S (fuel + 1) d st bs = .ok st1) :
    ∃ st2, loadInto S (fuel + 1) d st (joinRaw pfs') = .ok st2 ∧ core st2 = core st1 := by
  have hparsed : ∀ pf ∈ pfs', Parsed pf := fun pf hpf => loadFields_parsed bs pfs hp pf (hperm.mem_iff.mpr hpf)
  rw [loadInto_succ, hp] at h
  simp only [bind_ok] at h
  rw [loadInto_succ, loadFields_join pfs' hparsed]
  simp only [bind_ok]
  exact load_perm S _ d pfs pfs' _ st1 rfl hperm hnum hgrp h

/-- the two-record case (the commutation lemma): records of different classes commute -/
theorem load_swap (S : Schema) (rec : Loader) (d : MsgD) (before after : List PField) (p q : PField) (st st1 : MState)
    (how : st.onWire = true) (hpq : classOf d p ≠ classOf d q)
    (h : foldFields S rec d st (before ++ p :: q :: after) = .ok st1) :
    ∃ st2, foldFields S rec d st (before ++ q :: p :: after) = .ok st2 ∧ core st2 = core st1 := by
  apply foldFields_perm S rec d _ _ st st1 how _ h
  intro c _ _
  simp only [List.filter_append, List.filter_cons]
  by_cases h1 : ofClass d c p = true <;> by_cases h2 : ofClass d c q = true
  · exfalso
    simp only [ofClass, decide_eq_true_eq] at h1 h2
    exact hpq (h1.trans h2.symm)
  · simp [h1, h2]
  · simp [h1, h2]
  · simp [h1, h2]

/-! ### packed / unpacked repeated scalars, chunks -/

/-- **packed or unpacked repeated scalars, a packed field split into several chunks, in any
    mix**: for a repeated field of a packable scalar type, two non-empty runs of records —
    each record a packed chunk (LEN) or a single unpacked element, in any combination —
    that carry the same elements in the same order leave the SAME state, wherever the run
    stands in the message (`before`, `after` arbitrary: other fields, unknown fields, further
    records of the same field). -/
theorem load_pack_mix (S : Schema) (rec : Loader) (d : MsgD) (idx : Nat) (f : FieldD) (hr : IsRepScalar f)
    (before after run run' : List PField) (st : MState) (hw : WfState d st)
    (hne : run ≠ []) (hne' : run' ≠ [])
    (hall : ∀ pf ∈ run, Targets d pf idx f) (hall' : ∀ pf ∈ run', Targets d pf idx f)
    (es : List Val) (he : elemsOfRecs S rec f run = .ok es) (he' : elemsOfRecs S rec f run' = .ok es) :
    foldFields S rec d st (before ++ run ++ after) = foldFields S rec d st (before ++ run' ++ after) := by
  rw [List.append_assoc, List.append_assoc, foldFields_append_s, foldFields_append_s S rec d before]
  cases hb : foldFields S rec d st before with
  | error e => rfl
  | ok s1 =>
    simp only [bind_ok]
    have hw1 := foldFields_wf S rec d before st s1 hw hb
    rw [foldFields_append_s, foldFields_append_s S rec d run',
      foldFields_repeated S rec d idx f hr run hne hall s1 hw1 es he,
      foldFields_repeated S rec d idx f hr run' hne' hall' s1 hw1 es he']

/-- what the list is afterwards: the old elements followed by the run's elements -/
theorem load_pack_value (S : Schema) (rec : Loader) (d : MsgD) (idx : Nat) (f : FieldD) (hr : IsRepScalar f)
    (run : List PField) (st : MState) (hw : WfState d st) (hne : run ≠ [])
    (hall : ∀ pf ∈ run, Targets d pf idx f) (es : List Val) (he : elemsOfRecs S rec f run = .ok es) :
    ∃ st', foldFields S rec d st run = .ok st' ∧ st'.slots.getD idx .ph = .list (curList st idx ++ es) := by
  refine ⟨_, foldFields_repeated S rec d idx f hr run hne hall st hw es he, ?_⟩
  have hl := idx_lt_of_wf d st idx f (hall _ (List.getLast_mem hne)).2.1 hw
  simp only [appendAt]
  rw [setAt_getD]; simp [hl]


/-- concrete instance of `load_pack_mix` — **one packed record holding `xs ++ ys`, two packed
    records holding `xs` and `ys` (a packed field split into chunks; any number of chunks,
    an empty chunk included), and the unpacked records of the same elements decode alike**.
    `chunks`, `chunks'`: two ways of cutting the same element sequence into packed records;
    elements are 4 / 8-byte values or varints written minimally or padded (`ValidElem`). -/
theorem load_chunk_split (S : Schema) (rec : Loader) (d : MsgD) (idx : Nat) (f : FieldD) (hr : IsRepScalar f)
    (before after : List PField) (st : MState) (hw : WfState d st) (num : Nat)
    (chunks chunks' : List (List Bytes)) (raws raws' : List Bytes → Bytes)
    (hne : chunks ≠ []) (hne' : chunks' ≠ []) (hsame : chunks.flatten = chunks'.flatten)
    (hv : ∀ c ∈ chunks, ∀ e ∈ c, ValidElem f.ty e) (hv' : ∀ c ∈ chunks', ∀ e ∈ c, ValidElem f.ty e)
    (ht : ∀ p raw, Targets d (packedRec num p raw) idx f)
    (vs : List Val) (hd : decodeElems f.ty chunks.flatten = .ok vs) :
    foldFields S rec d st (before ++ (chunks.map fun c => packedRec num c.flatten (raws c)) ++ after)
      = foldFields S rec d st (before ++ (chunks'.map fun c => packedRec num c.flatten (raws' c)) ++ after) := by
  apply load_pack_mix S rec d idx f hr before after _ _ st hw (by simpa using hne) (by simpa using hne')
    (by intro pf hpf; simp only [List.mem_map] at hpf; obtain ⟨c, _, e⟩ := hpf; rw [← e]; exact ht _ _)
    (by intro pf hpf; simp only [List.mem_map] at hpf; obtain ⟨c, _, e⟩ := hpf; rw [← e]; exact ht _ _) vs
  · exact elemsOfRecs_chunks S rec f hr.2.1 num chunks raws hv vs hd
  · exact elemsOfRecs_chunks S rec f hr.2.1 num chunks' raws' hv' vs (by rw [← hsame]; exact hd)

/-- concrete instance of `load_pack_mix` — **packed ↔ unpacked**: the packed chunks of an
    element sequence and the unpacked records of the same elements (one VARINT / I32 / I64
    record each) decode alike. -/
theorem load_pack_toggle (S : Schema) (rec : Loader) (d : MsgD) (idx : Nat) (f : FieldD) (hr : IsRepScalar f)
    (before after : List PField) (st : MState) (hw : WfState d st) (num : Nat)
    (chunks : List (List Bytes)) (raws : List Bytes → Bytes) (raws' : Bytes → Bytes)
    (hne : chunks ≠ []) (hne' : chunks.flatten ≠ [])
    (hv : ∀ c ∈ chunks, ∀ e ∈ c, ValidElem f.ty e)
    (ht : ∀ p raw, Targets d (packedRec num p raw) idx f)
    (ht' : ∀ e raw, Targets d (unpackedRec num f.ty e raw) idx f)
    (vs : List Val) (hd : decodeElems f.ty chunks.flatten = .ok vs) (hnl : ∀ v ∈ vs, isListVal v = false) :
    foldFields S rec d st (before ++ (chunks.map fun c => packedRec num c.flatten (raws c)) ++ after)
      = foldFields S rec d st (before ++ (chunks.flatten.map fun e => unpackedRec num f.ty e (raws' e)) ++ after) := by
  apply load_pack_mix S rec d idx f hr before after _ _ st hw (by simpa using hne) (by simpa using hne')
    (by intro pf hpf; simp only [List.mem_map] at hpf; obtain ⟨c, _, e⟩ := hpf; rw [← e]; exact ht _ _)
    (by intro pf hpf; simp only [List.mem_map] at hpf; obtain ⟨c, _, e⟩ := hpf; rw [← e]; exact ht' _ _) vs
  · exact elemsOfRecs_chunks S rec f hr.2.1 num chunks raws hv vs hd
  · exact elemsOfRecs_unpacked S rec f num chunks.flatten raws' vs hd hnl

/-! ### non-minimal varints -/

/-- **non-minimal varints, framing**: a byte string assembled from records whose tag, length
    and value varints are each written in ANY well-shaped way of at most 10 bytes (minimal or
    padded with redundant continuation groups) is split into exactly the records those
    varints denote (`C16.load_padded` lifted to whole messages). -/
theorem framing_padded (rs : List EncRec) (hv : ∀ r ∈ rs, r.Valid) :
    loadFields (rs.map EncRec.bytes).flatten = .ok (rs.map EncRec.toPField) := loadFields_encRecs rs hv

/-- **non-minimal varints**: replacing any varints — tags, lengths, values — of the records
    of a message by other well-shaped encodings (≤ 10 bytes) of the same numbers does not
    change the decoded message (nor whether decoding fails), for every class, every starting
    state and every nesting budget.  (The raw bytes retained for UNKNOWN records do keep
    their padding; they are not part of `core`.) -/
theorem load_varint_padding (S : Schema) (fuel : Nat) (d : MsgD) (st : MState) (rs rs' : List EncRec)
    (hv : ∀ r ∈ rs, r.Valid) (hv' : ∀ r ∈ rs', r.Valid) (hsame : List.Forall₂ EncRec.SamePad rs rs') :
    (loadInto S (fuel + 1) d st (rs.map EncRec.bytes).flatten).map core
      = (loadInto S (fuel + 1) d st (rs'.map EncRec.bytes).flatten).map core := by
  rw [loadInto_succ, loadInto_succ, loadFields_encRecs rs hv, loadFields_encRecs rs' hv']
  simp only [bind_ok]
  exact foldFields_congr S _ d _ _
    (forall₂_map _ _ EncRec.toPField rs rs' (fun a b h => samePad_sameMeaning S _ d a b h) hsame) _ _ rfl

/-- … inside a packed chunk: the elements may be padded too -/
theorem load_varint_padding_packed (S : Schema) (rec : Loader) (f : FieldD) (hp : isPacked f.ty = true) (num : Nat)
    (es es' : List Bytes) (raw raw' : Bytes) (hv : ∀ e ∈ es, ValidElem f.ty e) (hv' : ∀ e ∈ es', ValidElem f.ty e)
    (hsame : decodeElems f.ty es = decodeElems f.ty es') :
    decodeValue S rec f (packedRec num es.flatten raw) = decodeValue S rec f (packedRec num es'.flatten raw') := by
  rw [decodeValue_packedRec S rec f num _ _ hp, decodeValue_packedRec S rec f num _ _ hp,
    decodePacked_elems f.ty es hv, decodePacked_elems f.ty es' hv', hsame]

/-- … inside a nested message / map entry: if the nested loader reads the re-padded payload
    like the original one (this theorem one level down), so does the enclosing record.
    Together with `load_same_meaning` this propagates padding invariance level by level. -/
theorem load_varint_padding_nested (S : Schema) (rec : Loader) (f : FieldD) (num : Nat) (p p' raw raw' : Bytes)
    (hty : f.ty = .message ∨ f.ty = .map) (h : ∀ d' st', rec d' st' p = rec d' st' p') :
    decodeValue S rec f (packedRec num p raw) = decodeValue S rec f (packedRec num p' raw') :=
  decodeValue_nested_congr S rec f num p p' raw raw' hty h

/-- records that mean the same (same number and wire type, same decoded value for the field
    they target) are interchangeable, one by one, anywhere in a message -/
theorem load_same_meaning (S : Schema) (rec : Loader) (d : MsgD) (st : MState) (pfs pfs' : List PField)
    (hs : List.Forall₂ (SameMeaning S rec d) pfs pfs') :
    (foldFields S rec d st pfs).map core = (foldFields S rec d st pfs').map core :=
  foldFields_congr S rec d pfs pfs' hs st st rfl

/-! ### repeated occurrences of a singular scalar / of oneof members: the last one wins -/

/-- **repeated occurrences of a singular scalar (last one wins)**: whatever records came
    before — earlier occurrences of the same field with other values included — after a
    record of a singular scalar field the field holds exactly that record's value. -/
theorem load_last_wins (S : Schema) (rec : Loader) (d : MsgD) (st st' : MState) (earlier : List PField)
    (pf : PField) (idx : Nat) (f : FieldD) (v : Val) (hw : WfState d st)
    (ht : Targets d pf idx f) (hrep : f.repeated = false) (hm : f.ty ≠ .map) (hmsg : f.ty ≠ .message)
    (hv : decodeValue S rec f pf = .ok v)
    (h : foldFields S rec d st (earlier ++ [pf]) = .ok st') : st'.slots.getD idx .ph = v := by
  rw [foldFields_append_s] at h
  cases hb : foldFields S rec d st earlier with
  | error e => rw [hb] at h; simp at h
  | ok s1 =>
    rw [hb] at h; simp only [bind_ok, foldFields] at h
    cases ha : applyField S rec d s1 pf with
    | error e => rw [ha] at h; simp at h
    | ok s2 =>
      rw [ha] at h; simp only [bind_ok] at h
      injection h with h; subst h
      exact applyField_singular S rec d s1 s2 pf idx f v ht hrep hm hmsg
        (foldFields_wf S rec d earlier st s1 hw hb) hv ha

/-- **repeated occurrences of oneof members (last one wins)**: whatever records came before
    — other members of the group, or the same member — after a record of member `idx` of
    group `g` that member is the selected one, and every other member of the group is unset
    (PLACEHOLDER, or None for an optional member), so reading it raises AttributeError and it
    is not re-encoded.  Scalar or message member alike. -/
theorem load_last_wins_oneof (S : Schema) (rec : Loader) (d : MsgD) (st st' : MState) (earlier : List PField)
    (pf : PField) (idx : Nat) (f : FieldD) (g : Nat)
    (hwg : WfGroups d.fields d.nGroups) (hinv : Inv d.fields d.nGroups st)
    (ht : Targets d pf idx f) (hg : f.group = some g)
    (h : foldFields S rec d st (earlier ++ [pf]) = .ok st') :
    st'.cur.getD g Option.none = some idx
    ∧ ∀ j fj, d.fields[j]? = some fj → fj.group = some g → j ≠ idx → SentinelAt fj (st'.slots.getD j .ph) := by
  have hinv' := foldFields_inv S rec d d.nGroups _ st st' hwg hinv h
  rw [foldFields_append_s] at h
  cases hb : foldFields S rec d st earlier with
  | error e => rw [hb] at h; simp at h
  | ok s1 =>
    rw [hb] at h; simp only [bind_ok, foldFields] at h
    cases ha : applyField S rec d s1 pf with
    | error e => rw [ha] at h; simp at h
    | ok s2 =>
      rw [ha] at h; simp only [bind_ok] at h
      injection h with h; subst h
      have hgn : g < d.nGroups := hwg f (List.mem_of_getElem? ht.2.1) g hg
      have hl : g < s1.cur.length := by
        rw [(foldFields_lengths S rec d earlier st s1 hb).2, hinv.1]; exact hgn
      have hsel := applyField_selects S rec d s1 s2 pf idx f g ht hg hl ha
      refine ⟨hsel, ?_⟩
      intro j fj hfj hgj hne
      exact hinv'.2 j fj g hfj hgj (by rw [hsel]; intro e; injection e with e; exact hne e.symm)

/-- the value part for scalar members of a oneof -/
theorem load_last_wins_oneof_value (S : Schema) (rec : Loader) (d : MsgD) (st st' : MState) (earlier : List PField)
    (pf : PField) (idx : Nat) (f : FieldD) (v : Val) (hw : WfState d st)
    (ht : Targets d pf idx f) (hrep : f.repeated = false) (hm : f.ty ≠ .map) (hmsg : f.ty ≠ .message)
    (hv : decodeValue S rec f pf = .ok v)
    (h : foldFields S rec d st (earlier ++ [pf]) = .ok st') : st'.slots.getD idx .ph = v :=
  load_last_wins S rec d st st' earlier pf idx f v hw ht hrep hm hmsg hv h


/-! ### non-vacuity: concrete instances, evaluated on the model (`decide`) -/

def T : Schema := [{ fields := [{ name := "a", num := 1, ty := .int32 },
                                 { name := "r", num := 2, ty := .sint32, repeated := true },
                                 { name := "x", num := 3, ty := .bytes, group := some 0 },
                                 { name := "y", num := 4, ty := .int64, group := some 0 }], nGroups := 1 }]

example : NoRepeatedOptional T[0] := by decide
example : IsRepScalar { name := "r", num := 2, ty := .sint32, repeated := true } := by decide
-- D11's witness: 1, 2 unpacked + packed [3, 4] + 5 unpacked decodes like one packed record of five
example : (parse T 0 [0x10, 0x02, 0x10, 0x04, 0x12, 0x02, 0x06, 0x08, 0x10, 0x0a]).bind (dumpVal T)
    = .ok [0x12, 0x05, 0x02, 0x04, 0x06, 0x08, 0x0a] := by decide
-- padded tag (3 bytes), padded value (4 bytes): same message as the minimal encoding 08 05
example : (parse T 0 [0x88, 0x80, 0x00, 0x85, 0x80, 0x80, 0x00]).bind (dumpVal T) = .ok [0x08, 0x05] := by decide
-- last wins: a = 7 then a = 5; oneof: x = b"A" then y = 9 leaves y selected and x unset
example : (parse T 0 [0x08, 0x07, 0x08, 0x05]).bind (dumpVal T) = .ok [0x08, 0x05] := by decide
example : (parse T 0 [0x1a, 0x01, 0x41, 0x20, 0x09]).bind (dumpVal T) = .ok [0x20, 0x09] := by decide
-- order: (y = 9, a = 5) decodes like (a = 5, y = 9); an unknown record (#9) in between changes nothing known
example : (parse T 0 [0x20, 0x09, 0x08, 0x05]).bind (dumpVal T) = .ok [0x08, 0x05, 0x20, 0x09] := by decide
example : (parse T 0 [0x20, 0x09, 0x48, 0x01, 0x08, 0x05]).bind (dumpVal T) = .ok [0x08, 0x05, 0x20, 0x09, 0x48, 0x01] := by decide
-- the spec-level parser accepts padded varints and yields the same records
example : Spec.parse [0x88, 0x80, 0x00, 0x85, 0x80, 0x80, 0x00] = Spec.parse [0x08, 0x05] := by decide
example : (Spec.decodeBytes T 0 [0x1a, 0x01, 0x41, 0x20, 0x09]).map (·.sel) = some [some 3] := by decide


/-! ## link to the independent spec-level decoder (`BpModel/Spec.lean`) -/

open Bp.Link in
/-- **FRAMING AGREEMENT.**  For every list of naturals `bs` (no `WfBytes` needed), the
    spec-level splitter `Spec.parse`, written from the encoding document, accepts `bs` iff the
    model of `load_fields` does, and then the records correspond one to one: same field
    number, wire type, varint value (low 64 bits of a 1..10-byte varint, padded or not) and
    payload.  There is no input on which they differ: groups (wire types 3 / 4), wire types
    6 / 7, field number 0, truncated input and varints of more than 10 bytes are rejected by
    both (witnesses below). -/
theorem framing_agree (bs : Bytes) :
    Spec.parse bs = okOpt ((loadFields bs).map fun pfs => pfs.map toRec) := Bp.framing_agree bs

theorem framing_accepts (bs : Bytes) : (Spec.parse bs).isSome = (loadFields bs).isOk := Bp.framing_accepts bs

open Bp.Link in
/-- **`load_complete`: the model decoder agrees with the spec decoder.**

    For every schema `S` with `GoodSchema S` and every byte string `bs` with
    `narrow32 S (bs.length + 1) d bs`: if `Cls().parse(bs)` (model) returns `v`, then
    `Spec.decodeBytes S c bs` returns an abstract message `a` whose normal form is the
    abstraction of `v` — same class, same value in every declared field (at every nesting
    depth), same oneof selection.  The spec decoder never fails where the model succeeds.

    Field kinds covered: ALL — scalar fields of the 16 scalar types, singular, proto3-optional,
    oneof members, repeated (unpacked, packed, mixed, split chunks); nested messages singular /
    optional / oneof member / repeated, to any depth, recursive classes included; maps (scalar,
    message, Timestamp / Duration values); wrappers; Timestamp / Duration.

    Guards (both decidable, `Bool`-valued):
    * `GoodSchema S` = `wfSchemaTB S` (C17: repeated fields not `optional`, message fields name
      existing classes, wrappers wrap scalars, map keys scalar, map values not maps) ∧ distinct
      field numbers per class ∧ `goodFieldB` (repeated / map fields in no oneof; a wrapper
      annotation only on a plain message field).  Outside it the decoders DO differ: `WX1`–`WX3`.
    * `narrow32`: no `uint32` / `sint32` position holds a varint ≥ 2^32, at any depth.  Outside
      it the decoders DO differ (`WX0`): the spec — like the reference — keeps the low 32
      bits, betterproto keeps all 64.  Not a legal encoding of a 32-bit value; no encoder
      produces it.
    Abstraction (`nv`, applied to both sides): `None` of an unset proto3-optional field = `ph`
    ("nothing on the wire"); float32 up to NaN quieting (`WX4`); retained unknown bytes dropped.
    Inputs the model REJECTS but the spec decodes (by ignoring the record) are outside the
    statement: invalid UTF-8, malformed nested / packed payloads, out-of-range Timestamp /
    Duration (`WX5`; C17's topic). -/
theorem load_complete (S : Schema) (hS : GoodSchema S) (c : Nat) (d : MsgD) (hd : S[c]? = some d)
    (bs : Bytes) (v : Val) (hn : narrow32 S (bs.length + 1) d bs = true) (h : parse S c bs = .ok v) :
    ∃ a, Spec.decodeBytes S c bs = some a ∧ a.nrm = absOf v :=
  load_complete_bytes S hS c d hd bs v hn h

open Bp.Link in
/-- `load_complete` with NO guard on the input, for every schema that uses `uint32` / `sint32`
    nowhere (field, map key / value, wrapper: `noNarrowB`, decidable): every byte string the
    model decoder accepts is decoded by the spec decoder to the same message -/
theorem load_complete_all_inputs (S : Schema) (hS : GoodSchema S) (hN : noNarrowB S = true)
    (c : Nat) (d : MsgD) (hd : S[c]? = some d) (bs : Bytes) (v : Val) (h : parse S c bs = .ok v) :
    ∃ a, Spec.decodeBytes S c bs = some a ∧ a.nrm = absOf v :=
  load_complete_bytes S hS c d hd bs v (narrow32_of_noNarrow_class S hN c d hd _ bs) h

open Bp.Link in
/-- the same at the level of one message class and one nested decoder pair, with the model's
    fuel `n` arbitrary: what `load_complete` is proved from (nested payloads included) -/
theorem load_complete_fuel (S : Schema) (hS : GoodSchema S) (n c : Nat) (d : MsgD) (hd : GoodD S d)
    (bs : Bytes) (st : MState) (hn : narrow32 S n d bs = true) (h : loadInto S n d (freshState d) bs = .ok st) :
    ∃ a, Spec.subDecoder S n c d bs = some a ∧ a.nrm = absState c st := by
  obtain ⟨m, hm1, hm2, hsim⟩ := loadInto_sim S hS n bs c d st hd hn h
  exact ⟨m, hm1, by simp only [Spec.AbsMsg.nrm, absState, hm2, hsim.slots, hsim.sel]⟩

/-! ### witnesses: the guards are needed, the abstraction is needed (kernel evaluation) -/

section Witnesses
open Bp.Link

-- non-vacuity: the schema `T` above meets the guard; a message with every kind of `T`
example : GoodSchema T := by decide
example : noNarrowB [{ fields := [{ name := "a", num := 1, ty := .int32 }, { name := "s", num := 2, ty := .string, repeated := true }] }] = true := by decide
example : narrow32 T 11 T[0] [0x08, 0x05, 0x10, 0x02, 0x12, 0x02, 0x06, 0x08, 0x1a, 0x01, 0x41] = true := by decide
example : (parse T 0 [0x08, 0x05, 0x10, 0x02, 0x12, 0x02, 0x06, 0x08, 0x1a, 0x01, 0x41]).map absOf
    = .ok { cls := 0, fields := [.int 5, .list [.int 1, .int 3, .int 4], .byt [0x41], .ph], sel := [some 2] } := by rfl
example : (Spec.decodeBytes T 0 [0x08, 0x05, 0x10, 0x02, 0x12, 0x02, 0x06, 0x08, 0x1a, 0x01, 0x41]).map (·.nrm)
    = some { cls := 0, fields := [.int 5, .list [.int 1, .int 3, .int 4], .byt [0x41], .ph], sel := [some 2] } := by rfl

/-- nested message, map, wrapper, Timestamp, optional: a schema inside the guard -/
def TN : Schema :=
  [{ fields := [{ name := "sub", num := 1, ty := .message, kind := .user 1 },
                { name := "m", num := 2, ty := .map, mapK := .string, mapV := .message, mapVKind := .user 1 },
                { name := "w", num := 3, ty := .message, wraps := some .uint32 },
                { name := "t", num := 4, ty := .message, kind := .timestamp },
                { name := "o", num := 5, ty := .sint32, optional := true }] },
   { fields := [{ name := "v", num := 1, ty := .uint32, optional := true }] }]
example : GoodSchema TN := by decide
-- sub = {v = 7}; m = {"k": Sub()} (entry without value); w = 9; t = 1 s; o unset
def bsN : Bytes := [0x0a, 0x02, 0x08, 0x07, 0x12, 0x03, 0x0a, 0x01, 0x6b, 0x1a, 0x02, 0x08, 0x09, 0x22, 0x02, 0x08, 0x01]
example : narrow32 TN (bsN.length + 1) TN[0] bsN = true := by decide
example : (parse TN 0 bsN).map absOf
    = .ok { cls := 0, fields := [.msg 1 [.int 7] true [] [], .dict [.str [0x6b]] [.msg 1 [.ph] false [] []],
                                 .int 9, .ts 1000000, .ph], sel := [] } := by rfl
example : (Spec.decodeBytes TN 0 bsN).map (·.nrm)
    = some { cls := 0, fields := [.msg 1 [.int 7] true [] [], .dict [.str [0x6b]] [.msg 1 [.ph] false [] []],
                                  .int 9, .ts 1000000, .ph], sel := [] } := by rfl
-- … where the abstraction matters: the spec's default for the missing map value is `Cls()`
-- with its optional slot `None`, the model's slot after decoding `o` unset is `None` too
example : (Spec.decodeBytes TN 0 bsN).map (·.fields.getD 1 .ph) = some (.dict [.str [0x6b]] [.msg 1 [.none] false [] []]) := by rfl

/-- WX0 — DISAGREEMENT outside `narrow32`: an over-wide `uint32` varint (2^32, 5 bytes) -/
def WX0 : Schema := [{ fields := [{ name := "u", num := 1, ty := .uint32 }] }]
example : GoodSchema WX0 := by decide
example : narrow32 WX0 7 WX0[0] [8, 128, 128, 128, 128, 16] = false := by decide
example : parse WX0 0 [8, 128, 128, 128, 128, 16] = .ok (.msg 0 [.int 4294967296] true [] []) := by rfl
example : Spec.decodeBytes WX0 0 [8, 128, 128, 128, 128, 16] = some { cls := 0, fields := [.int 0], sel := [] } := by rfl

/-- WX1 — DISAGREEMENT outside `GoodSchema` (duplicate field number): betterproto's
    `field_name_by_number` keeps the LAST declaration, the spec takes the first -/
def WX1 : Schema := [{ fields := [{ name := "a", num := 1, ty := .int32 }, { name := "b", num := 1, ty := .string }] }]
example : ¬ GoodSchema WX1 := by decide
example : parse WX1 0 [8, 1] = .ok (.msg 0 [.ph, .ph] true [8, 1] []) := by rfl
example : Spec.decodeBytes WX1 0 [8, 1] = some { cls := 0, fields := [.int 1, .ph], sel := [] } := by rfl

/-- WX2 — outside `GoodSchema` (a repeated field inside a oneof, which protobuf forbids):
    betterproto's `__setattr__` selects it, the spec leaves the selection alone -/
def WX2 : Schema := [{ fields := [{ name := "r", num := 1, ty := .int32, repeated := true, group := some 0 }], nGroups := 1 }]
example : ¬ GoodSchema WX2 := by decide
example : parse WX2 0 [8, 1] = .ok (.msg 0 [.list [.int 1]] true [] [some 0]) := by rfl
example : Spec.decodeBytes WX2 0 [8, 1] = some { cls := 0, fields := [.list [.int 1]], sel := [none] } := by rfl

/-- WX3 — outside `GoodSchema` (a wrapper annotation on a Timestamp field): betterproto looks
    at the class first (datetime), the spec at the annotation first (wrapped int32) -/
def WX3 : Schema := [{ fields := [{ name := "t", num := 1, ty := .message, kind := .timestamp, wraps := some .int32 }] }]
example : ¬ GoodSchema WX3 := by decide
example : parse WX3 0 [10, 2, 8, 5] = .ok (.msg 0 [.ts 5000000] true [] []) := by rfl
example : Spec.decodeBytes WX3 0 [10, 2, 8, 5] = some { cls := 0, fields := [.int 5], sel := [] } := by rfl

/-- WX4 — absorbed by the abstraction: a float32 signalling NaN (0x7F800001) comes back from
    `struct.unpack` as the quiet NaN 0x7FC00001; the spec keeps the wire bits -/
def WX4 : Schema := [{ fields := [{ name := "f", num := 1, ty := .float }] }]
example : parse WX4 0 [13, 1, 0, 128, 127] = .ok (.msg 0 [.f32 0x7FC00001] true [] []) := by rfl
example : Spec.decodeBytes WX4 0 [13, 1, 0, 128, 127] = some { cls := 0, fields := [.f32 0x7F800001], sel := [] } := by rfl
example : (Spec.decodeBytes WX4 0 [13, 1, 0, 128, 127]).map (·.nrm) = some { cls := 0, fields := [.f32 0x7FC00001], sel := [] } := by rfl

/-- WX5 — the model REJECTS, the spec ignores the record (outside the statement): invalid UTF-8 -/
def WX5 : Schema := [{ fields := [{ name := "s", num := 1, ty := .string }] }]
example : parse WX5 0 [10, 1, 255] = .error .unicode := by rfl
example : Spec.decodeBytes WX5 0 [10, 1, 255] = some { cls := 0, fields := [.ph], sel := [] } := by rfl

-- framing: both reject groups, wire type 6, field number 0, truncated input, an 11-byte varint
example : Spec.parse [0x0b] = none ∧ (loadFields [0x0b]).isOk = false := by decide
example : Spec.parse [0x0e] = none ∧ (loadFields [0x0e]).isOk = false := by decide
example : Spec.parse [0x00, 0x00] = none ∧ (loadFields [0x00, 0x00]).isOk = false := by decide
example : Spec.parse [0x0a, 0x02, 0x01] = none ∧ (loadFields [0x0a, 0x02, 0x01]).isOk = false := by decide
example : Spec.parse [0x08, 128, 128, 128, 128, 128, 128, 128, 128, 128, 128, 0] = none
    ∧ (loadFields [0x08, 128, 128, 128, 128, 128, 128, 128, 128, 128, 128, 0]).isOk = false := by decide
-- … and both read a "byte" ≥ 256 the same way (no `WfBytes` needed)
example : Spec.parse [0x08, 300, 1] = some [{ num := 1, wt := 0, vint := 172, payload := [] }] := by decide
example : (loadFields [0x08, 300, 1]).map (·.map toRec) = .ok [{ num := 1, wt := 0, vint := 172, payload := [] }] := by decide

end Witnesses

end Bp.C02

#print axioms Bp.C02.framing_agree
#print axioms Bp.C02.load_complete
#print axioms Bp.C02.load_complete_fuel
#print axioms Bp.C02.load_complete_all_inputs
