import BpModel.All
import BpModel.Spec
import BpProofs.Props.C01
import BpProofs.SpecLink
/-
  C02 — `dump_sound`: the bytes the MODEL ENCODER (`dumpVal`, i.e. `bytes(message)`) produces
  are decoded by the independent SPEC decoder (`BpModel/Spec.lean`) into the same values.

  Derived, not proved from scratch: C01's round trip (`roundtrip_nested_partial`: the model
  decoder reads `bytes(m)` back as a message `m'` equivalent to `m` under `ValEqv`) composed
  with C02's `load_complete` (`Bp.Link.load_complete_bytes`: on what the model decoder
  accepts, the spec decoder yields the abstraction of the model's result).

  This file is separate from `BpProofs/Props/C02.lean` because the C01 files (`BpProofs/Rt*`)
  and the C02 helper files (`BpProofs/SpecWf` …) used to define `Bp.foldFields_append` (since renamed) and cannot
  be imported together; `BpProofs/SpecLink*.lean` import neither.

  FULL STATEMENT (target, kept visible):
      GoodSchema S → MsgOk S m → dumpVal S m = .ok bs → bs.length < 2^64 →
        ∃ m' a, ValEqv S m m' ∧ Spec.decodeBytes S c bs = some a ∧ a.nrm = absOf m'
  PROVED: `dump_sound_partial` — the full statement with ONE extra decidable premise on the
    produced bytes, `narrow32 S (bs.length + 1) d bs = true` (no uint32 / sint32 position of
    `bs` holds a varint ≥ 2^32), and `dump_sound_noNarrow` — the full statement, no extra
    premise, for every schema that uses uint32 / sint32 nowhere (`noNarrowB`).
  MISSING: `MsgOk S m → dumpVal S m = .ok bs → narrow32 S (bs.length + 1) d bs = true`
    (every `uint32` / `sint32` value of an `MsgOk` message is in range — `scalarOk` — and the
    encoder writes it minimally, so it is true; the proof needs the structure of the
    encoder's output, record by record, and was not done).
  How the spec treats a field that is absent on the wire: `ph` ("nothing"), whatever the
  field's presence discipline; the model holds `ph` (plain field) or `None` (proto3-optional)
  there, identified by `nv`.  `ValEqv` (C01) relates `m` to the re-read `m'`: equal, or, where
  a slot emitted no byte, the unset default.
-/
namespace Bp.C02
open Bp Gen Bp.Link

theorem distinct_of_numsDistinct (fs : List FieldD) (h : NumsDistinct fs) : DistinctNums fs := h

/-- **`dump_sound`** (with the explicit decidable premise `narrow32` on the produced bytes) -/
theorem dump_sound_partial (S : Schema) (hS : GoodSchema S) (c : Nat) (d : MsgD) (hd : S[c]? = some d)
    (sl : List Val) (ow : Bool) (unk : Bytes) (cur : List (Option Nat))
    (hm : MsgOk S (.msg c sl ow unk cur))
    (bs : Bytes) (hdump : dumpVal S (.msg c sl ow unk cur) = .ok bs) (hbl : bs.length < 2 ^ 64)
    (hn : narrow32 S (bs.length + 1) d bs = true) :
    ∃ sl' a, ValEqv S (.msg c sl ow unk cur) (.msg c sl' true unk cur)
      ∧ Spec.decodeBytes S c bs = some a
      ∧ a.nrm = { cls := c, fields := nvs sl', sel := cur } := by
  obtain ⟨sl', hp, hv, _⟩ := C01.roundtrip_nested_partial S c d hd sl ow unk cur hm bs hdump hbl
  obtain ⟨a, ha, hnrm⟩ := load_complete_bytes S hS c d hd bs _ hn hp
  exact ⟨sl', a, hv, ha, hnrm⟩

/-- **`dump_sound`, no extra premise**, for schemas that use `uint32` / `sint32` nowhere -/
theorem dump_sound_noNarrow (S : Schema) (hS : GoodSchema S) (hN : noNarrowB S = true)
    (c : Nat) (d : MsgD) (hd : S[c]? = some d)
    (sl : List Val) (ow : Bool) (unk : Bytes) (cur : List (Option Nat))
    (hm : MsgOk S (.msg c sl ow unk cur))
    (bs : Bytes) (hdump : dumpVal S (.msg c sl ow unk cur) = .ok bs) (hbl : bs.length < 2 ^ 64) :
    ∃ sl' a, ValEqv S (.msg c sl ow unk cur) (.msg c sl' true unk cur)
      ∧ Spec.decodeBytes S c bs = some a
      ∧ a.nrm = { cls := c, fields := nvs sl', sel := cur } :=
  dump_sound_partial S hS c d hd sl ow unk cur hm bs hdump hbl (narrow32_of_noNarrow_class S hN c d hd _ bs)

/-- … and with the encoding hypothesis discharged by C01's `encodable`: every well-typed
    message HAS an encoding, and (if shorter than 2^64 bytes and `narrow32`) the spec decoder
    reads it as the message -/
theorem dump_sound_total_partial (S : Schema) (hS : GoodSchema S) (c : Nat) (d : MsgD) (hd : S[c]? = some d)
    (sl : List Val) (ow : Bool) (unk : Bytes) (cur : List (Option Nat))
    (hm : MsgOk S (.msg c sl ow unk cur)) :
    ∃ bs, dumpVal S (.msg c sl ow unk cur) = .ok bs ∧
      (bs.length < 2 ^ 64 → narrow32 S (bs.length + 1) d bs = true →
        ∃ sl' a, ValEqv S (.msg c sl ow unk cur) (.msg c sl' true unk cur)
          ∧ Spec.decodeBytes S c bs = some a
          ∧ a.nrm = { cls := c, fields := nvs sl', sel := cur }) := by
  obtain ⟨bs, hbs⟩ := C01.encodable S _ hm
  exact ⟨bs, hbs, fun hbl hn => dump_sound_partial S hS c d hd sl ow unk cur hm bs hbs hbl hn⟩

/-! non-vacuity: C01's example value (int32, optional string, oneof, packed sint64) -/
example : GoodSchema C01.SX := by decide
example : narrow32 C01.SX 21 C01.SX[0]
    [8, 249, 255, 255, 255, 255, 255, 255, 255, 255, 1, 18, 0, 34, 0, 42, 3, 1, 172, 2] = true := by decide
example : (Spec.decodeBytes C01.SX 0
    [8, 249, 255, 255, 255, 255, 255, 255, 255, 255, 1, 18, 0, 34, 0, 42, 3, 1, 172, 2]).map (·.nrm)
    = some { cls := 0, fields := [.int (-7), .str [], .ph, .byt [], .list [.int (-1), .int 150]], sel := [some 3] } := by rfl
-- a uint32 value in range is written minimally: the premise holds on the encoder's output
def SU : Schema := [{ fields := [{ name := "u", num := 1, ty := .uint32 }, { name := "z", num := 2, ty := .sint32, repeated := true }] }]
example : dumpVal SU (.msg 0 [.int 4294967295, .list [.int (-2147483648), .int 2147483647]] true [] [])
    = .ok [8, 255, 255, 255, 255, 15, 18, 10, 255, 255, 255, 255, 15, 254, 255, 255, 255, 15] := by decide
example : narrow32 SU 19 SU[0] [8, 255, 255, 255, 255, 15, 18, 10, 255, 255, 255, 255, 15, 254, 255, 255, 255, 15] = true := by decide
example : (Spec.decodeBytes SU 0 [8, 255, 255, 255, 255, 15, 18, 10, 255, 255, 255, 255, 15, 254, 255, 255, 255, 15]).map (·.nrm)
    = some { cls := 0, fields := [.int 4294967295, .list [.int (-2147483648), .int 2147483647]], sel := [] } := by rfl

end Bp.C02

#print axioms Bp.C02.dump_sound_partial
#print axioms Bp.C02.dump_sound_noNarrow
#print axioms Bp.C02.dump_sound_total_partial
