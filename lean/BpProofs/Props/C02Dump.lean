import BpModel.All
import BpModel.Spec
import BpProofs.Props.C01
import BpProofs.SpecLink
import BpProofs.SpecLinkNarrow
import BpProofs.DumpNarrow
import BpProofs.OkSound
/-
  C02 — `dump_sound`: the bytes the MODEL ENCODER (`dumpVal`, i.e. `bytes(message)`) produces
  are decoded by the independent SPEC decoder (`BpModel/Spec.lean`) into the same values.

  Derived, not proved from scratch: C01's round trip (`roundtrip_nested_partial`: the model
  decoder reads `bytes(m)` back as a message `m'` equivalent to `m` under `ValEqv`) composed
  with C02's `load_complete` (`Bp.Link.load_complete_bytes`, for `dump_sound` in its `narrow32U`
  form `Bp.Link.load_complete_bytesU`: on what the model decoder accepts, the spec decoder yields
  the abstraction of the model's result).

  This file is separate from `BpProofs/Props/C02.lean` because the C01 files (`BpProofs/Rt*`)
  and the C02 helper files (`BpProofs/SpecWf` …) used to define `Bp.foldFields_append` (since renamed) and cannot
  be imported together; `BpProofs/SpecLink*.lean` import neither.

  FULL STATEMENT:
      GoodSchema S → MsgOk S m → dumpVal S m = .ok bs → bs.length < 2^64 →
        ∃ m' a, ValEqv S m m' ∧ Spec.decodeBytes S c bs = some a ∧ a.nrm = absOf m'
  PROVED, no extra premise: `dump_sound` (and `dump_sound_total`, with the encoding supplied by
    C01's `encodable`).
  HOW.  `load_complete` was proved under the input guard `narrow32` ("no uint32 / sint32 position
    holds a varint ≥ 2^32").  The hoped-for lemma
        MsgOk S m → dumpVal S m = .ok bs → narrow32 S (bs.length + 1) d bs = true        (*)
    is FALSE — counterexample `CX` below: `narrow32` also inspects records whose number the class
    declares but whose wire type does not fit the declared type; such a record is an UNKNOWN field
    for both decoders, `MsgOk` admits it among the unknown fields a message carries (`UnkOk`),
    and `bytes(m)` appends it verbatim.  (The encoder's OWN records never violate it.)
    So the guard was weakened to `narrow32U` = `narrow32` with the unknown records skipped, at
    every nesting level (`BpProofs/SpecLinkNarrow.lean`: `narrow32U_of_narrow32`, and
    `load_complete_bytesU` = `load_complete` under `narrow32U`, by one extra step lemma for
    unknown records).  For `narrow32U` the lemma (*) is TRUE and proved:
    `Bp.Link.dump_narrowU` (`BpProofs/DumpNarrow.lean`; restated here as `dump_narrowU`), for every nesting fuel, every `MsgOk`
    value (arbitrary unknown fields at every level, nested / repeated messages, maps, packed
    payloads, wrappers, Timestamp / Duration), with the premise `bs.length < 2^64` (a longer
    length prefix is not a 64-bit varint).  It needs no schema guard (`MsgOk` carries what it uses).
  KEPT: `dump_sound_partial` (premise `narrow32`), `dump_sound_noNarrow`, `dump_sound_total_partial`.
  How the spec treats a field that is absent on the wire: `ph` ("nothing"), whatever the
  field's presence discipline; the model holds `ph` (plain field) or `None` (proto3-optional)
  there, identified by `nv`.  `ValEqv` (C01) relates `m` to the re-read `m'`: equal, or, where
  a slot emitted no byte, the unset default.
-/
namespace Bp.C02
open Bp Gen Bp.Link

theorem distinct_of_numsDistinct (fs : List FieldD) (h : NumsDistinct fs) : DistinctNums fs := h

/-- **`dump_sound`** (with the explicit decidable premise `narrow32` on the produced bytes) -/
theorem dump_sound_partial (S : Schema) (hS : GoodSchema S) (c : Nat) (d : MsgD) (hd : S[c]? = some d)
    (sl : List Val) (ow : Bool) (unk : Bytes) (cur : List (Option Nat))
    (hm : MsgOk S (.msg c sl ow unk cur))
    (bs : Bytes) (hdump : dumpVal S (.msg c sl ow unk cur) = .ok bs) (hbl : bs.length < 2 ^ 64)
    (hn : narrow32 S (bs.length + 1) d bs = true) :
    ∃ sl' a, ValEqv S (.msg c sl ow unk cur) (.msg c sl' true unk cur)
      ∧ Spec.decodeBytes S c bs = some a
      ∧ a.nrm = { cls := c, fields := nvs sl', sel := cur } := by
  obtain ⟨sl', hp, hv, _⟩ := C01.roundtrip_nested_partial S c d hd sl ow unk cur hm bs hdump hbl
  obtain ⟨a, ha, hnrm⟩ := load_complete_bytes S hS c d hd bs _ hn hp
  exact ⟨sl', a, hv, ha, hnrm⟩

/-- **`dump_sound`, no extra premise**, for schemas that use `uint32` / `sint32` nowhere -/
theorem dump_sound_noNarrow (S : Schema) (hS : GoodSchema S) (hN : noNarrowB S = true)
    (c : Nat) (d : MsgD) (hd : S[c]? = some d)
    (sl : List Val) (ow : Bool) (unk : Bytes) (cur : List (Option Nat))
    (hm : MsgOk S (.msg c sl ow unk cur))
    (bs : Bytes) (hdump : dumpVal S (.msg c sl ow unk cur) = .ok bs) (hbl : bs.length < 2 ^ 64) :
    ∃ sl' a, ValEqv S (.msg c sl ow unk cur) (.msg c sl' true unk cur)
      ∧ Spec.decodeBytes S c bs = some a
      ∧ a.nrm = { cls := c, fields := nvs sl', sel := cur } :=
  dump_sound_partial S hS c d hd sl ow unk cur hm bs hdump hbl (narrow32_of_noNarrow_class S hN c d hd _ bs)

/-- … and with the encoding hypothesis discharged by C01's `encodable`: every well-typed
    message HAS an encoding, and (if shorter than 2^64 bytes and `narrow32`) the spec decoder
    reads it as the message -/
theorem dump_sound_total_partial (S : Schema) (hS : GoodSchema S) (c : Nat) (d : MsgD) (hd : S[c]? = some d)
    (sl : List Val) (ow : Bool) (unk : Bytes) (cur : List (Option Nat))
    (hm : MsgOk S (.msg c sl ow unk cur)) :
    ∃ bs, dumpVal S (.msg c sl ow unk cur) = .ok bs ∧
      (bs.length < 2 ^ 64 → narrow32 S (bs.length + 1) d bs = true →
        ∃ sl' a, ValEqv S (.msg c sl ow unk cur) (.msg c sl' true unk cur)
          ∧ Spec.decodeBytes S c bs = some a
          ∧ a.nrm = { cls := c, fields := nvs sl', sel := cur }) := by
  obtain ⟨bs, hbs⟩ := C01.encodable S _ hm
  exact ⟨bs, hbs, fun hbl hn => dump_sound_partial S hS c d hd sl ow unk cur hm bs hbs hbl hn⟩

/-! non-vacuity: C01's example value (int32, optional string, oneof, packed sint64) -/
example : GoodSchema C01.SX := by decide
example : narrow32 C01.SX 21 C01.SX[0]
    [8, 249, 255, 255, 255, 255, 255, 255, 255, 255, 1, 18, 0, 34, 0, 42, 3, 1, 172, 2] = true := by decide
example : (Spec.decodeBytes C01.SX 0
    [8, 249, 255, 255, 255, 255, 255, 255, 255, 255, 1, 18, 0, 34, 0, 42, 3, 1, 172, 2]).map (·.nrm)
    = some { cls := 0, fields := [.int (-7), .str [], .ph, .byt [], .list [.int (-1), .int 150]], sel := [some 3] } := by rfl
-- a uint32 value in range is written minimally: the premise holds on the encoder's output
def SU : Schema := [{ fields := [{ name := "u", num := 1, ty := .uint32 }, { name := "z", num := 2, ty := .sint32, repeated := true }] }]
example : dumpVal SU (.msg 0 [.int 4294967295, .list [.int (-2147483648), .int 2147483647]] true [] [])
    = .ok [8, 255, 255, 255, 255, 15, 18, 10, 255, 255, 255, 255, 15, 254, 255, 255, 255, 15] := by decide
example : narrow32 SU 19 SU[0] [8, 255, 255, 255, 255, 15, 18, 10, 255, 255, 255, 255, 15, 254, 255, 255, 255, 15] = true := by decide
example : (Spec.decodeBytes SU 0 [8, 255, 255, 255, 255, 15, 18, 10, 255, 255, 255, 255, 15, 254, 255, 255, 255, 15]).map (·.nrm)
    = some { cls := 0, fields := [.int 4294967295, .list [.int (-2147483648), .int 2147483647]], sel := [] } := by rfl

/-! ### `dump_sound`, unconditional -/

/-- **`dump_narrow`** in the form that is true (the weakened guard `narrow32U`): every
    `uint32` / `sint32` position of `bytes(m)` that the class knows holds a varint below 2^32 -/
theorem dump_narrowU (S : Schema) (c : Nat) (d : MsgD) (hd : S[c]? = some d)
    (sl : List Val) (ow : Bool) (unk : Bytes) (cur : List (Option Nat))
    (hm : MsgOk S (.msg c sl ow unk cur))
    (bs : Bytes) (hdump : dumpVal S (.msg c sl ow unk cur) = .ok bs) (hbl : bs.length < 2 ^ 64) :
    narrow32U S (bs.length + 1) d bs = true :=
  Bp.Link.dump_narrowU S c d hd sl ow unk cur hm bs hdump hbl _

/-- **`dump_sound`**: for every well-typed message `m` (`MsgOk`), the spec decoder reads
    `bytes(m)` as `m` (up to `ValEqv`: a slot that emitted no byte reads back as the unset
    default).  No premise on the produced bytes except their length. -/
theorem dump_sound (S : Schema) (hS : GoodSchema S) (c : Nat) (d : MsgD) (hd : S[c]? = some d)
    (sl : List Val) (ow : Bool) (unk : Bytes) (cur : List (Option Nat))
    (hm : MsgOk S (.msg c sl ow unk cur))
    (bs : Bytes) (hdump : dumpVal S (.msg c sl ow unk cur) = .ok bs) (hbl : bs.length < 2 ^ 64) :
    ∃ sl' a, ValEqv S (.msg c sl ow unk cur) (.msg c sl' true unk cur)
      ∧ Spec.decodeBytes S c bs = some a
      ∧ a.nrm = { cls := c, fields := nvs sl', sel := cur } := by
  obtain ⟨sl', hp, hv, _⟩ := C01.roundtrip_nested_partial S c d hd sl ow unk cur hm bs hdump hbl
  obtain ⟨a, ha, hnrm⟩ := load_complete_bytesU S hS c d hd bs _
    (dump_narrowU S c d hd sl ow unk cur hm bs hdump hbl) hp
  exact ⟨sl', a, hv, ha, hnrm⟩

/-- … with the encoding hypothesis discharged by C01's `encodable`: every well-typed message
    HAS an encoding, and (if shorter than 2^64 bytes) the spec decoder reads it as the message -/
theorem dump_sound_total (S : Schema) (hS : GoodSchema S) (c : Nat) (d : MsgD) (hd : S[c]? = some d)
    (sl : List Val) (ow : Bool) (unk : Bytes) (cur : List (Option Nat))
    (hm : MsgOk S (.msg c sl ow unk cur)) :
    ∃ bs, dumpVal S (.msg c sl ow unk cur) = .ok bs ∧
      (bs.length < 2 ^ 64 →
        ∃ sl' a, ValEqv S (.msg c sl ow unk cur) (.msg c sl' true unk cur)
          ∧ Spec.decodeBytes S c bs = some a
          ∧ a.nrm = { cls := c, fields := nvs sl', sel := cur }) := by
  obtain ⟨bs, hbs⟩ := C01.encodable S _ hm
  exact ⟨bs, hbs, fun hbl => dump_sound S hS c d hd sl ow unk cur hm bs hbs hbl⟩

/-! ### CX — the lemma (*) for the ORIGINAL guard `narrow32` is false

  Class 0 declares `uint32 u = 1` (singular).  The message carries one unknown field: number 1
  with wire type 2 (unfitting: a singular `uint32` is never length-delimited), payload = the
  5-byte varint 2^32.  The value is `MsgOk`, `bytes(m)` is those 7 bytes, `narrow32` rejects them
  (it reads the payload as packed elements of the declared type), `narrow32U` accepts them, and
  both decoders ignore the record — `dump_sound` holds on it. -/
def CX : Schema := [{ fields := [{ name := "u", num := 1, ty := .uint32 }] }]
def mCX : Val := .msg 0 [.ph] true [10, 5, 128, 128, 128, 128, 16] []
example : GoodSchema CX := by decide
example : MsgOk CX mCX := msgOkB_sound CX mCX (by decide)
example : dumpVal CX mCX = .ok [10, 5, 128, 128, 128, 128, 16] := by decide
example : narrow32 CX 8 CX[0] [10, 5, 128, 128, 128, 128, 16] = false := by decide
example : narrow32U CX 8 CX[0] [10, 5, 128, 128, 128, 128, 16] = true := by decide
example : (Spec.decodeBytes CX 0 [10, 5, 128, 128, 128, 128, 16]).map (·.nrm)
    = some { cls := 0, fields := [.ph], sel := [] } := by rfl
example : parse CX 0 [10, 5, 128, 128, 128, 128, 16] = .ok mCX := by rfl
-- the premise-free theorem on the earlier example with boundary uint32 / sint32 values
example : narrow32U SU 19 SU[0] [8, 255, 255, 255, 255, 15, 18, 10, 255, 255, 255, 255, 15, 254, 255, 255, 255, 15] = true := by decide

/-! non-vacuity, nested: a `map<uint32, sint32>`, a `UInt32Value` wrapper, a sub-message with a
    packed `repeated uint32`, a `sint32` and — inside the SUB-message — an unknown field of the
    kind of `CX` (number 2 = the `sint32`, wire type 2, payload = the varint 2^32); every 32-bit
    value at its boundary.  `narrow32` fails (because of the nested unknown record only),
    `narrow32U` holds, the spec decoder returns the values. -/
def SNest : Schema :=
  [ { fields := [ { name := "m", num := 1, ty := .map, mapK := .uint32, mapV := .sint32 },
                  { name := "w", num := 2, ty := .message, wraps := some .uint32 },
                  { name := "s", num := 3, ty := .message, kind := .user 1 } ] },
    { fields := [ { name := "r", num := 1, ty := .uint32, repeated := true },
                  { name := "u", num := 2, ty := .sint32 } ] } ]
def mNest : Val :=
  .msg 0 [ .dict [.int 4294967295] [.int (-2147483648)], .int 4294967295,
           .msg 1 [.list [.int 4294967295, .int 0], .int 2147483647] true [18, 5, 128, 128, 128, 128, 16] [] ] true [] []
def bsNest : Bytes :=
  [10, 12, 8, 255, 255, 255, 255, 15, 16, 255, 255, 255, 255, 15, 18, 6, 8, 255, 255, 255, 255, 15, 26, 21, 10,
   6, 255, 255, 255, 255, 15, 0, 16, 254, 255, 255, 255, 15, 18, 5, 128, 128, 128, 128, 16]
example : GoodSchema SNest := by decide
example : MsgOk SNest mNest := msgOkB_sound SNest mNest (by decide)
example : dumpVal SNest mNest = .ok bsNest := by decide
example : narrow32 SNest (bsNest.length + 1) SNest[0] bsNest = false := by decide
example : narrow32U SNest (bsNest.length + 1) SNest[0] bsNest = true := by decide
example : (Spec.decodeBytes SNest 0 bsNest).map (·.nrm)
    = some { cls := 0,
             fields := [.dict [.int 4294967295] [.int (-2147483648)], .int 4294967295,
                        .msg 1 [.list [.int 4294967295, .int 0], .int 2147483647] true [] []],
             sel := [] } := by rfl

end Bp.C02

#print axioms Bp.C02.dump_sound_partial
#print axioms Bp.C02.dump_sound_noNarrow
#print axioms Bp.C02.dump_sound_total_partial
#print axioms Bp.C02.dump_narrowU
#print axioms Bp.C02.dump_sound
#print axioms Bp.C02.dump_sound_total
