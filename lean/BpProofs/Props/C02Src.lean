import BpProofs.SrcTieLoad
import BpProofs.Props.C02
/-
  C02, tied to the SOURCE: the body of the record loop of `Message.load` — the lookup of the field by
  number, the wire-type test, the packed-chunk loop, `_postprocess_single`, the current value
  (`getattr` / default + `setattr`), map insert / list extend / list append / `setattr` — is translated
  from the Python AST on every run (harness/extract_srcload.py → BpProofs/Gen/SrcLoad.lean,
  `Src.load_record`) and proved EQUAL to the model's `applyField`, which the theorems of Props/C02.lean
  (and C06 / C07 / C08 / C17 where they speak about decoding) are about.  The corollaries restate some of
  those theorems of the source as written.  If the loop body changes what it does to the instance,
  `src_load_record` stops checking.

  Reading: `Src.load_record fuel S rec d st pf` is one iteration of `for parsed in load_fields(stream):`
  for the record `pf` on the instance state `st` (raw slots, `_serialized_on_wire`, `_unknown_fields`,
  `_group_current`) of class `d`; `rec` is `<Cls>().parse` for nested payloads; `fuel` bounds the
  `while` loop over a packed payload.  `loadLoop` is the loop around it.  What the dynamic Python
  operations mean on `MState` / `Val` / `FieldD` is fixed in BpProofs/PyPreludeLoad.lean (trusted).
  Guard `RecOk fuel pf` (decidable): the payload is made of bytes (< 256) and `fuel ≥ len(payload) + 12`;
  it holds of every record the framing yields (`src_records_ok`).  No guard on the schema, on the state
  or on `rec`.
-/
namespace Bp.C02
open Bp Bp.Py Gen Bp.SrcTieLoad

/-- **the per-record step of `Message.load` as written is the model's `applyField`**: for every schema,
    class, instance state, nested loader and record (guard: the payload consists of bytes and the fuel
    covers it), one iteration of the record loop leaves exactly the state `applyField` computes, or raises
    exactly the exception it raises; in particular it never diverges. -/
theorem src_load_record (S : Schema) (rec : Loader) (d : MsgD) (st : MState) (pf : PField) (fuel : Nat)
    (hok : RecOk fuel pf) :
    Src.load_record fuel S rec d st pf = Py.ofR (applyField S rec d st pf) :=
  load_record_eq S rec d st pf hok.1 fuel hok.2

/-- **the whole record loop as written is the model's `foldFields`** -/
theorem src_load_loop (S : Schema) (rec : Loader) (d : MsgD) (st : MState) (pfs : List PField) (fuel : Nat)
    (hok : ∀ pf ∈ pfs, RecOk fuel pf) :
    loadLoop fuel S rec d st pfs = Py.ofR (foldFields S rec d st pfs) :=
  loadLoop_eq S rec d fuel pfs hok st

/-- the guard of `src_load_record` holds of every record the framing yields for an input made of bytes
    (with fuel `len(input) + 12`), and such a record carries either a decoded varint (wire type 0) or
    payload bytes, never both: reading `parsed.value` by the wire type (`Py.parsedValue`) loses nothing -/
theorem src_records_ok (bs : Bytes) (hw : WfBytes bs) (pfs : List PField) (h : loadFields bs = .ok pfs) :
    ∀ pf ∈ pfs, RecOk (bs.length + 12) pf ∧ (pf.wt = wireVarint → pf.payload = []) ∧ (pf.wt ≠ wireVarint → pf.vint = 0) :=
  loadFields_payload_wf bs hw pfs h

/-- **a packed chunk, or a single unpacked element, EXTENDS the list** (source as written): after one
    iteration for a record of a repeated packable scalar field the slot holds the old elements followed by
    the elements the record carries — a packed chunk does not replace the list -/
theorem src_chunk_extends (S : Schema) (rec : Loader) (d : MsgD) (idx : Nat) (f : FieldD) (hr : IsRepScalar f)
    (pf : PField) (st : MState) (hw : WfState d st) (ht : Targets d pf idx f) (es : List Val)
    (he : elemsOfRecs S rec f [pf] = .ok es) (fuel : Nat) (hok : RecOk fuel pf) :
    ∃ st', Src.load_record fuel S rec d st pf = .ok st' ∧ st'.slots.getD idx .ph = .list (curList st idx ++ es) := by
  obtain ⟨st', h1, h2⟩ := load_pack_value S rec d idx f hr [pf] st hw (by simp) (by simpa using ht) es he
  refine ⟨st', ?_, h2⟩
  rw [src_load_record S rec d st pf fuel hok]
  simp only [foldFields] at h1
  cases ha : applyField S rec d st pf with
  | error e => rw [ha] at h1; cases h1
  | ok s => rw [ha] at h1; exact congrArg Py.ofR h1

/-- **the last occurrence of a singular scalar wins** (source as written): whatever records the loop has
    processed before, after a record of a singular scalar field the slot holds that record's value -/
theorem src_last_wins (S : Schema) (rec : Loader) (d : MsgD) (st st' : MState) (earlier : List PField)
    (pf : PField) (idx : Nat) (f : FieldD) (v : Val) (hw : WfState d st)
    (ht : Targets d pf idx f) (hrep : f.repeated = false) (hm : f.ty ≠ .map) (hmsg : f.ty ≠ .message)
    (hv : decodeValue S rec f pf = .ok v) (fuel : Nat) (hok : ∀ q ∈ earlier ++ [pf], RecOk fuel q)
    (h : loadLoop fuel S rec d st (earlier ++ [pf]) = .ok st') : st'.slots.getD idx .ph = v := by
  rw [src_load_loop S rec d st _ fuel hok] at h
  cases hf : foldFields S rec d st (earlier ++ [pf]) with
  | error e => rw [hf] at h; cases h
  | ok s =>
    rw [hf] at h
    injection h with h
    subst h
    exact load_last_wins S rec d st s earlier pf idx f v hw ht hrep hm hmsg hv hf

/-- **the last occurrence of a oneof member wins** (source as written): after a record of member `idx` of
    group `g`, that member is the selected one and every other member of the group is unset, whatever
    members earlier records selected -/
theorem src_last_wins_oneof (S : Schema) (rec : Loader) (d : MsgD) (st st' : MState) (earlier : List PField)
    (pf : PField) (idx : Nat) (f : FieldD) (g : Nat)
    (hwg : WfGroups d.fields d.nGroups) (hinv : Inv d.fields d.nGroups st)
    (ht : Targets d pf idx f) (hg : f.group = some g) (fuel : Nat) (hok : ∀ q ∈ earlier ++ [pf], RecOk fuel q)
    (h : loadLoop fuel S rec d st (earlier ++ [pf]) = .ok st') :
    st'.cur.getD g Option.none = some idx
    ∧ ∀ j fj, d.fields[j]? = some fj → fj.group = some g → j ≠ idx → SentinelAt fj (st'.slots.getD j .ph) := by
  rw [src_load_loop S rec d st _ fuel hok] at h
  cases hf : foldFields S rec d st (earlier ++ [pf]) with
  | error e => rw [hf] at h; cases h
  | ok s =>
    rw [hf] at h
    injection h with h
    subst h
    exact load_last_wins_oneof S rec d st s earlier pf idx f g hwg hinv ht hg hf

/-- non-vacuity: one iteration of the translated body on the test schema of Props/C02.lean — a packed chunk
    `12 02 06 08` (sint32 3, 4) on a fresh instance, then the list is `[3, 4]` -/
example : (Src.load_record 20 T (loadInto T 3) T[0] (freshState T[0])
      { num := 2, wt := 2, vint := 0, payload := [6, 8], raw := [0x12, 2, 6, 8] }).bind (fun st => .ok (st.slots.getD 1 .ph))
    = .ok (.list [.int 3, .int 4]) := by rfl

end Bp.C02
