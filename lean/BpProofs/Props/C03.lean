import BpProofs.PluginFaithful
import BpProofs.PluginTraverse
/-
  C03 — plugin output faithfully implements the schema (translation validity).

  Model: BpModel/Plugin.lean (descriptor tree → traverse/flatten → is_map / is_oneof / plain →
  one generated line per field → what dataclasses.fields + FieldMetadata + the hint show).
  The class-, field- and member-naming functions are parameters (`Naming`, subject of C19):
  every theorem below holds for all of them.  Only property statements live here.

  Full statement (English property): for EVERY valid proto3 schema each message / enum has
  exactly one class and each field carries number, type, cardinality, map types, group and
  wrapper / Timestamp / Duration mapping.  It is FALSE of the code in four regions, each kept
  visible below as a decidable guard with a `decide`d witness that the harness replays on
  the real plugin:
    * `noFlattenCollision`  — `Foo.Bar` and `FooBar` become the same class            (D28)
    * names `Nodup` after snake-casing — `foo` and `Foo` become one dataclass field    (D29)
    * `noWrapperMapValue`   — map<_, google.protobuf.BoolValue> is annotated
                              Dict[_, Optional[bool]]                                  (D30)
    * `mapRefsLocal`        — residue of D08 after the fix: `repeated X.FooEntry bar`
                              next to `map<..> foo` is still taken for the map         (D31)
  D08 itself (lower-cased name matching) and D24 (wrapper regex) are fixed by
  fixes/D08-*.patch and fixes/D24-*.patch; the model is of the fixed code and the old code
  is kept as `Legacy.*` with its witnesses.
-/
namespace Bp.C03
open Bp Bp.Plugin Bp.Gen.Desc

/-! ### sentence 2: every field carries the schema's number, scalar type, cardinality, map
    key/value types, oneof group and wrapper / Timestamp / Duration mapping -/

/-- **field faithfulness.**  For every message `m` (full name `full`) that satisfies what protoc
    guarantees (`validMsg`) and lies outside the two excluded regions, and for every field `f`
    of `m`: the plugin emits a line `c` for it (it does not raise), named by the field-naming
    function, and evaluating that line (`readBack`, i.e. `betterproto.<x>_field(...)` + the
    annotation) shows exactly what the schema says (`specOf`): number, proto type, cardinality
    (singular / optional / repeated / map with key and value types), oneof group, `wraps`,
    and the element mapping (scalar / unwrapped wrapper / datetime / timedelta / class ref). -/
theorem field_faithful_partial (nm : Naming) (full : Name) (m : MsgP) (f : FieldP)
    (hv : validMsg full m = true) (hl : mapRefsLocal full m = true) (hw : noWrapperMapValue m = true)
    (hf : f ∈ m.fields) :
    ∃ c s, compileField nm m f = some c ∧ c.pyName = nm.fld f.name ∧ specOf full m f = some s
      ∧ (readBack c).map observe = some s := by
  have hge := getMapEntry_eq_spec hv hl hf
  have V := validMsg_facts hv
  cases hs : specMapEntry full m f with
  | none => exact plain_faithful nm (hge.trans hs) hs (V.field f hf)
  | some e =>
    have hmem : e ∈ m.nested ∧ (e.mapEntry && decide (f.typeName = full ++ '.' :: e.name)) = true := by
      unfold specMapEntry at hs
      split at hs
      · exact find?_some_mem hs
      · cases hs
    have hme : e.mapEntry = true := by
      have := hmem.2; simp only [Bool.and_eq_true] at this; exact this.1
    refine map_faithful nm (hge.trans hs) hs (V.entry e hmem.1 hme) ?_
    intro v hvm hbad
    unfold noWrapperMapValue at hw
    simp only [List.all_eq_true, Bool.or_eq_true, Bool.not_eq_true', Bool.and_eq_false_iff,
      decide_eq_false_iff_not, decide_eq_true_eq] at hw
    rcases hw e hmem.1 with h | h
    · rw [hme] at h; cases h
    · rcases h v hvm with (h | h) | h
      · exact h hbad.1
      · exact h hbad.2.1
      · rw [hbad.2.2] at h; cases h

/-- the numbers alone, for *every* descriptor (no guard): whenever the plugin emits a line for a
    field, the line carries the field's number -/
theorem field_number_preserved (nm : Naming) (m : MsgP) (f : FieldP) (c : CField)
    (h : compileField nm m f = some c) : c.number = f.number ∧ c.pyName = nm.fld f.name := by
  unfold compileField at h
  split at h
  · split at h
    · split at h
      · cases h; exact ⟨rfl, rfl⟩
      · cases h
    · cases h
  · split at h
    · cases h; exact ⟨rfl, rfl⟩
    · cases h

/-- **exactly one field per schema field.**  A message class has one line per schema field, in
    declaration order; under the guard that the Python names are distinct (D29 region excluded)
    no two lines share a name, so the dataclass has exactly `m.fields.length` fields. -/
theorem one_field_per_schema_field_partial (nm : Naming) (m : MsgP) (cs : List CField)
    (h : compileFields nm m m.fields = some cs)
    (hn : (m.fields.map fun f => nm.fld f.name).Nodup) :
    cs.length = m.fields.length ∧ cs.map (·.pyName) = m.fields.map (fun f => nm.fld f.name)
      ∧ cs.map (·.number) = m.fields.map (·.number) ∧ (cs.map (·.pyName)).Nodup := by
  obtain ⟨_, hlen, hz⟩ := compileFields_map nm m m.fields cs h
  have key : ∀ (fs : List FieldP) (cs : List CField), cs.length = fs.length →
      (∀ p ∈ fs.zip cs, compileField nm m p.1 = some p.2) →
      cs.map (·.pyName) = fs.map (fun f => nm.fld f.name) ∧ cs.map (·.number) = fs.map (·.number) := by
    intro fs
    induction fs with
    | nil => intro cs hl _; cases cs <;> simp_all
    | cons f r ih =>
      intro cs hl hz
      cases cs with
      | nil => simp at hl
      | cons c cr =>
        have h0 := field_number_preserved nm m f c (hz (f, c) (by simp))
        have := ih cr (by simpa using hl) (fun p hp => hz p (by simp [hp]))
        simp [h0.1, h0.2, this.1, this.2]
  obtain ⟨h1, h2⟩ := key m.fields cs hlen hz
  exact ⟨hlen, h1, h2, h1 ▸ hn⟩

/-! ### sentence 1: one class per message and per enum, nested ones included -/

/-- **class list = type list**, for *every* descriptor tree on which the plugin does not raise:
    the classes emitted for a file are, in order, exactly the messages (synthetic map entries
    excepted) and enums of the schema at every nesting depth, each named by the class-naming
    function applied to its flattened path `_Outer_Inner`, messages as message classes and enums
    as enum classes. -/
theorem classes_are_all_types (nm : Naming) (fl : FileP) (cs : List Class)
    (h : compileFile nm fl = some cs) :
    cs.map (fun c => (c.pyName, c.kind)) = (allTypes fl).map fun t => (nm.cls (flatName t.1), t.2) := by
  unfold compileFile at h
  rw [readItems_keys nm _ cs h, traverse_key, List.map_map]
  rfl

/-- **exactly one class per type**, under the no-flatten-collision guard (D28 region excluded):
    as many classes as types, pairwise distinct names, and every type has its class. -/
theorem one_class_per_type_partial (nm : Naming) (fl : FileP) (cs : List Class)
    (h : compileFile nm fl = some cs) (hg : noFlattenCollision nm fl = true) :
    cs.length = (allTypes fl).length ∧ (cs.map Class.pyName).Nodup
      ∧ ∀ t ∈ allTypes fl, ∃ c ∈ cs, c.pyName = nm.cls (flatName t.1) ∧ c.kind = t.2 := by
  have hk := classes_are_all_types nm fl cs h
  have hnames : cs.map Class.pyName = (allTypes fl).map fun t => nm.cls (flatName t.1) := by
    have := congrArg (List.map Prod.fst) hk
    simpa [List.map_map, Function.comp_def] using this
  refine ⟨?_, ?_, ?_⟩
  · have := congrArg List.length hk; simpa using this
  · rw [hnames]; simpa [noFlattenCollision] using hg
  · intro t ht
    have : (nm.cls (flatName t.1), t.2) ∈ cs.map (fun c => (c.pyName, c.kind)) := by
      rw [hk]; exact List.mem_map.2 ⟨t, ht, rfl⟩
    obtain ⟨c, hc, he⟩ := List.mem_map.1 this
    exact ⟨c, hc, (Prod.mk.inj he).1, (Prod.mk.inj he).2⟩

/-- the plugin does not raise on a message all of whose fields compile — in particular on every
    protoc-valid message outside the excluded regions (by `field_faithful_partial`) -/
theorem message_compiles_partial (nm : Naming) (full : Name) (m : MsgP)
    (hv : validMsg full m = true) (hl : mapRefsLocal full m = true) (hw : noWrapperMapValue m = true) :
    (compileFields nm m m.fields).isSome = true := by
  apply compileFields_some
  intro f hf
  obtain ⟨c, _, hc, _⟩ := field_faithful_partial nm full m f hv hl hw hf
  rw [hc]; rfl

/-! ### sentence 2, enums: each member carries the schema's number -/

/-- enum numbers are copied unchanged, in declaration order (aliases and negative numbers
    included: the numbers are arbitrary integers), names go through the member-naming function -/
theorem enum_numbers_preserved (nm : Naming) (flat : Name) (e : EnumP) :
    ∃ es, compileEnum nm flat e = .enum (nm.cls flat) es
      ∧ es.map (·.2) = e.values.map (·.2)
      ∧ es.map (·.1) = e.values.map (fun v => nm.mem v.1 flat) := by
  refine ⟨_, rfl, ?_, ?_⟩ <;> simp [List.map_map, Function.comp_def]

/-- every enum reached by the traversal is compiled by `compileEnum` (never skipped, never fails) -/
theorem enum_item_compiled (nm : Naming) (flat : Name) (e : EnumP) :
    readItem nm (.enum flat e) = some (some (compileEnum nm flat e)) := rfl

/-! ### sentence 3: the bundled descriptor classes agree with descriptor.proto / plugin.proto -/

/-- every class of `lib/std/google/protobuf`, `lib/std/google/protobuf/compiler` and their
    pydantic twins agrees with google.protobuf's own DESCRIPTORs (descriptor.proto, plugin.proto
    and the well-known-type files) on every field number they share: same field name, same
    proto type, same repeated-ness — and a field name they share has the same number.
    `Gen/Descriptors.lean` is regenerated on every run. -/
theorem bundled_descriptors_agree :
    libAgrees bundledStd = true ∧ libAgrees bundledStdCompiler = true
    ∧ libAgrees bundledPydantic = true ∧ libAgrees bundledPydanticCompiler = true := by
  decide +kernel

/-- … and the bundled enums (FieldDescriptorProto.Type / Label, …) carry the reference numbers -/
theorem bundled_enums_agree :
    libEnumsAgree bundledStdEnums = true ∧ libEnumsAgree bundledStdCompilerEnums = true
    ∧ libEnumsAgree bundledPydanticEnums = true ∧ libEnumsAgree bundledPydanticCompilerEnums = true := by
  decide +kernel

/-- non-vacuity of the agreement: several hundred (class, field) pairs are shared -/
theorem bundled_shared_nonempty :
    200 ≤ sharedCount bundledStd ∧ 15 ≤ sharedCount bundledStdCompiler := by
  decide +kernel

/-! ### negation witnesses for the excluded regions (each replayed on the real plugin) -/

section witnesses
def ch (s : String) : Name := s.toList
def entry (n : String) (k v : Nat) (vt : String := "") : MsgP :=
  .mk (ch n) [{ name := ch "key", number := 1, label := .optional, type := k },
              { name := ch "value", number := 2, label := .optional, type := v, typeName := ch vt }] [] [] [] true
def mapF (n : String) (num : Nat) (tn : String) : FieldP :=
  { name := ch n, number := num, label := .repeated, type := 11, typeName := ch tn }
def idNaming : Naming := { cls := fun n => n.filter (· ≠ '_'), fld := id, mem := fun n _ => n }

/-- D08 message: `map<string,int32> a_b = 1; map<int64,string> ab = 2;` -/
def d08 : MsgP := .mk (ch "M") [mapF "a_b" 1 ".p.M.ABEntry", mapF "ab" 2 ".p.M.AbEntry"]
  [entry "ABEntry" 9 5, entry "AbEntry" 3 9] [] [] false

/-- D08, code before the fix: both fields resolve to the *later* entry `AbEntry` (int64 → string),
    so `a_b` (string → int32 in the schema) is compiled with the wrong types -/
theorem legacy_D08_witness :
    (Legacy.mapEntry (mapF "a_b" 1 ".p.M.ABEntry") d08).map MsgP.name = some (ch "AbEntry")
    ∧ (specMapEntry (ch ".p.M") d08 (mapF "a_b" 1 ".p.M.ABEntry")).map MsgP.name = some (ch "ABEntry") := by
  decide

/-- D08 after the fix: in the guards' domain, and the compiled line reads back as the schema says -/
theorem fixed_D08_witness :
    validMsg (ch ".p.M") d08 = true ∧ mapRefsLocal (ch ".p.M") d08 = true
    ∧ ((compileField idNaming d08 (mapF "a_b" 1 ".p.M.ABEntry")).bind readBack).map (·.mapTypes)
        = some (some (.string, .int32)) := by
  decide

/-- D24, code before the fix: `google.protobuf.EnumValue` matches the wrapper regex and
    `TYPE_ENUM` exists, although the schema (wrappers.proto) has no such wrapper -/
theorem legacy_D24_witness :
    Legacy.wrapsOf (ch ".google.protobuf.EnumValue") = some (ch "TYPE_ENUM")
    ∧ lookup? (ch ".google.protobuf.EnumValue") specWrappers = none
    ∧ wrapsOf (ch ".google.protobuf.EnumValue") = none := by
  decide

/-- D31 (residual region of `mapRefsLocal`): `repeated X.FooEntry bar = 2` next to
    `map<string,int32> foo = 1` is still compiled as a map although the schema says repeated message -/
def d31 : MsgP := .mk (ch "M") [mapF "foo" 1 ".p.M.FooEntry", mapF "bar" 2 ".p.X.FooEntry"]
  [entry "FooEntry" 9 5] [] [] false
theorem mapRefsLocal_needed :
    validMsg (ch ".p.M") d31 = true ∧ mapRefsLocal (ch ".p.M") d31 = false
    ∧ (compileField idNaming d31 (mapF "bar" 2 ".p.X.FooEntry")).map (·.ctor) = some (ch "map")
    ∧ (specOf (ch ".p.M") d31 (mapF "bar" 2 ".p.X.FooEntry")).map (·.card) = some .repeated := by
  decide

/-- D30 (excluded by `noWrapperMapValue`): `map<string, google.protobuf.BoolValue> w = 1` reads
    back with element `Optional[bool]` where the schema demands the BoolValue class -/
def d30 : MsgP := .mk (ch "M") [mapF "w" 1 ".p.M.WEntry"] [entry "WEntry" 9 11 ".google.protobuf.BoolValue"] [] [] false
theorem noWrapperMapValue_needed :
    validMsg (ch ".p.M") d30 = true ∧ noWrapperMapValue d30 = false
    ∧ (((compileField idNaming d30 (mapF "w" 1 ".p.M.WEntry")).bind readBack).map observe).map (·.elem)
        = some (.unwrapped (ch "bool"))
    ∧ (specOf (ch ".p.M") d30 (mapF "w" 1 ".p.M.WEntry")).map (·.elem) = some (.ref (ch ".google.protobuf.BoolValue")) := by
  decide

/-- D28 (excluded by `noFlattenCollision`): `message Foo { message Bar {} } message FooBar {}`
    — two types, two classes with one name (the naming function here drops underscores, as
    pascal_case does on these names) -/
def d28 : FileP :=
  ⟨ch "p", [.mk (ch "Foo") [] [.mk (ch "Bar") [] [] [] [] false] [] [] false, .mk (ch "FooBar") [] [] [] [] false], []⟩
theorem noFlattenCollision_needed :
    noFlattenCollision idNaming d28 = false
    ∧ (compileFile idNaming d28).map (·.map Class.pyName) = some [ch "Foo", ch "FooBar", ch "FooBar"] := by
  decide

/-- D29 (excluded by the `Nodup` guard of `one_field_per_schema_field_partial`): `int32 foo = 1;
    string Foo = 2;` with a case-folding field-naming function gives two lines named `foo` -/
theorem field_names_nodup_needed :
    let nm : Naming := { idNaming with fld := fun n => n.map Char.toLower }
    let m : MsgP := .mk (ch "M") [{ name := ch "foo", number := 1, label := .optional, type := 5 },
                                  { name := ch "Foo", number := 2, label := .optional, type := 9 }] [] [] [] false
    (compileFields nm m m.fields).map (·.map (·.pyName)) = some [ch "foo", ch "foo"] := by
  decide

end witnesses

/-! ### non-vacuity: a concrete schema inside every guard, exercising every field shape -/

def demo : MsgP := .mk (ch "Demo")
  [ { name := ch "id", number := 1, label := .optional, type := 3 },
    { name := ch "tags", number := 2, label := .repeated, type := 9 },
    { name := ch "opt", number := 3, label := .optional, type := 13, oneofIndex := some 1, proto3Optional := true },
    { name := ch "a", number := 4, label := .optional, type := 12, oneofIndex := some 0 },
    { name := ch "b", number := 5, label := .optional, type := 11, typeName := ch ".google.protobuf.Timestamp", oneofIndex := some 0 },
    { name := ch "w", number := 6, label := .optional, type := 11, typeName := ch ".google.protobuf.UInt64Value" },
    { name := ch "d", number := 7, label := .repeated, type := 11, typeName := ch ".google.protobuf.Duration" },
    { name := ch "e", number := 8, label := .optional, type := 14, typeName := ch ".p.Demo.Kind" },
    mapF "m" 9 ".p.Demo.MEntry",
    { name := ch "self", number := 10, label := .optional, type := 11, typeName := ch ".p.Demo" } ]
  [entry "MEntry" 17 11 ".p.Demo"] [{ name := ch "Kind", values := [(ch "KIND_A", 0), (ch "KIND_B", -1), (ch "KIND_C", 0)] }]
  [ch "choice", ch "_opt"] false

example : validMsg (ch ".p.Demo") demo = true ∧ mapRefsLocal (ch ".p.Demo") demo = true
    ∧ noWrapperMapValue demo = true := by decide

example : (demo.fields.map fun f => ((compileField idNaming demo f).bind readBack).map observe)
    = demo.fields.map (specOf (ch ".p.Demo") demo) := by decide

example : ((compileField idNaming demo (mapF "m" 9 ".p.Demo.MEntry")).bind readBack).map observe
    = some { number := 9, ty := .map, card := .map .sint32 .message, group := none, wraps := none,
             elem := .ref (ch ".p.Demo"), keyPy := some (ch "int") } := by decide

example : (compileFile idNaming ⟨ch "p", [demo], []⟩).map (·.map Class.pyName)
    = some [ch "Demo", ch "DemoKind"] := by decide

end Bp.C03
