import BpModel.Plugin
/-
  C03 — plugin output faithfully implements the schema (translation validity).
-/
namespace Bp.C03
open Bp Bp.Plugin Bp.Gen.Desc

/-- sentence 3: every class of the four bundled descriptor libraries agrees with
    google.protobuf's own descriptor.proto / plugin.proto / well-known-type descriptors on
    every field number they share (same name, same proto type, same repeated-ness) -/
theorem bundled_descriptors_agree :
    libAgrees bundledStd = true ∧ libAgrees bundledStdCompiler = true
    ∧ libAgrees bundledPydantic = true ∧ libAgrees bundledPydanticCompiler = true := by
  decide +kernel

theorem bundled_enums_agree :
    libEnumsAgree bundledStdEnums = true ∧ libEnumsAgree bundledStdCompilerEnums = true
    ∧ libEnumsAgree bundledPydanticEnums = true ∧ libEnumsAgree bundledPydanticCompilerEnums = true := by
  decide +kernel

end Bp.C03
