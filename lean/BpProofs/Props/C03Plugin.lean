import BpProofs.PluginSchemaPkg
/-
  C03 — "each class has exactly one field per schema field, carrying the schema's field number,
  scalar type, cardinality (singular / optional / repeated / map with its key and value types),
  oneof group and wrapper / Timestamp / Duration mapping" — in the sense the RUNTIME reads them.

  `Props/C03.lean` proves the sentence about what `dataclasses.fields` + `FieldMetadata` + the
  hint *show* (`readBack` / `observe`).  Here the same sentence is proved about the `FieldD` /
  `MsgD` / `Schema` that `ProtoClassMetadata` derives from the generated classes
  (`BpModel/PluginSchema.lean: toSchema`) — the objects every codec theorem (C01, C02, C04–C10,
  C14, C17) quantifies over.  Lemmas: BpProofs/PluginSchema*.lean.  The guards are those of
  `Props/C03.lean` (`validMsg`, `mapRefsLocal` (D31), `noWrapperMapValue` (D30)), for every
  message of every file at every depth (`validPackage`).  The correspondence run
  (harness/props/c03_schema.py) compares `toSchema` with `cls._betterproto` of the really
  generated classes.
-/
namespace Bp.C03
open Bp Bp.Plugin

/-- what `specFieldD` — the SPEC's reading of a descriptor field as a runtime `FieldD` — says:
    the field number, the proto type, the cardinality (`repeated` / `optional` flags, map key and
    value types), the oneof group as the index of its name among the group names, `wraps`, and the
    Timestamp / Duration / generated-class mapping of a message element (of a map's message value) -/
theorem specFieldD_reads (env : Env) (gs : List Name) (n : Name) (s : FieldSpec) (d : FieldD)
    (h : specFieldD env gs n s = some d) :
    d.num = s.number ∧ d.ty = s.ty ∧ d.wraps = s.wraps
    ∧ d.repeated = decide (s.card = .repeated) ∧ d.optional = decide (s.card = .optional)
    ∧ (∀ k v, s.card = .map k v → d.mapK = k ∧ d.mapV = v)
    ∧ groupIdx gs s.group = some d.group
    ∧ (s.ty = .message → s.wraps = none → kindOfElem env s.elem = some d.kind)
    ∧ (∀ k, s.card = .map k .message → s.ty = .map → kindOfElem env s.elem = some d.mapVKind) := by
  unfold specFieldD at h
  cases hcard : s.card <;> simp only [hcard] at h <;> split at h <;> try (cases h)
  all_goals
    rename_i g k vk er hg hk hvk her
    refine ⟨rfl, rfl, rfl, rfl, rfl, ?_, hg, ?_, ?_⟩
    · intro a b hab; cases hab <;> exact ⟨rfl, rfl⟩
    · intro h1 h2; simpa [h1, h2] using hk
    · intro a hab h2; cases hab <;> simpa [h2] using hvk

/-- **one field, as the runtime reads it.**  For every field `f` of every protoc-valid message
    outside the excluded regions the plugin emits a line `c`, and the `FieldD` the runtime derives
    from that line (`cfieldD`: `FieldMetadata` + `default_gen` + `cls_by_field` + the group index)
    is exactly the `FieldD` the descriptor demands (`specFieldD` of `specOf`) — in particular it is
    defined iff the latter is (the type names resolve inside the package) -/
theorem field_schema_faithful_partial (nm : Naming) (env : Env) (gs : List Name) (full : Name) (m : MsgP) (f : FieldP)
    (hv : validMsg full m = true) (hl : mapRefsLocal full m = true) (hw : noWrapperMapValue m = true)
    (hf : f ∈ m.fields) :
    ∃ c s, compileField nm m f = some c ∧ specOf full m f = some s
      ∧ cfieldD env gs c = specFieldD env gs (nm.fld f.name) s := by
  obtain ⟨c, s, h1, h2, _, h3⟩ := field_schema_faithful nm env gs full m f hv hl hw hf
  exact ⟨c, s, h1, h2, h3⟩

/-- **one class**: `ProtoClassMetadata` of the class generated for a valid message = the `MsgD`
    the descriptor demands: the fields in declaration order, the oneof groups numbered in order of
    first occurrence -/
theorem class_schema_faithful_partial (nm : Naming) (env : Env) (full : Name) (m : MsgP)
    (hv : validMsg full m = true) (hl : mapRefsLocal full m = true) (hw : noWrapperMapValue m = true) :
    ∃ cs, compileFields nm m m.fields = some cs ∧ classD env cs = specMsgD nm env full m :=
  class_schema_faithful nm env full m hv hl hw

/-- **the whole package.**  For every list of files all of whose messages (at every depth) are in
    the domain and on which the plugin does not raise: the runtime schema of the emitted classes
    (`toSchema`) is, class by class and field by field, the schema the descriptors demand
    (`specSchema`: the non-map-entry messages in traversal order, each read by `specMsgD`) -/
theorem schema_faithful_partial (nm : Naming) (pkg : Name) (files : List FileP) (cs : List Class)
    (hv : validPackage files = true) (hc : compilePackage nm files = some cs) :
    toSchema nm pkg cs = specSchema nm (envOf nm pkg cs) files :=
  toSchema_eq_spec nm pkg files cs hv hc

/-- … hence `toSchema` is defined exactly when every type name the descriptors mention resolves
    to a class of the package -/
theorem schema_defined_iff_partial (nm : Naming) (pkg : Name) (files : List FileP) (cs : List Class)
    (hv : validPackage files = true) (hc : compilePackage nm files = some cs) :
    (toSchema nm pkg cs).isSome = (specSchema nm (envOf nm pkg cs) files).isSome := by
  rw [schema_faithful_partial nm pkg files cs hv hc]

/-- one `MsgD` per message class, in class order -/
theorem schema_length (nm : Naming) (pkg : Name) (cs : List Class) (S : Schema)
    (h : toSchema nm pkg cs = some S) : S.length = (msgClasses cs).length :=
  mapMOpt_length _ _ _ h

/-! ### non-vacuity: a nested schema with a map, a oneof, an optional, a wrapper, a Timestamp -/

/-- `message Demo { … message Inner { Demo up = 1; Kind k = 2; } }` (Props/C03.lean `demo` + a nested message) -/
def inner : MsgP := .mk (ch "Inner")
  [ { name := ch "up", number := 1, label := .optional, type := 11, typeName := ch ".p.Demo" },
    { name := ch "k", number := 2, label := .optional, type := 14, typeName := ch ".p.Demo.Kind" } ] [] [] [] false

def demo2 : MsgP := .mk (ch "Demo") (demo.fields ++
  [ { name := ch "in", number := 11, label := .repeated, type := 11, typeName := ch ".p.Demo.Inner" } ])
  (demo.nested ++ [inner]) demo.enums demo.oneofs false

def demoFile : FileP := ⟨ch "p", [demo2], []⟩

/-- what is compared of a `FieldD` (everything but the name) -/
structure FKey where
  num : Nat
  ty : PType
  repeated : Bool
  optional : Bool
  group : Option Nat
  wraps : Option PType
  kind : MsgKind
  mapK : PType
  mapV : PType
  mapVKind : MsgKind
  enumRef : Option Nat
  deriving DecidableEq, Repr

def fieldKey (f : FieldD) : FKey :=
  ⟨f.num, f.ty, f.repeated, f.optional, f.group, f.wraps, f.kind, f.mapK, f.mapV, f.mapVKind, f.enumRef⟩
def schemaKey (S : Schema) : List (Nat × List FKey) := S.map fun d => (d.nGroups, d.fields.map fieldKey)

example : validPackage [demoFile] = true := by decide

example : ((compilePackage idNaming [demoFile]).bind (toSchema idNaming (ch "p"))).map schemaKey = some
    [ (1, [ ⟨1, .int64, false, false, none, none, .user 0, .int32, .int32, .user 0, none⟩,
            ⟨2, .string, true, false, none, none, .user 0, .int32, .int32, .user 0, none⟩,
            ⟨3, .uint32, false, true, none, none, .user 0, .int32, .int32, .user 0, none⟩,
            ⟨4, .bytes, false, false, some 0, none, .user 0, .int32, .int32, .user 0, none⟩,
            ⟨5, .message, false, false, some 0, none, .timestamp, .int32, .int32, .user 0, none⟩,
            ⟨6, .message, false, false, none, some .uint64, .user 0, .int32, .int32, .user 0, none⟩,
            ⟨7, .message, true, false, none, none, .duration, .int32, .int32, .user 0, none⟩,
            ⟨8, .enum, false, false, none, none, .user 0, .int32, .int32, .user 0, some 0⟩,
            ⟨9, .map, false, false, none, none, .user 0, .sint32, .message, .user 0, none⟩,
            ⟨10, .message, false, false, none, none, .user 0, .int32, .int32, .user 0, none⟩,
            ⟨11, .message, true, false, none, none, .user 1, .int32, .int32, .user 0, none⟩ ]),
      (0, [ ⟨1, .message, false, false, none, none, .user 0, .int32, .int32, .user 0, none⟩,
            ⟨2, .enum, false, false, none, none, .user 0, .int32, .int32, .user 0, some 0⟩ ]) ] := by decide

/-- a reference that leaves the package does not resolve: `toSchema` is undefined (the guard of
    `schema_defined_iff_partial` is not vacuous) -/
theorem cross_package_reference_unresolved :
    let m : MsgP := .mk (ch "M") [{ name := ch "x", number := 1, label := .optional, type := 11, typeName := ch ".q.X" }] [] [] [] false
    validPackage [⟨ch "p", [m], []⟩] = true
    ∧ (compilePackage idNaming [⟨ch "p", [m], []⟩]).isSome = true
    ∧ (compilePackage idNaming [⟨ch "p", [m], []⟩]).bind (toSchema idNaming (ch "p")) = none := by
  decide

end Bp.C03
