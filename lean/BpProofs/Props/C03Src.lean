import BpProofs.SrcTiePlugin
import BpProofs.Props.C03
/-
  C03, tied to the SOURCE: the field classification of the protoc plugin — `get_map_entry`, `is_map`, `is_oneof`
  and the properties `field_wraps`, `repeated`, `optional`, `field_type`, `packed`, `py_name`, `proto_name`,
  `betterproto_field_args`, `py_type`, `annotation`, `get_field_string` of `FieldCompiler`, `OneOfFieldCompiler`,
  `PydanticOneOfFieldCompiler`, `MapEntryCompiler` in src/betterproto/plugin/models.py, as regenerated from the
  Python AST of the working tree on every run (harness/extract_srcplugin.py → BpProofs/Gen/SrcPlugin.lean,
  namespace `Bp.Src.Models`) — IS the classification of the model BpModel/Plugin.lean the C03 theorems are about,
  for EVERY descriptor field and EVERY parent message (no well-formedness guard is needed for the ties; the
  corollaries inherit the guards of the C03 theorems they go through).

  A translated property takes the compiler object (`Py.Plg.Self`: `proto_obj`, `parent.proto_obj`, …) and
  returns `Py.Res …`; `.raise .key` stands for IndexError, `.raise .value` for ValueError, `.raise .notImpl` for
  NotImplementedError.  `argsOf mt w o g` / `cfieldArgs c` is the list of argument texts that a `CField`
  (`mapTypes`, `wraps`, `optional`, `group`) stands for; `lineOf` the whole generated line.

  Not translated (still validated by the correspondence run only): parser.read_protobuf_type's three-way split
  itself (which class is constructed), `MapEntryCompiler.__post_init__` (the stored key / value types are
  hypotheses of `src_map_field`), `use_builtins`, `get_type_reference` (C13) — see PyPreludePlugin.lean.
  Trusted: BpProofs/PyPrelude.lean, PyPreludeStr.lean, PyPreludeTyping.lean, PyPreludeCasing.lean (`lower`),
  PyPreludePlugin.lean (meaning of the Python primitives and of the descriptor objects).
-/
namespace Bp.C03
open Bp Bp.Py Bp.Importing Bp.Plugin Bp.Gen.Plugin Bp.Src.Models Bp.SrcTiePlugin

/-! ### the ties -/

/-- `get_map_entry` as written, asked of a DescriptorProto, is the model's `getMapEntry`: the first nested
    `map_entry` message whose name is exactly the last segment of the field's type name, for a repeated message
    field; it never raises -/
theorem src_get_map_entry (fuel : Nat) (f : FieldP) (m : MsgP) :
    get_map_entry fuel f (.descriptor m) = .ok (getMapEntry f m) := get_map_entry_desc fuel f m

/-- `is_map` as written, asked of a DescriptorProto (what parser.read_protobuf_type does), is the model's `isMap` … -/
theorem src_is_map (fuel : Nat) (f : FieldP) (m : MsgP) : is_map fuel f (.descriptor m) = .ok (isMap f m) :=
  is_map_desc fuel f m

/-- … and asked of a compiler object (what `FieldCompiler.repeated` does: `self.parent`) it is False -/
theorem src_is_map_of_compiler (fuel : Nat) (f : FieldP) : is_map fuel f .compiler = .ok false :=
  is_map_compiler fuel f

/-- `is_oneof` as written is the model's `isOneof` -/
theorem src_is_oneof (fuel : Nat) (f : FieldP) : is_oneof fuel f = .ok (isOneof f) := is_oneof_eq fuel f

/-- `field_wraps` as written is the model's `wrapsOf` (membership in the regenerated WRAPPER_TYPES, the constant
    named after the last segment without `Value`, upper-cased) -/
theorem src_field_wraps (fuel : Nat) (self : Py.Plg.Self) :
    FieldCompiler.field_wraps fuel self = .ok ((wrapsOf self.proto_obj.typeName).map ("betterproto.".toList ++ ·)) :=
  field_wraps_eq fuel self

/-- the flags as written: `optional` is `proto3_optional`; `repeated` is "the label is LABEL_REPEATED" (the model's
    `annOf` test); `packed` is `repeated` and membership in the module's PROTO_PACKED_TYPES -/
theorem src_flags (fuel : Nat) (self : Py.Plg.Self) :
    FieldCompiler.optional fuel self = .ok self.proto_obj.proto3Optional
    ∧ FieldCompiler.repeated fuel self = .ok (decide (self.proto_obj.label = Label.repeated))
    ∧ FieldCompiler.packed fuel self
        = .ok (decide (self.proto_obj.label = Label.repeated) && PROTO_PACKED_TYPES.contains self.proto_obj.type) :=
  ⟨optional_eq fuel self, repeated_eq fuel self, packed_eq fuel self⟩

/-- the module's PROTO_PACKED_TYPES as written is the runtime's `PACKED_TYPES` (through the schema's type table)
    WITHOUT the enum type: `FieldCompiler.packed` says "not packed" of a repeated enum field, which the runtime
    does pack (the property is read by no template) -/
theorem src_packed_table (t : Nat) :
    PROTO_PACKED_TYPES.contains t = (specType t).any (fun p => Gen.packedTypes.contains p && p != .enum) :=
  packedTable_spec t

/-- `field_type` as written is the model's constructor-name table; ValueError (the model's `none`) for a number
    that is no FieldDescriptorProtoType -/
theorem src_field_type (fuel : Nat) (self : Py.Plg.Self) :
    FieldCompiler.field_type fuel self
      = (match lookupN? self.proto_obj.type fieldTypeStr with
         | some s => .ok s
         | none => .raise .value) := field_type_eq fuel self

/-- `py_type` as written classifies the descriptor type as the model's `pyTypeOf`: scalar names from
    `scalarPyType`, `get_type_reference` on the type name for TYPE_MESSAGE / TYPE_ENUM, NotImplementedError otherwise -/
theorem src_py_type (fuel : Nat) (self : Py.Plg.Self) :
    FieldCompiler.py_type fuel self
      = pyTypeVia self.proto_obj.type (self.get_type_reference self.proto_obj.typeName) := py_type_eq fuel self

/-- `py_name` / `proto_name` as written: the field-naming function of compile/naming.py on the descriptor's name -/
theorem src_names (fuel : Nat) (self : Py.Plg.Self) :
    FieldCompiler.py_name fuel self = .ok (Naming.pythonizeFieldName self.proto_obj.name)
    ∧ FieldCompiler.proto_name fuel self = .ok self.proto_obj.name := py_name_eq fuel self

/-- `betterproto_field_args` as written, class by class: `wraps=` from `wrapsOf`, `optional=True` from
    `proto3_optional` (forced by the pydantic oneof class), `group=` the name of `oneof_decl[oneof_index]` for the two
    oneof classes (IndexError on a dangling index), the two stored type names for a map -/
theorem src_field_args (fuel : Nat) (self : Py.Plg.Self) :
    FieldCompiler.betterproto_field_args fuel self
        = .ok (argsOf none (wrapsOf self.proto_obj.typeName) self.proto_obj.proto3Optional none)
    ∧ OneOfFieldCompiler.betterproto_field_args fuel self
        = (match self.parent_proto_obj.oneofs[self.proto_obj.oneofIndex.getD 0]? with
           | some g => .ok (argsOf none (wrapsOf self.proto_obj.typeName) self.proto_obj.proto3Optional (some g))
           | none => .raise .key)
    ∧ PydanticOneOfFieldCompiler.betterproto_field_args fuel self
        = (match self.parent_proto_obj.oneofs[self.proto_obj.oneofIndex.getD 0]? with
           | some g => .ok (argsOf none (wrapsOf self.proto_obj.typeName) true (some g))
           | none => .raise .key)
    ∧ MapEntryCompiler.betterproto_field_args fuel self
        = .ok (argsOf (some (self.proto_k_type, self.proto_v_type)) none false none) :=
  ⟨field_args_eq fuel self, oneof_field_args_eq fuel self, pydantic_oneof_field_args_eq fuel self,
   map_field_args_eq fuel self⟩

/-- the subclasses as written: the oneof classes inherit every other property unchanged (pydantic: `optional` is
    True); the map class is never repeated / packed and its constructor is `map` -/
theorem src_subclasses (fuel : Nat) (self : Py.Plg.Self) :
    (OneOfFieldCompiler.field_wraps fuel self = FieldCompiler.field_wraps fuel self
      ∧ OneOfFieldCompiler.optional fuel self = FieldCompiler.optional fuel self
      ∧ OneOfFieldCompiler.repeated fuel self = FieldCompiler.repeated fuel self
      ∧ OneOfFieldCompiler.field_type fuel self = FieldCompiler.field_type fuel self
      ∧ OneOfFieldCompiler.py_type fuel self = FieldCompiler.py_type fuel self)
    ∧ (PydanticOneOfFieldCompiler.optional fuel self = .ok true
      ∧ PydanticOneOfFieldCompiler.field_wraps fuel self = FieldCompiler.field_wraps fuel self
      ∧ PydanticOneOfFieldCompiler.repeated fuel self = FieldCompiler.repeated fuel self
      ∧ PydanticOneOfFieldCompiler.field_type fuel self = FieldCompiler.field_type fuel self)
    ∧ (MapEntryCompiler.field_type fuel self = .ok "map".toList ∧ MapEntryCompiler.repeated fuel self = .ok false
      ∧ MapEntryCompiler.packed fuel self = .ok false) :=
  ⟨⟨rfl, rfl, rfl, rfl, rfl⟩, ⟨rfl, rfl, rfl, rfl⟩, ⟨rfl, rfl, rfl⟩⟩

/-- **a plain field against `compileField`**: when the model compiles `f` to `c` outside the map / oneof branches,
    the arguments and the constructor name of the source as written are those of `c` -/
theorem src_plain_field (fuel : Nat) (nm : Naming) (m : MsgP) (f : FieldP) (c : CField) (ref : Str → Res Str)
    (hm : getMapEntry f m = none) (ho : isOneof f = false) (hc : compileField nm m f = some c) :
    FieldCompiler.betterproto_field_args fuel (selfOf f m ref) = .ok (cfieldArgs c)
    ∧ FieldCompiler.field_type fuel (selfOf f m ref) = .ok c.ctor := plain_field_tie fuel nm m f c ref hm ho hc

/-- **a oneof member against `compileField`** (and its pydantic twin: the same with `optional=True`) -/
theorem src_oneof_field (fuel : Nat) (nm : Naming) (m : MsgP) (f : FieldP) (c : CField) (ref : Str → Res Str)
    (hm : getMapEntry f m = none) (ho : isOneof f = true) (hc : compileField nm m f = some c) :
    OneOfFieldCompiler.betterproto_field_args fuel (selfOf f m ref) = .ok (cfieldArgs c)
    ∧ OneOfFieldCompiler.field_type fuel (selfOf f m ref) = .ok c.ctor
    ∧ PydanticOneOfFieldCompiler.betterproto_field_args fuel (selfOf f m ref)
        = .ok (cfieldArgs { c with optional := true }) :=
  ⟨(oneof_field_tie fuel nm m f c ref hm ho hc).1, (oneof_field_tie fuel nm m f c ref hm ho hc).2,
   pydantic_oneof_field_tie fuel nm m f c ref hm ho hc⟩

/-- **a map field against `compileField`**, given that the object stores the type names of the entry's first two
    fields (what `__post_init__` computes with `get_map_entry`, tied above) -/
theorem src_map_field (fuel : Nat) (nm : Naming) (m e : MsgP) (f : FieldP) (c : CField) (self : Py.Plg.Self)
    (hm : getMapEntry f m = some e) (hc : compileField nm m f = some c)
    (hk : ∀ k v r, e.fields = k :: v :: r →
      Py.Plg.typeEnumName k.type = .ok self.proto_k_type ∧ Py.Plg.typeEnumName v.type = .ok self.proto_v_type) :
    MapEntryCompiler.betterproto_field_args fuel self = .ok (cfieldArgs c)
    ∧ MapEntryCompiler.field_type fuel self = .ok c.ctor := map_field_tie fuel nm m e f c self hm hc hk

/-- `annotation` as written is the typing compiler's rendering of the model's `annOf` (list for a repeated label,
    Optional for proto3_optional, bare otherwise), whatever text the inner type gets; a map's is `dict` of the two
    stored types -/
theorem src_annotation (fuel : Nat) (self : Py.Plg.Self) (tc : Py.Plg.TC) (ρ : PyT → Str) (py : PyT)
    (hpy : FieldCompiler.py_type fuel self = .ok (ρ py)) (hb : self.use_builtins = false) :
    FieldCompiler.annotation fuel self tc = renderAnn fuel tc ρ (annOf self.proto_obj py)
    ∧ MapEntryCompiler.annotation fuel self tc = TypingCompiler.dict fuel tc self.py_k_type self.py_v_type :=
  ⟨annotation_is_annOf fuel self tc ρ py hpy hb, map_annotation_eq fuel self tc⟩

/-- `get_field_string` as written (its text): the line of `CField`'s doc comment, assembled from name,
    annotation, constructor name, number and arguments -/
theorem src_get_field_string (fuel : Nat) (self : Py.Plg.Self) (tc tc' : Py.Plg.TC) (indent : Int) (a ctor : Str)
    (args : List Str) (ha : FieldCompiler.annotation fuel self tc = .ok (a, tc'))
    (hargs : FieldCompiler.betterproto_field_args fuel self = .ok args)
    (hct : FieldCompiler.field_type fuel self = .ok ctor) :
    FieldCompiler.get_field_string fuel self tc indent
      = .ok (lineOf (Naming.pythonizeFieldName self.proto_obj.name) a ctor self.proto_obj.number args, tc') :=
  get_field_string_eq fuel self tc tc' indent a ctor args ha hargs hct

/-! ### corollaries about the plugin as written, through the tie -/

/-- **a field is compiled as a map exactly when its type is the map-entry message nested in its own parent with
    that exact name**: `is_map` as written answers True iff the field is a repeated message field and some nested
    message of the parent has `map_entry` set and is named exactly like the last segment of the field's type name
    (no lower-casing, no suffix match) -/
theorem src_map_iff_exact_entry (fuel : Nat) (f : FieldP) (m : MsgP) :
    is_map fuel f (.descriptor m) = .ok true
      ↔ (f.type = typeMessage ∧ f.label = Label.repeated)
        ∧ ∃ e ∈ m.nested, e.mapEntry = true ∧ e.name = lastSeg f.typeName := by
  rw [src_is_map]
  unfold isMap getMapEntry
  constructor
  · intro h
    injection h with h
    split at h
    · rename_i hc
      refine ⟨hc, ?_⟩
      cases hf : m.nested.find? (fun n => n.mapEntry && decide (n.name = lastSeg f.typeName)) with
      | none => rw [hf] at h; cases h
      | some e =>
        obtain ⟨h1, h2⟩ := find?_some_mem hf
        simp only [Bool.and_eq_true, decide_eq_true_eq] at h2
        exact ⟨e, h1, h2.1, h2.2⟩
    · cases h
  · rintro ⟨hc, e, he, h1, h2⟩
    rw [if_pos hc]
    congr 1
    rw [List.find?_isSome]
    exact ⟨e, he, by simp [h1, h2]⟩

/-- … and, for a message protoc accepts (`validMsg`) outside the residual D31 region (`mapRefsLocal`), the entry
    `get_map_entry` as written returns is the schema's: the `map_entry` message nested in the field's own message
    whose FULL name is the field's type (through `getMapEntry_eq_spec` of C03) -/
theorem src_map_entry_is_schema_partial (fuel : Nat) (full : Name) (m : MsgP) (f : FieldP)
    (hv : validMsg full m = true) (hl : mapRefsLocal full m = true) (hf : f ∈ m.fields) :
    get_map_entry fuel f (.descriptor m) = .ok (specMapEntry full m f) := by
  rw [src_get_map_entry, getMapEntry_eq_spec hv hl hf]

/-- **a oneof member carries its group, a proto3-optional field does not.**  For a field whose `oneof_index` is set
    to a declared oneof `g`: when it is not `proto3_optional`, `is_oneof` as written is True and the arguments of
    `OneOfFieldCompiler` as written end in `group="g"` — the group the schema says (`specGroup`); when it is
    `proto3_optional` (the synthetic oneof of an `optional` field), `is_oneof` as written is False, the
    `FieldCompiler` arguments carry `optional=True` and no group, and the schema says no group either -/
theorem src_oneof_group_vs_proto3_optional (fuel : Nat) (m : MsgP) (f : FieldP) (i : Nat) (g : Name) (ref : Str → Res Str)
    (hi : f.oneofIndex = some i) (hg : m.oneofs[i]? = some g) :
    (f.proto3Optional = false →
        is_oneof fuel f = .ok true
        ∧ OneOfFieldCompiler.betterproto_field_args fuel (selfOf f m ref)
            = .ok (argsOf none (wrapsOf f.typeName) false (some g))
        ∧ specGroup m f = some (some g))
    ∧ (f.proto3Optional = true →
        is_oneof fuel f = .ok false
        ∧ FieldCompiler.betterproto_field_args fuel (selfOf f m ref) = .ok (argsOf none (wrapsOf f.typeName) true none)
        ∧ specGroup m f = some none) := by
  constructor
  · intro hp
    refine ⟨?_, ?_, ?_⟩
    · rw [src_is_oneof]; unfold isOneof; rw [hp, hi]; rfl
    · rw [(src_field_args fuel (selfOf f m ref)).2.1]
      show (match m.oneofs[f.oneofIndex.getD 0]? with | some g => _ | none => _) = _
      rw [hi]; simp only [Option.getD_some]; rw [hg]
      show Res.ok (argsOf none (wrapsOf f.typeName) f.proto3Optional (some g)) = _
      rw [hp]
    · unfold specGroup; rw [hi]; simp only [hp, Bool.false_eq_true, if_false, hg, Option.map_some]
  · intro hp
    refine ⟨?_, ?_, ?_⟩
    · rw [src_is_oneof]; unfold isOneof; rw [hp]; rfl
    · rw [(src_field_args fuel (selfOf f m ref)).1]
      show Res.ok (argsOf none (wrapsOf f.typeName) f.proto3Optional none) = _
      rw [hp]
    · unfold specGroup; rw [hi]; simp only [hp, if_true]

/-- **the arguments as written read back as the schema says** (`field_faithful_partial` through the tie): for
    every field of a message protoc accepts, outside the excluded regions of C03, that the classification as written
    does not take for a map, the model compiles it to a `c` whose evaluation shows exactly the schema's field
    (`specOf`), and the class the parser picks by `is_oneof` as written produces exactly `c`'s arguments and
    constructor name -/
theorem src_field_args_faithful_partial (fuel : Nat) (nm : Naming) (full : Name) (m : MsgP) (f : FieldP)
    (ref : Str → Res Str)
    (hv : validMsg full m = true) (hl : mapRefsLocal full m = true) (hw : noWrapperMapValue m = true)
    (hf : f ∈ m.fields) (hmap : is_map fuel f (.descriptor m) = .ok false) :
    ∃ c s, specOf full m f = some s ∧ (readBack c).map observe = some s
      ∧ (is_oneof fuel f = .ok false →
          FieldCompiler.betterproto_field_args fuel (selfOf f m ref) = .ok (cfieldArgs c)
          ∧ FieldCompiler.field_type fuel (selfOf f m ref) = .ok c.ctor)
      ∧ (is_oneof fuel f = .ok true →
          OneOfFieldCompiler.betterproto_field_args fuel (selfOf f m ref) = .ok (cfieldArgs c)
          ∧ OneOfFieldCompiler.field_type fuel (selfOf f m ref) = .ok c.ctor) := by
  obtain ⟨c, s, hc, _, hs, hr⟩ := field_faithful_partial nm full m f hv hl hw hf
  have hm : getMapEntry f m = none := by
    rw [src_is_map] at hmap
    injection hmap with hmap
    unfold isMap at hmap
    cases h : getMapEntry f m with
    | none => rfl
    | some e => rw [h] at hmap; cases hmap
  refine ⟨c, s, hs, hr, ?_, ?_⟩
  · intro ho
    rw [src_is_oneof] at ho; injection ho with ho
    exact src_plain_field fuel nm m f c ref hm ho hc
  · intro ho
    rw [src_is_oneof] at ho; injection ho with ho
    exact ⟨(src_oneof_field fuel nm m f c ref hm ho hc).1, (src_oneof_field fuel nm m f c ref hm ho hc).2.1⟩

/-! ### non-vacuity: the translated source run on concrete descriptors (the verbatim strings) -/

example : is_map 0 (mapF "a_b" 1 ".p.M.ABEntry") (.descriptor d08) = .ok true
    ∧ (get_map_entry 0 (mapF "a_b" 1 ".p.M.ABEntry") (.descriptor d08)).bind (fun e => .ok (e.map MsgP.name))
        = .ok (some (ch "ABEntry")) := by decide
example : is_map 0 (mapF "ab" 2 ".p.M.AbEntry") .compiler = .ok false := by decide
example : FieldCompiler.field_wraps 0 (selfOf { name := ch "w", number := 6, label := .optional, type := 11, typeName := ch ".google.protobuf.UInt64Value" } demo (fun _ => .ok [])) = .ok (some (ch "betterproto.TYPE_UINT64")) := by
  decide
example : FieldCompiler.field_wraps 0 (selfOf { name := ch "w", number := 6, label := .optional, type := 11, typeName := ch ".google.protobuf.EnumValue" } demo (fun _ => .ok [])) = .ok none := by decide
example : (FieldCompiler.get_field_string 0 (selfOf { name := ch "opt", number := 3, label := .optional, type := 13, oneofIndex := some 1, proto3Optional := true } demo (fun _ => .ok [])) (.direct []) 4).bind (fun r => .ok r.1)
    = .ok (ch "opt: Optional[int] = betterproto.uint32_field(3, optional=True)") := by decide
example : (OneOfFieldCompiler.get_field_string 0 (selfOf { name := ch "b", number := 5, label := .optional, type := 11, typeName := ch ".google.protobuf.Timestamp", oneofIndex := some 0 } demo (fun _ => .ok (ch "datetime"))) (.direct []) 4).bind
      (fun r => .ok r.1)
    = .ok (ch "b: datetime = betterproto.message_field(5, group=\"choice\")") := by decide
example : (PydanticOneOfFieldCompiler.get_field_string 0 (selfOf { name := ch "a", number := 4, label := .optional, type := 12, oneofIndex := some 0 } demo (fun _ => .ok [])) (.noTyping310 []) 4).bind (fun r => .ok r.1)
    = .ok (ch "a: \"bytes | None\" = betterproto.bytes_field(4, optional=True, group=\"choice\")") := by decide
example : FieldCompiler.field_type 0 (selfOf { name := ch "x", number := 1, label := .optional, type := 19 } demo
    (fun _ => .ok [])) = .raise .value := by decide

#print axioms src_get_map_entry
#print axioms src_is_map
#print axioms src_is_map_of_compiler
#print axioms src_is_oneof
#print axioms src_field_wraps
#print axioms src_flags
#print axioms src_packed_table
#print axioms src_field_type
#print axioms src_py_type
#print axioms src_names
#print axioms src_field_args
#print axioms src_subclasses
#print axioms src_plain_field
#print axioms src_oneof_field
#print axioms src_map_field
#print axioms src_annotation
#print axioms src_get_field_string
#print axioms src_map_iff_exact_entry
#print axioms src_map_entry_is_schema_partial
#print axioms src_oneof_group_vs_proto3_optional
#print axioms src_field_args_faithful_partial

end Bp.C03
