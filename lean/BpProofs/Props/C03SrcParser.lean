import BpProofs.SrcTieParser
import BpProofs.Props.C03Src
/-
  C03 (touching C13 / C18), tied to the SOURCE: the traversal and request processing of the protoc plugin —
  `traverse` / `_traverse`, `read_protobuf_type` (+ `_make_one_of_field_compiler`), `read_protobuf_service` and
  `generate_code` of src/betterproto/plugin/parser.py, as regenerated from the Python AST of the working tree on every
  run (harness/extract_srcparser.py → BpProofs/Gen/SrcParser.lean, namespace `Bp.Src.Parser`).

  * `traverse` as written IS the model's flattening (`Plugin.traverse`, the `flatten` of BpModel/Plugin.lean): every
    message and enum of the file, nested ones included, once, in the model's order, under the model's flattened name,
    each with the source-code-info path descriptor.proto prescribes (`pFile`).
  * `read_protobuf_type` as written constructs nothing for a map-entry message, and for every other message one
    MessageCompiler plus, per field, the field compiler class the MODEL's classification picks (`clsOf`: `isMap`,
    `isOneof`, the pydantic flag — the same `is_map` / `is_oneof` as written that `Props/C03Src.lean` ties), i.e. the
    class whose properties `src_plain_field` / `src_oneof_field` / `src_map_field` tie to `compileField`.
  * `generate_code` and the C03 sentence about the source as written: Props/C03SrcParserGen.lean.

  Fuel: `traverse` is recursive; every statement holds for every fuel above the nesting depth of the messages
  (`depthMsgs`), i.e. the recursion as written terminates and returns this.

  Not translated (validated by the correspondence run only): the constructors' `__post_init__` (registration is taken
  as the meaning of a construction, exceptions raised inside are not modelled), `MessageCompiler.py_name`,
  `outputfile_compiler` (Jinja template), comments.  Trusted: BpProofs/PyPrelude*.lean (PyPreludeParser.lean for
  generators, descriptor and compiler objects, dict, pathlib, sets) and the translator.
-/
namespace Bp.C03
open Bp Bp.Py Bp.Py.Prs Bp.Importing Bp.Plugin Bp.Src.Parser Bp.SrcTieParser

/-! ### `traverse` -/

/-- **`traverse` as written = the model's flattening.**  For every file and every fuel above its nesting depth the
    generator terminates, and the list of the `(item, path)` pairs it yields is `pFile`: item by item the model's
    `Plugin.traverse` — every top-level enum, then every top-level message followed by its enums and then its nested
    messages, recursively, each under the flattened name `_Outer_Inner` — as the objects they are when yielded
    (`toD`: own name replaced, nested names not yet), each with its path (`[5, i]` / `[4, i]`, then `…, 4, j` for a
    nested enum and `…, 3, j` for a nested message). -/
theorem src_traverse (fuel : Nat) (fd : FileD) (h : depthMsgs fd.messages < fuel) :
    Src.Parser.traverse fuel fd = .ok (pFile fd)
      ∧ (pFile fd).map Prod.fst = (Plugin.traverse (toFileP fd)).map toD :=
  ⟨traverse_eq fuel fd h, pFile_fst fd⟩

/-- **every message and enum exactly once.**  The yielded objects that are not synthetic map entries are, in order,
    exactly the types of the schema file at every nesting depth (`allTypes`: one entry per message / enum, by its
    nesting path), each under its flattened name and with its kind. -/
theorem src_traverse_all_types (fuel : Nat) (fd : FileD) (h : depthMsgs fd.messages < fuel) :
    ∃ ys, Src.Parser.traverse fuel fd = .ok ys
      ∧ (ys.map Prod.fst).filterMap dKey = (allTypes (toFileP fd)).map typeKey := by
  refine ⟨_, traverse_eq fuel fd h, ?_⟩
  rw [pFile_fst, ← traverse_key, List.filterMap_map]
  congr 1
  funext it
  exact dKey_toD it

/-! ### `read_protobuf_type`, `read_protobuf_service` -/

/-- **`read_protobuf_type` as written** never raises and registers exactly `readLog` with the OutputTemplate -/
theorem src_read_type_dispatch (fuel : Nat) (item : DItem) (path : List Int) (src : FileD) (t : OutTpl) :
    read_protobuf_type fuel item path src t = .ok (addBuilt t (readLog t.pydantic_dataclasses (item, path))) :=
  read_protobuf_type_eq fuel item path src t

/-- a map-entry message produces no class: nothing is constructed, whatever its name -/
theorem src_map_entry_skipped (fuel : Nat) (m : MsgP) (path : List Int) (src : FileD) (t : OutTpl)
    (h : m.mapEntry = true) : read_protobuf_type fuel (.msg m) path src t = .ok t := by
  rw [read_protobuf_type_eq]; simp [readLog, h, addBuilt_nil]

/-- a message that is no map entry — also one that is merely NAMED `FooEntry` — gets one MessageCompiler and one field
    compiler per field, in declaration order, at `path + [2, index]`; an enum gets one EnumDefinitionCompiler -/
theorem src_message_and_enum_constructed (fuel : Nat) (path : List Int) (src : FileD) (t : OutTpl) :
    (∀ m : MsgP, m.mapEntry = false →
      read_protobuf_type fuel (.msg m) path src t
        = .ok (addBuilt t (.message ⟨m, path⟩ :: fieldsLog t.pydantic_dataclasses ⟨m, path⟩ 0 m.fields)))
    ∧ (∀ e : EnumP, read_protobuf_type fuel (.enum e) path src t = .ok (addBuilt t [.enum e path])) := by
  refine ⟨fun m h => ?_, fun e => ?_⟩
  · rw [read_protobuf_type_eq]; simp [readLog, h]
  · rw [read_protobuf_type_eq]; rfl

/-- **the field compiler class chosen = the classification as written.**  `clsOf` (what `fieldsLog` records for each
    field) is MapEntryCompiler exactly when `is_map(field, item)` as written answers True, otherwise a oneof class
    exactly when `is_oneof(field)` as written answers True — the pydantic one exactly under the pydantic flag —,
    otherwise FieldCompiler. -/
theorem src_dispatch_is_classification (fuel : Nat) (pyd : Bool) (m : MsgP) (f : FieldP) :
    (clsOf pyd m f = .MapEntryCompiler ↔ Src.Models.is_map fuel f (.descriptor m) = .ok true)
    ∧ (clsOf pyd m f = .OneOfFieldCompiler ↔
        Src.Models.is_map fuel f (.descriptor m) = .ok false ∧ Src.Models.is_oneof fuel f = .ok true ∧ pyd = false)
    ∧ (clsOf pyd m f = .PydanticOneOfFieldCompiler ↔
        Src.Models.is_map fuel f (.descriptor m) = .ok false ∧ Src.Models.is_oneof fuel f = .ok true ∧ pyd = true)
    ∧ (clsOf pyd m f = .FieldCompiler ↔
        Src.Models.is_map fuel f (.descriptor m) = .ok false ∧ Src.Models.is_oneof fuel f = .ok false) := by
  rw [src_is_map, src_is_oneof]
  unfold clsOf
  cases isMap f m <;> cases isOneof f <;> cases pyd <;> simp

/-- **… and it is the class whose properties are tied to `compileField`.**  Whenever the model compiles field `f` of
    message `m` to the line `c`: if the parser as written constructs a FieldCompiler, the arguments and constructor
    name of FieldCompiler as written are those of `c`; if it constructs a OneOfFieldCompiler, likewise; a
    PydanticOneOfFieldCompiler: those of `c` with `optional=True`; a MapEntryCompiler exactly when the model takes the
    map branch (`getMapEntry` finds the entry; `src_map_field` then gives the arguments). -/
theorem src_dispatch_field_ties (fuel : Nat) (nm : Naming) (pyd : Bool) (m : MsgP) (f : FieldP) (c : CField)
    (ref : Str → Res Str) (hc : compileField nm m f = some c) :
    (clsOf pyd m f = .FieldCompiler →
        Src.Models.FieldCompiler.betterproto_field_args fuel (SrcTiePlugin.selfOf f m ref) = .ok (SrcTiePlugin.cfieldArgs c)
        ∧ Src.Models.FieldCompiler.field_type fuel (SrcTiePlugin.selfOf f m ref) = .ok c.ctor)
    ∧ (clsOf pyd m f = .OneOfFieldCompiler →
        Src.Models.OneOfFieldCompiler.betterproto_field_args fuel (SrcTiePlugin.selfOf f m ref) = .ok (SrcTiePlugin.cfieldArgs c)
        ∧ Src.Models.OneOfFieldCompiler.field_type fuel (SrcTiePlugin.selfOf f m ref) = .ok c.ctor)
    ∧ (clsOf pyd m f = .PydanticOneOfFieldCompiler →
        Src.Models.PydanticOneOfFieldCompiler.betterproto_field_args fuel (SrcTiePlugin.selfOf f m ref)
          = .ok (SrcTiePlugin.cfieldArgs { c with optional := true }))
    ∧ (clsOf pyd m f = .MapEntryCompiler ↔ ∃ e, getMapEntry f m = some e) := by
  have hmap : isMap f m = false → getMapEntry f m = none := by
    intro h
    unfold isMap at h
    cases hg : getMapEntry f m with
    | none => rfl
    | some e => rw [hg] at h; cases h
  refine ⟨?_, ?_, ?_, ?_⟩
  · intro h
    have : isMap f m = false ∧ isOneof f = false := by
      unfold clsOf at h
      cases h1 : isMap f m <;> cases h2 : isOneof f <;> cases pyd <;> simp [h1, h2] at h ⊢
    exact src_plain_field fuel nm m f c ref (hmap this.1) this.2 hc
  · intro h
    have : isMap f m = false ∧ isOneof f = true := by
      unfold clsOf at h
      cases h1 : isMap f m <;> cases h2 : isOneof f <;> cases pyd <;> simp [h1, h2] at h ⊢
    have := src_oneof_field fuel nm m f c ref (hmap this.1) this.2 hc
    exact ⟨this.1, this.2.1⟩
  · intro h
    have : isMap f m = false ∧ isOneof f = true := by
      unfold clsOf at h
      cases h1 : isMap f m <;> cases h2 : isOneof f <;> cases pyd <;> simp [h1, h2] at h ⊢
    exact (src_oneof_field fuel nm m f c ref (hmap this.1) this.2 hc).2.2
  · unfold clsOf isMap
    cases hg : getMapEntry f m with
    | none => cases isOneof f <;> cases pyd <;> simp
    | some e => simp

/-- **`read_protobuf_service` as written** registers one ServiceCompiler at `[6, index]` and one ServiceMethodCompiler
    per method at `[6, index, 2, j]` -/
theorem src_read_service (fuel : Nat) (src : FileD) (s : SvcD) (index : Int) (t : OutTpl) :
    read_protobuf_service fuel src s index t = .ok (addBuilt t (svcLog s index)) :=
  read_protobuf_service_eq fuel src s index t

/-! ### non-vacuity: the translated source run on a nested schema (the verbatim strings) -/

section examples
/-- `message Outer { message Inner { message Deep {} enum E { A = 0; } } map<string,int32> tags = 1;
    oneof ch { int32 a = 2; string b = 3; } optional int32 o = 4; Inner i = 5; }  enum Top { T0 = 0; }`
    plus a real message NAMED like a map entry: `message TagsEntry {}` -/
def exOuter : MsgP := .mk (ch "Outer")
  [mapF "tags" 1 ".p.q.Outer.TagsEntry",
   { name := ch "a", number := 2, label := .optional, type := 5, oneofIndex := some 0 },
   { name := ch "b", number := 3, label := .optional, type := 9, oneofIndex := some 0 },
   { name := ch "o", number := 4, label := .optional, type := 5, oneofIndex := some 1, proto3Optional := true },
   { name := ch "i", number := 5, label := .optional, type := 11, typeName := ch ".p.q.Outer.Inner" }]
  [.mk (ch "Inner") [] [.mk (ch "Deep") [] [] [] [] false] [{ name := ch "E", values := [(ch "A", 0)] }] [] false,
   entry "TagsEntry" 9 5]
  [] [ch "ch", ch "_o"] false
def exFile : FileD :=
  { name := ch "a.proto", package := ch "p.q", messages := [exOuter, .mk (ch "TagsEntry") [] [] [] [] false],
    enums := [{ name := ch "Top", values := [(ch "T0", 0)] }],
    services := [{ name := ch "Svc", method := [{ name := ch "Do" }, { name := ch "Undo" }] }] }
def exFile2 : FileD := { name := ch "b.proto", package := ch "p.q", messages := [.mk (ch "Other") [] [] [] [] false], enums := [] }
def exGoogle : FileD :=
  { name := ch "google/protobuf/timestamp.proto", package := ch "google.protobuf",
    messages := [.mk (ch "Timestamp") [] [] [] [] false], enums := [] }
def exRoot : FileD := { name := ch "r.proto", package := [], messages := [.mk (ch "R") [] [] [] [] false], enums := [] }

/-- the nesting depth of the example is 3: fuel 4 is enough, and the hypothesis of `src_traverse` holds -/
example : depthMsgs exFile.messages = 3 := by decide

/-- what `traverse` as written yields: flattened names and paths, nested ones included, in order -/
example : (Src.Parser.traverse 4 exFile).bind (fun ys => .ok (ys.map fun y => (itemName y.1, y.2)))
    = .ok [(ch "_Top", [5, 0]), (ch "_Outer", [4, 0]), (ch "_Outer_Inner", [4, 0, 3, 0]),
           (ch "_Outer_Inner_E", [4, 0, 3, 0, 4, 0]), (ch "_Outer_Inner_Deep", [4, 0, 3, 0, 3, 0]),
           (ch "_Outer_TagsEntry", [4, 0, 3, 1]), (ch "_TagsEntry", [4, 1])] := by decide

/-- with fuel equal to the depth the recursion as written has not finished -/
example : (Src.Parser.traverse 3 exFile).bind (fun ys => .ok ys.length) = .diverge := by decide

/-- which compiler objects `read_protobuf_type` as written constructs for `Outer` (pydantic off / on) -/
example : (read_protobuf_type 0 (.msg exOuter) [4, 0] exFile (newOutputTemplate exFile)).bind
      (fun t => .ok (t.built.map fun b => match b with
        | .message c => (none, c.proto_obj.name, c.path)
        | .field cls _ f p => (some cls, f.name, p)
        | _ => (none, [], [])))
    = .ok [(none, ch "Outer", [4, 0]),
           (some FieldCls.MapEntryCompiler, ch "tags", [4, 0, 2, 0]),
           (some FieldCls.OneOfFieldCompiler, ch "a", [4, 0, 2, 1]),
           (some FieldCls.OneOfFieldCompiler, ch "b", [4, 0, 2, 2]),
           (some FieldCls.FieldCompiler, ch "o", [4, 0, 2, 3]),
           (some FieldCls.FieldCompiler, ch "i", [4, 0, 2, 4])] := by decide

example : (read_protobuf_type 0 (.msg exOuter) [4, 0] exFile { newOutputTemplate exFile with pydantic_dataclasses := true }).bind
      (fun t => .ok (t.built.filterMap fun b => match b with
        | .field cls _ f _ => some (decide (cls = .PydanticOneOfFieldCompiler), f.name)
        | _ => none))
    = .ok [(false, ch "tags"), (true, ch "a"), (true, ch "b"), (false, ch "o"), (false, ch "i")] := by decide

/-- the synthetic entry is skipped, the real message named `TagsEntry` is not -/
example : (read_protobuf_type 0 (.msg (entry "TagsEntry" 9 5)) [4, 0, 3, 1] exFile (newOutputTemplate exFile)).bind
      (fun t => .ok t.built.length) = .ok 0
    ∧ (read_protobuf_type 0 (.msg (.mk (ch "_TagsEntry") [] [] [] [] false)) [4, 1] exFile (newOutputTemplate exFile)).bind
      (fun t => .ok t.built.length) = .ok 1 := by decide

end examples

#print axioms src_traverse
#print axioms src_traverse_all_types
#print axioms src_read_type_dispatch
#print axioms src_map_entry_skipped
#print axioms src_message_and_enum_constructed
#print axioms src_dispatch_is_classification
#print axioms src_dispatch_field_ties
#print axioms src_read_service

end Bp.C03
