import BpProofs.SrcTieParserOut
import BpProofs.Props.C03SrcParser
/-
  C03 (touching C13 / C18), tied to the SOURCE, continued: `generate_code` of src/betterproto/plugin/parser.py as
  regenerated from the Python AST of the working tree on every run (harness/extract_srcparser.py →
  BpProofs/Gen/SrcParser.lean).

  * `generate_code` as written returns `genResponse`: one module per distinct package, named by the package's
    segments + `__init__.py`, holding ALL files of that package; which option selects what; the `__init__.py` files.
  * The C03 sentence "each message and enum of the schema (including nested ones) is represented by exactly one class",
    about the source as written: the message / enum compiler objects registered with the module of a package are, in
    order, exactly the types of all files of that package (`allTypes`), and they are the classes of the model's
    `compilePackage` (the subject of `classes_are_all_types` / `one_class_per_type_partial`).

  Fuel, what is not translated, what is trusted: see Props/C03SrcParser.lean.
-/
namespace Bp.C03
open Bp Bp.Py Bp.Py.Prs Bp.Importing Bp.Plugin Bp.Src.Parser Bp.SrcTieParser

/-! ### `generate_code` -/

/-- **`generate_code` as written returns `genResponse`**, for every request whose files nest less deeply than the fuel
    and whose parameter names at most one `typing.` option: `supported_features` is FEATURE_PROTO3_OPTIONAL; the files
    are one module per output package and then the `__init__.py` files. -/
theorem src_generate_code (fuel : Nat) (ex : PyPath → Bool) (req : Request)
    (hfuel : ∀ f ∈ req.proto_file, depthMsgs f.messages < fuel)
    (hto : (typingOpts (optsOf req.parameter)).length ≤ 1) :
    generate_code fuel ex req = .ok (genResponse ex req) := generate_code_eq fuel ex req hfuel hto

/-- … and with two or more `typing.` options (`typing.direct,typing.310`) it raises ValueError -/
theorem src_generate_code_two_typing_options (fuel : Nat) (ex : PyPath → Bool) (req : Request)
    (hne : req.proto_file ≠ []) (hto : 1 < (typingOpts (optsOf req.parameter)).length) :
    generate_code fuel ex req = .raise .value := generate_code_raises fuel ex req hne hto

/-- **one module per package.**  The files of the response that carry content are, in order, those of the DISTINCT
    packages of the request (first occurrence; the key is the package, not the file) whose `output` flag is on, each
    named `str(Path(*package.split("."), "__init__.py"))` and rendering the OutputTemplate `moduleOf` of that package -/
theorem src_output_modules (ex : PyPath → Bool) (req : Request) :
    (genResponse ex req).file.filterMap (fun f => f.content.map fun t => (f.name, t))
      = ((firstOcc (req.proto_file.map (·.package))).filter
            (fun k => (moduleOf (optsOf req.parameter) req.proto_file k).output)).map
          (fun k => (pathStr (pkgPath k), moduleOf (optsOf req.parameter) req.proto_file k))
    ∧ (firstOcc (req.proto_file.map (·.package))).Nodup
    ∧ ∀ k, k ∈ firstOcc (req.proto_file.map (·.package)) ↔ ∃ f ∈ req.proto_file, f.package = k := by
  refine ⟨?_, firstOcc_nodup _, fun k => ?_⟩
  · unfold genResponse genOutputs
    rw [genModules_eq]
    simp only [List.filterMap_append, List.filterMap_map, List.filter_map, Function.comp_def, moduleFile, initFile,
      Option.map_some, Option.map_none]
    simp
  · rw [mem_firstOcc]; simp

/-- **all files of one package land in the same module, and only they.**  The module of package `k` holds as
    `input_files` exactly the files of the request whose package is `k`, in request order; the objects registered
    with it are the compiler objects of the types of all those files, file by file, and then those of their services. -/
theorem src_module_contents (opts : List Str) (files : List FileD) (k : Str) :
    (moduleOf opts files k).input_files = files.filter (fun f => decide (f.package = k))
    ∧ (∀ f, f ∈ (moduleOf opts files k).input_files ↔ f ∈ files ∧ f.package = k)
    ∧ (moduleOf opts files k).built
        = (filesOf files k).flatMap (typesLog (moduleOf opts files k).pydantic_dataclasses)
          ++ (filesOf files k).flatMap servicesLog := by
  refine ⟨rfl, fun f => ?_, moduleOf_built opts files k⟩
  show f ∈ files.filter (fun f => decide (f.package = k)) ↔ _
  simp

/-- **the path of a module is made of the package's segments** (for a package name protoc accepts: empty, or
    dot-separated non-empty segments): `a.b.c` ↦ `a/b/c/__init__.py`, no package ↦ `__init__.py`; and two such packages
    with the same path are the same package -/
theorem src_module_path (k : Str) (h : validPkg k = true) :
    pkgPath k = (if k.isEmpty then [] else splitOn '.' k) ++ ["__init__.py".toList]
    ∧ ∀ k', validPkg k' = true → pkgPath k = pkgPath k' → k = k' :=
  ⟨pkgPath_valid k h, fun k' h' e => pkgPath_injective k k' h h' e⟩

/-- **which option selects what** (C18).  The module of package `k` is written unless `k` is `google.protobuf` and
    `INCLUDE_GOOGLE` is not among the options; it uses pydantic dataclasses — and therefore
    PydanticOneOfFieldCompiler for its oneof members — exactly when `pydantic_dataclasses` is among them; its typing
    compiler is a fresh TypingImportTypingCompiler for `typing.root`, a fresh NoTyping310TypingCompiler for `typing.310`,
    and a fresh DirectImportTypingCompiler for `typing.direct`, for no typing option, AND for an unknown word
    (`typing.foo` is silently the default). -/
theorem src_option_flags (opts : List Str) (files : List FileD) (k : Str) :
    (moduleOf opts files k).output
        = !(decide (k = "google.protobuf".toList) && !decide ("INCLUDE_GOOGLE".toList ∈ opts))
    ∧ (moduleOf opts files k).pydantic_dataclasses = decide ("pydantic_dataclasses".toList ∈ opts)
    ∧ (moduleOf opts files k).typing_compiler
        = (if typingOpt opts = "root".toList then .typingImport false
           else if typingOpt opts = "310".toList then .noTyping310 []
           else .direct []) := by
  refine ⟨rfl, rfl, ?_⟩
  show setTC opts (.direct []) = _
  unfold setTC
  by_cases h1 : typingOpt opts = "direct".toList
  · have h2 : ¬ typingOpt opts = "root".toList := by rw [h1]; decide
    have h3 : ¬ typingOpt opts = "310".toList := by rw [h1]; decide
    rw [if_neg h2, if_neg h3, decide_eq_true h1]; rfl
  · rw [decide_eq_false h1]
    by_cases h2 : typingOpt opts = "root".toList
    · rw [if_pos h2, decide_eq_true h2]; rfl
    · rw [if_neg h2, decide_eq_false h2]
      by_cases h3 : typingOpt opts = "310".toList
      · rw [if_pos h3, decide_eq_true h3]; rfl
      · rw [if_neg h3, decide_eq_false h3]; rfl

/-- **the `__init__.py` files of the intermediate directories** (C13): a path is added as an empty file exactly when
    it is `<d>/__init__.py` for a directory `d` above some output file, `exists()` says it does not exist — NOTE: the
    code asks this of the plugin's working directory, not of the output directory —, and it is no output file itself -/
theorem src_init_files (ex : PyPath → Bool) (req : Request) (p : PyPath) :
    (∃ f ∈ (genResponse ex req).file, f.content = none ∧ f.name = pathStr p
        ∧ p ∈ initFiles ex (genPaths (optsOf req.parameter) req.proto_file))
      ↔ ((∃ path ∈ genPaths (optsOf req.parameter) req.proto_file, ∃ d ∈ pathParents path,
            p = pathJoin d "__init__.py".toList ∧ ex p = false)
          ∧ p ∉ genPaths (optsOf req.parameter) req.proto_file) := by
  rw [← mem_initFiles]
  constructor
  · rintro ⟨_, _, _, _, h⟩; exact h
  · intro h
    refine ⟨initFile p, ?_, rfl, rfl, h⟩
    unfold genResponse
    simp only [List.mem_append, List.mem_map]
    exact Or.inr ⟨p, h, rfl⟩

/-! ### the C03 sentence about the source as written -/

/-- **each message and enum of the schema (including nested ones) is represented by exactly one class — registration.**
    The MessageCompiler / EnumDefinitionCompiler objects that `generate_code` as written registers with the module of
    package `k` (one class is rendered per such object) are, in order, exactly the types of all files of that package:
    every message (synthetic map entries excepted) and every enum at every nesting depth, ONCE, as a message / enum
    object, under its flattened name — for every request and every option set. -/
theorem src_one_object_per_type (opts : List Str) (files : List FileD) (k : Str) :
    (moduleOf opts files k).built.filterMap builtKey
      = (filesOf files k).flatMap fun fd => (allTypes (toFileP fd)).map typeKey := moduleOf_keys opts files k

/-- … and these objects are the classes of the MODEL's `compilePackage` (the subject of `classes_are_all_types`):
    whenever the model compiles the files of package `k`, its classes are, in order, named by the class-naming function
    applied to the registered objects' flattened names, with their kinds -/
theorem src_module_classes_are_model (nm : Naming) (opts : List Str) (files : List FileD) (k : Str) (cs : List Class)
    (h : compilePackage nm ((filesOf files k).map toFileP) = some cs) :
    cs.map (fun c => (c.pyName, c.kind))
      = ((moduleOf opts files k).built.filterMap builtKey).map fun p => (nm.cls p.1, p.2) := by
  rw [compilePackage_keys nm _ cs h, moduleOf_keys, List.flatMap_map, List.map_flatMap]
  simp only [List.map_map, Function.comp_def, typeKey]

/-- **exactly one class per type**, under the guard that no two types of the package get the same class name (the D28
    region of `one_class_per_type_partial`, here across ALL files of the package): as many classes as types, pairwise
    distinct names, and every message / enum of every file of the package has its class -/
theorem src_exactly_one_class_partial (nm : Naming) (opts : List Str) (files : List FileD) (k : Str) (cs : List Class)
    (h : compilePackage nm ((filesOf files k).map toFileP) = some cs)
    (hg : (((moduleOf opts files k).built.filterMap builtKey).map fun p => nm.cls p.1).Nodup) :
    cs.length = ((filesOf files k).flatMap fun fd => allTypes (toFileP fd)).length
    ∧ (cs.map Class.pyName).Nodup
    ∧ ∀ fd ∈ filesOf files k, ∀ t ∈ allTypes (toFileP fd), ∃ c ∈ cs, c.pyName = nm.cls (flatName t.1) ∧ c.kind = t.2 := by
  have hk := src_module_classes_are_model nm opts files k cs h
  have hnames : cs.map Class.pyName = ((moduleOf opts files k).built.filterMap builtKey).map fun p => nm.cls p.1 := by
    have := congrArg (List.map Prod.fst) hk
    simpa [List.map_map, Function.comp_def] using this
  refine ⟨?_, hnames ▸ hg, ?_⟩
  · have := congrArg List.length hk
    rw [moduleOf_keys] at this
    simpa [List.length_flatMap] using this
  · intro fd hfd t ht
    have : (nm.cls (flatName t.1), t.2) ∈ cs.map (fun c => (c.pyName, c.kind)) := by
      rw [hk, moduleOf_keys]
      refine List.mem_map.2 ⟨typeKey t, ?_, rfl⟩
      exact List.mem_flatMap.2 ⟨fd, hfd, List.mem_map.2 ⟨t, ht, rfl⟩⟩
    obtain ⟨c, hc, he⟩ := List.mem_map.1 this
    exact ⟨c, hc, (Prod.mk.inj he).1, (Prod.mk.inj he).2⟩

/-! ### non-vacuity: `generate_code` as written run on the nested schema of Props/C03SrcParser.lean -/

section examples

/-- `generate_code` as written on a request with two files of one package, a google.protobuf file and a file without
    package: the response files (the working directory holds no `__init__.py`) … -/
example : (generate_code 4 (fun _ => false) ⟨[], [exFile, exGoogle, exFile2, exRoot]⟩).bind
      (fun r => .ok (r.supported_features, r.file.map fun f => (f.name, f.content.isSome)))
    = .ok (some (ch "FEATURE_PROTO3_OPTIONAL"),
           [(ch "p/q/__init__.py", true), (ch "__init__.py", true), (ch "p/__init__.py", false)]) := by decide

/-- … which files went into which module, and the classes registered with it -/
example : (generate_code 4 (fun _ => false) ⟨[], [exFile, exGoogle, exFile2, exRoot]⟩).bind
      (fun r => .ok (r.file.filterMap fun f => f.content.map fun t =>
        (f.name, t.input_files.map (·.name), t.built.filterMap builtKey |>.map (·.1))))
    = .ok [(ch "p/q/__init__.py", [ch "a.proto", ch "b.proto"],
             [ch "_Top", ch "_Outer", ch "_Outer_Inner", ch "_Outer_Inner_E", ch "_Outer_Inner_Deep", ch "_TagsEntry",
              ch "_Other"]),
           (ch "__init__.py", [ch "r.proto"], [ch "_R"])] := by decide

/-- with INCLUDE_GOOGLE the google.protobuf module is written too; with `typing.310,pydantic_dataclasses` the flags -/
example : (generate_code 4 (fun _ => false) ⟨ch "INCLUDE_GOOGLE", [exGoogle]⟩).bind
      (fun r => .ok (r.file.map (·.name)))
    = .ok [ch "google/protobuf/__init__.py", ch "google/__init__.py", ch "__init__.py"] := by decide

example : (generate_code 4 (fun _ => false) ⟨ch "typing.310,pydantic_dataclasses", [exFile2]⟩).bind
      (fun r => .ok (r.file.filterMap fun f => f.content.map fun t => (t.pydantic_dataclasses, t.typing_compiler)))
    = .ok [(true, .noTyping310 [])] := by decide

example : generate_code 4 (fun _ => false) ⟨ch "typing.310,typing.root", [exFile2]⟩ = .raise .value := by
  apply src_generate_code_two_typing_options <;> decide

/-- the services: one ServiceCompiler, two ServiceMethodCompilers, after all the types -/
example : (generate_code 4 (fun _ => false) ⟨[], [exFile]⟩).bind
      (fun r => .ok (r.file.filterMap fun f => f.content.map fun t => t.built.filterMap fun b => match b with
        | .service c => some (c.proto_obj.name, c.path)
        | .method _ m p => some (m.name, p)
        | _ => none))
    = .ok [[(ch "Svc", [6, 0]), (ch "Do", [6, 0, 2, 0]), (ch "Undo", [6, 0, 2, 1])]] := by decide

/-- an `__init__.py` that exists under the working directory is not added (`exists_` answering True for `p/__init__.py`) -/
example : (generate_code 4 (fun p => decide (p = [ch "p", ch "__init__.py"])) ⟨[], [exFile]⟩).bind
      (fun r => .ok (r.file.map (·.name))) = .ok [ch "p/q/__init__.py", ch "__init__.py"] := by decide

/-- the hypotheses of `src_generate_code` and `src_exactly_one_class_partial` hold on the example -/
example : (∀ f ∈ [exFile, exGoogle, exFile2, exRoot], depthMsgs f.messages < 4)
    ∧ (typingOpts (optsOf (ch "typing.310,pydantic_dataclasses"))).length ≤ 1
    ∧ validPkg (ch "p.q") = true ∧ validPkg [] = true := by decide

example : (((moduleOf [] [exFile, exGoogle, exFile2, exRoot] (ch "p.q")).built.filterMap builtKey).map
    fun p => idNaming.cls p.1).Nodup := by decide

end examples

#print axioms src_generate_code
#print axioms src_generate_code_two_typing_options
#print axioms src_output_modules
#print axioms src_module_contents
#print axioms src_module_path
#print axioms src_option_flags
#print axioms src_init_files
#print axioms src_one_object_per_type
#print axioms src_module_classes_are_model
#print axioms src_exactly_one_class_partial

end Bp.C03
