import BpProofs.SrcTieTemplate
/-
  C03 ("… each message and enum of the schema … is represented by exactly one class.  Each class has exactly one field
  per schema field … and each enum member carries the schema's number"), the part the TEMPLATE decides, tied to the
  source of src/betterproto/templates/template.py.j2 / header.py.j2 as regenerated on every run
  (harness/extract_srctemplate.py → BpProofs/Gen/SrcTemplate.lean; `Tpl.template_eq`).  For ALL contexts:
    * one `class` block per element of `output_file.enums` and per element of `output_file.messages`, in list order,
      enums first (`src_one_class_each`) — that these lists hold one entry per (nested) type of the schema is
      parser.py's part (Props/C03SrcParser*.lean);
    * a message class: decorator, `class <py_name>(betterproto.Message):`, then exactly one line per element of
      `message.fields`, the text `field.get_field_string()` returns (models.py's part: Props/C03Src.lean), `pass` iff
      there is no field (`src_message_class`);
    * an enum class: `class <py_name>(betterproto.Enum):` and one line `<name> = <value>` per entry, the value being
      `str()` of the entry's int (`src_enum_class`);
    * `__all__` of the header names every enum, every message and the Stub and Base of every service (`src_all`).
  Trusted: BpProofs/PyPreludeTemplate.lean, Jinja's lexer / parser, the translator.
-/
namespace Bp.C03
open Bp Bp.Tpl

/-- **one class per enum and per message of the output file**, enums first, each list in order; the Stubs follow -/
theorem src_one_class_each (c : OutputFile) :
    ∃ rest : List Piece, Src.render_template c
      = c.enums.flatMap (enumClass c.pydantic_dataclasses)
        ++ c.messages.flatMap (messageClass c.pydantic_dataclasses) ++ rest := by
  refine ⟨stubsBlock c ++ nl ++ importsEndLines c.imports_end ++ nl ++ basesBlock c, ?_⟩
  rw [template_eq]
  have : enumsBlock c = c.enums.flatMap (enumClass c.pydantic_dataclasses) := by
    unfold enumsBlock
    cases h : c.enums <;> simp
  simp only [template, List.append_eq, List.append_assoc, this, messagesBlock]

/-- **a message class**: one line per field — `field.get_field_string()` indented by four spaces, followed by the
    field's comment if it has one —, in the order of `message.fields`; `pass` iff the message has no field -/
theorem src_message_class (pydantic : Bool) (m : Message) :
    ∃ tail : List Piece, messageClass pydantic m
      = dataclassDecorator pydantic
        ++ [Piece.lit "class ", Piece.expr "output_file.messages[].py_name" m.py_name, Piece.lit "(betterproto.Message):\n"]
        ++ optComment "output_file.messages[].comment" m.comment
        ++ m.fields.flatMap (fun f =>
            [Piece.lit "    ", Piece.expr "output_file.messages[].fields[].get_field_string()" f.get_field_string, Piece.lit "\n"]
            ++ optComment "output_file.messages[].fields[].comment" f.comment)
        ++ (if m.fields = [] then [Piece.lit "    pass\n"] else []) ++ tail := by
  refine ⟨nl ++ postInit m ++ nl ++ oneofValidator pydantic m ++ nl, ?_⟩
  have : passIfEmpty m.fields = (if m.fields = [] then [Piece.lit "    pass\n"] else []) := by
    unfold passIfEmpty
    cases m.fields <;> simp
  simp only [messageClass, List.append_eq, List.append_assoc, this]
  rfl

/-- **an enum class**: one line `<name> = <value>` per entry, in order, the value written as the decimal `str()` of
    the entry's number (negative numbers with their sign) -/
theorem src_enum_class (pydantic : Bool) (e : EnumDef) :
    ∃ tail : List Piece, enumClass pydantic e
      = [Piece.lit "class ", Piece.expr "output_file.enums[].py_name" e.py_name, Piece.lit "(betterproto.Enum):\n"]
        ++ optComment "output_file.enums[].comment" e.comment
        ++ e.entries.flatMap (fun x =>
            [Piece.lit "    ", Piece.expr "output_file.enums[].entries[].name" x.name, Piece.lit " = ",
             Piece.expr "output_file.enums[].entries[].value" (jstrInt x.value), Piece.lit "\n"] ++ optComment "output_file.enums[].entries[].comment" x.comment)
        ++ tail := by
  refine ⟨nl ++ enumPydanticSchema pydantic ++ nl, ?_⟩
  simp only [enumClass, List.append_eq, List.append_assoc]
  rfl

/-- `str()` of the numbers: sign and decimal digits -/
example : String.ofList (jstrInt (-3)) = "-3" ∧ String.ofList (jstrInt 0) = "0" ∧ String.ofList (jstrInt 2147483647) = "2147483647" := by
  decide

/-- **`__all__`** names every enum, every message, and `<Service>Stub`, `<Service>Base` of every service -/
theorem src_all (c : OutputFile) :
    ∃ before after : List Piece, Src.render_header c
      = before
        ++ c.enums.flatMap (fun e => [Piece.lit "\"", Piece.expr "output_file.enums[].py_name" e.py_name, Piece.lit "\","])
        ++ c.messages.flatMap (fun m => [Piece.lit "\"", Piece.expr "output_file.messages[].py_name" m.py_name, Piece.lit "\","])
        ++ c.services.flatMap (fun s => [Piece.lit "\"", Piece.expr "output_file.services[].py_name" s.py_name,
             Piece.lit "Stub\",\n        \"", Piece.expr "output_file.services[].py_name" s.py_name, Piece.lit "Base\","])
        ++ Piece.lit ")\n\n" :: after := by
  refine ⟨preamble c, moduleImportLines c.python_module_imports ++ nl ++ dataclassImport c.pydantic_dataclasses ++ nl
    ++ datetimeImport c.datetime_imports ++ typingImportLines c.typing_compiler ++ nl
    ++ pydanticImport c.pydantic_imports ++ betterprotoImport ++ grpcImports c.services ++ nl
    ++ typeCheckingBlock c.imports_type_checking_only, ?_⟩
  rw [header_eq]
  simp only [header, allEnums, allMessages, allServices, List.append_eq, List.append_assoc, List.cons_append,
    List.nil_append]

end Bp.C03
