import BpModel.All
import BpModel.Json
import BpProofs.Json
import BpProofs.JsonRtMain
import BpProofs.JsonRtInst
import BpProofs.JsonText
import BpProofs.JsonGuard
/-
  C04 — JSON / dict round trip.

  FULL STATEMENT (false of the code: D15, D17; true after the D27 repair for optional members):
    ∀ S E c casing m,  WellTyped S c m →
      isJson (toDict S E casing false m) ∧
      ∀ form ∈ {class, instance}, ∀ path ∈ {dict, JSON text},
        ∃ m', fromDict form S E c (path (toDict S E casing false m)) = .ok m' ∧ m' ≈ m ∧ dumpVal S m' = dumpVal S m

  WHAT IS PROVED HERE (stated plainly):
    * key level (`key_maps_back`): under the decidable guard `namesOk` the key written for a
      field is read back as that field, for both casings (C19 proves the guard's content);
    * field level (`field_roundtrip_*`): for every field kind in `JsonOk` that is not a nested
      message — singular / proto3-optional / oneof / repeated scalars of all 15 scalar types
      (64-bit ints as decimal strings, bytes as base64, enums by name or number, non-finite
      floats), Timestamp / Duration singular and repeated, wrappers, `map<string, scalar>` —
      what `to_dict` writes is not null and `_from_dict_init` decodes it to exactly the
      original attribute value;
    * message level, FLAT messages (`from_dict_init_flat_partial`, `from_dict_flat_partial`):
      `_from_dict_init(to_dict(m))` returns exactly the written fields with their original
      values, in field order, so both forms of `from_dict` are the constructor call /
      the `setattr` sequence with those arguments;
    * concrete messages (`roundtrip_*_example`, by evaluation of the model): equality of the
      re-encoded bytes and of the observable state after the round trip, including
      default-valued oneof / optional members and nested / repeated / map messages;
    * the excluded regions: one `decide`d negation witness each (D15, D17 ×6, NaN payload),
      replayed on the real code by harness/props/c04.py.
    * message level, ALL messages in the guarded domain, flat AND nested (`roundtrip_flat`,
      `roundtrip_nested`; proofs in BpProofs/JsonEqv.lean, JsonRt.lean, JsonRtSlot.lean,
      JsonRtMain.lean): the class form `Cls.from_dict(m.to_dict(casing))` returns a message `m'` with
      `m ≈ m'` and `bytes(m') == bytes(m)`.  `≈` is `DEqv` (BpProofs/JsonEqv.lean): same class, same
      `_unknown_fields`, same oneof selection, `_serialized_on_wire` True at every nesting level,
      and slot by slot either related values (identical leaves, item-wise lists / dict values,
      sub-messages recursively; a singular sub-message only if it is present or differs from
      its default) or — where `m` holds a default-valued, unselected, non-optional,
      not-on-the-wire value — PLACEHOLDER, which reads as that default (`deqv_state`;
      `deqv_dumpVal`: `≈` implies equal bytes for typed values).  The induction is structural
      over `Val` / `List Val`: singular / proto3-optional / oneof-member sub-messages, repeated
      messages, `map<string, Msg>`.
      GUARDS, all decidable.  On the SCHEMA: `jsonOk S E cs` (D15 `namesOk`; D17 `fieldJsonOk`:
      string map keys only, no bytes / Timestamp / Duration map values, no BytesValue wrapper, no
      repeated wrappers; `enumOk`) and `groupsOk S` (a field's oneof index is a group of its
      class).  On the VALUE: `wellTyped' S m` (BpProofs/JsonGuard.lean: typed slots, no unknown
      fields, canonical NaN, unselected members unset) and `selOk S m` (a oneof selection names a
      member of that group: the part of the oneof invariant `wellTyped'` does not state; without
      it `to_dict` writes nothing for the group and the rebuilt message has no selection:
      `selOk_needed_witness`).  `wellTyped'` is the guard `wellTyped` of BpModel/Json.lean (the one
      the driver evaluates, `WF WT`) WITHOUT its clause "an absent plain sub-message equals a
      fresh one": `wellTyped S m = true → wellTyped' S m = true` (`wellTyped_weaken`), and
      `roundtrip_all_driver_guard` restates the theorem under the old guard;
    * the instance form and the JSON-text path (`roundtrip_all`, the FULL STATEMENT above under the
      guards): `to_dict(m)` is JSON serialisable (`isJson`), `json.loads(json.dumps(d)) == d`
      (`jsonText d = some d`: string keys only, no raw leaf, canonical NaN), and all four
      combinations {class form, instance form on a fresh instance} × {dict, JSON text} return the
      SAME message `m'` with `m ≈ m'` and equal bytes (BpProofs/JsonRtInst.lean, JsonText.lean);
    * the region the dropped clause used to exclude, found while proving the above: a plain (not
      optional, not oneof) sub-message that is NOT `_serialized_on_wire` but differs from `Sub()`
      — reached by `m.a.b.x = 1` (only `b` is marked) or `m.a.items.append(1)` — was encoded by
      `bytes(m)` (test `value != default`) but left out by `to_dict` (test
      `value._serialized_on_wire`): the dict round trip lost it.  Replayed on the real code, a
      genuine defect (D46), repaired there (`to_dict` now uses the test `dump` uses); the model
      follows the repaired code and the theorems now COVER the region: `≈` relates such a
      sub-message to its rebuilt, marked counterpart (`keptSlot`, BpProofs/JsonEqv.lean), and the
      bytes agree because a typed sub-message that differs from `Sub()` has a non-empty body
      (`dumpSlots_nonempty`, BpProofs/JsonNonEmpty.lean; the induction goes through chains of
      unmarked sub-messages).  `unmarked_submessage_fixed` instantiates `roundtrip_all` on the two
      former counterexamples and on a two-level chain (`m.a.b.items.append(1)`).  Consequently
      `deqv_bytes` (`≈` implies equal bytes) now has the hypotheses `jsonOk` (only "map fields are
      singular" is used) and `wellTyped'`: without typing, an unmarked sub-message could hold
      non-default content that encodes to nothing (`None` in a plain int field:
      `deqv_bytes_needs_typing_witness`).
  NOT PROVED: nothing of the full statement inside the guards.  Outside: the instance form on a
  NON-fresh instance (merge semantics) is not stated; `include_default_values=True` is not covered.
-/
namespace Bp.C04
open Bp

/-- **key casing in and out**: the key `to_dict` emits for field `i` (camelCase or snake_case,
    `rstrip("_")`) is mapped by `safe_snake_case` back to field `i` -/
theorem key_maps_back (cs : KeyCase) (fs : List FieldD) (h : namesOk cs fs = true) (i : Nat) (f : FieldD)
    (hf : fs[i]? = some f) : fieldOfJKey fs (jsonKey cs f.name) = .ok (some (i, f)) :=
  namesOk_lookup cs fs h i f hf

/-- **singular scalars of every type** (plain, proto3-optional, oneof member — `sel`): int64 /
    uint64 / fixed64 … go through `str` / `int`, bytes through base64, enums through their
    member name (or the number when undefined), NaN / ±Infinity through the three strings -/
theorem field_roundtrip_scalar (S : Schema) (E : Enums) (cs : KeyCase) (f : FieldD) (sel : Bool) (v : Val)
    (hm : (f.ty == .message) = false) (hmap : (f.ty == .map) = false) (hr : f.repeated = false)
    (he : enumOk (enumOf E f) = true) (hv : valOfType f.ty v = true) :
    ∀ j, toDictSlot S E cs false f false sel v = some j → j ≠ .null ∧ decodeField S E f j = .ok v :=
  fieldRT_scalar S E cs f sel v hm hmap hr he hv

/-- **repeated scalars of every type** -/
theorem field_roundtrip_repeated (S : Schema) (E : Enums) (cs : KeyCase) (f : FieldD) (sel : Bool) (xs : List Val)
    (hm : (f.ty == .message) = false) (hmap : (f.ty == .map) = false) (hr : f.repeated = true)
    (he : enumOk (enumOf E f) = true) (hx : ∀ x ∈ xs, valOfType f.ty x = true) :
    ∀ j, toDictSlot S E cs false f false sel (.list xs) = some j → j ≠ .null ∧ decodeField S E f j = .ok (.list xs) :=
  fieldRT_repeated_scalar S E cs f sel xs hm hmap hr he hx

/-- **Timestamp / Duration** (singular; the RFC 3339 / decimal-seconds texts are abstract: C15) -/
theorem field_roundtrip_wkt (S : Schema) (E : Enums) (cs : KeyCase) (f : FieldD) (sel : Bool) (v : Val)
    (hm : (f.ty == .message) = true) (hw : f.wraps = Option.none)
    (hv : (f.kind = .timestamp ∧ ∃ us, v = .ts us) ∨ (f.kind = .duration ∧ ∃ us, v = .dur us)) :
    ∀ j, toDictSlot S E cs false f false sel v = some j → j ≠ .null ∧ decodeField S E f j = .ok v :=
  fieldRT_wkt S E cs f sel v hm hw hv

/-- **wrappers** (every wrapped type but bytes — D17): the bare value passes through -/
theorem field_roundtrip_wrapper (S : Schema) (E : Enums) (cs : KeyCase) (f : FieldD) (sel : Bool) (v : Val) (w : PType)
    (hm : (f.ty == .message) = true) (hw : f.wraps = some w) (hb : w ≠ .bytes) (hv : valOfType w v = true) :
    ∀ j, toDictSlot S E cs false f false sel v = some j → j ≠ .null ∧ decodeField S E f j = .ok v :=
  fieldRT_wrapper S E cs f sel v w hm hw hb hv

/-- **`map<string, V>`**, V any scalar type but bytes -/
theorem field_roundtrip_map (S : Schema) (E : Enums) (cs : KeyCase) (f : FieldD) (sel : Bool) (ks vs : List Val)
    (hmap : f.ty = .map) (hv : (f.mapV == .message) = false)
    (hk : ∀ k ∈ ks, ∃ s, k = .str s) (hx : ∀ x ∈ vs, rawOk x = true) :
    ∀ j, toDictSlot S E cs false f false sel (.dict ks vs) = some j → j ≠ .null ∧ decodeField S E f j = .ok (.dict ks vs) :=
  fieldRT_map_scalar S E cs f sel ks vs hmap hv hk hx

/-- every field kind above at once, under the decidable slot guard -/
theorem field_roundtrip_flat (S : Schema) (E : Enums) (cs : KeyCase) (f : FieldD) (hid sel : Bool) (v : Val)
    (he : enumOk (enumOf E f) = true) (h : flatSlotOk S E cs f hid sel v = true) :
    ∀ j, toDictSlot S E cs false f hid sel v = some j → j ≠ .null ∧ decodeField S E f j = .ok v :=
  fieldRT_of_flat S E cs f hid sel v he h

/-- **flat messages: `_from_dict_init(to_dict(m))` is exactly the written fields with their
    original values** (any oneof state, any casing for which the names are invertible) -/
theorem from_dict_init_flat_partial (S : Schema) (E : Enums) (cs : KeyCase) (c : Nat) (slots : List Val)
    (ow : Bool) (unk : Bytes) (cur : List (Option Nat))
    (hn : namesOk cs (fieldsOf S c) = true) (he : ∀ f ∈ fieldsOf S c, enumOk (enumOf E f) = true)
    (hflat : flatSlots S E cs (fieldsOf S c) cur 0 slots = true) :
    fromDictInit S E c (toDict S E cs false (.msg c slots ow unk cur))
      = .ok (emitted S E cs (fieldsOf S c) cur 0 slots) := by
  rw [toDict]
  simp only [mkObj, fromDictInit]
  apply kv_roundtrip S E cs c cur hn slots 0
  intro k v f hv hf
  exact fieldRT_of_flat S E cs f _ _ v (he f (List.mem_of_getElem? hf))
    (flatSlots_get S E cs _ cur slots 0 hflat k v f hv hf)

/-- both forms of `from_dict` on `to_dict(m)`: the constructor call, resp. the `setattr`
    sequence on a fresh instance, with exactly the written fields -/
theorem from_dict_flat_partial (S : Schema) (E : Enums) (cs : KeyCase) (c : Nat) (slots : List Val)
    (ow : Bool) (unk : Bytes) (cur : List (Option Nat))
    (hn : namesOk cs (fieldsOf S c) = true) (he : ∀ f ∈ fieldsOf S c, enumOk (enumOf E f) = true)
    (hflat : flatSlots S E cs (fieldsOf S c) cur 0 slots = true) :
    fromDictC S E c (toDict S E cs false (.msg c slots ow unk cur))
        = .ok (fromDictCls S c (emitted S E cs (fieldsOf S c) cur 0 slots))
    ∧ fromDictI S E (fresh S c) (toDict S E cs false (.msg c slots ow unk cur))
        = stepOp S (fresh S c) (.fromDict (emitted S E cs (fieldsOf S c) cur 0 slots)) := by
  have h := from_dict_init_flat_partial S E cs c slots ow unk cur hn he hflat
  constructor
  · unfold fromDictC; rw [h]; rfl
  · unfold fromDictI; simp only [fresh, stateOf] at *; rw [h]; rfl

/-! ## concrete round trips (evaluation of the model; non-vacuity of the guards) -/

def E1 : Enums := [[⟨[90], [90], 0⟩, ⟨[79], [79], 1⟩, ⟨[65], [65], 1⟩]]   -- Z = 0, O = 1, A = 1 (alias)

/-- a oneof (int32 | string), a proto3-optional int64, a repeated enum, bytes, a double, a Timestamp -/
def S1 : Schema := [{ fields := [
    { name := "foo_bar", num := 1, ty := .int32, group := some 0 },
    { name := "http_status", num := 2, ty := .string, group := some 0 },
    { name := "big", num := 3, ty := .int64, optional := true },
    { name := "es", num := 4, ty := .enum, repeated := true },
    { name := "data", num := 5, ty := .bytes },
    { name := "x", num := 6, ty := .double },
    { name := "created_at", num := 7, ty := .message, kind := .timestamp }], nGroups := 1 }]

/-- oneof member set to its default "", optional int64 set to 0, undefined enum number 7, NaN -/
def m1 : Val := .msg 0 [.ph, .str [], .int 0, .list [.int 1, .int 7], .byt [1, 2], .f64 0x7ff8000000000000, .ts 1500000] true [] [some 1]

example : jsonOk S1 E1 .camel = true ∧ jsonOk S1 E1 .snake = true ∧ wellTyped S1 m1 = true := by decide
example : flatSlots S1 E1 .camel (fieldsOf S1 0) [some 1] 0 [.ph, .str [], .int 0, .list [.int 1, .int 7], .byt [1, 2], .f64 0x7ff8000000000000, .ts 1500000] = true := by decide
example : isJson (toDict S1 E1 .camel false m1) = true := by decide
/-- both casings, both forms: same bytes, and the default-valued oneof member stays selected -/
theorem roundtrip_flat_example :
    (fromDictC S1 E1 0 (toDict S1 E1 .camel false m1)).bind (dumpVal S1) = dumpVal S1 m1 ∧
    (fromDictC S1 E1 0 (toDict S1 E1 .snake false m1)).bind (dumpVal S1) = dumpVal S1 m1 ∧
    (fromDictI S1 E1 (fresh S1 0) (toDict S1 E1 .camel false m1)).bind (dumpVal S1) = dumpVal S1 m1 ∧
    fromDictC S1 E1 0 (toDict S1 E1 .camel false m1)
      = .ok (.msg 0 [.ph, .str [], .int 0, .list [.int 1, .int 7], .byt [1, 2], .f64 0x7ff8000000000000, .ts 1500000] true [] [some 1]) :=
  ⟨by decide, by decide, by decide, by rfl⟩

/-- nested, repeated and map messages, an optional sub-message set to its default (D27, repaired) -/
def S2 : Schema := [
  { fields := [{ name := "sub", num := 1, ty := .message, kind := .user 1 },
               { name := "opt_sub", num := 2, ty := .message, kind := .user 1, optional := true },
               { name := "subs", num := 3, ty := .message, kind := .user 1, repeated := true },
               { name := "by_name", num := 4, ty := .map, mapK := .string, mapV := .message, mapVKind := .user 1 }] },
  { fields := [{ name := "n", num := 1, ty := .sint64 }] }]
def sub (n : Int) : Val := .msg 1 [.int n] true [] []
def m2 : Val := .msg 0 [sub (-5), .msg 1 [.ph] false [] [], .list [sub 1, .msg 1 [.ph] false [] []], .dict [.str [107]] [sub 9]] true [] []

example : jsonOk S2 [] .camel = true ∧ wellTyped S2 m2 = true := by decide
theorem roundtrip_nested_example :
    (fromDictC S2 [] 0 (toDict S2 [] .camel false m2)).bind (dumpVal S2) = dumpVal S2 m2 ∧
    (fromDictI S2 [] (fresh S2 0) (toDict S2 [] .snake false m2)).bind (dumpVal S2) = dumpVal S2 m2 ∧
    (jsonText (toDict S2 [] .camel false m2)) = some (toDict S2 [] .camel false m2) ∧
    isJson (toDict S2 [] .camel false m2) = true :=
  ⟨by decide, by decide, by rfl, by decide⟩

/-! ## the excluded regions: negation witnesses (each replayed on the real code by the harness) -/

def one (f : FieldD) : Schema := [{ fields := [f] }]

def Sd15 : Schema := one { name := "address_line_1", num := 1, ty := .int32 }
/-- D15: the camelCase key of `address_line_1` is mapped to another field: the value is dropped -/
theorem d15_key_casing_witness :
    namesOk .camel (fieldsOf Sd15 0) = false ∧ namesOk .snake (fieldsOf Sd15 0) = true ∧
    fromDictC Sd15 [] 0 (toDict Sd15 [] .camel false (.msg 0 [.int 5] true [] [])) = .ok (.msg 0 [.ph] true [] []) ∧
    fromDictC Sd15 [] 0 (toDict Sd15 [] .snake false (.msg 0 [.int 5] true [] [])) = .ok (.msg 0 [.int 5] true [] []) :=
  ⟨by decide, by decide, by rfl, by rfl⟩

def SmapDur : Schema := one { name := "m", num := 1, ty := .map, mapK := .string, mapV := .message, mapVKind := .duration }
/-- D17: bytes / Timestamp / Duration map values and bytes wrappers are put into the dict as
    they are: `json.dumps` raises; `from_dict` raises on the Timestamp / Duration values -/
theorem d17_not_serialisable_witness :
    isJson (toDict (one { name := "m", num := 1, ty := .map, mapK := .string, mapV := .bytes }) [] .camel false
      (.msg 0 [.dict [.str [107]] [.byt [1]]] true [] [])) = false ∧
    isJson (toDict (one { name := "m", num := 1, ty := .map, mapK := .string, mapV := .message, mapVKind := .timestamp }) [] .camel false
      (.msg 0 [.dict [.str [107]] [.ts 5]] true [] [])) = false ∧
    isJson (toDict (one { name := "w", num := 1, ty := .message, wraps := some .bytes }) [] .camel false
      (.msg 0 [.byt [1]] true [] [])) = false ∧
    fromDictC SmapDur [] 0 (toDict SmapDur [] .camel false (.msg 0 [.dict [.str [107]] [.dur 5]] true [] [])) = .error .attr :=
  ⟨by decide, by decide, by decide, by rfl⟩

def SmapInt : Schema := one { name := "m", num := 1, ty := .map, mapK := .int32, mapV := .int32 }
def mMapInt : Val := .msg 0 [.dict [.int 1] [.int 2]] true [] []
/-- D17: an int (or bool) map key is a string after `json.dumps` / `json.loads` and is stored as
    a string: `bytes()` of the result raises, while the dict path is unaffected -/
theorem d17_map_key_witness :
    (fromDictC SmapInt [] 0 (toDict SmapInt [] .camel false mMapInt)).bind (dumpVal SmapInt) = dumpVal SmapInt mMapInt ∧
    (jsonText (toDict SmapInt [] .camel false mMapInt)).map (fromDictC SmapInt [] 0)
      = some (.ok (.msg 0 [.dict [.str [49]] [.int 2]] true [] [])) ∧
    dumpVal SmapInt (.msg 0 [.dict [.str [49]] [.int 2]] true [] []) = .error .type :=
  ⟨by decide, by rfl, by decide⟩

def Sdbl : Schema := one { name := "x", num := 1, ty := .double }
/-- JSON has one NaN: a NaN payload does not survive (not a betterproto matter; the value
    guard `wellTyped'` asks for the canonical NaN) -/
theorem nan_payload_witness :
    wellTyped' Sdbl (.msg 0 [.f64 0xfff8000000000001] true [] []) = false ∧
    fromDictC Sdbl [] 0 (toDict Sdbl [] .camel false (.msg 0 [.f64 0xfff8000000000001] true [] []))
      = .ok (.msg 0 [.f64 0x7ff8000000000000] true [] []) :=
  ⟨by decide, by rfl⟩

def Sots : Schema := one { name := "ots", num := 1, ty := .message, kind := .timestamp, optional := true }
/-- D27 (repaired): a proto3-optional Timestamp set to the epoch is written and read back -/
theorem d27_fixed_example :
    fromDictC Sots [] 0 (toDict Sots [] .camel false (.msg 0 [.ts 0] true [] [])) = .ok (.msg 0 [.ts 0] true [] []) ∧
    toDict Sots [] .camel false (.msg 0 [.ts 0] true [] []) = .obj [.str [111, 116, 115]] [.tsStr 0] :=
  ⟨by rfl, by rfl⟩

/-! ## the round trip for all (flat and nested) messages of the guarded domain -/

/-- what `m ≈ m'` (`DEqv`, BpProofs/JsonEqv.lean) says at the top level: same class,
    `_serialized_on_wire` set, same `_unknown_fields`, same oneof selection, slots related one by
    one (`SlotsDEqv`: related values, or default-valued-and-absent vs PLACEHOLDER) -/
theorem deqv_state (S : Schema) (c : Nat) (sl : List Val) (ow : Bool) (unk : Bytes) (cur : List (Option Nat)) (m' : Val)
    (h : DEqv S (.msg c sl ow unk cur) m') :
    ∃ sl', m' = .msg c sl' true unk cur ∧ SlotsDEqv S (fieldsOf S c) cur 0 sl sl' := by
  cases h with
  | atom _ ha => simp [dAtom] at ha
  | msg _ _ sl' _ _ _ hs => exact ⟨sl', rfl, hs⟩

/-- `≈` implies equal bytes, for a typed `m` (of the schema guard only "map fields are
    singular" is used).  Typing is needed since the D46 repair: `≈` now relates an UNMARKED
    sub-message that differs from `Sub()` to its marked counterpart, and these encode alike only
    if the body is non-empty, which typing guarantees (`dumpSlots_nonempty`). -/
theorem deqv_bytes (S : Schema) (E : Enums) (cs : KeyCase) (m m' : Val) (hjson : jsonOk S E cs = true)
    (hwt : wellTyped' S m = true) (h : DEqv S m m') : dumpVal S m' = dumpVal S m := by
  refine deqv_dumpVal S (fun c f hf => ?_) m m' hwt h
  obtain ⟨d, hd, _, hfd⟩ := fieldsOf_mem S c f hf
  unfold jsonOk at hjson
  simp only [Bool.and_eq_true, List.all_eq_true] at hjson
  exact (hjson.1 d hd).1 f hfd

def Styp : Schema := [
  { fields := [{ name := "a", num := 1, ty := .message, kind := .user 1 }] },
  { fields := [{ name := "x", num := 1, ty := .int32 }] }]
/-- why `deqv_bytes` asks for a typed value: an UNMARKED sub-message holding `None` in a plain
    `int32` slot (ill-typed; no operation of the library produces it) differs from `Sub()`, so `≈`
    relates it to its marked counterpart, but its body encodes to nothing: `dump` skips the
    unmarked one (`serialize_empty` False) and emits an empty record for the marked one -/
theorem deqv_bytes_needs_typing_witness :
    DEqv Styp (.msg 0 [.msg 1 [.none] false [] []] false [] []) (.msg 0 [.msg 1 [.none] true [] []] true [] []) ∧
    wellTyped' Styp (.msg 0 [.msg 1 [.none] false [] []] false [] []) = false ∧
    dumpVal Styp (.msg 0 [.msg 1 [.none] false [] []] false [] []) = .ok [] ∧
    dumpVal Styp (.msg 0 [.msg 1 [.none] true [] []] true [] []) = .ok [10, 0] := by
  refine ⟨?_, by decide, by decide, by decide⟩
  apply DEqv.msg
  refine SlotsDEqv.same _ _ _ { name := "a", num := 1, ty := .message, kind := .user 1 } _ _ _ _ (by rfl) ?_ (by decide)
    (SlotsDEqv.nil _ _ _)
  apply DEqv.msg
  exact SlotsDEqv.same _ _ _ { name := "x", num := 1, ty := .int32 } _ _ _ _ (by rfl) (DEqv.atom _ rfl) (by rfl)
    (SlotsDEqv.nil _ _ _)

/-- **C04, class form, nested messages** (message-typed singular / proto3-optional / oneof-member
    / repeated fields and `map<string, Msg>`, to any depth, recursive classes included):
    `Cls.from_dict(m.to_dict(casing))` returns a message equivalent to `m` that encodes to the
    same bytes.  Guards: see the header. -/
theorem roundtrip_nested (S : Schema) (E : Enums) (cs : KeyCase) (c : Nat) (sl : List Val) (ow : Bool) (unk : Bytes)
    (cur : List (Option Nat))
    (hjson : jsonOk S E cs = true) (hgroups : groupsOk S = true)
    (hwt : wellTyped' S (.msg c sl ow unk cur) = true) (hsel : selOk S (.msg c sl ow unk cur) = true) :
    ∃ m', fromDictC S E c (toDict S E cs false (.msg c sl ow unk cur)) = .ok m' ∧
      DEqv S (.msg c sl ow unk cur) m' ∧ dumpVal S m' = dumpVal S (.msg c sl ow unk cur) :=
  ⟨_, roundtrip_class S E cs ⟨hjson, hgroups⟩ c sl ow unk cur hwt hsel⟩

/-- **C04, class form, flat messages**: the special case in which no field is message-typed (the
    statement needs no flatness hypothesis: `flatSlots` of `from_dict_flat_partial` is implied by
    `wellTyped'` + `jsonOk` there).  The rebuilt message is explicit: `jrt` (BpProofs/JsonRt.lean). -/
theorem roundtrip_flat (S : Schema) (E : Enums) (cs : KeyCase) (c : Nat) (sl : List Val) (ow : Bool) (unk : Bytes)
    (cur : List (Option Nat))
    (hjson : jsonOk S E cs = true) (hgroups : groupsOk S = true)
    (hwt : wellTyped' S (.msg c sl ow unk cur) = true) (hsel : selOk S (.msg c sl ow unk cur) = true) :
    fromDictC S E c (toDict S E cs false (.msg c sl ow unk cur))
      = .ok (.msg c (jrtSlots S E cs (fieldsOf S c) cur 0 sl) true unk cur) ∧
    DEqv S (.msg c sl ow unk cur) (.msg c (jrtSlots S E cs (fieldsOf S c) cur 0 sl) true unk cur) ∧
    dumpVal S (.msg c (jrtSlots S E cs (fieldsOf S c) cur 0 sl) true unk cur) = dumpVal S (.msg c sl ow unk cur) := by
  have := roundtrip_class S E cs ⟨hjson, hgroups⟩ c sl ow unk cur hwt hsel
  rw [jrt_msg] at this
  exact this

/-! ### non-vacuity: a recursive class with a oneof, an optional sub-message, repeated and map messages -/

/-- `message Node { oneof kind { int32 leaf_val = 1; Node child = 2; } optional Node opt_child = 3;
    repeated Node kids = 4; map<string, Node> by_name = 5; string label = 6; }` -/
def S3 : Schema := [{ fields := [
    { name := "leaf_val", num := 1, ty := .int32, group := some 0 },
    { name := "child", num := 2, ty := .message, kind := .user 0, group := some 0 },
    { name := "opt_child", num := 3, ty := .message, kind := .user 0, optional := true },
    { name := "kids", num := 4, ty := .message, kind := .user 0, repeated := true },
    { name := "by_name", num := 5, ty := .map, mapK := .string, mapV := .message, mapVKind := .user 0 },
    { name := "label", num := 6, ty := .string }], nGroups := 1 }]
/-- `Node(leaf_val=n)`: for n = 0 a oneof member set to its default -/
def leafN (n : Int) : Val := .msg 0 [.int n, .ph, .none, .ph, .ph, .ph] true [] [some 0]
/-- `Node()` -/
def emptyN : Val := .msg 0 [.ph, .ph, .none, .ph, .ph, .ph] false [] [Option.none]
/-- `Node(child=Node(leaf_val=0), opt_child=Node(), kids=[Node(leaf_val=7), Node()],
    by_name={"k": Node(leaf_val=9)}, label="x")` -/
def m3 : Val :=
  .msg 0 [.ph, leafN 0, emptyN, .list [leafN 7, emptyN], .dict [.str [107]] [leafN 9], .str [120]] true [] [some 1]

/-- the final theorem instantiated on a concrete nested message: all guards hold (by evaluation),
    the bytes are real bytes (`dumpVal` succeeds), both casings -/
theorem roundtrip_nested_instance :
    (∃ m', fromDictC S3 [] 0 (toDict S3 [] .camel false m3) = .ok m' ∧ DEqv S3 m3 m' ∧ dumpVal S3 m' = dumpVal S3 m3) ∧
    (∃ m', fromDictC S3 [] 0 (toDict S3 [] .snake false m3) = .ok m' ∧ DEqv S3 m3 m' ∧ dumpVal S3 m' = dumpVal S3 m3) ∧
    (dumpVal S3 m3).isOk = true :=
  ⟨roundtrip_nested S3 [] .camel 0 _ _ _ _ (by decide) (by decide) (by decide) (by decide),
   roundtrip_nested S3 [] .snake 0 _ _ _ _ (by decide) (by decide) (by decide) (by decide), by decide⟩

/-- the rebuilt message, evaluated: the default-valued oneof member `leaf_val = 0` of the child stays
    selected, the optional default sub-message stays set, the empty repeated item and the map
    value are there, every nested message is `_serialized_on_wire` -/
theorem roundtrip_nested_instance_value :
    fromDictC S3 [] 0 (toDict S3 [] .camel false m3) =
      .ok (.msg 0 [.ph, leafN 0, .msg 0 [.ph, .ph, .none, .ph, .ph, .ph] true [] [Option.none],
            .list [leafN 7, .msg 0 [.ph, .ph, .none, .ph, .ph, .ph] true [] [Option.none]],
            .dict [.str [107]] [leafN 9], .str [120]] true [] [some 1]) := by rfl

/-- why `selOk` is a guard: a selection that names no member of the group (a state the
    constructor and `__setattr__` never produce) is `wellTyped'`, `to_dict` writes nothing for the
    group, and the rebuilt message has no selection: same bytes, different `which_one_of` -/
theorem selOk_needed_witness :
    wellTyped' S3 (.msg 0 [.ph, .ph, .none, .ph, .ph, .ph] true [] [some 5]) = true ∧
    selOk S3 (.msg 0 [.ph, .ph, .none, .ph, .ph, .ph] true [] [some 5]) = false ∧
    fromDictC S3 [] 0 (toDict S3 [] .camel false (.msg 0 [.ph, .ph, .none, .ph, .ph, .ph] true [] [some 5]))
      = .ok (.msg 0 [.ph, .ph, .none, .ph, .ph, .ph] true [] [Option.none]) :=
  ⟨by decide, by decide, by rfl⟩

/-! ## both forms, both paths -/

/-- **C04, the full statement under the guards**: `d = m.to_dict(casing)` is JSON serialisable,
    `json.loads(json.dumps(d))` is `d`, and `Cls.from_dict`, `Cls().from_dict`, `Cls.from_json`-style
    and `Cls().from_json`-style paths all return one and the same message `m'`, which is
    equivalent to `m` (`DEqv`) and encodes to the same bytes -/
theorem roundtrip_all (S : Schema) (E : Enums) (cs : KeyCase) (c : Nat) (sl : List Val) (ow : Bool) (unk : Bytes)
    (cur : List (Option Nat))
    (hjson : jsonOk S E cs = true) (hgroups : groupsOk S = true)
    (hwt : wellTyped' S (.msg c sl ow unk cur) = true) (hsel : selOk S (.msg c sl ow unk cur) = true) :
    isJson (toDict S E cs false (.msg c sl ow unk cur)) = true ∧
    jsonText (toDict S E cs false (.msg c sl ow unk cur)) = some (toDict S E cs false (.msg c sl ow unk cur)) ∧
    ∃ m', fromDictC S E c (toDict S E cs false (.msg c sl ow unk cur)) = .ok m' ∧
      fromDictI S E (fresh S c) (toDict S E cs false (.msg c sl ow unk cur)) = .ok m' ∧
      (jsonText (toDict S E cs false (.msg c sl ow unk cur))).map (fromDictC S E c) = some (.ok m') ∧
      (jsonText (toDict S E cs false (.msg c sl ow unk cur))).map (fromDictI S E (fresh S c)) = some (.ok m') ∧
      DEqv S (.msg c sl ow unk cur) m' ∧ dumpVal S m' = dumpVal S (.msg c sl ow unk cur) := by
  have hS : SchemaOk S E cs := ⟨hjson, hgroups⟩
  obtain ⟨t1, t2⟩ := toDict_text S E cs hS c sl ow unk cur hwt
  obtain ⟨a, b, d⟩ := roundtrip_class S E cs hS c sl ow unk cur hwt hsel
  have i := roundtrip_instance S E cs hS c sl ow unk cur hwt hsel
  refine ⟨t1, t2, _, a, i, ?_, ?_, b, d⟩
  · rw [t2, Option.map_some, a]
  · rw [t2, Option.map_some, i]

/-- `roundtrip_all` under the value guard the driver evaluates on harness inputs (`wellTyped`,
    BpModel/Json.lean: `WF WT`), which is stronger than `wellTyped'` -/
theorem roundtrip_all_driver_guard (S : Schema) (E : Enums) (cs : KeyCase) (c : Nat) (sl : List Val) (ow : Bool)
    (unk : Bytes) (cur : List (Option Nat))
    (hjson : jsonOk S E cs = true) (hgroups : groupsOk S = true)
    (hwt : wellTyped S (.msg c sl ow unk cur) = true) (hsel : selOk S (.msg c sl ow unk cur) = true) :
    isJson (toDict S E cs false (.msg c sl ow unk cur)) = true ∧
    jsonText (toDict S E cs false (.msg c sl ow unk cur)) = some (toDict S E cs false (.msg c sl ow unk cur)) ∧
    ∃ m', fromDictC S E c (toDict S E cs false (.msg c sl ow unk cur)) = .ok m' ∧
      fromDictI S E (fresh S c) (toDict S E cs false (.msg c sl ow unk cur)) = .ok m' ∧
      (jsonText (toDict S E cs false (.msg c sl ow unk cur))).map (fromDictC S E c) = some (.ok m') ∧
      (jsonText (toDict S E cs false (.msg c sl ow unk cur))).map (fromDictI S E (fresh S c)) = some (.ok m') ∧
      DEqv S (.msg c sl ow unk cur) m' ∧ dumpVal S m' = dumpVal S (.msg c sl ow unk cur) :=
  roundtrip_all S E cs c sl ow unk cur hjson hgroups (wellTyped_weaken S _ hwt) hsel

/-- `roundtrip_all` on the concrete nested message `m3` (recursive class, oneof, optional
    sub-message set to its default, repeated sub-messages, `map<string, Node>`) -/
theorem roundtrip_all_instance :
    isJson (toDict S3 [] .camel false m3) = true ∧
    ∃ m', fromDictC S3 [] 0 (toDict S3 [] .camel false m3) = .ok m' ∧
      fromDictI S3 [] (fresh S3 0) (toDict S3 [] .camel false m3) = .ok m' ∧
      (jsonText (toDict S3 [] .camel false m3)).map (fromDictI S3 [] (fresh S3 0)) = some (.ok m') ∧
      DEqv S3 m3 m' ∧ dumpVal S3 m' = dumpVal S3 m3 := by
  obtain ⟨t1, _, m', a, i, _, ji, b, d⟩ :=
    roundtrip_all S3 [] .camel 0 _ _ _ _ (by decide) (by decide) (show wellTyped' S3 m3 = true by decide) (by decide)
  exact ⟨t1, m', a, i, ji, b, d⟩

/-! ## sub-messages that are set but not marked (D46, repaired): inside the guards now -/

def Sdeep : Schema := [
  { fields := [{ name := "a", num := 1, ty := .message, kind := .user 1 }] },
  { fields := [{ name := "b", num := 1, ty := .message, kind := .user 2 },
               { name := "items", num := 2, ty := .int32, repeated := true }] },
  { fields := [{ name := "x", num := 1, ty := .int32 }] }]
/-- `m = Outer(); m.a.b.x = 1`: `b` is `_serialized_on_wire` (its `__setattr__` ran), `a` is not
    (it was only materialised by `getattr`) -/
def mDeep : Val := .msg 0 [.msg 1 [.msg 2 [.int 1] true [] [], .ph] false [] []] false [] []
/-- `m = Outer(); m.a.items.append(1)` -/
def mAppend : Val := .msg 0 [.msg 1 [.ph, .list [.int 1]] false [] []] false [] []

/-- `Outer.a : Mid`, `Mid.b : Inner`, `Inner.items : repeated int32` -/
def Schain : Schema := [
  { fields := [{ name := "a", num := 1, ty := .message, kind := .user 1 }] },
  { fields := [{ name := "b", num := 1, ty := .message, kind := .user 2 }] },
  { fields := [{ name := "items", num := 1, ty := .int32, repeated := true }] }]
/-- `m = Outer(); m.a.b.items.append(1)`: neither `a` nor `b` is marked; the only non-default
    content of `a` is the unmarked `b` -/
def mChain : Val := .msg 0 [.msg 1 [.msg 2 [.list [.int 1]] false [] []] false [] []] false [] []

/-- the full statement, as the existential the general theorem gives -/
def RoundTrips (S : Schema) (c : Nat) (m : Val) : Prop :=
  isJson (toDict S [] .camel false m) = true ∧
  jsonText (toDict S [] .camel false m) = some (toDict S [] .camel false m) ∧
  ∃ m', fromDictC S [] c (toDict S [] .camel false m) = .ok m' ∧
    fromDictI S [] (fresh S c) (toDict S [] .camel false m) = .ok m' ∧
    (jsonText (toDict S [] .camel false m)).map (fromDictC S [] c) = some (.ok m') ∧
    (jsonText (toDict S [] .camel false m)).map (fromDictI S [] (fresh S c)) = some (.ok m') ∧
    DEqv S m m' ∧ dumpVal S m' = dumpVal S m

/-- the two former counterexamples of D46 (and a chain of two unmarked sub-messages) are outside
    the OLD value guard `wellTyped` ("an absent plain sub-message equals a fresh one") and inside
    the new one: `roundtrip_all` applies — before the repair `bytes(m)` encoded such a sub-message
    (`value != default`) while `to_dict` left it out (`value._serialized_on_wire` is False) and the
    round trip lost it.  The bytes are real bytes (`dumpVal` succeeds, non-empty). -/
theorem unmarked_submessage_fixed :
    (wellTyped Sdeep mDeep = false ∧ wellTyped Sdeep mAppend = false ∧ wellTyped Schain mChain = false) ∧
    RoundTrips Sdeep 0 mDeep ∧ RoundTrips Sdeep 0 mAppend ∧ RoundTrips Schain 0 mChain ∧
    dumpVal Sdeep mDeep = .ok [10, 4, 10, 2, 8, 1] ∧
    dumpVal Sdeep mAppend = .ok [10, 3, 18, 1, 1] ∧
    dumpVal Schain mChain = .ok [10, 5, 10, 3, 10, 1, 1] :=
  ⟨⟨by decide, by decide, by decide⟩,
   roundtrip_all Sdeep [] .camel 0 _ _ _ _ (by decide) (by decide) (show wellTyped' Sdeep mDeep = true by decide) (by decide),
   roundtrip_all Sdeep [] .camel 0 _ _ _ _ (by decide) (by decide) (show wellTyped' Sdeep mAppend = true by decide) (by decide),
   roundtrip_all Schain [] .camel 0 _ _ _ _ (by decide) (by decide) (show wellTyped' Schain mChain = true by decide) (by decide),
   by decide, by decide, by decide⟩

/-- the rebuilt messages, evaluated: every level is marked, the content is there -/
theorem unmarked_submessage_fixed_values :
    fromDictC Sdeep [] 0 (toDict Sdeep [] .camel false mDeep)
      = .ok (.msg 0 [.msg 1 [.msg 2 [.int 1] true [] [], .ph] true [] []] true [] []) ∧
    fromDictC Sdeep [] 0 (toDict Sdeep [] .camel false mAppend)
      = .ok (.msg 0 [.msg 1 [.ph, .list [.int 1]] true [] []] true [] []) ∧
    fromDictC Schain [] 0 (toDict Schain [] .camel false mChain)
      = .ok (.msg 0 [.msg 1 [.msg 2 [.list [.int 1]] true [] []] true [] []] true [] []) :=
  ⟨by rfl, by rfl, by rfl⟩

end Bp.C04

#print axioms Bp.C04.roundtrip_all
#print axioms Bp.C04.roundtrip_all_driver_guard
#print axioms Bp.C04.unmarked_submessage_fixed_values
#print axioms Bp.wellTyped_weaken
#print axioms Bp.C04.roundtrip_all_instance
#print axioms Bp.C04.unmarked_submessage_fixed
#print axioms Bp.C04.roundtrip_nested
#print axioms Bp.C04.roundtrip_flat
#print axioms Bp.C04.roundtrip_nested_instance
#print axioms Bp.C04.deqv_bytes
#print axioms Bp.C04.deqv_bytes_needs_typing_witness
