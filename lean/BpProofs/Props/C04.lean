import BpModel.All
import BpModel.Json
import BpProofs.Json
/-
  C04 — JSON / dict round trip.

  FULL STATEMENT (false of the code: D15, D17; true after the D27 repair for optional members):
    ∀ S E c casing m,  WellTyped S c m →
      isJson (toDict S E casing false m) ∧
      ∀ form ∈ {class, instance}, ∀ path ∈ {dict, JSON text},
        ∃ m', fromDict form S E c (path (toDict S E casing false m)) = .ok m' ∧ m' ≈ m ∧ dumpVal S m' = dumpVal S m

  WHAT IS PROVED HERE (stated plainly):
    * key level (`key_maps_back`): under the decidable guard `namesOk` the key written for a
      field is read back as that field, for both casings (C19 proves the guard's content);
    * field level (`field_roundtrip_*`): for every field kind in `JsonOk` that is not a nested
      message — singular / proto3-optional / oneof / repeated scalars of all 15 scalar types
      (64-bit ints as decimal strings, bytes as base64, enums by name or number, non-finite
      floats), Timestamp / Duration singular and repeated, wrappers, `map<string, scalar>` —
      what `to_dict` writes is not null and `_from_dict_init` decodes it to exactly the
      original attribute value;
    * message level, FLAT messages (`from_dict_init_flat_partial`, `from_dict_flat_partial`):
      `_from_dict_init(to_dict(m))` returns exactly the written fields with their original
      values, in field order, so both forms of `from_dict` are the constructor call /
      the `setattr` sequence with those arguments;
    * concrete messages (`roundtrip_*_example`, by evaluation of the model): equality of the
      re-encoded bytes and of the observable state after the round trip, including
      default-valued oneof / optional members and nested / repeated / map messages;
    * the excluded regions: one `decide`d negation witness each (D15, D17 ×6, NaN payload),
      replayed on the real code by harness/props/c04.py.
  NOT PROVED in general: the step from "same constructor arguments" to `m' ≈ m ∧ same bytes`
  for all flat messages (it is evaluated on examples and checked on every generated case by
  the correspondence + oracle), and the induction over nested messages.
-/
namespace Bp.C04
open Bp

/-- **key casing in and out**: the key `to_dict` emits for field `i` (camelCase or snake_case,
    `rstrip("_")`) is mapped by `safe_snake_case` back to field `i` -/
theorem key_maps_back (cs : KeyCase) (fs : List FieldD) (h : namesOk cs fs = true) (i : Nat) (f : FieldD)
    (hf : fs[i]? = some f) : fieldOfJKey fs (jsonKey cs f.name) = .ok (some (i, f)) :=
  namesOk_lookup cs fs h i f hf

/-- **singular scalars of every type** (plain, proto3-optional, oneof member — `sel`): int64 /
    uint64 / fixed64 … go through `str` / `int`, bytes through base64, enums through their
    member name (or the number when undefined), NaN / ±Infinity through the three strings -/
theorem field_roundtrip_scalar (S : Schema) (E : Enums) (cs : KeyCase) (f : FieldD) (sel : Bool) (v : Val)
    (hm : (f.ty == .message) = false) (hmap : (f.ty == .map) = false) (hr : f.repeated = false)
    (he : enumOk (enumOf E f) = true) (hv : valOfType f.ty v = true) :
    ∀ j, toDictSlot S E cs false f false sel v = some j → j ≠ .null ∧ decodeField S E f j = .ok v :=
  fieldRT_scalar S E cs f sel v hm hmap hr he hv

/-- **repeated scalars of every type** -/
theorem field_roundtrip_repeated (S : Schema) (E : Enums) (cs : KeyCase) (f : FieldD) (sel : Bool) (xs : List Val)
    (hm : (f.ty == .message) = false) (hmap : (f.ty == .map) = false) (hr : f.repeated = true)
    (he : enumOk (enumOf E f) = true) (hx : ∀ x ∈ xs, valOfType f.ty x = true) :
    ∀ j, toDictSlot S E cs false f false sel (.list xs) = some j → j ≠ .null ∧ decodeField S E f j = .ok (.list xs) :=
  fieldRT_repeated_scalar S E cs f sel xs hm hmap hr he hx

/-- **Timestamp / Duration** (singular; the RFC 3339 / decimal-seconds texts are abstract: C15) -/
theorem field_roundtrip_wkt (S : Schema) (E : Enums) (cs : KeyCase) (f : FieldD) (sel : Bool) (v : Val)
    (hm : (f.ty == .message) = true) (hw : f.wraps = Option.none)
    (hv : (f.kind = .timestamp ∧ ∃ us, v = .ts us) ∨ (f.kind = .duration ∧ ∃ us, v = .dur us)) :
    ∀ j, toDictSlot S E cs false f false sel v = some j → j ≠ .null ∧ decodeField S E f j = .ok v :=
  fieldRT_wkt S E cs f sel v hm hw hv

/-- **wrappers** (every wrapped type but bytes — D17): the bare value passes through -/
theorem field_roundtrip_wrapper (S : Schema) (E : Enums) (cs : KeyCase) (f : FieldD) (sel : Bool) (v : Val) (w : PType)
    (hm : (f.ty == .message) = true) (hw : f.wraps = some w) (hb : w ≠ .bytes) (hv : valOfType w v = true) :
    ∀ j, toDictSlot S E cs false f false sel v = some j → j ≠ .null ∧ decodeField S E f j = .ok v :=
  fieldRT_wrapper S E cs f sel v w hm hw hb hv

/-- **`map<string, V>`**, V any scalar type but bytes -/
theorem field_roundtrip_map (S : Schema) (E : Enums) (cs : KeyCase) (f : FieldD) (sel : Bool) (ks vs : List Val)
    (hmap : f.ty = .map) (hv : (f.mapV == .message) = false)
    (hk : ∀ k ∈ ks, ∃ s, k = .str s) (hx : ∀ x ∈ vs, rawOk x = true) :
    ∀ j, toDictSlot S E cs false f false sel (.dict ks vs) = some j → j ≠ .null ∧ decodeField S E f j = .ok (.dict ks vs) :=
  fieldRT_map_scalar S E cs f sel ks vs hmap hv hk hx

/-- every field kind above at once, under the decidable slot guard -/
theorem field_roundtrip_flat (S : Schema) (E : Enums) (cs : KeyCase) (f : FieldD) (hid sel : Bool) (v : Val)
    (he : enumOk (enumOf E f) = true) (h : flatSlotOk S E cs f hid sel v = true) :
    ∀ j, toDictSlot S E cs false f hid sel v = some j → j ≠ .null ∧ decodeField S E f j = .ok v :=
  fieldRT_of_flat S E cs f hid sel v he h

/-- **flat messages: `_from_dict_init(to_dict(m))` is exactly the written fields with their
    original values** (any oneof state, any casing for which the names are invertible) -/
theorem from_dict_init_flat_partial (S : Schema) (E : Enums) (cs : KeyCase) (c : Nat) (slots : List Val)
    (ow : Bool) (unk : Bytes) (cur : List (Option Nat))
    (hn : namesOk cs (fieldsOf S c) = true) (he : ∀ f ∈ fieldsOf S c, enumOk (enumOf E f) = true)
    (hflat : flatSlots S E cs (fieldsOf S c) cur 0 slots = true) :
    fromDictInit S E c (toDict S E cs false (.msg c slots ow unk cur))
      = .ok (emitted S E cs (fieldsOf S c) cur 0 slots) := by
  rw [toDict]
  simp only [mkObj, fromDictInit]
  apply kv_roundtrip S E cs c cur hn slots 0
  intro k v f hv hf
  exact fieldRT_of_flat S E cs f _ _ v (he f (List.mem_of_getElem? hf))
    (flatSlots_get S E cs _ cur slots 0 hflat k v f hv hf)

/-- both forms of `from_dict` on `to_dict(m)`: the constructor call, resp. the `setattr`
    sequence on a fresh instance, with exactly the written fields -/
theorem from_dict_flat_partial (S : Schema) (E : Enums) (cs : KeyCase) (c : Nat) (slots : List Val)
    (ow : Bool) (unk : Bytes) (cur : List (Option Nat))
    (hn : namesOk cs (fieldsOf S c) = true) (he : ∀ f ∈ fieldsOf S c, enumOk (enumOf E f) = true)
    (hflat : flatSlots S E cs (fieldsOf S c) cur 0 slots = true) :
    fromDictC S E c (toDict S E cs false (.msg c slots ow unk cur))
        = .ok (fromDictCls S c (emitted S E cs (fieldsOf S c) cur 0 slots))
    ∧ fromDictI S E (fresh S c) (toDict S E cs false (.msg c slots ow unk cur))
        = stepOp S (fresh S c) (.fromDict (emitted S E cs (fieldsOf S c) cur 0 slots)) := by
  have h := from_dict_init_flat_partial S E cs c slots ow unk cur hn he hflat
  constructor
  · unfold fromDictC; rw [h]; rfl
  · unfold fromDictI; simp only [fresh, stateOf] at *; rw [h]; rfl

/-! ## concrete round trips (evaluation of the model; non-vacuity of the guards) -/

def E1 : Enums := [[⟨[90], [90], 0⟩, ⟨[79], [79], 1⟩, ⟨[65], [65], 1⟩]]   -- Z = 0, O = 1, A = 1 (alias)

/-- a oneof (int32 | string), a proto3-optional int64, a repeated enum, bytes, a double, a Timestamp -/
def S1 : Schema := [{ fields := [
    { name := "foo_bar", num := 1, ty := .int32, group := some 0 },
    { name := "http_status", num := 2, ty := .string, group := some 0 },
    { name := "big", num := 3, ty := .int64, optional := true },
    { name := "es", num := 4, ty := .enum, repeated := true },
    { name := "data", num := 5, ty := .bytes },
    { name := "x", num := 6, ty := .double },
    { name := "created_at", num := 7, ty := .message, kind := .timestamp }], nGroups := 1 }]

/-- oneof member set to its default "", optional int64 set to 0, undefined enum number 7, NaN -/
def m1 : Val := .msg 0 [.ph, .str [], .int 0, .list [.int 1, .int 7], .byt [1, 2], .f64 0x7ff8000000000000, .ts 1500000] true [] [some 1]

example : jsonOk S1 E1 .camel = true ∧ jsonOk S1 E1 .snake = true ∧ wellTyped S1 m1 = true := by decide
example : flatSlots S1 E1 .camel (fieldsOf S1 0) [some 1] 0 [.ph, .str [], .int 0, .list [.int 1, .int 7], .byt [1, 2], .f64 0x7ff8000000000000, .ts 1500000] = true := by decide
example : isJson (toDict S1 E1 .camel false m1) = true := by decide
/-- both casings, both forms: same bytes, and the default-valued oneof member stays selected -/
theorem roundtrip_flat_example :
    (fromDictC S1 E1 0 (toDict S1 E1 .camel false m1)).bind (dumpVal S1) = dumpVal S1 m1 ∧
    (fromDictC S1 E1 0 (toDict S1 E1 .snake false m1)).bind (dumpVal S1) = dumpVal S1 m1 ∧
    (fromDictI S1 E1 (fresh S1 0) (toDict S1 E1 .camel false m1)).bind (dumpVal S1) = dumpVal S1 m1 ∧
    fromDictC S1 E1 0 (toDict S1 E1 .camel false m1)
      = .ok (.msg 0 [.ph, .str [], .int 0, .list [.int 1, .int 7], .byt [1, 2], .f64 0x7ff8000000000000, .ts 1500000] true [] [some 1]) :=
  ⟨by decide, by decide, by decide, by rfl⟩

/-- nested, repeated and map messages, an optional sub-message set to its default (D27, repaired) -/
def S2 : Schema := [
  { fields := [{ name := "sub", num := 1, ty := .message, kind := .user 1 },
               { name := "opt_sub", num := 2, ty := .message, kind := .user 1, optional := true },
               { name := "subs", num := 3, ty := .message, kind := .user 1, repeated := true },
               { name := "by_name", num := 4, ty := .map, mapK := .string, mapV := .message, mapVKind := .user 1 }] },
  { fields := [{ name := "n", num := 1, ty := .sint64 }] }]
def sub (n : Int) : Val := .msg 1 [.int n] true [] []
def m2 : Val := .msg 0 [sub (-5), .msg 1 [.ph] false [] [], .list [sub 1, .msg 1 [.ph] false [] []], .dict [.str [107]] [sub 9]] true [] []

example : jsonOk S2 [] .camel = true ∧ wellTyped S2 m2 = true := by decide
theorem roundtrip_nested_example :
    (fromDictC S2 [] 0 (toDict S2 [] .camel false m2)).bind (dumpVal S2) = dumpVal S2 m2 ∧
    (fromDictI S2 [] (fresh S2 0) (toDict S2 [] .snake false m2)).bind (dumpVal S2) = dumpVal S2 m2 ∧
    (jsonText (toDict S2 [] .camel false m2)) = some (toDict S2 [] .camel false m2) ∧
    isJson (toDict S2 [] .camel false m2) = true :=
  ⟨by decide, by decide, by rfl, by decide⟩

/-! ## the excluded regions: negation witnesses (each replayed on the real code by the harness) -/

def one (f : FieldD) : Schema := [{ fields := [f] }]

def Sd15 : Schema := one { name := "address_line_1", num := 1, ty := .int32 }
/-- D15: the camelCase key of `address_line_1` is mapped to another field: the value is dropped -/
theorem d15_key_casing_witness :
    namesOk .camel (fieldsOf Sd15 0) = false ∧ namesOk .snake (fieldsOf Sd15 0) = true ∧
    fromDictC Sd15 [] 0 (toDict Sd15 [] .camel false (.msg 0 [.int 5] true [] [])) = .ok (.msg 0 [.ph] true [] []) ∧
    fromDictC Sd15 [] 0 (toDict Sd15 [] .snake false (.msg 0 [.int 5] true [] [])) = .ok (.msg 0 [.int 5] true [] []) :=
  ⟨by decide, by decide, by rfl, by rfl⟩

def SmapDur : Schema := one { name := "m", num := 1, ty := .map, mapK := .string, mapV := .message, mapVKind := .duration }
/-- D17: bytes / Timestamp / Duration map values and bytes wrappers are put into the dict as
    they are: `json.dumps` raises; `from_dict` raises on the Timestamp / Duration values -/
theorem d17_not_serialisable_witness :
    isJson (toDict (one { name := "m", num := 1, ty := .map, mapK := .string, mapV := .bytes }) [] .camel false
      (.msg 0 [.dict [.str [107]] [.byt [1]]] true [] [])) = false ∧
    isJson (toDict (one { name := "m", num := 1, ty := .map, mapK := .string, mapV := .message, mapVKind := .timestamp }) [] .camel false
      (.msg 0 [.dict [.str [107]] [.ts 5]] true [] [])) = false ∧
    isJson (toDict (one { name := "w", num := 1, ty := .message, wraps := some .bytes }) [] .camel false
      (.msg 0 [.byt [1]] true [] [])) = false ∧
    fromDictC SmapDur [] 0 (toDict SmapDur [] .camel false (.msg 0 [.dict [.str [107]] [.dur 5]] true [] [])) = .error .attr :=
  ⟨by decide, by decide, by decide, by rfl⟩

def SmapInt : Schema := one { name := "m", num := 1, ty := .map, mapK := .int32, mapV := .int32 }
def mMapInt : Val := .msg 0 [.dict [.int 1] [.int 2]] true [] []
/-- D17: an int (or bool) map key is a string after `json.dumps` / `json.loads` and is stored as
    a string: `bytes()` of the result raises, while the dict path is unaffected -/
theorem d17_map_key_witness :
    (fromDictC SmapInt [] 0 (toDict SmapInt [] .camel false mMapInt)).bind (dumpVal SmapInt) = dumpVal SmapInt mMapInt ∧
    (jsonText (toDict SmapInt [] .camel false mMapInt)).map (fromDictC SmapInt [] 0)
      = some (.ok (.msg 0 [.dict [.str [49]] [.int 2]] true [] [])) ∧
    dumpVal SmapInt (.msg 0 [.dict [.str [49]] [.int 2]] true [] []) = .error .type :=
  ⟨by decide, by rfl, by decide⟩

def Sdbl : Schema := one { name := "x", num := 1, ty := .double }
/-- JSON has one NaN: a NaN payload does not survive (not a betterproto matter; the value
    guard `wellTyped` asks for the canonical NaN) -/
theorem nan_payload_witness :
    wellTyped Sdbl (.msg 0 [.f64 0xfff8000000000001] true [] []) = false ∧
    fromDictC Sdbl [] 0 (toDict Sdbl [] .camel false (.msg 0 [.f64 0xfff8000000000001] true [] []))
      = .ok (.msg 0 [.f64 0x7ff8000000000000] true [] []) :=
  ⟨by decide, by rfl⟩

def Sots : Schema := one { name := "ots", num := 1, ty := .message, kind := .timestamp, optional := true }
/-- D27 (repaired): a proto3-optional Timestamp set to the epoch is written and read back -/
theorem d27_fixed_example :
    fromDictC Sots [] 0 (toDict Sots [] .camel false (.msg 0 [.ts 0] true [] [])) = .ok (.msg 0 [.ts 0] true [] []) ∧
    toDict Sots [] .camel false (.msg 0 [.ts 0] true [] []) = .obj [.str [111, 116, 115]] [.tsStr 0] :=
  ⟨by rfl, by rfl⟩

end Bp.C04
