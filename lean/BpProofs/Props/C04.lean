import BpModel.All
import BpModel.Json
namespace Bp.C04
theorem placeholder : True := trivial
end Bp.C04
