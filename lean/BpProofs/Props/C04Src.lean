import BpProofs.SrcTieJson
import BpProofs.Props.C04
import BpProofs.Props.C05
import BpProofs.Props.C07
/-
  C04 / C05 / C07, tied to the SOURCE: the per-field step of `Message.to_dict` — the `getattr` /
  AttributeError fallback to the default, the key `casing(field_name).rstrip("_")`, the message
  branch (datetime / timedelta / wrapper / repeated sub-messages / sub-message with the presence
  test `value != default` of fix D46), the map branch (`{**value}`, the conversion loop over the
  keys), the scalar branch (the emission test, 64-bit ints → `str`, bytes → base64, enum →
  `_dump_enum` with the enum class found in the type hint, float / double → `_dump_float`) — and
  the function `_dump_float` are translated from the Python AST on every run
  (harness/extract_srcjson.py → BpProofs/Gen/SrcJson.lean: `Src.to_dict_field`, `Src.dump_float`)
  and proved EQUAL to the model's `toDictSlot` / `dumpFloat`, which the theorems of Props/C04.lean,
  C05.lean and C07.lean are about.  The corollaries restate those theorems of the source as
  written.  If the loop body changes what it decides or writes, `src_to_dict_field` stops checking.

  Reading: `Src.to_dict_field S E enc cs incl f got sel output` is one iteration for the field
  described by `f`: `got = Py.getattrField S f hid v` is what `getattr(self, field_name)` yields for
  the raw slot `v` (`hid`: AttributeError for an unselected oneof member; a PLACEHOLDER slot is
  materialised to the default), `sel` is `_include_default_value_for_oneof`, `incl` is
  `include_default_values`, `enc` is `<sub-message>.to_dict(casing, include_default_values)`,
  `output` the items of the output dict so far (insertion order); the result is the dict after the
  iteration.  `putJ output k r` leaves `output` as it is for `r = none` and is
  `Py.setItem output k j` (`output[k] = j`: appended when `k` is new, overwritten IN PLACE when it is
  already there) for `r = some j`.  What the Python operations mean on `Val` / `FieldD` / `JVal` is
  fixed in BpProofs/PyPreludeDyn.lean + PyPreludeJson.lean (trusted).

  GUARDS of the tie (BpProofs/SrcTieJson.lean):
    * `dynOkJ f v` (decidable), for a slot that is read as a value: the value has a Python type the
      descriptor allows (list ↔ repeated non-map, dict ↔ map with pairwise distinct keys, Message ↔
      singular message field without wrapper, leaf: see `dynOkJ`).  Implied by the slot typing of
      C04 / C05 (`src_guard_of_typed`).  Outside it the source raises where the model says `raw`.
    * `DefaultOkJ S E cs incl f`, for a slot that reads as the default (hidden oneof member,
      PLACEHOLDER): not a repeated map; and for a plain singular sub-message field
      `include_default_values = False` (with True the source expands the defaults of the fresh
      sub-message recursively, which the model does not model: `raw ph`) and a fresh instance has
      the empty dict.  Implied by `jsonOk` for `incl = false` (`src_default_guard_of_schema`).
  None of the known-finding classes is excluded by these guards — the tie is an equality of
  behaviours, findings included: D15 (key casing) lives in `jsonKey`, which both sides share (the
  casing functions are C19's); D17 (map values / wrapper values written raw) is the behaviour of
  both the source as written and `toDictSlot` — `src_to_dict_field` covers every map value type; D16
  (enum member names) lives in the intrinsic `_dump_enum` ↦ `dumpEnum`.  They are excluded, as
  before, only by the guards of the C04 / C05 theorems the corollaries go through (`jsonOk`,
  `jsonOk5`, `flatSlotOk`).
-/
namespace Bp.C04
open Bp Bp.Py Bp.SrcTieJson

/-- **the per-field step of `Message.to_dict` as written is the model's `toDictSlot`**: for every
    field descriptor, both casings, every `include_default_values`, every oneof state (`hid`, `sel`),
    every raw slot value inside the guards and every output dict, one iteration of the field loop
    leaves the dict as it is when `toDictSlot` is `none`, performs `output[jsonKey cs f.name] = j` when
    it is `some j`, and does not raise -/
theorem src_to_dict_field (S : Schema) (E : Enums) (cs : KeyCase) (incl : Bool) (f : FieldD) (hid sel : Bool) (v : Val)
    (output : JDict) (hok : readsDefault hid v = false → dynOkJ f v = true)
    (hd : readsDefault hid v = true → DefaultOkJ S E cs incl f) :
    Src.to_dict_field S E (toDict S E cs incl) cs incl f (getattrField S f hid v) sel output
      = .ok (putJ output (jsonKey cs f.name) (toDictSlot S E cs incl f hid sel v)) :=
  to_dict_field_eq S E cs incl f hid sel v output hok hd

/-- … which is exactly the step of the model's `toDictKVs` (append `(key, j)` for `some j`, nothing
    for `none`) whenever the key is not in the dict yet (distinct fields have distinct keys: C04's
    `namesOk`) -/
theorem src_to_dict_field_appends (S : Schema) (E : Enums) (cs : KeyCase) (incl : Bool) (f : FieldD) (hid sel : Bool)
    (v : Val) (output : JDict) (hok : readsDefault hid v = false → dynOkJ f v = true)
    (hd : readsDefault hid v = true → DefaultOkJ S E cs incl f) (hkey : jsonKey cs f.name ∉ output.map (·.1)) :
    Src.to_dict_field S E (toDict S E cs incl) cs incl f (getattrField S f hid v) sel output
      = .ok (output ++ (toDictSlot S E cs incl f hid sel v).toList.map fun j => (jsonKey cs f.name, j)) :=
  to_dict_field_appends S E cs incl f hid sel v output hok hd hkey

/-- **`_dump_float` as written is the model's `dumpFloat`** on every value: the three strings for
    ±Infinity / NaN, every other value — whole-number floats included — as it is -/
theorem src_dump_float (v : Val) : Src.dump_float v = .ok (dumpFloat v) := dump_float_eq v

/-- the value guard holds of every slot that is typed (`slotOk'`, the judgement of `wellTyped'`) and
    whose dict keys are pairwise distinct -/
theorem src_guard_of_typed (S : Schema) (f : FieldD) (hid sel : Bool) (v : Val)
    (ht : slotOk' S f hid sel v = true) (hk : keysDistinct v = true) : dynOkJ f v = true :=
  dynOkJ_of_slotOk' S f hid sel v ht hk

/-- the default guard holds, without `include_default_values`, of every field of a schema inside `jsonOk` -/
theorem src_default_guard_of_schema (S : Schema) (E : Enums) (cs : KeyCase) (hS : jsonOk S E cs = true) (f : FieldD)
    (hf : fieldJsonOk f = true) : DefaultOkJ S E cs false f :=
  defaultOkJ_of_schema S E cs f (schemaJsonOk_of_jsonOk S E cs hS) hf

/-- **C07, of the source as written: a oneof member that is not the selected one gets no entry**
    (`getattr` raises AttributeError, the step goes on with the default, which is not written) —
    whatever the raw slot holds -/
theorem src_unselected_member_no_entry (S : Schema) (E : Enums) (cs : KeyCase) (hS : jsonOk S E cs = true) (f : FieldD)
    (hf : fieldJsonOk f = true) (hr : f.repeated = false) (v : Val) (output : JDict) :
    Src.to_dict_field S E (toDict S E cs false) cs false f (getattrField S f true v) false output = .ok output := by
  rw [to_dict_field_eq S E cs false f true false v output (by cases v <;> simp [readsDefault])
    (fun _ => src_default_guard_of_schema S E cs hS f hf), toDictSlot_unselected S E cs f hr v]
  rfl

/-- **C07, of the source as written: the selected member gets exactly one entry, under its own key,
    even when it holds its default value** — unless it holds `None` in a message / wrapper / 64-bit /
    enum field (`skipsSelected`, the exact exception of `json_exclusive`) -/
theorem src_selected_member_one_entry (S : Schema) (E : Enums) (cs : KeyCase) (hS : jsonOk S E cs = true) (f : FieldD)
    (hf : fieldJsonOk f = true) (hr : f.repeated = false) (hm : f.ty ≠ .map) (v : Val) (output : JDict)
    (hok : v ≠ .ph → dynOkJ f v = true) :
    (skipsSelected f v = true →
      Src.to_dict_field S E (toDict S E cs false) cs false f (getattrField S f false v) true output = .ok output) ∧
    (skipsSelected f v = false → ∃ j,
      Src.to_dict_field S E (toDict S E cs false) cs false f (getattrField S f false v) true output
        = .ok (setItem output (jsonKey cs f.name) j)) := by
  have h := toDictSlot_selected S E cs f hr hm v
  rw [to_dict_field_eq S E cs false f false true v output
    (fun hrd => hok (by intro e; subst e; simp [readsDefault] at hrd))
    (fun _ => src_default_guard_of_schema S E cs hS f hf)]
  cases hs : toDictSlot S E cs false f false true v with
  | none =>
    rw [hs] at h
    exact ⟨fun _ => rfl, fun hk => (by rw [hk] at h; cases h)⟩
  | some j =>
    rw [hs] at h
    exact ⟨fun hk => (by rw [hk] at h; cases h), fun _ => ⟨j, rfl⟩⟩

/-- **C05, of the source as written: the member one iteration writes for a field (or its absence) is
    the one the canonical proto3 JSON mapping prescribes, under the canonical key** — through
    `C05.canonical_field`, inside its guards -/
theorem src_canonical_field (S : Schema) (E : Enums) (hS : jsonOk5 S E = true) (f : FieldD) (idx : Nat)
    (cur : List (Option Nat)) (h5 : fieldJsonOk5 f = true) (v : Val)
    (hv : slotOk' S f (hidden f idx cur) (selectedInGroup f idx cur) v = true) (hz : noNegZeroSlot S f v = true)
    (hk : keysDistinct v = true) (output : JDict) :
    Src.to_dict_field S E (toDict S E .camel false) .camel false f (getattrField S f (hidden f idx cur) v)
        (selectedInGroup f idx cur) output
      = .ok (putJ output (specKey f.name) (specSlot S E f (hidden f idx cur) v)) := by
  have hj : fieldJsonOk f = true := by
    unfold fieldJsonOk5 at h5
    simp only [Bool.and_eq_true] at h5
    exact h5.1.1
  have hc := C05.canonical_field S E hS f idx cur h5 v hv hz
  rw [to_dict_field_eq S E .camel false f _ _ v output
    (fun _ => src_guard_of_typed S f _ _ v hv hk)
    (fun _ => src_default_guard_of_schema S E .camel (C05.jsonOk_of_jsonOk5 S E hS) f hj), hc.1, hc.2]

/-- **C04, of the source as written: what one iteration writes for a flat field is read back by
    `_from_dict_init` as the original attribute value** — through `field_roundtrip_flat`: the step
    either leaves the dict as it is or stores an object that is not null and decodes to `v` -/
theorem src_field_roundtrip_flat (S : Schema) (E : Enums) (cs : KeyCase) (hS : jsonOk S E cs = true) (f : FieldD)
    (hf : fieldJsonOk f = true) (hid sel : Bool) (v : Val) (he : enumOk (enumOf E f) = true)
    (h : flatSlotOk S E cs f hid sel v = true) (hok : readsDefault hid v = false → dynOkJ f v = true) (output : JDict) :
    Src.to_dict_field S E (toDict S E cs false) cs false f (getattrField S f hid v) sel output = .ok output ∨
    ∃ j, Src.to_dict_field S E (toDict S E cs false) cs false f (getattrField S f hid v) sel output
          = .ok (setItem output (jsonKey cs f.name) j) ∧ j ≠ .null ∧ decodeField S E f j = .ok v := by
  rw [to_dict_field_eq S E cs false f hid sel v output hok (fun _ => src_default_guard_of_schema S E cs hS f hf)]
  cases hs : toDictSlot S E cs false f hid sel v with
  | none => exact Or.inl rfl
  | some j => exact Or.inr ⟨j, rfl, field_roundtrip_flat S E cs f hid sel v he h j hs⟩

/-- distinct fields have distinct keys inside C04's `namesOk` (every key maps back to its own field) -/
theorem src_keys_distinct (cs : KeyCase) (fs : List FieldD) (h : namesOk cs fs = true) : KeysInj cs fs := by
  intro i j fi fj hi hj hk
  have a := key_maps_back cs fs h i fi hi
  have b := key_maps_back cs fs h j fj hj
  rw [hk, b] at a
  injection a with a
  injection a with a
  exact (Prod.mk.inj a).1.symm

/-- **the whole dict**: running the loop body as written once per field, in `meta_by_field_name`
    order, from the empty dict (`srcLoop`: a hand-written fold whose body is the translated
    `Src.to_dict_field`) builds exactly the items of the model's `toDict`, in the same order —
    for every message whose slots are inside the guards of the tie (`SlotsTieOk`) and whose fields
    have distinct keys (`src_keys_distinct`) -/
theorem src_to_dict_loop (S : Schema) (E : Enums) (cs : KeyCase) (incl : Bool) (c : Nat) (sl : List Val) (ow : Bool)
    (unk : Bytes) (cur : List (Option Nat)) (hinj : KeysInj cs (fieldsOf S c))
    (hok : SlotsTieOk S E cs incl (fieldsOf S c) cur 0 sl) :
    (srcLoop S E cs incl (fieldsOf S c) cur 0 sl []).bind (fun kvs => .ok (mkObj kvs))
      = .ok (toDict S E cs incl (.msg c sl ow unk cur)) :=
  srcLoop_toDict S E cs incl c sl ow unk cur hinj hok

/-! non-vacuity: the translated iteration run on closed inputs (camelCase keys as byte lists):
    an int64 is written as its decimal string; the default 0 of a plain field is left out, that of the
    selected oneof member is written; an unselected member is left out whatever its slot holds; an
    unmarked sub-message that differs from its default is written (D46); a key that is already there
    is overwritten in place -/
def fI64 : FieldD := { name := "big", num := 1, ty := .int64 }
def fOne : FieldD := { name := "pick", num := 2, ty := .int32, group := some 0 }
def fSub : FieldD := { name := "sub", num := 3, ty := .message, kind := .user 0 }
def Ssub : Schema := [{ fields := [{ name := "x", num := 1, ty := .int32 }] }]
example : Src.to_dict_field [] [] (toDict [] [] .camel false) .camel false fI64 (getattrField [] fI64 false (.int 5)) false []
    = .ok [(.str [98, 105, 103], .decStr 5)] := by rfl
example : Src.to_dict_field [] [] (toDict [] [] .camel false) .camel false fI64 (getattrField [] fI64 false (.int 0)) false []
    = .ok [] := by rfl
example : Src.to_dict_field [] [] (toDict [] [] .camel false) .camel false fOne (getattrField [] fOne false (.int 0)) true []
    = .ok [(.str [112, 105, 99, 107], .num 0)] := by rfl
example : Src.to_dict_field [] [] (toDict [] [] .camel false) .camel false fOne (getattrField [] fOne true (.int 7)) false []
    = .ok [] := by rfl
example : Src.to_dict_field Ssub [] (toDict Ssub [] .camel false) .camel false fSub
      (getattrField Ssub fSub false (.msg 0 [.int 1] false [] [])) false []
    = .ok [(.str [115, 117, 98], .obj [.str [120]] [.num 1])] := by rfl
example : Src.to_dict_field [] [] (toDict [] [] .camel false) .camel false fI64 (getattrField [] fI64 false (.int 5)) false
      [(.str [98, 105, 103], .null), (.str [122], .null)]
    = .ok [(.str [98, 105, 103], .decStr 5), (.str [122], .null)] := by rfl

end Bp.C04
