import BpProofs.SrcTieFromDict
import BpProofs.Props.C04
/-
  C04 (JSON / dict round trip), tied to the SOURCE: the body of the key loop of
  `Message._from_dict_init` and the bodies of the two forms of `Message.from_dict` are translated from
  the Python AST on every run (harness/extract_srcfromdict.py → BpProofs/Gen/SrcFromDict.lean:
  `Src.from_dict_key`, `Src.from_dict_cls`, `Src.from_dict_inst`) and proved equal to the model
  (`kvStep` = the per-pair action of `fromDictKV`, `fromDictC`, `fromDictI`; BpProofs/SrcTieFromDict.lean;
  the step itself is stated in Props/C19Src.lean, `C19.src_from_dict_key`).  The corollaries restate
  C04's theorems of the source as written.

  Reading: `srcFromDictInit S E c d` is `cls._from_dict_init(d)` — `init_kwargs = {}`, the translated
  step once per item of `d` in order (the `for` statement itself is the hand-written fold
  `srcInitLoop`), `return init_kwargs`; `Src.from_dict_cls S c r` / `Src.from_dict_inst S r self` are the
  translated bodies of `Cls.from_dict` / `self.from_dict` given the outcome `r` of that call.  Nested
  readers (`sub_cls.from_dict(item)`) are the MODEL's `fromDictC`: the source is tied one level at a
  time.  `finish` views a `Dict[str, Any]` by field index, `forget` forgets which exception was raised.

  Guards (decidable): `dictOk fs d` — no two keys of `d` (with a value that is not None) denote the same
  field of the class (`keysDistinct`; outside it the MODEL is wrong, `dup_key_model_witness`), and every
  dict value of `d` has as many keys as values (`objWf`, representation invariant).
-/
namespace Bp.C04
open Bp Bp.Py Bp.SrcTieFromDict

/-- **`cls._from_dict_init(d)` as written is the model's `fromDictInit`** (by field index), raising
    exactly when it raises, for every class and every mapping in the guard -/
theorem src_from_dict_init (S : Schema) (E : Enums) (c : Nat) (d : JVal) (h : dictOk (fieldsOf S c) d = true) :
    forget (finish (fieldsOf S c) (srcFromDictInit S E c d)) = forget (ofR (fromDictInit S E c d)) :=
  from_dict_init_eq S E c d h

/-- **the class form `Cls.from_dict(d)` as written** — `cls(**cls._from_dict_init(d))`, then
    `_serialized_on_wire = True` — **is the model's `fromDictC`** -/
theorem src_from_dict_cls (S : Schema) (E : Enums) (c : Nat) (d : JVal) (h : dictOk (fieldsOf S c) d = true) :
    forget (Src.from_dict_cls S c (srcFromDictInit S E c d)) = forget (ofR (fromDictC S E c d)) :=
  from_dict_cls_eq S c _ _ (src_from_dict_init S E c d h)

/-- **the instance form `m.from_dict(d)` as written** — `_serialized_on_wire = True`, then one `setattr`
    per item of `self._from_dict_init(d)` — **is the model's `fromDictI`** on every message instance -/
theorem src_from_dict_inst (S : Schema) (E : Enums) (c : Nat) (sl : List Val) (ow : Bool) (unk : Bytes)
    (cur : List (Option Nat)) (d : JVal) (h : dictOk (fieldsOf S c) d = true) :
    forget (Src.from_dict_inst S (srcFromDictInit S E c d) (.msg c sl ow unk cur))
      = forget (ofR (fromDictI S E (.msg c sl ow unk cur) d)) :=
  from_dict_inst_eq S c sl ow unk cur _ _ (src_from_dict_init S E c d h)

/-- **per-field dict round trip of the source as written**: the item `(key, j)` that `to_dict` emits for
    field `i` holding `v` (any casing for which the names are invertible, any flat field kind of
    `field_roundtrip_flat`: scalars, repeated scalars, Timestamp / Duration, wrappers, `map<string,
    scalar>`) is stored by one iteration of the key loop under field `i` with the original value `v` -/
theorem src_field_roundtrip (S : Schema) (E : Enums) (cs : KeyCase) (c : Nat) (i : Nat) (f : FieldD)
    (hid sel : Bool) (v : Val) (j : JVal) (init : Kwargs)
    (hn : namesOk cs (fieldsOf S c) = true) (hf : (fieldsOf S c)[i]? = some f)
    (he : enumOk (enumOf E f) = true) (h : flatSlotOk S E cs f hid sel v = true)
    (hj : toDictSlot S E cs false f hid sel v = some j) (hwf : objWf j = true) :
    finish (fieldsOf S c) (Src.from_dict_key S E c (fromDictC S E) (jsonKey cs f.name) j init)
      = .ok (kwSet (resolveKw (fieldsOf S c) init) i v) := by
  obtain ⟨hnn, hdec⟩ := field_roundtrip_flat S E cs f hid sel v he h j hj
  exact jkey_to_field S E c _ i f (key_maps_back cs _ hn i f hf) j v init hnn hdec hwf

/-- **C04's full statement, with the top-level reader as written**: under the guards of `roundtrip_all`
    and `dictOk` on `d = m.to_dict(casing)`, both forms of `from_dict` as written return one and the same
    message `m'`, equivalent to `m` and encoding to the same bytes -/
theorem src_roundtrip_all (S : Schema) (E : Enums) (cs : KeyCase) (c : Nat) (sl : List Val) (ow : Bool) (unk : Bytes)
    (cur : List (Option Nat))
    (hjson : jsonOk S E cs = true) (hgroups : groupsOk S = true)
    (hwt : wellTyped' S (.msg c sl ow unk cur) = true) (hsel : selOk S (.msg c sl ow unk cur) = true)
    (hd : dictOk (fieldsOf S c) (toDict S E cs false (.msg c sl ow unk cur)) = true) :
    ∃ m', Src.from_dict_cls S c (srcFromDictInit S E c (toDict S E cs false (.msg c sl ow unk cur))) = .ok m' ∧
      Src.from_dict_inst S (srcFromDictInit S E c (toDict S E cs false (.msg c sl ow unk cur))) (fresh S c) = .ok m' ∧
      DEqv S (.msg c sl ow unk cur) m' ∧ dumpVal S m' = dumpVal S (.msg c sl ow unk cur) := by
  obtain ⟨_, _, m', hc, hi, _, _, he, hb⟩ := roundtrip_all S E cs c sl ow unk cur hjson hgroups hwt hsel
  refine ⟨m', ?_, ?_, he, hb⟩
  · apply forget_eq_ok
    rw [src_from_dict_cls S E c _ hd, hc]; rfl
  · apply forget_eq_ok
    have hi' := hi
    unfold fresh at hi' ⊢
    rw [src_from_dict_inst S E c _ _ _ _ _ hd, hi']; rfl

/-- **where the model and the source as written disagree** (outside `dictOk`): two keys of one mapping
    that denote the same field, `M.from_dict({"fooBar": 1, "foo_bar": 2})`.  The source as written keeps one
    entry with the LAST value (2) — and so does the real code, replayed by hand — while the model's
    `fromDictC` takes the FIRST (1).  `to_dict` never emits such a mapping. -/
theorem src_dup_key_model_witness :
    dictOk (fieldsOf Sdup 0) jdup = false ∧
    Src.from_dict_cls Sdup 0 (srcFromDictInit Sdup [] 0 jdup) = .ok (.msg 0 [.int 2] true [] []) ∧
    fromDictC Sdup [] 0 jdup = .ok (.msg 0 [.int 1] true [] []) :=
  ⟨by decide, by rfl, by rfl⟩

/-! non-vacuity: the guard holds of the dicts of C04's own examples, and both forms as written rebuild `m1`
    (oneof member set to its default, optional int64 set to 0, undefined enum number, NaN, Timestamp) -/
example : dictOk (fieldsOf S1 0) (toDict S1 E1 .camel false m1) = true := by decide
example : dictOk (fieldsOf S1 0) (toDict S1 E1 .snake false m1) = true := by decide
example : dictOk (fieldsOf S3 0) (toDict S3 [] .camel false m3) = true := by decide

end Bp.C04
