import BpProofs.Props.C05SrcLeaf
import BpProofs.Props.C15SrcJson
/-
  C04, the JSON LEAF round trips tied to the SOURCE: `_parse_float(_dump_float(x))`,
  `_parse_enum(_dump_enum(v))`, and what the abstract Duration / Timestamp leaves `JVal.durStr us` /
  `JVal.tsStr us` of the to_dict / from_dict model stand for — all about the functions as
  regenerated from the Python AST of src/betterproto/__init__.py (Gen/SrcJson.lean `dump_float`,
  Gen/SrcLeaf.lean, Gen/SrcTime.lean) and src/betterproto/enum.py (Gen/SrcEnum.lean).
-/
namespace Bp.C04
open Bp Bp.Py Bp.EnumM Bp.PyEnum Bp.PyLeaf Bp.SrcTieLeaf Bp.SrcTieEnum

/-- **float32 leaf round trip, of the source as written**: `_parse_float(_dump_float(x))` is `x`
    for every bit pattern that is not a NaN — +∞, −∞ (through the strings "Infinity" / "-Infinity"),
    ±0, subnormals — and the canonical quiet NaN for every NaN pattern (through "NaN") -/
theorem src_parse_float_dump_float32 (b : Nat) :
    (Src.dump_float (.f32 b)).bind (Src.parse_float (floatOf .float) .float)
      = .ok (.f32 (if isNaN32 b then 0x7fc00000 else b)) :=
  parse_dump_float32 b

/-- **float64 leaf round trip, of the source as written** -/
theorem src_parse_float_dump_float64 (b : Nat) :
    (Src.dump_float (.f64 b)).bind (Src.parse_float (floatOf .double) .double)
      = .ok (.f64 (if isNaN64 b then 0x7ff8000000000000 else b)) :=
  parse_dump_float64 b

/-- **enum leaf round trip, of the source as written**: for every definition `d` (distinct names),
    every state of the class `EnumType.__new__` builds and EVERY integer `v`: `_dump_enum` as written
    yields a JSON value — the first declared name for a number with a member, the number itself for a
    number without one (D14 repair), never null — and `_parse_enum` as written reads it back as a value
    with number `v`: the canonical member (the object `cls(v)` returns) resp. an open value -/
theorem src_enum_json_roundtrip {ν : Type} [DecidableEq ν] (d : Decl ν) (hnd : NamesNodup d = true)
    (cls : ClsObj ν) (hr : C20.Reach d cls.st) (v : Int) :
    ∃ j m cls', Src.dump_enum cls v = .ok (some j) ∧ Src.parse_enum cls j = .ok (m, cls')
      ∧ m.number = v ∧ C20.Reach d cls'.st
      ∧ (Defined d v → (∃ n0, j = .name n0 ∧ FirstName d v n0) ∧ Src.EnumType.call cls v = .ok m)
      ∧ (¬ Defined d v → j = .num v ∧ m.name = none) := by
  obtain ⟨j, c', m, h1, h2, h3, h4, h5, h6⟩ := C20.enum_json_roundtrip d hnd cls.st hr v
  refine ⟨j, m, { cls with st := c' }, ?_, ?_, h3, h4, ?_, h6⟩
  · rw [C05.src_dump_enum, h1]
  · rw [C05.src_parse_enum, h2]; rfl
  · intro hd
    refine ⟨(h5 hd).1, ?_⟩
    rw [C20.src_call, (h5 hd).2]; rfl

/-- **what `JVal.durStr us` stands for**: the characters `delta_to_json` as written builds;
    `delta_from_json` as written reads them back as `us` — the equation `durParse (durJ (.dur us)) =
    .ok (.dur us)` the to_dict / from_dict model takes as the meaning of the abstract leaf (intrinsics
    `Py.deltaToJson` / `Py.deltaFromJson`), for every timedelta Python can hold -/
theorem src_durStr_leaf (us : Int) (h0 : durMinUs ≤ us) (h1 : us ≤ durMaxUs) :
    (Src.duration_delta_to_json us).bind (fun t => Src.duration_delta_from_json (renderSecs t)) = .ok us
    ∧ Py.deltaFromJson (Py.deltaToJson (.dur us)) = .ok (.dur us) :=
  ⟨C15.src_duration_json_roundtrip_range us h0 h1, rfl⟩

/-- **what `JVal.tsStr us` stands for**: the text `timestamp_to_json` as written returns for a datetime
    denoting the instant `us` (naive, or aware with a whole-second utcoffset); distinct instants have
    distinct texts, which is all the model uses of it (`isoparse`, the reading side, is third-party
    code and stays an abstract leaf: `Py.isoparse (.tsStr us) = .ok (.ts us)`) -/
theorem src_tsStr_leaf (d : DT) (h : d.off.getD 0 % 1000000 = 0) :
    Src.timestamp_to_json d = .ok (tsJsonText d.instant)
    ∧ (∀ a b, tsJsonText a = tsJsonText b → a = b)
    ∧ Py.isoparse (Py.timestampToJson (.ts d.instant)) = .ok (.ts d.instant) :=
  ⟨(C15.src_timestamp_json_form d h).1, C15.ts_json_text_injective, rfl⟩

/-! non-vacuity -/
example : (Src.dump_float (.f64 0xfff0000000000000)).bind (Src.parse_float (floatOf .double) .double)
    = .ok (.f64 0xfff0000000000000) := rfl
example : (Src.dump_float (.f32 0x7fc00001)).bind (Src.parse_float (floatOf .float) .float)
    = .ok (.f32 0x7fc00000) := rfl
example : (Src.dump_enum C20.exCls 7).bind (fun j => match j with
    | some j => (Src.parse_enum C20.exCls j).bind (fun p => .ok (p.1.name, p.1.number)) | none => .raise .value)
    = .ok (none, 7) := by decide
/-- the hypotheses of `src_enum_json_roundtrip` -/
example : NamesNodup C20.exD = true ∧ C20.Reach C20.exD C20.exCls.st := ⟨by decide, C20.reach_mk _⟩
example : durMinUs ≤ -1500000 ∧ (-1500000 : Int) ≤ durMaxUs := by decide

end Bp.C04
