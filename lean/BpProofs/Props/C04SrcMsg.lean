import BpProofs.SrcTieJsonMsg
import BpProofs.SrcTieJsonMsgTyped
import BpProofs.SrcTieJsonMsgLoad
import BpProofs.Props.C04
/-
  C04 (JSON / dict round trip), tied to the SOURCE, WHOLE METHODS: `Message.to_dict`, `_from_dict_init`,
  both forms of `from_dict`, `to_json` and `from_json` are translated from the Python AST on every run —
  everything AROUND the loop bodies by harness/extract_srcjsonmsg.py → BpProofs/Gen/SrcJsonMsg.lean, the loop
  bodies themselves by extract_srcjson.py / extract_srcfromdict.py (Props/C04Src.lean, C04SrcFromDict.lean) —
  and the RECURSION into sub-messages (a nested message field, the items of a repeated message field, message
  map values) is the translated method itself, one nesting level down (`Src.value_to_dict`, `Src.class_from_dict`:
  a fixed template with a budget on the nesting depth).  BpProofs/SrcTieJsonMsg.lean and SrcTieJsonMsgLoad.lean
  prove them equal to the model's `toDict`, `fromDictC`, `fromDictI` for every nesting depth; the corollaries
  restate C04's sentence of the source functions only.

  Reading.  `Src.value_to_dict S E d cs incl m` is `m.to_dict(casing, include_default_values)` as written, with
  nesting budget `d` (`.diverge` when it runs out); `Src.value_to_json S E d m indent incl cs` is `m.to_json(…)`;
  `Src.class_from_dict S E d c j` is `Cls.from_dict(j)`, `Src.value_from_dict S E d m j` is `m.from_dict(j)`,
  `Src.value_from_json S E d m text` is `m.from_json(text)`.  A JSON text is abstract (`JText`: the object it was
  dumped from; `json.loads` of it is the model's `jsonText`), as in the model.  `forget` forgets WHICH exception
  is raised (as in Props/C04SrcFromDict.lean).

  Guards (decidable, BpProofs/SrcTieJsonMsg*.lean): `vOkAt S k m` — at every nesting level of the value one raw
  slot per field and the value guard `dynOkJ` of the per-field tie, at most `k` nested levels of Message
  instances; `jOkAt S k j` — at every nesting level of the JSON-side value the guard `dictOk` of the per-level
  reader tie (dict values well-formed, no two keys that denote the same field), for every class, at most `k`
  levels.  The budgets are universally quantified: any budget above the depth of the value works.
-/
namespace Bp.C04
open Bp Bp.Py Bp.SrcTieJson Bp.SrcTieFromDict Bp.SrcTieJsonMsg Bp.SrcTieJsonMsgLoad

/-- **`m.to_dict(casing, include_default_values)` as written — the whole method, sub-messages nested to any
    depth — is the model's `toDict`**: for both casings, every `include_default_values` inside the default
    guard, every value inside the value guard at every level, and every nesting budget above its depth -/
theorem src_to_dict (S : Schema) (E : Enums) (cs : KeyCase) (incl : Bool) (hW : WfSchemaOpt S)
    (hD : ∀ c, ∀ f ∈ fieldsOf S c, DefaultOkJ S E cs incl f) (hK : ∀ c, KeysInj cs (fieldsOf S c))
    (k : Nat) (m : Val) (h : vOkAt S k m = true) :
    Src.value_to_dict S E (k + 1) cs incl m = .ok (toDict S E cs incl m) :=
  value_to_dict_eq S E cs incl hW hD hK k m h

/-- … in particular for every schema inside C04's guard `jsonOk`, without `include_default_values` -/
theorem src_to_dict_schema (S : Schema) (E : Enums) (cs : KeyCase) (hS : jsonOk S E cs = true) (k : Nat) (m : Val)
    (h : vOkAt S k m = true) :
    Src.value_to_dict S E (k + 1) cs false m = .ok (toDict S E cs false m) := by
  obtain ⟨hW, hD, hK⟩ := guards_of_jsonOk S E cs hS
  exact value_to_dict_eq S E cs false hW hD hK k m h

/-- **the class form `Cls.from_dict(j)` as written — `_from_dict_init` with its key loop, the nested
    `sub_cls.from_dict(item)` calls to any depth, `cls(**…)`, `_serialized_on_wire = True` — is the model's
    `fromDictC`**, raising exactly when it raises -/
theorem src_from_dict_cls_whole (S : Schema) (E : Enums) (k c : Nat) (j : JVal) (h : jOkAt S k j = true) :
    forget (Src.class_from_dict S E k c j) = forget (ofR (fromDictC S E c j)) :=
  class_from_dict_eq S E k c j h

/-- **the instance form `m.from_dict(j)` as written is the model's `fromDictI`** on every message instance -/
theorem src_from_dict_inst_whole (S : Schema) (E : Enums) (k c : Nat) (sl : List Val) (ow : Bool) (unk : Bytes)
    (cur : List (Option Nat)) (j : JVal) (h : jOkAt S (k + 1) j = true) :
    forget (Src.value_from_dict S E k (.msg c sl ow unk cur) j) = forget (ofR (fromDictI S E (.msg c sl ow unk cur) j)) :=
  value_from_dict_eq S E k c sl ow unk cur j h

/-- **`m.to_json(indent, include_default_values, casing)` as written is `json.dumps(…, indent=indent)` of the
    model's `toDict`** (TypeError exactly when that dict is not JSON serialisable) -/
theorem src_to_json (S : Schema) (E : Enums) (cs : KeyCase) (incl : Bool) (hW : WfSchemaOpt S)
    (hD : ∀ c, ∀ f ∈ fieldsOf S c, DefaultOkJ S E cs incl f) (hK : ∀ c, KeysInj cs (fieldsOf S c))
    (k : Nat) (m : Val) (indent : JsonMsg.Indent) (h : vOkAt S k m = true) :
    Src.value_to_json S E k m indent incl cs = JsonMsg.jsonDumps (toDict S E cs incl m) indent :=
  value_to_json_eq S E cs incl hW hD hK k m indent h

/-- **`m.from_json(text)` as written is the model's `fromDictI` of `json.loads(text)`** -/
theorem src_from_json (S : Schema) (E : Enums) (k c : Nat) (sl : List Val) (ow : Bool) (unk : Bytes)
    (cur : List (Option Nat)) (text : JsonMsg.JText) (h : ∀ j, JsonMsg.jsonLoads text = .ok j → jOkAt S (k + 1) j = true) :
    forget (Src.value_from_json S E k (.msg c sl ow unk cur) text)
      = forget ((JsonMsg.jsonLoads text).bind fun j => ofR (fromDictI S E (.msg c sl ow unk cur) j)) :=
  value_from_json_eq S E k c sl ow unk cur text h

/-- **C04's sentence, of the source functions only**: for every schema inside the guards, both casings and
    every well-typed message `m` (inside the guards of the ties at every level), `m.to_dict(casing)` AS WRITTEN
    returns a dict `d`, `m.to_json(indent, casing=casing)` AS WRITTEN returns a text, and `Cls.from_dict(d)`,
    `Cls().from_dict(d)` and `Cls().from_json(text)` AS WRITTEN all return one and the same message `m'`, which is
    equivalent to `m` and encodes to the same bytes — for every nesting budget above the depth of `m` / `d` -/
theorem src_json_roundtrip (S : Schema) (E : Enums) (cs : KeyCase) (c : Nat) (sl : List Val) (ow : Bool) (unk : Bytes)
    (cur : List (Option Nat)) (k kd : Nat) (indent : JsonMsg.Indent)
    (hjson : jsonOk S E cs = true) (hgroups : groupsOk S = true)
    (hwt : wellTyped' S (.msg c sl ow unk cur) = true) (hsel : selOk S (.msg c sl ow unk cur) = true)
    (hv : vOkAt S k (.msg c sl ow unk cur) = true)
    (hd : jOkAt S (kd + 1) (toDict S E cs false (.msg c sl ow unk cur)) = true) :
    ∃ d text m',
      Src.value_to_dict S E (k + 1) cs false (.msg c sl ow unk cur) = .ok d ∧
      Src.value_to_json S E k (.msg c sl ow unk cur) indent false cs = .ok text ∧
      Src.class_from_dict S E (kd + 1) c d = .ok m' ∧
      Src.value_from_dict S E kd (fresh S c) d = .ok m' ∧
      Src.value_from_json S E kd (fresh S c) text = .ok m' ∧
      DEqv S (.msg c sl ow unk cur) m' ∧ dumpVal S m' = dumpVal S (.msg c sl ow unk cur) := by
  obtain ⟨_, htxt, m', hc, hi, _, _, he, hb⟩ := roundtrip_all S E cs c sl ow unk cur hjson hgroups hwt hsel
  obtain ⟨hW, hD, hK⟩ := guards_of_jsonOk S E cs hjson
  have hdumps : JsonMsg.jsonDumps (toDict S E cs false (.msg c sl ow unk cur)) indent
      = .ok ⟨toDict S E cs false (.msg c sl ow unk cur)⟩ := by
    unfold JsonMsg.jsonDumps; rw [htxt]
  have hloads : JsonMsg.jsonLoads ⟨toDict S E cs false (.msg c sl ow unk cur)⟩
      = .ok (toDict S E cs false (.msg c sl ow unk cur)) := by
    unfold JsonMsg.jsonLoads; simp only [htxt]
  refine ⟨_, ⟨toDict S E cs false (.msg c sl ow unk cur)⟩, m', value_to_dict_eq S E cs false hW hD hK k _ hv, ?_, ?_, ?_, ?_, he, hb⟩
  · rw [value_to_json_eq S E cs false hW hD hK k _ indent hv, hdumps]
  · apply forget_eq_ok
    rw [class_from_dict_eq S E (kd + 1) c _ hd, hc]; rfl
  · apply forget_eq_ok
    have hi' := hi
    unfold fresh at hi' ⊢
    rw [value_from_dict_eq S E kd c _ _ _ _ _ hd, hi']; rfl
  · apply forget_eq_ok
    have hi' := hi
    unfold fresh at hi' ⊢
    rw [value_from_json_eq S E kd c _ _ _ _ _ (fun j hj => by rw [hloads] at hj; injection hj with hj; subst hj; exact hd),
      hloads, SrcTieFromDict.res_bind_ok, hi']; rfl

/-- the value guard `vOkAt` of the writer tie holds of every message that is typed (`wellTyped'`, C04's judgement),
    whose dicts have pairwise distinct keys at every level and whose Message instances nest at most `k` levels
    deep (`kOkAt k m`, decidable: what a Python dict is, plus the depth bound) -/
theorem src_value_guard_of_typed (S : Schema) (k : Nat) (m : Val) (hwt : wellTyped' S m = true) (hk : kOkAt k m = true) :
    vOkAt S k m = true :=
  vOkAt_of_typed S k m hwt hk

/-- `src_json_roundtrip` with the value guard discharged by the typing judgement: what is left besides C04's own
    hypotheses is the Python-dict invariant + depth bound `kOkAt` on `m` and the reader guard `jOkAt` on the dict -/
theorem src_json_roundtrip_typed (S : Schema) (E : Enums) (cs : KeyCase) (c : Nat) (sl : List Val) (ow : Bool) (unk : Bytes)
    (cur : List (Option Nat)) (k kd : Nat) (indent : JsonMsg.Indent)
    (hjson : jsonOk S E cs = true) (hgroups : groupsOk S = true)
    (hwt : wellTyped' S (.msg c sl ow unk cur) = true) (hsel : selOk S (.msg c sl ow unk cur) = true)
    (hk : kOkAt k (.msg c sl ow unk cur) = true)
    (hd : jOkAt S (kd + 1) (toDict S E cs false (.msg c sl ow unk cur)) = true) :
    ∃ d text m',
      Src.value_to_dict S E (k + 1) cs false (.msg c sl ow unk cur) = .ok d ∧
      Src.value_to_json S E k (.msg c sl ow unk cur) indent false cs = .ok text ∧
      Src.class_from_dict S E (kd + 1) c d = .ok m' ∧
      Src.value_from_dict S E kd (fresh S c) d = .ok m' ∧
      Src.value_from_json S E kd (fresh S c) text = .ok m' ∧
      DEqv S (.msg c sl ow unk cur) m' ∧ dumpVal S m' = dumpVal S (.msg c sl ow unk cur) :=
  src_json_roundtrip S E cs c sl ow unk cur k kd indent hjson hgroups hwt hsel (vOkAt_of_typed S k _ hwt hk) hd

/-! non-vacuity: the guards hold of C04's own nested instance `m3` (recursive class, oneof, optional sub-message
    set to its default, repeated sub-messages, `map<string, Node>`) and of the flat instance `m1`; the translated
    whole method, run on closed inputs, returns the nested dict -/
def Ssub2 : Schema := [{ fields := [{ name := "sub", num := 1, ty := .message, kind := .user 1 }] },
  { fields := [{ name := "x", num := 1, ty := .int32 }] }]
example : kOkAt 4 m3 = true ∧ vOkAt S3 4 m3 = true ∧ jOkAt S3 5 (toDict S3 [] .camel false m3) = true := by decide
example : vOkAt S1 1 m1 = true ∧ jOkAt S1 2 (toDict S1 E1 .camel false m1) = true
    ∧ jOkAt S1 2 (toDict S1 E1 .snake false m1) = true := by decide
example : Src.value_to_dict Ssub2 [] 2 .camel false (.msg 0 [.msg 1 [.int 7] true [] []] true [] [])
    = .ok (.obj [.str [115, 117, 98]] [.obj [.str [120]] [.num 7]]) := by rfl
example : Src.value_to_dict Ssub2 [] 1 .camel false (.msg 0 [.msg 1 [.int 7] true [] []] true [] []) ≠
    .ok (toDict Ssub2 [] .camel false (.msg 0 [.msg 1 [.int 7] true [] []] true [] [])) := by
  intro h; cases h

end Bp.C04
