import BpModel.All
import BpModel.JsonSpec
namespace Bp.C05
theorem placeholder : True := trivial
end Bp.C05
