import BpModel.All
import BpModel.JsonSpec
import BpProofs.JsonSpec
import BpProofs.Props.C04
import BpProofs.JsonCanon
/-
  C05 — JSON output and input follow the canonical proto3 JSON mapping.

  `specJson` (BpModel/JsonSpec.lean) is the mapping written from the specification; the
  correspondence run of check C05 compares it with google.protobuf's printer on every
  generated value, so it stands in for the reference inside Lean.

  FULL STATEMENT (false of the code: D15, D16, D17, D25):
    ∀ S E c m, WellTyped S c m →
      toDict S E .camel false m = specJson S E m ∧
      ∃ m', fromDict S E c (specJson S E m) = .ok m' ∧ m' ≈ m ∧ dumpVal S m' = dumpVal S m

  WHAT IS PROVED HERE:
    * MESSAGE LEVEL, all values, any nesting depth (`canonical_message`; proof in
      BpProofs/JsonCanon.lean by mutual structural induction over `Val` / `List Val`):
        jsonOk5 S E → wellTyped' S m → noNegZero S m → toDict S E .camel false m = specJson S E m
      — plain equality of the two objects (same members, same order; no normalisation needed) for
      singular / optional / oneof / repeated sub-messages, `map<string, Msg>`, `map<string, 32-bit |
      bool | string>`, Timestamp / Duration singular and repeated, Int32 / UInt32 / Bool / String
      wrappers, and singular / optional / oneof / repeated fields of all 15 scalar types.  All three
      guards are decidable; `jsonOk5` is on the SCHEMA (C04's `jsonOk` + keys are json_names (D15) +
      no 64-bit / float / enum map values or wrappers (D17) + Python enum names = proto names (D16)),
      `wellTyped'` is C04's value guard (BpProofs/JsonGuard.lean), `noNegZero` is the one value guard
      C05 adds: -0.0 in an implicit-presence float / double field is skipped by `to_dict` as "the
      default" and written by the spec (D25, `d25_negative_zero_witness`); it cannot be a schema guard.
      `canonical_message_canonOk` states it under the weaker schema guard the proof uses,
      `canonical_message_driver_guard` under the value guard the driver evaluates (`wellTyped`),
      `canonical_field` is the per-field statement (member or absence, and the key);
    * READING BACK (`canonical_read_back`, `canonical_read_back_bytes`; from `canonical_message` and
      `C04.roundtrip_all`, extra guards `groupsOk` / `selOk` of C04): the canonical object is JSON,
      survives `json.loads(json.dumps(·))`, and `Cls.from_dict` / `Cls().from_dict` on it return one
      `m'` with `DEqv m m'` and `bytes(m') = bytes(m)`;
    * non-vacuity (`canonical_instance_guards`, `canonical_instance`, `canonical_instance_value`): the
      theorems on a concrete recursive message with a oneof sub-message member, an optional
      sub-message set to its default, repeated sub-messages, `map<string, Node>`, Timestamp, Duration,
      int64 / uint64 / bytes / float NaN / enum / Int32Value fields; the canonical object evaluated;
    * leaf level, all values (`scalar_canonical`, `field_canonical_scalar`): for every
      scalar type the member betterproto writes for a singular (plain / optional / oneof) field
      is the canonical one — 64-bit ints as decimal strings, bytes base64, enum value names
      (given `enumOk5`: Python member names = proto names), NaN / ±Infinity strings — and
      reading it back gives the value (C04.field_roundtrip_scalar);
    * key level (`key_is_json_name`): under the decidable guard the emitted key is protoc's json_name;
    * concrete flat and nested messages (`canonical_*_example`): `toDict = specJson` and
      `fromDict (specJson m)` re-encodes to the bytes of `m`, by evaluation;
    * the excluded regions: witnesses for D16, D17 (64-bit map values, Int64Value wrapper, NaN as a
      `map<string, double>` value), D25; and `repeated_wrapper_empty_witness`: a REPEATED wrapper field
      (outside `jsonOk`) is written as `[]` when empty — `to_dict` tests `value is not None` in the
      `meta.wraps` branch — where the canonical mapping leaves it out (replayed on the real code).
  NOT PROVED: nothing of the full statement inside the guards.  Outside: `include_default_values`,
  snake_case keys (not the canonical mapping), the leaf texts (`str(int)`, base64, RFC 3339: abstract
  constructors shared by both sides; C15 for the time formats).  The value guard is stronger than the
  forward direction needs (no unknown fields, canonical NaN payload: both are irrelevant to the two
  printers) — it is kept equal to C04's so that one guard serves both directions.
-/
namespace Bp.C05
open Bp

/-- **every scalar leaf is canonical** (15 scalar types; `specScalar` is the spec's table) -/
theorem scalar_canonical (E : Enums) (f : FieldD) (h5 : enumOk5 (enumOf E f) = true) (v : Val)
    (hv : valOfType f.ty v = true) : encItem E f v = specScalar (enumOf E f) f.ty v :=
  encItem_spec E f h5 v hv

/-- **a singular scalar field (plain, proto3-optional, oneof member) is written canonically**:
    whenever betterproto writes it, it writes the spec's value -/
theorem field_canonical_scalar (S : Schema) (E : Enums) (f : FieldD) (sel : Bool) (v : Val)
    (hm : (f.ty == .message) = false) (hmap : (f.ty == .map) = false) (hr : f.repeated = false)
    (h5 : enumOk5 (enumOf E f) = true) (hv : valOfType f.ty v = true) (j : JVal)
    (hj : toDictSlot S E .camel false f false sel v = some j) : j = specScalar (enumOf E f) f.ty v := by
  rw [toDictSlot_scalar S E .camel f sel v hm hmap hr hv] at hj
  split at hj
  · injection hj with hj; rw [← hj]; exact encItem_spec E f h5 v hv
  · simp at hj

/-- **keys are the lowerCamelCase JSON names** (under the decidable per-field guard; the guard
    fails e.g. for names protoc and `camel_case` treat differently) -/
theorem key_is_json_name (f : FieldD) (h : fieldJsonOk5 f = true) : jsonKey .camel f.name = specKey f.name := by
  unfold fieldJsonOk5 at h
  simp only [Bool.and_eq_true, beq_iff_eq] at h
  exact h.1.2

/-! ## concrete messages -/

example : jsonOk5 C04.S1 C04.E1 = true ∧ noNegZero C04.S1 C04.m1 = true := by decide

/-- oneof member set to "", optional int64 0 ("0"), repeated enum with an undefined number,
    bytes, NaN, Timestamp: betterproto's dict IS the canonical one, and the canonical one is read back -/
theorem canonical_flat_example :
    toDict C04.S1 C04.E1 .camel false C04.m1 = specJson C04.S1 C04.E1 C04.m1 ∧
    (fromDictC C04.S1 C04.E1 0 (specJson C04.S1 C04.E1 C04.m1)).bind (dumpVal C04.S1) = dumpVal C04.S1 C04.m1 :=
  ⟨by rfl, by decide⟩

theorem canonical_nested_example :
    toDict C04.S2 [] .camel false C04.m2 = specJson C04.S2 [] C04.m2 ∧
    (fromDictC C04.S2 [] 0 (specJson C04.S2 [] C04.m2)).bind (dumpVal C04.S2) = dumpVal C04.S2 C04.m2 :=
  ⟨by rfl, by decide⟩

/-! ## the excluded regions -/

/-- plugin output for `enum Color { COLOR_RED = 0; COLOR_BLUE = 1; }`: members RED, BLUE -/
def E16 : Enums := [[⟨[82, 69, 68], [67, 79, 76, 79, 82, 95, 82, 69, 68], 0⟩, ⟨[66, 76, 85, 69], [67, 79, 76, 79, 82, 95, 66, 76, 85, 69], 1⟩]]
def S16 : Schema := C04.one { name := "c", num := 1, ty := .enum }

/-- D16: betterproto writes "BLUE", the canonical name is "COLOR_BLUE", and betterproto
    rejects the canonical name -/
theorem d16_enum_name_witness :
    enumOk5 (enumOf E16 { name := "c", num := 1, ty := .enum }) = false ∧
    toDict S16 E16 .camel false (.msg 0 [.int 1] true [] []) = .obj [.str [99]] [.str [66, 76, 85, 69]] ∧
    specJson S16 E16 (.msg 0 [.int 1] true [] []) = .obj [.str [99]] [.str [67, 79, 76, 79, 82, 95, 66, 76, 85, 69]] ∧
    fromDictC S16 E16 0 (specJson S16 E16 (.msg 0 [.int 1] true [] [])) = .error .value :=
  ⟨by decide, by rfl, by rfl, by rfl⟩

def Sm64 : Schema := C04.one { name := "m", num := 1, ty := .map, mapK := .string, mapV := .int64 }
def mm64 : Val := .msg 0 [.dict [.str [107]] [.int 5]] true [] []
/-- D17: an int64 map value is written as a number, canonically it is a string; the canonical
    string is stored as a str and `bytes()` raises -/
theorem d17_map_int64_witness :
    fieldJsonOk5 { name := "m", num := 1, ty := .map, mapK := .string, mapV := .int64 } = false ∧
    toDict Sm64 [] .camel false mm64 = .obj [.str [109]] [.obj [.str [107]] [.num 5]] ∧
    specJson Sm64 [] mm64 = .obj [.str [109]] [.obj [.str [107]] [.decStr 5]] ∧
    (fromDictC Sm64 [] 0 (specJson Sm64 [] mm64)).bind (dumpVal Sm64) = .error .type :=
  ⟨by decide, by rfl, by rfl, by decide +kernel⟩

def Sw64 : Schema := C04.one { name := "w", num := 1, ty := .message, wraps := some .int64 }
/-- D17: `Int64Value` is written as a bare number, canonically a string -/
theorem d17_wrapper_int64_witness :
    toDict Sw64 [] .camel false (.msg 0 [.int 5] true [] []) = .obj [.str [119]] [.num 5] ∧
    specJson Sw64 [] (.msg 0 [.int 5] true [] []) = .obj [.str [119]] [.decStr 5] :=
  ⟨by rfl, by rfl⟩

/-- D25: -0.0 in an implicit-presence double field is left out by betterproto, written by the spec -/
theorem d25_negative_zero_witness :
    noNegZero C04.Sdbl (.msg 0 [.f64 0x8000000000000000] true [] []) = false ∧
    toDict C04.Sdbl [] .camel false (.msg 0 [.f64 0x8000000000000000] true [] []) = .obj [] [] ∧
    specJson C04.Sdbl [] (.msg 0 [.f64 0x8000000000000000] true [] []) = .obj [.str [120]] [.fnum 0x8000000000000000] :=
  ⟨by decide, by rfl, by rfl⟩

/-! ## the message-level theorem (BpProofs/JsonCanon.lean) -/

/-- **C05, sentence 1 — "JSON output follows the canonical proto3 JSON mapping" — for whole
    messages, to any nesting depth.**  For every schema inside the decidable guard `jsonOk5`
    (`jsonOk` = C04's D15 / D17 exclusions; keys are json_names; no 64-bit / float / enum map values
    or wrappers: D17; Python enum member names = proto names: D16) and every value inside the
    decidable guards `wellTyped'` (C04's value guard: every slot typed as its field says) and
    `noNegZero` (no -0.0 in an implicit-presence float / double field: D25),
    `m.to_dict()` IS `specJson m`: the same members in the same order with the same values —
    singular / optional / oneof / repeated sub-messages, `map<string, Msg>`, Timestamp / Duration,
    wrappers and every scalar type.  No normalisation is needed: both functions walk the fields in
    declaration order.  (Mutual structural induction over `Val` / `List Val`: `canon_slots`,
    `canon_slot`, `canon_msgs`.) -/
theorem canonical_message (S : Schema) (E : Enums) (m : Val) (hS : jsonOk5 S E = true)
    (hwt : wellTyped' S m = true) (hz : noNegZero S m = true) :
    toDict S E .camel false m = specJson S E m :=
  toDict_eq_specJson S E (canonOk_of_jsonOk5 S E hS) m hwt hz

/-- the same under the weaker schema guard the proof actually uses (`canonOk`: per-field
    `fieldJsonOk5` and `enumOk5`; that keys and enum names are read BACK correctly — `namesOk`,
    `enumOk` — is not needed to compare the two outputs) -/
theorem canonical_message_canonOk (S : Schema) (E : Enums) (m : Val) (hS : canonOk S E = true)
    (hwt : wellTyped' S m = true) (hz : noNegZero S m = true) :
    toDict S E .camel false m = specJson S E m :=
  toDict_eq_specJson S E hS m hwt hz

/-- under the value guard the driver evaluates on harness inputs (`wellTyped`, `WF WT`) -/
theorem canonical_message_driver_guard (S : Schema) (E : Enums) (m : Val) (hS : jsonOk5 S E = true)
    (hwt : wellTyped S m = true) (hz : noNegZero S m = true) :
    toDict S E .camel false m = specJson S E m :=
  canonical_message S E m hS (wellTyped_weaken S m hwt) hz

/-- **field level, every kind of field**: inside the guards the member `to_dict` writes for one field
    (or its absence) is the one the canonical mapping prescribes; `hid` / `sel` are the oneof state
    of the field as `to_dict` computes it (`hidden`, `selectedInGroup`) -/
theorem canonical_field (S : Schema) (E : Enums) (hS : jsonOk5 S E = true) (f : FieldD) (idx : Nat)
    (cur : List (Option Nat)) (h5 : fieldJsonOk5 f = true) (v : Val)
    (hv : slotOk' S f (hidden f idx cur) (selectedInGroup f idx cur) v = true) (hz : noNegZeroSlot S f v = true) :
    toDictSlot S E .camel false f (hidden f idx cur) (selectedInGroup f idx cur) v
      = specSlot S E f (hidden f idx cur) v ∧ jsonKey .camel f.name = specKey f.name :=
  ⟨canon_slot S E (canonOk_of_jsonOk5 S E hS) f _ _ (fj5_of f h5) (hs_slot f idx cur) (hs5_slot f idx cur) v hv hz,
   (fj5_of f h5).key⟩

theorem jsonOk_of_jsonOk5 (S : Schema) (E : Enums) (h : jsonOk5 S E = true) : jsonOk S E .camel = true := by
  unfold jsonOk5 at h
  simp only [Bool.and_eq_true] at h
  exact h.1.1

/-- **C05, sentence 2 — "and it reads the canonical form back".**  Inside the guards of
    `canonical_message` plus C04's `groupsOk` (schema) and `selOk` (value: every oneof selection names
    a member of its group), the canonical JSON object of `m` is JSON (`isJson`, unchanged by
    `json.loads(json.dumps(·))`), and `Cls.from_dict` / `Cls().from_dict` on it both return one message
    `m'` that is `m` up to `DEqv` (C04: same observable state, marks of nested messages set) and
    re-encodes to the bytes of `m`.  Derived from `canonical_message` and `C04.roundtrip_all`. -/
theorem canonical_read_back (S : Schema) (E : Enums) (c : Nat) (sl : List Val) (ow : Bool) (unk : Bytes)
    (cur : List (Option Nat)) (hS : jsonOk5 S E = true) (hgroups : groupsOk S = true)
    (hwt : wellTyped' S (.msg c sl ow unk cur) = true) (hsel : selOk S (.msg c sl ow unk cur) = true)
    (hz : noNegZero S (.msg c sl ow unk cur) = true) :
    isJson (specJson S E (.msg c sl ow unk cur)) = true ∧
    jsonText (specJson S E (.msg c sl ow unk cur)) = some (specJson S E (.msg c sl ow unk cur)) ∧
    ∃ m', fromDictC S E c (specJson S E (.msg c sl ow unk cur)) = .ok m' ∧
      fromDictI S E (fresh S c) (specJson S E (.msg c sl ow unk cur)) = .ok m' ∧
      DEqv S (.msg c sl ow unk cur) m' ∧ dumpVal S m' = dumpVal S (.msg c sl ow unk cur) := by
  rw [← canonical_message S E _ hS hwt hz]
  obtain ⟨t1, t2, m', a, i, _, _, b, d⟩ :=
    C04.roundtrip_all S E .camel c sl ow unk cur (jsonOk_of_jsonOk5 S E hS) hgroups hwt hsel
  exact ⟨t1, t2, m', a, i, b, d⟩

/-- the statement of the evaluated examples above, for all messages: `from_dict` of the canonical
    JSON re-encodes to `bytes(m)` -/
theorem canonical_read_back_bytes (S : Schema) (E : Enums) (c : Nat) (sl : List Val) (ow : Bool) (unk : Bytes)
    (cur : List (Option Nat)) (hS : jsonOk5 S E = true) (hgroups : groupsOk S = true)
    (hwt : wellTyped' S (.msg c sl ow unk cur) = true) (hsel : selOk S (.msg c sl ow unk cur) = true)
    (hz : noNegZero S (.msg c sl ow unk cur) = true) :
    (fromDictC S E c (specJson S E (.msg c sl ow unk cur))).bind (dumpVal S) = dumpVal S (.msg c sl ow unk cur) := by
  obtain ⟨_, _, m', a, _, _, d⟩ := canonical_read_back S E c sl ow unk cur hS hgroups hwt hsel hz
  rw [a]; exact d

/-! ### non-vacuity: the theorems on a concrete nested message -/

/-- `enum Color { RED = 0; BLUE = 1; }` written by hand (Python names = proto names) -/
def E5 : Enums := [[⟨[82, 69, 68], [82, 69, 68], 0⟩, ⟨[66, 76, 85, 69], [66, 76, 85, 69], 1⟩]]

/-- `message Node { oneof kind { int32 leaf_val = 1; Node child = 2; } optional Node opt_child = 3;
    repeated Node kids = 4; map<string, Node> by_name = 5; string label = 6;
    google.protobuf.Timestamp created_at = 7; google.protobuf.Duration ttl = 8; int64 big = 9;
    uint64 ubig = 10; bytes data = 11; float ratio = 12; Color color = 13;
    google.protobuf.Int32Value count = 14; map<string, int32> tags = 15;
    repeated google.protobuf.Timestamp stamps = 16; repeated sfixed64 ids = 17; }` -/
def S5 : Schema := [{ fields := [
    { name := "leaf_val", num := 1, ty := .int32, group := some 0 },
    { name := "child", num := 2, ty := .message, kind := .user 0, group := some 0 },
    { name := "opt_child", num := 3, ty := .message, kind := .user 0, optional := true },
    { name := "kids", num := 4, ty := .message, kind := .user 0, repeated := true },
    { name := "by_name", num := 5, ty := .map, mapK := .string, mapV := .message, mapVKind := .user 0 },
    { name := "label", num := 6, ty := .string },
    { name := "created_at", num := 7, ty := .message, kind := .timestamp },
    { name := "ttl", num := 8, ty := .message, kind := .duration },
    { name := "big", num := 9, ty := .int64 },
    { name := "ubig", num := 10, ty := .uint64 },
    { name := "data", num := 11, ty := .bytes },
    { name := "ratio", num := 12, ty := .float },
    { name := "color", num := 13, ty := .enum, enumRef := some 0 },
    { name := "count", num := 14, ty := .message, wraps := some .int32 },
    { name := "tags", num := 15, ty := .map, mapK := .string, mapV := .int32 },
    { name := "stamps", num := 16, ty := .message, kind := .timestamp, repeated := true },
    { name := "ids", num := 17, ty := .sfixed64, repeated := true }], nGroups := 1 }]
/-- `Node(leaf_val=n)`: for n = 0 a oneof member set to its default -/
def leaf5 (n : Int) : Val :=
  .msg 0 [.int n, .ph, .none, .ph, .ph, .ph, .ph, .ph, .ph, .ph, .ph, .ph, .ph, .none, .ph, .ph, .ph] true [] [some 0]
/-- `Node()` -/
def empty5 : Val :=
  .msg 0 [.ph, .ph, .none, .ph, .ph, .ph, .ph, .ph, .ph, .ph, .ph, .ph, .ph, .none, .ph, .ph, .ph] false [] [Option.none]
/-- `Node(child=Node(leaf_val=0), opt_child=Node(), kids=[Node(leaf_val=7), Node()],
    by_name={"k": Node(leaf_val=9)}, label="x", created_at=…, ttl=2.5 s, big=-(2^53+1), ubig=2^64-1,
    data=b"\x01\x02\xff", ratio=nan, color=BLUE, count=3, tags={"a": 5}, stamps=[epoch, epoch+1µs], ids=[-1])` -/
def m5 : Val :=
  .msg 0 [.ph, leaf5 0, empty5, .list [leaf5 7, empty5], .dict [.str [107]] [leaf5 9], .str [120], .ts 1500000,
    .dur 2500000, .int (-9007199254740993), .int 18446744073709551615, .byt [1, 2, 255], .f32 0x7fc00000, .int 1,
    .int 3, .dict [.str [97]] [.int 5], .list [.ts 0, .ts 1], .list [.int (-1)]] true [] [some 1]

/-- all guards of the two theorems hold on `S5` / `m5` (by evaluation), and `bytes(m5)` succeeds -/
theorem canonical_instance_guards :
    jsonOk5 S5 E5 = true ∧ groupsOk S5 = true ∧ wellTyped' S5 m5 = true ∧ selOk S5 m5 = true ∧
    noNegZero S5 m5 = true ∧ (dumpVal S5 m5).isOk = true :=
  ⟨by decide, by decide, by decide, by decide, by decide, by decide⟩

/-- `canonical_message` and `canonical_read_back` instantiated on the concrete nested message: recursive
    class, oneof with a sub-message member (holding a default-valued oneof member), optional
    sub-message set to its default, repeated sub-messages (one empty), `map<string, Node>`, Timestamp,
    Duration, int64 / uint64 / bytes / float NaN / enum / Int32Value / `map<string, int32>` /
    repeated Timestamp / repeated sfixed64 fields -/
theorem canonical_instance :
    toDict S5 E5 .camel false m5 = specJson S5 E5 m5 ∧
    isJson (specJson S5 E5 m5) = true ∧
    (∃ m', fromDictC S5 E5 0 (specJson S5 E5 m5) = .ok m' ∧ fromDictI S5 E5 (fresh S5 0) (specJson S5 E5 m5) = .ok m' ∧
      DEqv S5 m5 m' ∧ dumpVal S5 m' = dumpVal S5 m5) ∧
    (fromDictC S5 E5 0 (specJson S5 E5 m5)).bind (dumpVal S5) = dumpVal S5 m5 := by
  obtain ⟨g1, g2, g3, g4, g5, _⟩ := canonical_instance_guards
  obtain ⟨t1, _, r⟩ := canonical_read_back S5 E5 0 _ _ _ _ g1 g2 g3 g4 g5
  exact ⟨canonical_message S5 E5 m5 g1 g3 g5, t1, r, canonical_read_back_bytes S5 E5 0 _ _ _ _ g1 g2 g3 g4 g5⟩

/-- the canonical object of `m5`, evaluated: keys are the lowerCamelCase names in declaration order,
    the unselected oneof member is absent, the default-valued selected member `leafVal: 0` is there,
    `optChild: {}`, the empty repeated item `{}`, 64-bit ints as decimal strings, base64, "NaN",
    the enum value NAME, the bare wrapper value -/
theorem canonical_instance_value :
    specJson S5 E5 m5 =
      .obj [.str [99, 104, 105, 108, 100], .str [111, 112, 116, 67, 104, 105, 108, 100], .str [107, 105, 100, 115],
            .str [98, 121, 78, 97, 109, 101], .str [108, 97, 98, 101, 108],
            .str [99, 114, 101, 97, 116, 101, 100, 65, 116], .str [116, 116, 108], .str [98, 105, 103],
            .str [117, 98, 105, 103], .str [100, 97, 116, 97], .str [114, 97, 116, 105, 111],
            .str [99, 111, 108, 111, 114], .str [99, 111, 117, 110, 116], .str [116, 97, 103, 115],
            .str [115, 116, 97, 109, 112, 115], .str [105, 100, 115]]
           [.obj [.str [108, 101, 97, 102, 86, 97, 108]] [.num 0],
            .obj [] [],
            .arr [.obj [.str [108, 101, 97, 102, 86, 97, 108]] [.num 7], .obj [] []],
            .obj [.str [107]] [.obj [.str [108, 101, 97, 102, 86, 97, 108]] [.num 9]],
            .str [120], .tsStr 1500000, .durStr 2500000, .decStr (-9007199254740993), .decStr 18446744073709551615,
            .b64 [1, 2, 255], .fstr 2, .str [66, 76, 85, 69], .num 3, .obj [.str [97]] [.num 5],
            .arr [.tsStr 0, .tsStr 1], .arr [.decStr (-1)]] := by rfl

/-! ### what each guard excludes (beyond D16 / D17 / D25 above) -/

def Smdbl : Schema := C04.one { name := "m", num := 1, ty := .map, mapK := .string, mapV := .double }
/-- D17 (known), the float part of the schema guard: a `map<string, double>` value is written raw;
    it differs from the canonical form only for NaN / ±Infinity (here NaN: a Python float `nan`,
    which `json.dumps` prints as the non-JSON literal `NaN`, against the string "NaN") -/
theorem d17_map_double_nan_witness :
    fieldJsonOk5 { name := "m", num := 1, ty := .map, mapK := .string, mapV := .double } = false ∧
    wellTyped' Smdbl (.msg 0 [.dict [.str [107]] [.f64 0x7ff8000000000000]] true [] []) = true ∧
    toDict Smdbl [] .camel false (.msg 0 [.dict [.str [107]] [.f64 0x7ff8000000000000]] true [] [])
      = .obj [.str [109]] [.obj [.str [107]] [.fnum 0x7ff8000000000000]] ∧
    specJson Smdbl [] (.msg 0 [.dict [.str [107]] [.f64 0x7ff8000000000000]] true [] [])
      = .obj [.str [109]] [.obj [.str [107]] [.fstr 2]] :=
  ⟨by decide, by decide, by rfl, by rfl⟩

/-- `message M { repeated google.protobuf.Int32Value w = 1; }` (outside `fieldJsonOk`: "a wrapper
    field is singular") -/
def Srw : Schema := C04.one { name := "w", num := 1, ty := .message, wraps := some .int32, repeated := true }
/-- **a region found while fixing the guards of `canonical_message`** (replayed on the real code:
    `M().to_dict() == {'w': []}`, `MessageToDict(ref) == {}`): the `meta.wraps` branch of `to_dict`
    tests `value is not None`, so a REPEATED wrapper field is written even when its list is empty —
    both for an untouched field (`ph`) and for an explicitly empty list.  The canonical mapping leaves
    an empty repeated field out.  Non-empty lists agree.  The reference parser accepts `{"w": []}` as
    the empty message, so this is a deviation of the printed form only. -/
theorem repeated_wrapper_empty_witness :
    fieldJsonOk { name := "w", num := 1, ty := .message, wraps := some .int32, repeated := true } = false ∧
    wellTyped' Srw (.msg 0 [.ph] false [] []) = true ∧ wellTyped' Srw (.msg 0 [.list []] true [] []) = true ∧
    toDict Srw [] .camel false (.msg 0 [.ph] false [] []) = .obj [.str [119]] [.arr []] ∧
    specJson Srw [] (.msg 0 [.ph] false [] []) = .obj [] [] ∧
    toDict Srw [] .camel false (.msg 0 [.list []] true [] []) = .obj [.str [119]] [.arr []] ∧
    specJson Srw [] (.msg 0 [.list []] true [] []) = .obj [] [] ∧
    toDict Srw [] .camel false (.msg 0 [.list [.int 1, .int 2]] true [] [])
      = specJson Srw [] (.msg 0 [.list [.int 1, .int 2]] true [] []) :=
  ⟨by decide, by decide, by decide, by rfl, by rfl, by rfl, by rfl, by rfl⟩

end Bp.C05

#print axioms Bp.C05.canonical_message
#print axioms Bp.C05.canonical_field
#print axioms Bp.C05.canonical_read_back
#print axioms Bp.C05.canonical_read_back_bytes
#print axioms Bp.C05.canonical_instance
#print axioms Bp.C05.canonical_instance_value
#print axioms Bp.C05.repeated_wrapper_empty_witness
#print axioms Bp.C05.d17_map_double_nan_witness
