import BpModel.All
import BpModel.JsonSpec
import BpProofs.JsonSpec
import BpProofs.Props.C04
/-
  C05 — JSON output and input follow the canonical proto3 JSON mapping.

  `specJson` (BpModel/JsonSpec.lean) is the mapping written from the specification; the
  correspondence run of check C05 compares it with google.protobuf's printer on every
  generated value, so it stands in for the reference inside Lean.

  FULL STATEMENT (false of the code: D15, D16, D17, D25):
    ∀ S E c m, WellTyped S c m →
      toDict S E .camel false m = specJson S E m ∧
      ∃ m', fromDict S E c (specJson S E m) = .ok m' ∧ m' ≈ m ∧ dumpVal S m' = dumpVal S m

  WHAT IS PROVED HERE:
    * leaf level, all values (`scalar_canonical`, `field_canonical_scalar`): for every
      scalar type the member betterproto writes for a singular (plain / optional / oneof) field
      is the canonical one — 64-bit ints as decimal strings, bytes base64, enum value names
      (given `enumOk5`: Python member names = proto names), NaN / ±Infinity strings — and
      reading it back gives the value (C04.field_roundtrip_scalar);
    * key level (`key_is_json_name`): under the decidable guard the emitted key is protoc's json_name;
    * concrete flat and nested messages (`canonical_*_example`): `toDict = specJson` and
      `fromDict (specJson m)` re-encodes to the bytes of `m`, by evaluation;
    * the excluded regions: witnesses for D16, D17 (64-bit map values, Int64Value wrapper), D25.
  NOT PROVED: the message-level induction (all fields of all flat / nested messages at once).
-/
namespace Bp.C05
open Bp

/-- **every scalar leaf is canonical** (15 scalar types; `specScalar` is the spec's table) -/
theorem scalar_canonical (E : Enums) (f : FieldD) (h5 : enumOk5 (enumOf E f) = true) (v : Val)
    (hv : valOfType f.ty v = true) : encItem E f v = specScalar (enumOf E f) f.ty v :=
  encItem_spec E f h5 v hv

/-- **a singular scalar field (plain, proto3-optional, oneof member) is written canonically**:
    whenever betterproto writes it, it writes the spec's value -/
theorem field_canonical_scalar (S : Schema) (E : Enums) (f : FieldD) (sel : Bool) (v : Val)
    (hm : (f.ty == .message) = false) (hmap : (f.ty == .map) = false) (hr : f.repeated = false)
    (h5 : enumOk5 (enumOf E f) = true) (hv : valOfType f.ty v = true) (j : JVal)
    (hj : toDictSlot S E .camel false f false sel v = some j) : j = specScalar (enumOf E f) f.ty v := by
  rw [toDictSlot_scalar S E .camel f sel v hm hmap hr hv] at hj
  split at hj
  · injection hj with hj; rw [← hj]; exact encItem_spec E f h5 v hv
  · simp at hj

/-- **keys are the lowerCamelCase JSON names** (under the decidable per-field guard; the guard
    fails e.g. for names protoc and `camel_case` treat differently) -/
theorem key_is_json_name (f : FieldD) (h : fieldJsonOk5 f = true) : jsonKey .camel f.name = specKey f.name := by
  unfold fieldJsonOk5 at h
  simp only [Bool.and_eq_true, beq_iff_eq] at h
  exact h.1.2

/-! ## concrete messages -/

example : jsonOk5 C04.S1 C04.E1 = true ∧ noNegZero C04.S1 C04.m1 = true := by decide

/-- oneof member set to "", optional int64 0 ("0"), repeated enum with an undefined number,
    bytes, NaN, Timestamp: betterproto's dict IS the canonical one, and the canonical one is read back -/
theorem canonical_flat_example :
    toDict C04.S1 C04.E1 .camel false C04.m1 = specJson C04.S1 C04.E1 C04.m1 ∧
    (fromDictC C04.S1 C04.E1 0 (specJson C04.S1 C04.E1 C04.m1)).bind (dumpVal C04.S1) = dumpVal C04.S1 C04.m1 :=
  ⟨by rfl, by decide⟩

theorem canonical_nested_example :
    toDict C04.S2 [] .camel false C04.m2 = specJson C04.S2 [] C04.m2 ∧
    (fromDictC C04.S2 [] 0 (specJson C04.S2 [] C04.m2)).bind (dumpVal C04.S2) = dumpVal C04.S2 C04.m2 :=
  ⟨by rfl, by decide⟩

/-! ## the excluded regions -/

/-- plugin output for `enum Color { COLOR_RED = 0; COLOR_BLUE = 1; }`: members RED, BLUE -/
def E16 : Enums := [[⟨[82, 69, 68], [67, 79, 76, 79, 82, 95, 82, 69, 68], 0⟩, ⟨[66, 76, 85, 69], [67, 79, 76, 79, 82, 95, 66, 76, 85, 69], 1⟩]]
def S16 : Schema := C04.one { name := "c", num := 1, ty := .enum }

/-- D16: betterproto writes "BLUE", the canonical name is "COLOR_BLUE", and betterproto
    rejects the canonical name -/
theorem d16_enum_name_witness :
    enumOk5 (enumOf E16 { name := "c", num := 1, ty := .enum }) = false ∧
    toDict S16 E16 .camel false (.msg 0 [.int 1] true [] []) = .obj [.str [99]] [.str [66, 76, 85, 69]] ∧
    specJson S16 E16 (.msg 0 [.int 1] true [] []) = .obj [.str [99]] [.str [67, 79, 76, 79, 82, 95, 66, 76, 85, 69]] ∧
    fromDictC S16 E16 0 (specJson S16 E16 (.msg 0 [.int 1] true [] [])) = .error .value :=
  ⟨by decide, by rfl, by rfl, by rfl⟩

def Sm64 : Schema := C04.one { name := "m", num := 1, ty := .map, mapK := .string, mapV := .int64 }
def mm64 : Val := .msg 0 [.dict [.str [107]] [.int 5]] true [] []
/-- D17: an int64 map value is written as a number, canonically it is a string; the canonical
    string is stored as a str and `bytes()` raises -/
theorem d17_map_int64_witness :
    fieldJsonOk5 { name := "m", num := 1, ty := .map, mapK := .string, mapV := .int64 } = false ∧
    toDict Sm64 [] .camel false mm64 = .obj [.str [109]] [.obj [.str [107]] [.num 5]] ∧
    specJson Sm64 [] mm64 = .obj [.str [109]] [.obj [.str [107]] [.decStr 5]] ∧
    (fromDictC Sm64 [] 0 (specJson Sm64 [] mm64)).bind (dumpVal Sm64) = .error .type :=
  ⟨by decide, by rfl, by rfl, by decide +kernel⟩

def Sw64 : Schema := C04.one { name := "w", num := 1, ty := .message, wraps := some .int64 }
/-- D17: `Int64Value` is written as a bare number, canonically a string -/
theorem d17_wrapper_int64_witness :
    toDict Sw64 [] .camel false (.msg 0 [.int 5] true [] []) = .obj [.str [119]] [.num 5] ∧
    specJson Sw64 [] (.msg 0 [.int 5] true [] []) = .obj [.str [119]] [.decStr 5] :=
  ⟨by rfl, by rfl⟩

/-- D25: -0.0 in an implicit-presence double field is left out by betterproto, written by the spec -/
theorem d25_negative_zero_witness :
    noNegZero C04.Sdbl (.msg 0 [.f64 0x8000000000000000] true [] []) = false ∧
    toDict C04.Sdbl [] .camel false (.msg 0 [.f64 0x8000000000000000] true [] []) = .obj [] [] ∧
    specJson C04.Sdbl [] (.msg 0 [.f64 0x8000000000000000] true [] []) = .obj [.str [120]] [.fnum 0x8000000000000000] :=
  ⟨by decide, by rfl, by rfl⟩

end Bp.C05
