import BpProofs.SrcTieLeaf
import BpProofs.SrcTieLeafEnum
import BpProofs.Props.C20Src
import BpModel.Gen.WireTables
import BpProofs.PyPreludeFromDict
/-
  C05, the JSON LEAF codecs tied to the SOURCE: `_parse_float`, `_dump_enum`, `_parse_enum` as
  regenerated from the Python AST of src/betterproto/__init__.py on every run
  (harness/extract_srcleaf.py → BpProofs/Gen/SrcLeaf.lean).  "NaN / Infinity are strings" and
  "enums are value names" of the property text, stated of the functions as written.

  `Src.parse_float fl t j`: `fl` is the builtin `float` (applied where the code calls it on its
  argument), `t` the proto type of the field (the width of the bit pattern representing the float),
  `j` the JSON value (`.fstr 0/1/2` = the texts "Infinity" / "-Infinity" / "NaN").
  `Src.dump_enum cls v` / `Src.parse_enum cls j` are built AROUND `EnumType.__call__`,
  `Enum.from_string`, `Enum.try_value` as translated from enum.py (Props/C20Src.lean).
-/
namespace Bp.C05
open Bp Bp.Py Bp.EnumM Bp.PyEnum Bp.PyLeaf Bp.SrcTieLeaf Bp.SrcTieEnum

/-- the three constants the translated functions compare with / return are the spec's spellings
    (`INFINITY`, `NEG_INFINITY`, `NAN` as regenerated into BpModel/Gen/WireTables.lean) -/
theorem src_float_constants :
    Gen.jsonInfinity = "Infinity" ∧ Gen.jsonNegInfinity = "-Infinity" ∧ Gen.jsonNaN = "NaN"
    ∧ eqStrConst (.fstr 0) Gen.jsonInfinity = true ∧ eqStrConst (.fstr 1) Gen.jsonNegInfinity = true
    ∧ eqStrConst (.fstr 2) Gen.jsonNaN = true := by decide

/-- **`_parse_float` as written is the model's `parseFloat`** (with the builtin `float` of
    BpProofs/PyPreludeLeaf.lean), on every JSON value except a general `str` that spells one of the
    three constants (those texts are represented by `.fstr k`; see `src_parse_float_str_witness`) -/
theorem src_parse_float (t : PType) (j : JVal) (hc : canonFloatJ j = true) :
    Src.parse_float (floatOf t) t j = ofR (parseFloat t j) :=
  parse_float_eq t j hc

/-- **the three spec strings are handled by `_parse_float` ITSELF**: whatever the builtin `float`
    does (CPython's happens to accept these spellings too), "Infinity" ↦ +∞, "-Infinity" ↦ −∞,
    "NaN" ↦ the quiet NaN -/
theorem src_parse_float_specials (fl : JVal → Res Val) (t : PType) :
    Src.parse_float fl t (.fstr 0) = .ok (floatLit t "inf")
    ∧ Src.parse_float fl t (.fstr 1) = .ok (floatNeg (floatLit t "inf"))
    ∧ Src.parse_float fl t (.fstr 2) = .ok (floatLit t "nan") :=
  parse_float_specials fl t

/-- … and every other value — ints, bools, numeric strings, other strings, None, lists — goes to
    `float(value)` unchanged: `_parse_float` adds nothing and catches nothing there -/
theorem src_parse_float_other (fl : JVal → Res Val) (t : PType) (j : JVal) (hc : canonFloatJ j = true)
    (hk : ∀ k, k < 3 → j ≠ .fstr k) : Src.parse_float fl t j = fl j :=
  parse_float_other fl t j hc hk

/-- the excluded representation: a `str` whose characters are "Infinity" is recognised by the
    comparison as written, where the model (`parseFloat … (.str _)`) says "not modelled" -/
theorem src_parse_float_str_witness :
    Src.parse_float (floatOf .double) .double (.str ("Infinity".toList.map Char.toNat)) = .ok (.f64 0x7ff0000000000000)
    ∧ parseFloat .double (.str ("Infinity".toList.map Char.toNat)) = .error .notImpl := ⟨rfl, rfl⟩

/-- **`_dump_enum` as written is the model's `dumpEnum`** (BpModel/EnumM.lean), for every class
    object and number: the `.name` of what `enum_class(value)` returns, the number itself when that
    raises ValueError -/
theorem src_dump_enum {ν : Type} [DecidableEq ν] (cls : ClsObj ν) (v : Int) :
    Src.dump_enum cls v = .ok (EnumM.dumpEnum cls.st v) :=
  dump_enum_eq cls v

/-- **`_parse_enum` as written is the model's `parseEnum`**: `from_string` for a name (ValueError
    for an unknown one; the class is unchanged), `try_value` for a number (never raises) -/
theorem src_parse_enum {ν : Type} [DecidableEq ν] (cls : ClsObj ν) (j : JEnum ν) :
    Src.parse_enum cls j
      = (ofR (EnumM.parseEnum cls.st j).2).bind fun m => .ok (m, { cls with st := (EnumM.parseEnum cls.st j).1 }) :=
  parse_enum_eq cls j

/-- **enums are value names, of the source as written**: on the class `EnumType.__new__` as written
    builds from a definition `d`, `_dump_enum` as written gives the FIRST name declared with the
    number when there is one, and the number itself otherwise — never null -/
theorem src_dump_enum_name {ν : Type} [DecidableEq ν] (d : Decl ν) (hnd : NamesNodup d = true) (v : Int) :
    ∃ cls, Src.EnumType.new d = .ok cls
      ∧ ((∃ n0, FirstName d v n0 ∧ Src.dump_enum cls v = .ok (some (.name n0)))
         ∨ (¬ Defined d v ∧ Src.dump_enum cls v = .ok (some (.num v)))) := by
  refine ⟨obj (mk d), (C20.src_new d hnd).1, ?_⟩
  rw [src_dump_enum]
  by_cases hd : Defined d v
  · obtain ⟨n0, hf⟩ := defined_firstName d v hd
    obtain ⟨oid, ho⟩ := mk_valueMap_first d v n0 hf
    exact Or.inl ⟨n0, hf, by simp [EnumM.dumpEnum, call, obj, ho]⟩
  · exact Or.inr ⟨hd, by simp [EnumM.dumpEnum, call, obj, mk_valueMap_none d v hd]⟩

/-- **bridge to the `to_dict` tie**: the intrinsic `Py.dumpEnumOf e v` of
    BpProofs/PyPreludeJson.lean (= `Bp.dumpEnum e`, which `Src.to_dict_field` calls) is `_dump_enum`
    as written on the class built for `e` -/
theorem src_dump_enum_bridge (e : EnumDef) (v : Int) :
    ∃ j, Src.dump_enum (clsOf e) v = .ok (some j) ∧ jOfEnum j = Py.dumpEnumOf e (.int v) :=
  dump_enum_bridge e v

/-- **bridge to the `from_dict` tie**: the model's `parseEnum e` behind the intrinsic `Py.parseEnum`
    of BpProofs/PyPreludeFromDict.lean is the number of what `_parse_enum` as written returns -/
theorem src_parse_enum_bridge (e : EnumDef) (hnd : NamesNodup (declOf e) = true) (j : JEnum Bytes) :
    (Src.parse_enum (clsOf e) j).bind (fun p => .ok (Val.int p.1.number)) = ofR (Bp.parseEnum e (jOfEnum j)) :=
  parse_enum_bridge e hnd j

/-- **bridge to the `from_dict` tie**: the intrinsic `Py.parseFloat meta j` of
    BpProofs/PyPreludeFromDict.lean is `_parse_float` as written -/
theorem src_parse_float_bridge (f : FieldD) (j : JVal) (hc : canonFloatJ j = true) :
    Py.parseFloat f j = Src.parse_float (floatOf f.ty) f.ty j := by
  rw [src_parse_float f.ty j hc]; rfl

/-! non-vacuity -/
example : Src.parse_float (floatOf .float) .float (.fstr 1) = .ok (.f32 0xff800000) := rfl
example : Src.parse_float (floatOf .double) .double (.fnum 0x3ff0000000000000) = .ok (.f64 0x3ff0000000000000) := rfl
example : Src.parse_float (floatOf .double) .double .null = .raise .type := rfl
example : Src.dump_enum C20.exCls 1 = .ok (some (.name 0)) ∧ Src.dump_enum C20.exCls 7 = .ok (some (.num 7)) := by decide
example : (Src.parse_enum C20.exCls (.name 2)).bind (fun p => .ok p.1.number) = .ok 1
    ∧ Src.parse_enum C20.exCls (.name 9) = .raise .value := ⟨by decide, rfl⟩
/-- the hypotheses of `src_parse_float_other`: a numeric string -/
example : canonFloatJ (.str [49, 46, 53]) = true ∧ ∀ k, k < 3 → JVal.str [49, 46, 53] ≠ .fstr k :=
  ⟨rfl, fun _ _ h => by cases h⟩
/-- the bridge on the enum `A = 1; B = 2; ALIAS = 1` of the JSON model -/
def exE : EnumDef := [⟨[65], [65], 1⟩, ⟨[66], [66], 2⟩, ⟨[67], [67], 1⟩]
example : NamesNodup (declOf exE) = true := by decide
example : Src.dump_enum (clsOf exE) 1 = .ok (some (.name [65])) ∧ Src.dump_enum (clsOf exE) 5 = .ok (some (.num 5)) := by decide
example : (Src.parse_enum (clsOf exE) (.name [67])).bind (fun p => .ok p.1.number) = .ok 1 := by decide
example : NamesNodup C20.exD = true := by decide

end Bp.C05
