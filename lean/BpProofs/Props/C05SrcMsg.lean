import BpProofs.SrcTieJsonMsg
import BpProofs.SrcTieJsonMsgTyped
import BpProofs.Props.C05
/-
  C05 (canonical proto3 JSON mapping), tied to the SOURCE, WHOLE METHOD: `Message.to_dict` as written —
  everything around the field loop translated by harness/extract_srcjsonmsg.py (BpProofs/Gen/SrcJsonMsg.lean), the
  loop body by extract_srcjson.py, the recursion into sub-messages the translated method itself one nesting level
  down (`Src.value_to_dict`) — is proved equal to the model's `toDict` (BpProofs/SrcTieJsonMsg.lean), which
  `C05.canonical_message` proves equal to the canonical mapping `specJson`.  The corollary states C05's sentence
  of the source function only.  Reading and guards: Props/C04SrcMsg.lean.
-/
namespace Bp.C05
open Bp Bp.Py Bp.SrcTieJson Bp.SrcTieJsonMsg

/-- **C05's sentence, of the source function only**: for every schema inside `jsonOk5` and every well-typed
    message without a negative zero (inside the value guard of the tie at every level), `m.to_dict()` AS WRITTEN
    — default casing, no default values, sub-messages nested to any depth — returns exactly `specJson m`: the
    members the canonical proto3 JSON mapping prescribes, in the same order, with the same values -/
theorem src_to_dict_is_canonical (S : Schema) (E : Enums) (m : Val) (k : Nat) (hS : jsonOk5 S E = true)
    (hwt : wellTyped' S m = true) (hz : noNegZero S m = true) (hv : vOkAt S k m = true) :
    Src.value_to_dict S E (k + 1) .camel false m = .ok (specJson S E m) := by
  obtain ⟨hW, hD, hK⟩ := guards_of_jsonOk S E .camel (jsonOk_of_jsonOk5 S E hS)
  rw [value_to_dict_eq S E .camel false hW hD hK k m hv, canonical_message S E m hS hwt hz]

/-- … and `m.to_json()` AS WRITTEN is `json.dumps` of `specJson m` -/
theorem src_to_json_is_canonical (S : Schema) (E : Enums) (m : Val) (k : Nat) (indent : JsonMsg.Indent)
    (hS : jsonOk5 S E = true) (hwt : wellTyped' S m = true) (hz : noNegZero S m = true) (hv : vOkAt S k m = true) :
    Src.value_to_json S E k m indent false .camel = JsonMsg.jsonDumps (specJson S E m) indent := by
  obtain ⟨hW, hD, hK⟩ := guards_of_jsonOk S E .camel (jsonOk_of_jsonOk5 S E hS)
  rw [value_to_json_eq S E .camel false hW hD hK k m indent hv, canonical_message S E m hS hwt hz]

/-- the same with the value guard discharged by the typing judgement (`kOkAt k m`: pairwise distinct dict keys at
    every level, Message instances nested at most `k` deep) -/
theorem src_to_dict_is_canonical_typed (S : Schema) (E : Enums) (m : Val) (k : Nat) (hS : jsonOk5 S E = true)
    (hwt : wellTyped' S m = true) (hz : noNegZero S m = true) (hk : kOkAt k m = true) :
    Src.value_to_dict S E (k + 1) .camel false m = .ok (specJson S E m) :=
  src_to_dict_is_canonical S E m k hS hwt hz (vOkAt_of_typed S k m hwt hk)

/-! non-vacuity: the guards hold of C05's own nested instance `m5` -/
example : jsonOk5 S5 E5 = true ∧ vOkAt S5 4 m5 = true ∧ kOkAt 4 m5 = true := by decide

end Bp.C05
