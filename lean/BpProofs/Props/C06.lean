import BpModel.All
import BpProofs.Presence
import BpProofs.Ops
/-
  C06 — proto3 defaults and field presence are encoded and recovered correctly.
-/
namespace Bp.C06
open Bp Gen

/-- **a freshly constructed message reads every (non-oneof) field as its proto3 default**:
    None for proto3-optional fields, otherwise `_get_field_default` ([] / {} for repeated /
    map fields, None for wrapper fields, a fresh sub-message for message fields, the zero
    value for scalars); oneof members raise AttributeError (C07) -/
theorem fresh_default (S : Schema) (c : Nat) (i : Nat) (f : FieldD)
    (hf : (fieldsOf S c)[i]? = some f) (hg : f.group = Option.none) :
    ∃ st', getAttr S (fieldsOf S c) (freshState { fields := fieldsOf S c, nGroups := groupsOf S c }) i
      = .ok (if f.optional then Val.none else defaultOf S f, st') := by
  unfold getAttr
  simp only [hf]
  have hh : hidden f i (freshState { fields := fieldsOf S c, nGroups := groupsOf S c }).cur = false := by
    unfold hidden; rw [hg]
  simp only [hh, Bool.false_eq_true, if_false]
  have hv : materialize S f ((freshState { fields := fieldsOf S c, nGroups := groupsOf S c }).slots.getD i Val.ph)
      = if f.optional then Val.none else defaultOf S f := by
    simp only [freshState, List.getD_eq_getElem?_getD, List.getElem?_map, hf, Option.map_some, Option.getD_some]
    by_cases ho : f.optional = true <;> simp [ho, materialize]
  rw [hv]
  exact ⟨_, rfl⟩

/-- **… and encodes to zero bytes** -/
theorem fresh_empty (S : Schema) (c : Nat) : dumpVal S (fresh S c) = .ok [] := dump_fresh S c

/-- **an implicit-presence field holding its default value is never emitted**: plain
    (no oneof, not optional) field, any scalar / string / bytes / datetime / timedelta
    value equal to the default — and likewise an empty list, an empty map -/
theorem implicit_default_skipped (S : Schema) (f : FieldD) (v : Val)
    (hg : f.group = Option.none) (ho : f.optional = false) (hp : isPlainVal v = true)
    (hd : eqDefault S f.defKind v = true) :
    dumpSlot S f (hidden f 0 []) false v = .ok [] := by
  have hh : hidden f 0 [] = false := by unfold hidden; rw [hg]
  rw [hh, dumpSlot_plain S f false false v hp]
  simp [hg, ho, hd]

theorem implicit_empty_list_skipped (S : Schema) (f : FieldD)
    (hg : f.group = Option.none) (ho : f.optional = false) (hk : f.defKind = .list) :
    dumpSlot S f false false (.list []) = .ok [] := by
  rw [dumpSlot]
  have : eqDefault S .list (.list []) = true := by rw [eqDefault]; rfl
  simp [hg, ho, hk, this]

/-- what the framing emits when it must emit: the field's tag first -/
theorem frame_emits (num : Nat) (t : PType) (pre out : Bytes) (se w : Bool) (hse : (se || w) = true)
    (h : frame num t pre se w = .ok out) :
    ∃ wt rest, wireOf t = some wt ∧ out = encNat (num * 8 + wt) ++ rest := by
  unfold frame at h
  unfold wireOf
  simp only [dumpVarint_nat, bind_ok] at h
  by_cases h1 : wireVarintTypes.contains t = true
  · rw [if_pos h1] at h ⊢; injection h with h
    exact ⟨_, pre, rfl, h.symm⟩
  · rw [if_neg h1] at h ⊢
    by_cases h2 : wireFixed32Types.contains t = true
    · rw [if_pos h2] at h ⊢; injection h with h
      exact ⟨_, pre, rfl, h.symm⟩
    · rw [if_neg h2] at h ⊢
      by_cases h3 : wireFixed64Types.contains t = true
      · rw [if_pos h3] at h ⊢; injection h with h
        exact ⟨_, pre, rfl, h.symm⟩
      · rw [if_neg h3] at h ⊢
        by_cases h4 : wireLenDelimTypes.contains t = true
        · rw [if_pos h4] at h ⊢
          have : (pre.length != 0 || se || w) = true := by
            cases se <;> cases w <;> simp_all
          rw [if_pos this] at h; injection h with h
          exact ⟨_, encNat pre.length ++ pre, rfl, by rw [← h, List.append_assoc]; rfl⟩
        · rw [if_neg h4] at h; simp at h

/-- **a proto3-optional field, a selected oneof member or a wrapper-typed field that was
    set — even to its default value — is emitted**: whenever the encoder succeeds on such
    a slot the output starts with the field's own tag -/
theorem explicit_emitted (S : Schema) (f : FieldD) (sel : Bool) (v : Val) (out : Bytes)
    (hp : isPlainVal v = true)
    (hexp : f.optional = true ∨ (f.group.isSome = true ∧ sel = true) ∨ f.wraps.isSome = true)
    (h : dumpSlot S f false sel v = .ok out) :
    ∃ wt rest, wireOf f.ty = some wt ∧ out = encNat (f.num * 8 + wt) ++ rest := by
  rw [dumpSlot_plain S f false sel v hp] at h
  simp only [Bool.false_eq_true, if_false] at h
  -- a wrapper field's default is None, so a plain value never equals it
  have hskip : (eqDefault S f.defKind v && !((f.group.isSome || f.optional) || sel)) = false := by
    rcases hexp with h1 | h1 | h1
    · simp [h1]
    · simp [h1.1, h1.2]
    · have hk : f.defKind = .list ∨ f.defKind = .dict ∨ f.defKind = .none := by
        unfold FieldD.defKind
        split
        · left; rfl
        · split
          · right; left; rfl
          · right; right; simp [h1]
      have : eqDefault S f.defKind v = false := by
        rcases hk with hk | hk | hk <;> rw [hk] <;> cases v <;> first | (simp [isPlainVal] at hp; done) | simp [eqDefault]
      simp [this]
  simp only [hskip, Bool.false_eq_true, if_false] at h
  unfold serializeScalar at h
  cases hpre : prepScalar S f.ty f.wraps v with
  | error e => rw [hpre] at h; simp at h
  | ok pre =>
    rw [hpre] at h; simp only [bind_ok] at h
    refine frame_emits _ _ _ _ _ _ ?_ h
    rcases hexp with h1 | h1 | h1
    · simp [h1]
    · simp [h1.1]
    · simp [h1]

/-- **a plain sub-message field is emitted exactly when `serialized_on_wire` reports it**
    (as long as it still equals a fresh instance; a sub-message with content is always emitted) -/
theorem submsg_emitted_iff_onwire (S : Schema) (f : FieldD) (c : Nat) (sl : List Val) (ow : Bool) (unk : Bytes)
    (cur : List (Option Nat)) (hg : f.group = Option.none) (ho : f.optional = false)
    (hd : eqDefault S f.defKind (.msg c sl ow unk cur) = true) (out : Bytes)
    (h : dumpSlot S f false false (.msg c sl ow unk cur) = .ok out) :
    (out = [] ↔ ow = false) := by
  rw [dumpSlot] at h
  simp only [Bool.false_eq_true, if_false, hg, ho, hd, Option.isSome_none, Bool.or_false, Bool.false_or,
    Bool.true_and] at h
  cases ow with
  | false => simp at h; simp [h]
  | true =>
    simp only [Bool.not_true, Bool.false_eq_true, if_false] at h
    cases hb : dumpSlots S (fieldsOf S c) cur 0 sl with
    | error e => rw [hb] at h; simp at h
    | ok body =>
      rw [hb] at h; simp only [bind_ok] at h
      split at h
      · obtain ⟨wt, rest, _, e⟩ := frame_emits _ _ _ _ _ _ (by simp) h
        constructor
        · intro hc; rw [hc] at e
          have hne := encNat_ne_nil (f.num * 8 + wt)
          cases hh : encNat (f.num * 8 + wt) with
          | nil => exact absurd hh hne
          | cons a as => rw [hh] at e; simp at e
        · intro hc; simp at hc
      · simp at h

/-! non-vacuity -/
def S3 : Schema := [{ fields := [{ name := "o", num := 1, ty := .int32, optional := true },
                                  { name := "p", num := 2, ty := .int32 },
                                  { name := "w", num := 3, ty := .message, wraps := some .bool }] }]
example : dumpVal S3 (.msg 0 [.int 0, .int 0, .bool false] true [] []) = .ok [0x08, 0x00, 0x1a, 0x00] := by decide
example : dumpVal S3 (.msg 0 [.none, .ph, .none] false [] []) = .ok [] := by decide

end Bp.C06
