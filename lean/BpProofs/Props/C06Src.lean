import BpProofs.SrcTieDump
import BpProofs.Props.C06
/-
  C06, tied to the SOURCE: the per-field emission decision of `Message.dump` — skip on
  AttributeError / None, `selected_in_group`, `serialize_empty`, the skip test against the
  default, the list / dict / single-value shapes, the empty-string special case — is
  translated from the Python AST of the body of the field loop on every run
  (harness/extract_srcdump.py → BpProofs/Gen/SrcDump.lean, `Src.dump_field`) and proved
  EQUAL to the model's `dumpSlot`, which the theorems of Props/C06.lean are about.  The
  corollaries restate those theorems of the source as written.  If the loop body changes what
  it decides, `src_dump_field` stops checking.

  Reading: `Src.dump_field S enc f got sel stream` is one iteration for the field described
  by `f`; `got = Py.getattrField S f hid v` is what `getattr(self, field_name)` yields for the
  raw slot `v` (`hid`: AttributeError for an unselected oneof member; a PLACEHOLDER slot is
  materialised to the default); `sel` is `_include_default_value_for_oneof`; `enc` is
  `bytes(<Message>)`; the result is the stream after the iteration.  What the dynamic Python
  operations mean on `Val` / `FieldD` is fixed in BpProofs/PyPreludeDyn.lean (trusted).
-/
namespace Bp.C06
open Bp Bp.Py Bp.SrcTieDump

/-- **the emission decision of `Message.dump` as written is the model's `dumpSlot`**: for every
    field descriptor, every raw slot value, both flags and every stream content, one iteration of
    the field loop appends exactly the bytes of `dumpSlot S f hid sel v` and raises exactly when
    it raises.  Guards: `dynOk f v` (a Message instance / a non-empty dict sits where the
    descriptor allows one — implied by the typing judgement, `src_guard_of_typed`) and
    `WfSchemaOpt S` (optional fields are singular, non-map). -/
theorem src_dump_field (S : Schema) (hS : WfSchemaOpt S) (f : FieldD) (hid sel : Bool) (v : Val) (stream : Bytes)
    (hok : dynOk f v = true) :
    Src.dump_field S (dumpVal S) f (getattrField S f hid v) sel stream
      = Py.ofR ((dumpSlot S f hid sel v).map fun b => stream ++ b) :=
  dump_field_eq S hS f hid sel v stream hok

/-- the guard of `src_dump_field` holds of every slot that is typed (C17's `slotTypedB`, either
    strictness) for a field of a well-formed schema (C17's `wfFieldB`) -/
theorem src_guard_of_typed (s : Bool) (S : Schema) (n : Nat) (f : FieldD) (v : Val)
    (hw : wfFieldB n f = true) (ht : slotTypedB s S f v = true) : dynOk f v = true :=
  dynOk_of_typed s S n f v hw ht

/-- **an unselected oneof member is not written by the source as written** (getattr raises
    AttributeError, the iteration leaves the stream as it is) -/
theorem src_hidden_skipped (S : Schema) (f : FieldD) (sel : Bool) (v : Val) (stream : Bytes) :
    Src.dump_field S (dumpVal S) f (getattrField S f true v) sel stream = .ok stream := by
  simp [getattrField, Src.dump_field]

/-- **an implicit-presence field holding its default is not written by the source as written**:
    plain (no oneof, not optional) field, any scalar / string / bytes / datetime / timedelta
    value equal to the default: the stream is left as it is -/
theorem src_implicit_default_skipped (S : Schema) (f : FieldD) (v : Val) (stream : Bytes)
    (hg : f.group = Option.none) (ho : f.optional = false) (hp : isPlainVal v = true)
    (hd : eqDefault S f.defKind v = true) :
    Src.dump_field S (dumpVal S) f (getattrField S f (hidden f 0 []) v) false stream = .ok stream := by
  have hh : hidden f 0 [] = false := by unfold hidden; rw [hg]
  have := implicit_default_skipped S f v hg ho hp hd
  rw [hh] at this ⊢
  rw [dump_field_eq_set S f false v stream (plain_ne_ph v hp) (dynOk_plain f v hp), this]
  simp

/-- … and likewise an empty list in an implicit-presence repeated field -/
theorem src_implicit_empty_list_skipped (S : Schema) (f : FieldD) (stream : Bytes)
    (hg : f.group = Option.none) (ho : f.optional = false) (hk : f.defKind = .list) :
    Src.dump_field S (dumpVal S) f (getattrField S f false (.list [])) false stream = .ok stream := by
  rw [dump_field_eq_set S f false _ stream (by simp) rfl, implicit_empty_list_skipped S f hg ho hk]
  simp

/-- … and a slot still holding PLACEHOLDER (never assigned, never decoded) of an
    implicit-presence field: `getattr` materialises the default, nothing is written -/
theorem src_unset_skipped (S : Schema) (hS : WfSchemaOpt S) (f : FieldD) (stream : Bytes)
    (hg : f.group = Option.none) (ho : f.optional = false) :
    Src.dump_field S (dumpVal S) f (getattrField S f false .ph) false stream = .ok stream := by
  rw [dump_field_eq S hS f false false .ph stream rfl, dumpSlot]
  unfold dumpDefault
  simp only [hg, ho, Option.isSome_none, Bool.or_self, Bool.false_eq_true, if_false]
  cases f.defKind <;> simp

/-- **a selected oneof member / a set proto3-optional field / a set wrapper field is written
    even when it holds the default**: whenever the iteration as written succeeds on such a slot,
    what it appended to the stream starts with the field's own tag -/
theorem src_explicit_emitted (S : Schema) (f : FieldD) (sel : Bool) (v : Val) (stream out : Bytes)
    (hp : isPlainVal v = true)
    (hexp : f.optional = true ∨ (f.group.isSome = true ∧ sel = true) ∨ f.wraps.isSome = true)
    (h : Src.dump_field S (dumpVal S) f (getattrField S f false v) sel stream = .ok out) :
    ∃ wt rest, wireOf f.ty = some wt ∧ out = stream ++ (encNat (f.num * 8 + wt) ++ rest) := by
  rw [dump_field_eq_set S f sel v stream (plain_ne_ph v hp) (dynOk_plain f v hp)] at h
  cases hm : dumpSlot S f false sel v with
  | error e => rw [hm] at h; simp at h
  | ok b =>
    rw [hm] at h
    simp only [appR_ok, Res.ok.injEq] at h
    obtain ⟨wt, rest, hw, hb⟩ := explicit_emitted S f sel v b hp hexp hm
    exact ⟨wt, rest, hw, by rw [← h, hb]⟩

/-- **a plain sub-message field that still equals a fresh instance is written by the source as
    written exactly when `_serialized_on_wire` is set** -/
theorem src_submsg_emitted_iff_onwire (S : Schema) (f : FieldD) (c : Nat) (sl : List Val) (ow : Bool) (unk : Bytes)
    (cur : List (Option Nat)) (hg : f.group = Option.none) (ho : f.optional = false)
    (hf : f.ty = .message) (hw : f.wraps = Option.none)
    (hd : eqDefault S f.defKind (.msg c sl ow unk cur) = true) (stream out : Bytes)
    (h : Src.dump_field S (dumpVal S) f (getattrField S f false (.msg c sl ow unk cur)) false stream = .ok out) :
    (out = stream ↔ ow = false) := by
  have hok : dynOk f (.msg c sl ow unk cur) = true := by simp [dynOk, msgPlace, hf, hw]
  rw [dump_field_eq_set S f false _ stream (by simp) hok] at h
  cases hm : dumpSlot S f false false (.msg c sl ow unk cur) with
  | error e => rw [hm] at h; simp at h
  | ok b =>
    rw [hm] at h
    simp only [appR_ok, Res.ok.injEq] at h
    have := submsg_emitted_iff_onwire S f c sl ow unk cur hg ho hd b hm
    rw [← this, ← h]
    constructor
    · intro he
      have : (stream ++ b).length = stream.length := by rw [he]
      simp only [List.length_append] at this
      exact List.eq_nil_of_length_eq_zero (by omega)
    · intro he; rw [he]; simp

/-! non-vacuity: the translated iteration run on closed inputs — an optional int32 set to 0 is
    written as `08 00`, the same value in a plain field is not written, an unset optional
    (None) is not written -/
def fOpt : FieldD := { name := "o", num := 1, ty := .int32, optional := true }
def fPlain : FieldD := { name := "p", num := 1, ty := .int32 }
def fOneStr : FieldD := { name := "s", num := 2, ty := .string, group := some 0 }
example : Src.dump_field [] (dumpVal []) fOpt (getattrField [] fOpt false (.int 0)) false [7] = .ok [7, 8, 0] := by decide
example : Src.dump_field [] (dumpVal []) fPlain (getattrField [] fPlain false (.int 0)) false [7] = .ok [7] := by decide
example : Src.dump_field [] (dumpVal []) fOpt (getattrField [] fOpt false .none) false [7] = .ok [7] := by decide
example : Src.dump_field [] (dumpVal []) fOneStr (getattrField [] fOneStr false (.str [])) true [] = .ok [18, 0] := by decide
example : Src.dump_field [] (dumpVal []) fOneStr (getattrField [] fOneStr true .ph) false [] = .ok [] := by decide

end Bp.C06
