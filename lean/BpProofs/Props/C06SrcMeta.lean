import BpProofs.SrcTieMetaInit
import BpProofs.SrcTieMetaField
import BpProofs.SrcTieMsg
import BpProofs.Props.C06
/-
  C06, tied to the SOURCE, the foundation under every other tie: the class metadata tables, construction and the
  field defaults.  `ProtoClassMetadata.__init__` (+ `_get_default_gen`, `_get_cls_by_field`), the lazy cache
  `Message._betterproto`, `Message.__post_init__`, `Message.__setattr__` (as the dataclass `__init__` runs it),
  `Message._type_hint`, `_cls_for`, `_get_field_default_gen`, `_get_field_default`, `dataclass_field` and the `*_field`
  helpers are translated from the
  Python AST of the working tree on every run (harness/extract_srcmeta.py → BpProofs/Gen/SrcMeta.lean, namespace
  `Bp.SrcMeta`) and proved EQUAL to what the model — and the preludes of all the other source ties — use:

    * the tables: `field_name_by_number.get` = `findField` (LAST declaration of a number wins; what
      PyPreludeLoad.lean assumes as `Py.fieldNameByNumber`), `meta_by_field_name` = the fields in declaration order
      (`Py.metaByFieldName`), `default_gen[name] is list` = `FieldD.repeated` (`Py.defaultGenIsList`),
      `oneof_group_by_field.get` = the group of the field, `oneof_field_by_group[g]` = the members of `g` in
      declaration order, `sorted_field_names` = every name once (the same statements with the names PyPreludeObj.lean
      assumes them under are in Props/C07SrcMeta.lean: the two preludes cannot be imported together);
    * `Cls(**kw)` = the model's `construct`, `Cls()` = `fresh`;
    * `_get_field_default` = the model's `defaultOf` (`Py.getFieldDefault`), for every field kind.

  Reading: a class is the list `fs` of its field descriptors, a field / group name is its index, a dict is an
  insertion-ordered association list, the annotation of a field is `PyMeta.typeHint f`; an instance while it is
  being constructed is a `PyMeta.Inst`.  All of that is fixed in BpProofs/PyPreludeMeta.lean (trusted).
-/
set_option linter.unusedSimpArgs false
namespace Bp.C06
open Bp Bp.PyMeta Bp.SrcTieMeta
open Bp.Py (Res ofR)

/-! ### the metadata tables -/

/-- **`ProtoClassMetadata(cls)` as written builds the tables every other tie assumes**: it never raises, and for
    EVERY list of field descriptors (no well-formedness needed)
    * `meta_by_field_name` is the fields in declaration order under their names;
    * `oneof_group_by_field.get(name)` is the group of that field, None for a field outside any group and for a
      name that is not a field;
    * `field_name_by_number.get(n)` is the model's `findField`: the LAST field that declares number `n`;
    * `oneof_field_by_group.get(g)` is the list of the members of `g` in declaration order, absent for a group
      without members;
    * `default_gen.get(name)` is the generator `genOf` of the field;
    and with pairwise distinct field numbers (`numsDistinctB`, part of C01's `MsgOk`) `sorted_field_names` holds
    every field name exactly once. -/
theorem src_metadata_tables (fs : List FieldD) :
    ∃ M, SrcMeta.ProtoClassMetadata.init fs = .ok M
      ∧ M.meta_by_field_name = dataclassFields fs
      ∧ (∀ name, PyEnum.dictGet M.meta_by_field_name name = fs[name]?)
      ∧ (∀ name, PyEnum.dictGet M.oneof_group_by_field name = (fs[name]?).bind fun f => f.group)
      ∧ (∀ n, PyEnum.dictGet M.field_name_by_number n = findField fs n)
      ∧ (∀ g, PyEnum.dictGet M.oneof_field_by_group g =
            match membersFrom g fs 0 with
            | [] => none
            | m :: ms => some (m :: ms))
      ∧ (∀ name, PyEnum.dictGet M.default_gen name = (fs[name]?).map genOf)
      ∧ (numsDistinctB fs = true → M.sorted_field_names.Perm (List.range fs.length)) :=
  ⟨tables fs, init_eq fs, rfl, tables_meta_by_field_name fs, tables_group_by_field fs, tables_name_by_number fs,
    tables_field_by_group fs, tables_default_gen fs, tables_sorted_perm fs⟩

/-- the names iterated by `for name in meta_by_field_name`: every field once, in declaration order -/
theorem src_field_names_in_declaration_order (fs : List FieldD) :
    ∃ M, SrcMeta.ProtoClassMetadata.init fs = .ok M ∧ M.meta_by_field_name.map (·.1) = List.range fs.length := by
  refine ⟨tables fs, init_eq fs, ?_⟩
  show (enumFrom 0 fs).map (·.1) = List.range fs.length
  rw [enumFrom_map_fst, List.range_eq_range']

/-- **a duplicated field number: the last declaration wins** in `field_name_by_number` (a dict store replaces),
    and `sorted_field_names` then lacks the earlier field — decided on a class with the fields a = 1, b = 2, c = 1
    (replayed on the real code: harness/tests/check_srcmeta.py) -/
theorem src_duplicate_number_last_wins :
    (match SrcMeta.ProtoClassMetadata.init [{ num := 1, ty := .int32 }, { num := 2, ty := .int32 }, { num := 1, ty := .string }] with
     | .ok M => (PyEnum.dictGet M.field_name_by_number 1, M.sorted_field_names)
     | _ => (none, [])) = (some 2, [2, 1]) := by decide

/-- **the lazy per-class cache `Message._betterproto`** returns `ProtoClassMetadata(cls)` in both of its states —
    nothing cached yet (it is built and stored), or the tables cached by an earlier access — and leaves them cached -/
theorem src_betterproto_cache (fs : List FieldD) (M : ClassMeta) (hM : SrcMeta.ProtoClassMetadata.init fs = .ok M)
    (cache : Option ClassMeta) (hc : cache = none ∨ cache = some M) :
    SrcMeta.betterproto fs cache = .ok (M, some M) := by
  rcases hc with h | h <;> subst h <;> simp [SrcMeta.betterproto, getCache, hM]

/-- `cls_by_field[name]` of a plain message field (singular, repeated or proto3-optional) is the class the model's
    `kind` names — the generated class, `datetime` or `timedelta`; of a map field it is the synthetic `Entry`
    dataclass with `key` = field 1 of the key type, `value` = field 2 of the value type (the model's `entryD`) -/
theorem src_cls_by_field (fs : List FieldD) (k : Nat) (f : FieldD) (hf : fs[k]? = some f) :
    SrcMeta.cls_for fs (k, f) 0 = (if f.ty == .map then .ok (keyHint f) else .ok (clsOf f))
    ∧ (f.ty = .message → f.wraps = none → clsOf f = .obj (kindObj f.kind)) := by
  refine ⟨?_, ?_⟩
  · rw [cls_for_eq fs k f hf]
    by_cases hm : (f.ty == .map) = true
    · simp [hm, typeHint_map f hm, clsForSpec, tupleItem_zero]
    · have hm' : (f.ty == .map) = false := by simpa using hm
      simp [hm', clsFor_nonmap f hm']
  · intro ht hw
    unfold clsOf baseHint
    simp [ht, hw]

/-! ### construction -/

/-- **`__post_init__` as written**, on an instance with one raw slot per field: `_serialized_on_wire` becomes
    `not all_sentinel` = the model's `anyNonSentinel` (some slot is neither PLACEHOLDER nor the None of an optional
    field), `_unknown_fields` becomes `b""`, and `_group_current` becomes a dict that reads, group by group, as the
    model's `initCur`: a key for every group that has a member, holding the LAST non-sentinel member of the group in
    declaration order, or None -/
theorem src_post_init (fs : List FieldD) (self : Inst) (hl : self.slots.length = fs.length) (n : Nat) :
    ∃ inst, SrcMeta.post_init fs self = .ok inst
      ∧ inst.toMState n = some { slots := self.slots, onWire := anyNonSentinel fs self.slots, unknown := [],
                                 cur := initCur fs self.slots 0 (List.replicate n Option.none) } := by
  obtain ⟨gc, h1, h2⟩ := post_init_eq fs self hl
  refine ⟨_, h1, ?_⟩
  have := h2 n
  unfold curOf at this
  simp [Inst.toMState, this]

/-- `_group_current` has a key for every group that has a member, so `_group_current[group]` in
    `__getattribute__` never raises KeyError for the group of a field -/
theorem src_group_current_has_member_groups (S : Schema) (c : Nat) (kw : List (Nat × Val))
    (hkw : ∀ p ∈ kw, p.1 < (fieldsOf S c).length) :
    ∃ inst, constructInst S c kw = .ok inst ∧ inst.groupCurrent.isSome := by
  unfold constructInst
  obtain ⟨ow, h1⟩ := dataclassInit_eq S (fieldsOf S c) kw hkw
  rw [h1]
  obtain ⟨gc, h2, _⟩ := post_init_eq (fieldsOf S c)
    { slots := initSlots (fieldsOf S c) (kw.map fun (p : Nat × Val) => (p.1, markEmpty S p.2)) 0 (fieldsOf S c),
      onWire := ow, unknown := none, groupCurrent := none } (initSlots_length _ _ _ _)
  exact ⟨_, h2, rfl⟩

/-- **`Cls(**kw)` as written is the model's `construct`**: the generated dataclass `__init__` (every argument
    assigned through `Message.__setattr__` as written, which before `__post_init__` does no oneof bookkeeping)
    followed by `__post_init__` as written ends, without raising, in exactly the state `construct` computes — raw
    slots, on-wire flag, empty unknown fields, selection per group — for every schema, class and argument
    assignment.  Guard: the arguments name fields of the class (otherwise `__init__` raises TypeError:
    `src_construct_unknown_argument`). -/
theorem src_construct (S : Schema) (c : Nat) (kw : List (Nat × Val)) (hkw : ∀ p ∈ kw, p.1 < (fieldsOf S c).length) :
    constructVal S c kw = .ok (construct S c kw) :=
  constructVal_eq S c kw hkw

/-- an argument that names no field of the class: TypeError, where the model's `construct` ignores the argument
    (outside the domain of every theorem: the harness and `Op` only name fields) -/
theorem src_construct_unknown_argument (S : Schema) (c : Nat) (kw : List (Nat × Val)) (p : Nat × Val) (hp : p ∈ kw)
    (h : (fieldsOf S c).length ≤ p.1) : constructVal S c kw = .raise .type := by
  unfold constructVal constructInst
  rw [dataclassInit_unknown S _ kw p hp h]
  rfl

/-- decided witness of that disagreement: class with one int32 field, `Cls(**{<field 5>: 7})` -/
theorem src_construct_unknown_argument_witness :
    constructVal [{ fields := [{ num := 1, ty := .int32 }] }] 0 [(5, .int 7)] = .raise .type
    ∧ construct [{ fields := [{ num := 1, ty := .int32 }] }] 0 [(5, .int 7)] = .msg 0 [.ph] false [] [] := ⟨rfl, rfl⟩

/-- **`Cls()` as written is the model's fresh instance**: every slot at its dataclass default (None for a
    proto3-optional field, PLACEHOLDER otherwise), `_serialized_on_wire = False`, no unknown fields, no selection -/
theorem src_fresh (S : Schema) (c : Nat) : constructVal S c [] = .ok (fresh S c) := constructVal_nil S c

/-! ### field defaults -/

/-- **`_get_field_default_gen` as written picks, for the annotation of every field kind**: `list` for a repeated
    field, `dict` for a map, `type(None)` for a proto3-optional or wrapper field, the message class for a
    sub-message, `datetime_default_gen` for a Timestamp, `timedelta` for a Duration, `try_value` of the enum class
    for an enum, and the scalar class otherwise -/
theorem src_field_default_gen (fs : List FieldD) (k : Nat) (f : FieldD) (hf : fs[k]? = some f) :
    SrcMeta.get_field_default_gen fs (k, f) = .ok (genOf f) := gen_of_hint fs k f hf

/-- **`_get_field_default` as written is the model's default** `defaultOf` — what PyPreludeLoad.lean and PyPreludeObj.lean
    assume as `Py.getFieldDefault` —, with `Cls()` of a message class the construction as written.  Guard: the field is not
    a map that is also marked repeated (`mapNotRepeated`). -/
theorem src_field_default (S : Schema) (fs : List FieldD) (self : Inst) (k : Nat)
    (hg : ∀ f, fs[k]? = some f → mapNotRepeated f = true) :
    SrcMeta.get_field_default (fun c => constructVal S c []) fs self k
      = Py.getFieldDefault S { fields := fs } (some k) := by
  rw [get_field_default_eq S _ (constructVal_nil S) fs self k hg]
  unfold Py.getFieldDefault Py.metaByFieldName
  cases h : fs[k]? <;> simp [h, Py.Res.bind]

/-- … spelled out per field kind: scalar kinds, string / bytes, enum → member 0, message → fresh instance, wrapper /
    optional → None, repeated → [], map → {}, Timestamp → DATETIME_ZERO, Duration → timedelta(0) -/
theorem src_field_default_by_kind (S : Schema) (fs : List FieldD) (self : Inst) (k : Nat) (f : FieldD) (hf : fs[k]? = some f)
    (hg : mapNotRepeated f = true) :
    ∃ v, SrcMeta.get_field_default (fun c => constructVal S c []) fs self k = .ok v ∧ v = defaultOf S f
      ∧ (f.ty = .map → v = .dict [] [])
      ∧ (f.ty ≠ .map → f.repeated = true → v = .list [])
      ∧ (f.ty ≠ .map → f.repeated = false → (f.optional = true ∨ f.wraps.isSome = true) → v = .none)
      ∧ (f.ty ≠ .map → f.repeated = false → f.optional = false → f.wraps = none →
          (f.ty = .message → (∀ c', f.kind = .user c' → v = fresh S c') ∧ (f.kind = .timestamp → v = .ts 0)
            ∧ (f.kind = .duration → v = .dur 0))
          ∧ (f.ty = .enum → v = .int 0) ∧ (f.ty = .bool → v = .bool false) ∧ (f.ty = .string → v = .str [])
          ∧ (f.ty = .bytes → v = .byt []) ∧ (f.ty = .float → v = .f32 0) ∧ (f.ty = .double → v = .f64 0)
          ∧ (f.ty = .int32 → v = .int 0) ∧ (f.ty = .sint64 → v = .int 0) ∧ (f.ty = .fixed32 → v = .int 0)) := by
  refine ⟨defaultOf S f, ?_, rfl, ?_⟩
  · rw [src_field_default S fs self k (fun f' h' => by rw [hf] at h'; injection h' with h'; subst h'; exact hg)]
    simp [Py.getFieldDefault, Py.metaByFieldName, hf]
  · have hmr : f.ty = .map → f.repeated = false := by
      intro h; simpa [mapNotRepeated, h] using hg
    unfold defaultOf FieldD.defKind
    refine ⟨fun h => by simp [h, hmr h, defaultOfKind], fun _ hr => by simp [hr, defaultOfKind], ?_, ?_⟩
    · intro hm hr ho
      have : (f.optional || f.wraps.isSome) = true := by rcases ho with h | h <;> simp [h]
      simp [hm, hr, this, defaultOfKind]
    · intro hm hr ho hw
      refine ⟨fun ht => ⟨fun c' hk => ?_, fun hk => ?_, fun hk => ?_⟩, ?_⟩
      · simp [hm, hr, ho, hw, ht, hk, msgKindDef, defaultOfKind]
      · simp [hm, hr, ho, hw, ht, hk, msgKindDef, defaultOfKind]
      · simp [hm, hr, ho, hw, ht, hk, msgKindDef, defaultOfKind]
      · refine ⟨?_, ?_, ?_, ?_, ?_, ?_, ?_, ?_, ?_⟩ <;> intro ht <;> simp [hr, ho, hw, ht, scalarDef, defaultOfKind]

/-- decided witness of the disagreement the guard `mapNotRepeated` excludes: for a map field that is also marked
    `repeated` the annotation is `Dict[…]`, the source gives `{}`, the model's `defaultOf` says `[]` -/
theorem src_field_default_repeated_map_witness :
    SrcMeta.get_field_default (fun c => constructVal [] c []) [{ num := 1, ty := .map, repeated := true }] { slots := [.ph] } 0
      = .ok (.dict [] [])
    ∧ defaultOf [] { num := 1, ty := .map, repeated := true } = .list [] := ⟨rfl, rfl⟩

/-! ### the C06 sentence "a freshly constructed message reads every field as its proto3 default and encodes to
    zero bytes", of the source as written -/

/-- **a freshly constructed message reads every (non-oneof) field as its proto3 default**: on the instance `Cls()`
    as written leaves, an attribute read (the model's `getAttr`; `Message.__getattribute__` as written is tied to it
    in Props/C07Src.lean, and the composition is `C07.src_fresh_getattr_default` of Props/C07SrcMeta.lean) returns None
    for a proto3-optional field and otherwise the value `_get_field_default` AS WRITTEN computes — `defaultOf` -/
theorem src_fresh_reads_default (S : Schema) (c : Nat) (i : Nat) (f : FieldD)
    (hf : (fieldsOf S c)[i]? = some f) (hg : f.group = Option.none) (hmr : mapNotRepeated f = true) :
    ∃ m cst, constructVal S c [] = .ok m ∧ stateOf m = some cst ∧ cst.1 = c
      ∧ (∃ st', getAttr S (fieldsOf S c) cst.2 i = .ok (if f.optional then Val.none else defaultOf S f, st'))
      ∧ ∀ self, SrcMeta.get_field_default (fun c' => constructVal S c' []) (fieldsOf S c) self i = .ok (defaultOf S f) := by
  refine ⟨fresh S c, (c, freshState { fields := fieldsOf S c, nGroups := groupsOf S c }), constructVal_nil S c, rfl, rfl,
    fresh_default S c i f hf hg, ?_⟩
  intro self
  rw [src_field_default S _ self i (fun f' h' => by rw [hf] at h'; injection h' with h'; subst h'; exact hmr)]
  simp [Py.getFieldDefault, Py.metaByFieldName, hf]

/-- **… and encodes to zero bytes**: `bytes(Cls())` with BOTH halves as written — construction through the
    translated dataclass `__init__` / `__setattr__` / `__post_init__`, `bytes(…)` through the translated `__bytes__` /
    `dump` (Gen/SrcMsg.lean) — for every schema whose optional fields are singular (`WfSchemaOpt`), every class, every
    nesting budget ≥ 1 and every varint fuel -/
theorem src_fresh_encodes_empty (S : Schema) (hS : WfSchemaOpt S) (fuel k c : Nat) :
    (constructVal S c []).bind (Src.value_bytes fuel S (k + 1)) = .ok [] := by
  rw [constructVal_nil]
  exact SrcTieMsg.value_bytes_fresh S hS fuel k c

/-! ### what PyPreludeLoad.lean assumes of `self._betterproto`, proved of the translated tables -/

/-- `field_name_by_number.get(number)`, `meta_by_field_name[name]` and `default_gen[name] is list` of the tables
    `ProtoClassMetadata(cls)` as written builds are `Py.fieldNameByNumber`, `Py.metaByFieldName` and
    `Py.defaultGenIsList` (for a field that is not a map marked repeated) -/
theorem src_tables_as_load_assumes (fs : List FieldD) :
    ∃ M, SrcMeta.ProtoClassMetadata.init fs = .ok M
      ∧ (∀ n : Nat, PyEnum.dictGet M.field_name_by_number n = Py.fieldNameByNumber { fields := fs } (n : Int))
      ∧ (∀ k, PyEnum.dictItem M.meta_by_field_name k = Py.metaByFieldName { fields := fs } (some k))
      ∧ (∀ k f, fs[k]? = some f → mapNotRepeated f = true →
            ∃ g, PyEnum.dictItem M.default_gen k = .ok g ∧ (g = DefGen.callable (.obj .list) ↔ f.repeated = true)) := by
  refine ⟨tables fs, init_eq fs, ?_, ?_, ?_⟩
  · intro n
    rw [show PyEnum.dictGet (tables fs).field_name_by_number n = findField fs n from tables_name_by_number fs n]
    simp [Py.fieldNameByNumber]
  · intro k
    unfold Py.metaByFieldName
    cases h : fs[k]? with
    | none => simp [dictItem_none _ _ (by rw [tables_meta_by_field_name, h]), h]
    | some f => simp [dictItem_some _ _ f (by rw [tables_meta_by_field_name, h]), h]
  · intro k f hf hg
    refine ⟨genOf f, dictItem_some _ _ _ (by rw [tables_default_gen, hf]; rfl), ?_⟩
    unfold genOf
    by_cases hm : (f.ty == .map) = true
    · have hr : f.repeated = false := by simpa [mapNotRepeated, hm] using hg
      simp [hm, hr]
    · by_cases hr : f.repeated = true
      · simp [hm, hr]
      · simp only [hm, hr, Bool.false_eq_true, if_false, iff_false]
        by_cases ho : (f.optional || f.wraps.isSome) = true
        · simp [ho]
        · simp only [ho, Bool.false_eq_true, if_false]
          by_cases hmsg : (f.ty == .message) = true
          · simp only [hmsg, if_true]; cases f.kind <;> simp
          · by_cases he : (f.ty == .enum) = true
            · simp [hmsg, he]
            · simp only [hmsg, he, Bool.false_eq_true, if_false]
              cases f.ty <;> simp [scalarObj]

/-! ### `dataclass_field` and the `*_field` helpers -/

/-- **`dataclass_field` as written**: the dataclass default of a field is `None` when `optional`, `PLACEHOLDER` otherwise —
    `PyMeta.fieldDefault`, the slot value `fresh` / `construct` give a field that received no argument — and the
    `FieldMetadata` holds number, proto type, map types, group, wraps and optional as given -/
theorem src_dataclass_field (f : FieldD) :
    SrcMeta.dataclass_field f.num f.ty (mapTypes f) f.group f.wraps f.optional
      = .ok { default := fieldDefault f, metadata := metaOf f }
    ∧ fieldDefault f = (if f.optional then Val.none else Val.ph) :=
  ⟨dataclass_field_descr f, rfl⟩

/-- **every `*_field` helper as written is `dataclass_field` at its `TYPE_*` constant**: the 16 scalar helpers pass number,
    group and optional; `message_field` also `wraps`; `map_field` passes `map_types = (key_type, value_type)` and is never
    optional -/
theorem src_field_helpers (n : Nat) (g : Option Nat) (w : Option PType) (o : Bool) (k v : PType) :
    SrcMeta.enum_field n g o = SrcMeta.dataclass_field n .enum none g none o
    ∧ SrcMeta.bool_field n g o = SrcMeta.dataclass_field n .bool none g none o
    ∧ SrcMeta.int32_field n g o = SrcMeta.dataclass_field n .int32 none g none o
    ∧ SrcMeta.sint64_field n g o = SrcMeta.dataclass_field n .sint64 none g none o
    ∧ SrcMeta.double_field n g o = SrcMeta.dataclass_field n .double none g none o
    ∧ SrcMeta.sfixed32_field n g o = SrcMeta.dataclass_field n .sfixed32 none g none o
    ∧ SrcMeta.string_field n g o = SrcMeta.dataclass_field n .string none g none o
    ∧ SrcMeta.bytes_field n g o = SrcMeta.dataclass_field n .bytes none g none o
    ∧ SrcMeta.message_field n g w o = SrcMeta.dataclass_field n .message none g w o
    ∧ SrcMeta.map_field n k v g = SrcMeta.dataclass_field n .map (some (k, v)) g none false
    ∧ (∀ m, SrcMeta.message_field n g w o = .ok m → m.default = (if o then Val.none else Val.ph) ∧ m.metadata.wraps = w) :=
  ⟨rfl, rfl, rfl, rfl, rfl, rfl, rfl, rfl, rfl, rfl, fun m h => by
    have : SrcMeta.message_field n g w o = .ok { default := if o then Val.none else Val.ph, metadata := ⟨n, .message, none, g, w, o⟩ } := rfl
    rw [this] at h; injection h with h; subst h; exact ⟨rfl, rfl⟩⟩

/-! ### non-vacuity -/

def SEx : Schema :=
  [{ fields := [{ name := "a", num := 1, ty := .int32, group := some 0 },
                { name := "b", num := 2, ty := .string, group := some 0 },
                { name := "o", num := 3, ty := .int64, optional := true },
                { name := "m", num := 4, ty := .message, kind := .user 0 },
                { name := "t", num := 5, ty := .message, kind := .timestamp },
                { name := "e", num := 6, ty := .enum },
                { name := "r", num := 7, ty := .double, repeated := true },
                { name := "w", num := 8, ty := .message, wraps := some .bool },
                { name := "d", num := 9, ty := .map, mapK := .string, mapV := .int32 }], nGroups := 1 }]

example : constructVal SEx 0 [(1, .str [104]), (2, .int 0)] = .ok (construct SEx 0 [(1, .str [104]), (2, .int 0)]) := rfl
example : construct SEx 0 [(1, .str [104]), (2, .int 0)]
    = .msg 0 [.ph, .str [104], .int 0, .ph, .ph, .ph, .ph, .ph, .ph] true [] [some 1] := rfl
example : (List.range 9).map (fun k => SrcMeta.get_field_default (fun c => constructVal SEx c []) (fieldsOf SEx 0) { slots := [] } k)
    = [.ok (.int 0), .ok (.str []), .ok .none, .ok (fresh SEx 0), .ok (.ts 0), .ok (.int 0), .ok (.list []), .ok .none,
       .ok (.dict [] [])] := rfl
example : numsDistinctB (fieldsOf SEx 0) = true := by decide

end Bp.C06
