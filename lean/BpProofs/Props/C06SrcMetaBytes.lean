import BpProofs.SrcTieMetaInit
import BpProofs.SrcTieMsg
/-
  C06, tied to the SOURCE: "a freshly constructed message … encodes to zero bytes" with BOTH halves as written —
  `Cls()` through the translated dataclass `__init__` / `__setattr__` / `__post_init__` (Gen/SrcMeta.lean) and
  `bytes(…)` through the translated `__bytes__` / `dump` (Gen/SrcMsg.lean).  (A file of its own: the preludes of the
  object-method ties and of the whole-method ties cannot be imported together, see Props/C06SrcMeta.lean for the
  other half of the sentence.)
-/
namespace Bp.C06
open Bp Bp.SrcTieMeta
open Bp.Py (Res)

/-- **a freshly constructed message encodes to zero bytes**: `bytes(Cls())`, construction and `__bytes__` both as
    written, for every schema whose optional fields are singular (`WfSchemaOpt`), every class, every nesting
    budget ≥ 1 and every varint fuel -/
theorem src_fresh_encodes_empty (S : Schema) (hS : WfSchemaOpt S) (fuel k c : Nat) :
    (constructVal S c []).bind (Src.value_bytes fuel S (k + 1)) = .ok [] := by
  rw [constructVal_nil]
  exact SrcTieMsg.value_bytes_fresh S hS fuel k c

/-- … and so does its length: `len(Cls())` as written is 0 -/
theorem src_fresh_len_zero (S : Schema) (hS : WfSchemaOpt S) (fuel k c : Nat) :
    ∃ m, constructVal S c [] = .ok m ∧ dumpVal S m = .ok [] :=
  ⟨fresh S c, constructVal_nil S c, dump_fresh S c⟩

example : (constructVal [{ fields := [{ num := 1, ty := .int32 }, { num := 2, ty := .string, optional := true }] }] 0 []).bind
    (Src.value_bytes 10 [{ fields := [{ num := 1, ty := .int32 }, { num := 2, ty := .string, optional := true }] }] 1) = .ok [] := by
  decide

end Bp.C06
