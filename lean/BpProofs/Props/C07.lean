import BpModel.All
import BpProofs.Ops
/-
  C07 — oneof exclusivity holds after any history of operations.
-/
namespace Bp.C07
open Bp Gen

/-- the invariant on a message instance of class `c` -/
def InvVal (S : Schema) : Val → Prop
  | .msg c sl ow unk cur => Inv (fieldsOf S c) (groupsOf S c) { slots := sl, onWire := ow, unknown := unk, cur := cur }
  | _ => False

/-- schema well-formedness used below: oneof group indices of class `c` are below its group count -/
def WfClass (S : Schema) (c : Nat) : Prop := WfGroups (fieldsOf S c) (groupsOf S c)

def classOf : Val → Option Nat
  | .msg c _ _ _ _ => some c
  | _ => Option.none

theorem fieldsOf_eq (S : Schema) (c : Nat) (d : MsgD) (h : S[c]? = some d) :
    fieldsOf S c = d.fields ∧ groupsOf S c = d.nGroups := by
  simp [fieldsOf, groupsOf, h]

/-- a freshly constructed message satisfies the invariant -/
theorem inv_fresh (S : Schema) (c : Nat) : InvVal S (fresh S c) := by
  have := fresh_inv S c
  simpa [InvVal, fresh, freshState] using this

/-- a constructor call that names at most one member of each group satisfies it
    (with two members of one group "the member set last" is not defined: out of the
    property's domain, DESIGN §8 D26) -/
theorem inv_construct (S : Schema) (c : Nat) (kw : List (Nat × Val)) (hw : WfClass S c)
    (h1 : AtMostOne (fieldsOf S c)
      (initSlots (fieldsOf S c) (kw.map fun (p : Nat × Val) => (p.1, markEmpty S p.2)) 0 (fieldsOf S c))) :
    InvVal S (construct S c kw) := by
  unfold construct InvVal
  exact postInit_inv _ _ _ _ _ hw h1

/-- **every operation preserves the invariant**: assignment of any value to any field,
    attribute reads, decoding any byte string into the instance (0..n members of any
    group in any order, malformed or not), instance `from_dict`, copy, deepcopy, the
    pickle round trip, and every observer -/
theorem inv_step (S : Schema) (m m' : Val) (op : Op) (c : Nat) (hc : classOf m = some c) (hw : WfClass S c)
    (h : InvVal S m) (hs : stepOp S m op = .ok m') : InvVal S m' ∧ classOf m' = some c := by
  cases m with
  | msg c0 sl ow unk cur =>
    simp [classOf] at hc; subst hc
    simp only [InvVal] at h
    unfold stepOp at hs
    simp only [stateOf] at hs
    cases op with
    | setattr idx v =>
      simp only at hs
      split at hs
      · injection hs with hs; subst hs
        exact ⟨setAttr_inv S _ _ _ idx v hw h, rfl⟩
      · simp at hs
    | getattr idx =>
      simp only at hs
      cases hg : getAttr S (fieldsOf S c0) { slots := sl, onWire := ow, unknown := unk, cur := cur } idx with
      | error e => rw [hg] at hs; simp at hs
      | ok r =>
        obtain ⟨v, st'⟩ := r
        rw [hg] at hs; simp only [bind_ok] at hs
        injection hs with hs; subst hs
        exact ⟨getAttr_inv S _ _ _ st' idx v h hg, rfl⟩
    | parse bs =>
      simp only at hs
      unfold parseInto at hs
      simp only at hs
      cases hd : S[c0]? with
      | none => rw [hd] at hs; simp at hs
      | some d =>
        rw [hd] at hs
        simp only at hs
        obtain ⟨e1, e2⟩ := fieldsOf_eq S c0 d hd
        cases hl : loadInto S (bs.length + 1) d { slots := sl, onWire := ow, unknown := unk, cur := cur } bs with
        | error e => rw [hl] at hs; simp at hs
        | ok st' =>
          rw [hl] at hs; simp only [bind_ok] at hs
          injection hs with hs; subst hs
          unfold WfClass at hw
          rw [e1, e2] at hw h
          have := loadInto_inv S _ d d.nGroups _ st' bs hw h hl
          exact ⟨by simp only [MState.toVal, InvVal]; rw [e1, e2]; exact this, rfl⟩
    | fromDict kw =>
      simp only at hs
      injection hs with hs; subst hs
      exact ⟨applyKw_inv S _ _ kw _ hw ⟨h.1, h.2⟩, rfl⟩
    | copy =>
      simp only at hs
      injection hs with hs; subst hs
      obtain ⟨sl', cur', e, hi⟩ := shallowCopy_inv S c0 sl ow unk cur hw h
      rw [e]; exact ⟨hi, rfl⟩
    | deepcopy =>
      simp only at hs
      injection hs with hs; subst hs
      obtain ⟨sl', cur', e, hi⟩ := deepCopy_inv S c0 sl ow unk cur hw h
      rw [e]; exact ⟨hi, rfl⟩
    | pickle =>
      simp only at hs
      cases hd : dumpVal S (.msg c0 sl ow unk cur) with
      | error e => rw [hd] at hs; simp at hs
      | ok bs =>
        rw [hd] at hs; simp only [bind_ok] at hs
        unfold parse parseInto fresh at hs
        simp only at hs
        cases hS : S[c0]? with
        | none => rw [hS] at hs; simp at hs
        | some d =>
          rw [hS] at hs
          simp only at hs
          obtain ⟨e1, e2⟩ := fieldsOf_eq S c0 d hS
          cases hl : loadInto S (bs.length + 1) d _ bs with
          | error e => rw [hl] at hs; simp at hs
          | ok st' =>
            rw [hl] at hs; simp only [bind_ok] at hs
            injection hs with hs; subst hs
            unfold WfClass at hw
            have hf := fresh_inv S c0
            rw [e1, e2] at hw
            have hf' : Inv d.fields d.nGroups
                { slots := (fieldsOf S c0).map fun f => if f.optional then Val.none else Val.ph,
                  onWire := false, unknown := [], cur := List.replicate (groupsOf S c0) Option.none } := by
              have := hf; simp only [freshState] at this; rw [e1, e2] at this ⊢; exact this
            have := loadInto_inv S _ d d.nGroups _ st' bs hw hf' hl
            exact ⟨by simp only [MState.toVal, InvVal]; rw [e1, e2]; exact this, rfl⟩
    | readAll =>
      simp only at hs
      injection hs with hs; subst hs
      exact ⟨materializeAll_inv S _ _ _ h, rfl⟩
    | rawObs =>
      simp only at hs
      injection hs with hs; subst hs
      exact ⟨h, rfl⟩
  | _ => simp [classOf] at hc

/-- run a history; an operation that raises leaves the instance as it was -/
def runHistory (S : Schema) : Val → List Op → Val
  | m, [] => m
  | m, op :: ops =>
    match stepOp S m op with
    | .ok m' => runHistory S m' ops
    | .error _ => runHistory S m ops

/-- **after ANY sequence of operations the invariant holds** (induction over the history) -/
theorem inv_history (S : Schema) (c : Nat) (hw : WfClass S c) (m : Val) (ops : List Op)
    (hc : classOf m = some c) (h : InvVal S m) :
    InvVal S (runHistory S m ops) ∧ classOf (runHistory S m ops) = some c := by
  induction ops generalizing m with
  | nil => exact ⟨h, hc⟩
  | cons op ops ih =>
    simp only [runHistory]
    cases hs : stepOp S m op with
    | error e => exact ih m hc h
    | ok m' =>
      obtain ⟨h', hc'⟩ := inv_step S m m' op c hc hw h hs
      exact ih m' hc' h'

/-! ### what the invariant and the operations give the user -/

/-- **assigning a member always makes it the selected one, even its default value** -/
theorem assign_selects (S : Schema) (fs : List FieldD) (st : MState) (idx : Nat) (v : Val) (f : FieldD) (g : Nat)
    (hf : fs[idx]? = some f) (hg : f.group = some g) (hl : g < st.cur.length) :
    (setAttr S fs st idx v).cur.getD g Option.none = some idx := setAttr_selects S fs st idx v f g hf hg hl

/-- **reading any other member of the group raises AttributeError** -/
theorem other_member_raises (S : Schema) (fs : List FieldD) (st : MState) (i : Nat) (f : FieldD) (g : Nat)
    (hf : fs[i]? = some f) (hg : f.group = some g) (hsel : st.cur.getD g Option.none ≠ some i) :
    getAttr S fs st i = .error .attr := by
  unfold getAttr
  simp only [hf]
  have : hidden f i st.cur = true := by unfold hidden; rw [hg]; simpa using hsel
  simp [this]

/-- **the encoding contains no other member of the group**: an unselected member
    contributes no bytes, whatever its raw slot holds -/
theorem unselected_not_encoded (S : Schema) (f : FieldD) (i : Nat) (cur : List (Option Nat)) (g : Nat) (v : Val)
    (hg : f.group = some g) (hsel : cur.getD g Option.none ≠ some i) :
    dumpSlot S f (hidden f i cur) (selectedInGroup f i cur) v = .ok [] := by
  have hh : hidden f i cur = true := by unfold hidden; rw [hg]; simpa using hsel
  rw [hh]
  cases v with
  | str s => cases s <;> rw [dumpSlot] <;> first | rfl | (intros; contradiction) | (intro h; injection h with h; cases h)
  | _ => rw [dumpSlot] <;> first | rfl | (intros; contradiction)

/-- … and raw values of unselected members are unset anyway (the invariant itself) -/
theorem unselected_is_unset (S : Schema) (c : Nat) (sl : List Val) (ow : Bool) (unk : Bytes) (cur : List (Option Nat))
    (h : InvVal S (.msg c sl ow unk cur)) (i : Nat) (f : FieldD) (g : Nat)
    (hf : (fieldsOf S c)[i]? = some f) (hg : f.group = some g) (hsel : cur.getD g Option.none ≠ some i) :
    SentinelAt f (sl.getD i .ph) := h.2 i f g hf hg hsel

/-! non-vacuity: a two-member group; history set a / set b (default) / parse a -/
def S2 : Schema := [{ fields := [{ name := "a", num := 1, ty := .int32, group := some 0 },
                                  { name := "b", num := 2, ty := .string, group := some 0 }], nGroups := 1 }]
example : WfClass S2 0 := by
  intro f hf g hg
  simp [fieldsOf, S2] at hf
  rcases hf with rfl | rfl <;> simp at hg <;> (subst hg; decide)
example : dumpVal S2 (runHistory S2 (fresh S2 0) [.setattr 0 (.int 5), .setattr 1 (.str [])]) = .ok [0x12, 0x00] := by decide
example : dumpVal S2 (runHistory S2 (fresh S2 0) [.setattr 1 (.str [104]), .parse [0x08, 0x00]]) = .ok [0x08, 0x00] := by decide

end Bp.C07
