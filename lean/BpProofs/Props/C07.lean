import BpModel.All
import BpProofs.Ops
import BpProofs.JsonOneof
/-
  C07 — oneof exclusivity holds after any history of operations.

  The JSON half (second part of the file): in `to_dict()` / `to_json()` output with
  `include_default_values = false` an unselected member of a oneof group has no entry, the
  selected member has exactly one (its default value included; the exact exception is a
  selected member holding `None` in a message / wrapper / 64-bit / enum field,
  `skipsSelected`), so at most one member of each group appears and it is the one
  `which_one_of` reports — `json_exclusive`, and after any history `json_exclusive_after_history`.
  Guard (decidable): `membersOk` = oneof members are not repeated and not maps (protoc
  admits neither); witnesses below show both parts of the guard are needed.
-/
namespace Bp.C07
open Bp Gen

/-- the invariant on a message instance of class `c` -/
def InvVal (S : Schema) : Val → Prop
  | .msg c sl ow unk cur => Inv (fieldsOf S c) (groupsOf S c) { slots := sl, onWire := ow, unknown := unk, cur := cur }
  | _ => False

/-- schema well-formedness used below: oneof group indices of class `c` are below its group count -/
def WfClass (S : Schema) (c : Nat) : Prop := WfGroups (fieldsOf S c) (groupsOf S c)

def classOf : Val → Option Nat
  | .msg c _ _ _ _ => some c
  | _ => Option.none

theorem fieldsOf_eq (S : Schema) (c : Nat) (d : MsgD) (h : S[c]? = some d) :
    fieldsOf S c = d.fields ∧ groupsOf S c = d.nGroups := by
  simp [fieldsOf, groupsOf, h]

/-- a freshly constructed message satisfies the invariant -/
theorem inv_fresh (S : Schema) (c : Nat) : InvVal S (fresh S c) := by
  have := fresh_inv S c
  simpa [InvVal, fresh, freshState] using this

/-- a constructor call that names at most one member of each group satisfies it
    (with two members of one group "the member set last" is not defined: out of the
    property's domain, DESIGN §8 D26) -/
theorem inv_construct (S : Schema) (c : Nat) (kw : List (Nat × Val)) (hw : WfClass S c)
    (h1 : AtMostOne (fieldsOf S c)
      (initSlots (fieldsOf S c) (kw.map fun (p : Nat × Val) => (p.1, markEmpty S p.2)) 0 (fieldsOf S c))) :
    InvVal S (construct S c kw) := by
  unfold construct InvVal
  exact postInit_inv _ _ _ _ _ hw h1

/-- **every operation preserves the invariant**: assignment of any value to any field,
    attribute reads, decoding any byte string into the instance (0..n members of any
    group in any order, malformed or not), instance `from_dict`, copy, deepcopy, the
    pickle round trip, and every observer -/
theorem inv_step (S : Schema) (m m' : Val) (op : Op) (c : Nat) (hc : classOf m = some c) (hw : WfClass S c)
    (h : InvVal S m) (hs : stepOp S m op = .ok m') : InvVal S m' ∧ classOf m' = some c := by
  cases m with
  | msg c0 sl ow unk cur =>
    simp [classOf] at hc; subst hc
    simp only [InvVal] at h
    unfold stepOp at hs
    simp only [stateOf] at hs
    cases op with
    | setattr idx v =>
      simp only at hs
      split at hs
      · injection hs with hs; subst hs
        exact ⟨setAttr_inv S _ _ _ idx v hw h, rfl⟩
      · simp at hs
    | getattr idx =>
      simp only at hs
      cases hg : getAttr S (fieldsOf S c0) { slots := sl, onWire := ow, unknown := unk, cur := cur } idx with
      | error e => rw [hg] at hs; simp at hs
      | ok r =>
        obtain ⟨v, st'⟩ := r
        rw [hg] at hs; simp only [bind_ok] at hs
        injection hs with hs; subst hs
        exact ⟨getAttr_inv S _ _ _ st' idx v h hg, rfl⟩
    | parse bs =>
      simp only at hs
      unfold parseInto at hs
      simp only at hs
      cases hd : S[c0]? with
      | none => rw [hd] at hs; simp at hs
      | some d =>
        rw [hd] at hs
        simp only at hs
        obtain ⟨e1, e2⟩ := fieldsOf_eq S c0 d hd
        cases hl : loadInto S (bs.length + 1) d { slots := sl, onWire := ow, unknown := unk, cur := cur } bs with
        | error e => rw [hl] at hs; simp at hs
        | ok st' =>
          rw [hl] at hs; simp only [bind_ok] at hs
          injection hs with hs; subst hs
          unfold WfClass at hw
          rw [e1, e2] at hw h
          have := loadInto_inv S _ d d.nGroups _ st' bs hw h hl
          exact ⟨by simp only [MState.toVal, InvVal]; rw [e1, e2]; exact this, rfl⟩
    | fromDict kw =>
      simp only at hs
      injection hs with hs; subst hs
      exact ⟨applyKw_inv S _ _ kw _ hw ⟨h.1, h.2⟩, rfl⟩
    | copy =>
      simp only at hs
      injection hs with hs; subst hs
      obtain ⟨sl', cur', e, hi⟩ := shallowCopy_inv S c0 sl ow unk cur hw h
      rw [e]; exact ⟨hi, rfl⟩
    | deepcopy =>
      simp only at hs
      injection hs with hs; subst hs
      obtain ⟨sl', cur', e, hi⟩ := deepCopy_inv S c0 sl ow unk cur hw h
      rw [e]; exact ⟨hi, rfl⟩
    | pickle =>
      simp only at hs
      cases hd : dumpVal S (.msg c0 sl ow unk cur) with
      | error e => rw [hd] at hs; simp at hs
      | ok bs =>
        rw [hd] at hs; simp only [bind_ok] at hs
        unfold parse parseInto fresh at hs
        simp only at hs
        cases hS : S[c0]? with
        | none => rw [hS] at hs; simp at hs
        | some d =>
          rw [hS] at hs
          simp only at hs
          obtain ⟨e1, e2⟩ := fieldsOf_eq S c0 d hS
          cases hl : loadInto S (bs.length + 1) d _ bs with
          | error e => rw [hl] at hs; simp at hs
          | ok st' =>
            rw [hl] at hs; simp only [bind_ok] at hs
            injection hs with hs; subst hs
            unfold WfClass at hw
            have hf := fresh_inv S c0
            rw [e1, e2] at hw
            have hf' : Inv d.fields d.nGroups
                { slots := (fieldsOf S c0).map fun f => if f.optional then Val.none else Val.ph,
                  onWire := false, unknown := [], cur := List.replicate (groupsOf S c0) Option.none } := by
              have := hf; simp only [freshState] at this; rw [e1, e2] at this ⊢; exact this
            have := loadInto_inv S _ d d.nGroups _ st' bs hw hf' hl
            exact ⟨by simp only [MState.toVal, InvVal]; rw [e1, e2]; exact this, rfl⟩
    | readAll =>
      simp only at hs
      injection hs with hs; subst hs
      exact ⟨materializeAll_inv S _ _ _ h, rfl⟩
    | rawObs =>
      simp only at hs
      injection hs with hs; subst hs
      exact ⟨h, rfl⟩
  | _ => simp [classOf] at hc

/-- run a history; an operation that raises leaves the instance as it was -/
def runHistory (S : Schema) : Val → List Op → Val
  | m, [] => m
  | m, op :: ops =>
    match stepOp S m op with
    | .ok m' => runHistory S m' ops
    | .error _ => runHistory S m ops

/-- **after ANY sequence of operations the invariant holds** (induction over the history) -/
theorem inv_history (S : Schema) (c : Nat) (hw : WfClass S c) (m : Val) (ops : List Op)
    (hc : classOf m = some c) (h : InvVal S m) :
    InvVal S (runHistory S m ops) ∧ classOf (runHistory S m ops) = some c := by
  induction ops generalizing m with
  | nil => exact ⟨h, hc⟩
  | cons op ops ih =>
    simp only [runHistory]
    cases hs : stepOp S m op with
    | error e => exact ih m hc h
    | ok m' =>
      obtain ⟨h', hc'⟩ := inv_step S m m' op c hc hw h hs
      exact ih m' hc' h'

/-! ### what the invariant and the operations give the user -/

/-- **assigning a member always makes it the selected one, even its default value** -/
theorem assign_selects (S : Schema) (fs : List FieldD) (st : MState) (idx : Nat) (v : Val) (f : FieldD) (g : Nat)
    (hf : fs[idx]? = some f) (hg : f.group = some g) (hl : g < st.cur.length) :
    (setAttr S fs st idx v).cur.getD g Option.none = some idx := setAttr_selects S fs st idx v f g hf hg hl

/-- **reading any other member of the group raises AttributeError** -/
theorem other_member_raises (S : Schema) (fs : List FieldD) (st : MState) (i : Nat) (f : FieldD) (g : Nat)
    (hf : fs[i]? = some f) (hg : f.group = some g) (hsel : st.cur.getD g Option.none ≠ some i) :
    getAttr S fs st i = .error .attr := by
  unfold getAttr
  simp only [hf]
  have : hidden f i st.cur = true := by unfold hidden; rw [hg]; simpa using hsel
  simp [this]

/-- **the encoding contains no other member of the group**: an unselected member
    contributes no bytes, whatever its raw slot holds -/
theorem unselected_not_encoded (S : Schema) (f : FieldD) (i : Nat) (cur : List (Option Nat)) (g : Nat) (v : Val)
    (hg : f.group = some g) (hsel : cur.getD g Option.none ≠ some i) :
    dumpSlot S f (hidden f i cur) (selectedInGroup f i cur) v = .ok [] := by
  have hh : hidden f i cur = true := by unfold hidden; rw [hg]; simpa using hsel
  rw [hh]
  cases v with
  | str s => cases s <;> rw [dumpSlot] <;> first | rfl | (intros; contradiction) | (intro h; injection h with h; cases h)
  | _ => rw [dumpSlot] <;> first | rfl | (intros; contradiction)

/-- … and raw values of unselected members are unset anyway (the invariant itself) -/
theorem unselected_is_unset (S : Schema) (c : Nat) (sl : List Val) (ow : Bool) (unk : Bytes) (cur : List (Option Nat))
    (h : InvVal S (.msg c sl ow unk cur)) (i : Nat) (f : FieldD) (g : Nat)
    (hf : (fieldsOf S c)[i]? = some f) (hg : f.group = some g) (hsel : cur.getD g Option.none ≠ some i) :
    SentinelAt f (sl.getD i .ph) := h.2 i f g hf hg hsel

/-! non-vacuity: a two-member group; history set a / set b (default) / parse a -/
def S2 : Schema := [{ fields := [{ name := "a", num := 1, ty := .int32, group := some 0 },
                                  { name := "b", num := 2, ty := .string, group := some 0 }], nGroups := 1 }]
example : WfClass S2 0 := by
  intro f hf g hg
  simp [fieldsOf, S2] at hf
  rcases hf with rfl | rfl <;> simp at hg <;> (subst hg; decide)
example : dumpVal S2 (runHistory S2 (fresh S2 0) [.setattr 0 (.int 5), .setattr 1 (.str [])]) = .ok [0x12, 0x00] := by decide
example : dumpVal S2 (runHistory S2 (fresh S2 0) [.setattr 1 (.str [104]), .parse [0x08, 0x00]]) = .ok [0x08, 0x00] := by decide

/-! ## the JSON half: at most one member of each group in `to_dict()` / `to_json()` -/

/-- `betterproto.which_one_of(m, group)`, as a field index -/
def whichOneOf : Val → Nat → Option Nat
  | .msg _ _ _ _ cur, g => cur.getD g Option.none
  | _, _ => Option.none

/-- raw slot `i` of an instance -/
def slotOf : Val → Nat → Val
  | .msg _ sl _ _ _, i => sl.getD i .ph
  | _, _ => .ph

/-- the fields that have an entry in `m.to_dict(casing, include_default_values=False)`, in
    output order (field indices) -/
def dictIdx (S : Schema) (E : Enums) (cs : KeyCase) : Val → List Nat
  | .msg c sl _ _ cur => emittedIdx S E cs false (fieldsOf S c) cur 0 sl
  | _ => []

/-- every instance has one raw slot per field -/
def FullVal (S : Schema) : Val → Prop
  | .msg c sl _ _ _ => sl.length = (fieldsOf S c).length
  | _ => False

/-- `dictIdx` is what it says: `to_dict` returns the dict whose keys are, in order, the
    keys of the fields in `dictIdx` (and `to_json` is `json.dumps` of that dict) -/
theorem toDict_keys (S : Schema) (E : Enums) (cs : KeyCase) (c : Nat) (sl : List Val) (ow : Bool) (unk : Bytes)
    (cur : List (Option Nat)) :
    ∃ kvs, toDict S E cs false (.msg c sl ow unk cur) = mkObj kvs ∧
      kvs.map (·.1) = (dictIdx S E cs (.msg c sl ow unk cur)).map (keyAt cs (fieldsOf S c)) :=
  ⟨_, by rw [toDict], toDictKVs_keys S E cs false _ cur 0 sl⟩

/-- no field is written twice -/
theorem dictIdx_nodup (S : Schema) (E : Enums) (cs : KeyCase) (m : Val) : (dictIdx S E cs m).Nodup := by
  cases m <;> first | exact List.nodup_nil | exact emittedIdx_nodup ..

/-- **JSON exclusivity**, for every schema, class, casing and every instance of a class whose
    oneof members are as protoc admits them (`membersOk`):
    1. a member of group `g` that is not the selected one has no entry;
    2. the selected member has an entry — even when it holds its default value — unless it
       holds `None` in a message / wrapper / 64-bit / enum field (`skipsSelected`, exact);
    3. any member of `g` that has an entry is `which_one_of`'s answer; the entries of `g`
       are the list `[selected]` (or `[]` in the `None` case): at most one.
    (The oneof invariant is not needed for this: `to_dict` goes through `getattr`, which hides
    an unselected member whatever its raw slot holds.  The invariant adds that nothing is
    hidden: `unselected_is_unset`.) -/
theorem json_exclusive (S : Schema) (E : Enums) (cs : KeyCase) (c : Nat) (sl : List Val) (ow : Bool) (unk : Bytes)
    (cur : List (Option Nat)) (hm : membersOk (fieldsOf S c) = true)
    (i : Nat) (f : FieldD) (g : Nat) (hf : (fieldsOf S c)[i]? = some f) (hg : f.group = some g) :
    let m := Val.msg c sl ow unk cur
    (whichOneOf m g ≠ some i → i ∉ dictIdx S E cs m)
    ∧ (whichOneOf m g = some i → i < sl.length →
        ((i ∈ dictIdx S E cs m ↔ skipsSelected f (slotOf m i) = false)
         ∧ (dictIdx S E cs m).filter (inGroup (fieldsOf S c) g) = if skipsSelected f (slotOf m i) then [] else [i]))
    ∧ (i ∈ dictIdx S E cs m → whichOneOf m g = some i) := by
  refine ⟨?_, ?_, ?_⟩
  · exact emitted_unselected S E cs _ cur sl hm i f g hf hg
  · intro hsel hl
    exact ⟨emitted_selected S E cs _ cur sl hm i f g hf hg hsel hl,
      group_entries_selected S E cs _ cur sl hm i f g hf hg hsel hl⟩
  · exact emitted_is_selected S E cs _ cur sl hm i f g hf hg

/-- **at most one member of each group appears**: two entries of members of one group are
    the same entry -/
theorem json_at_most_one (S : Schema) (E : Enums) (cs : KeyCase) (c : Nat) (sl : List Val) (ow : Bool) (unk : Bytes)
    (cur : List (Option Nat)) (hm : membersOk (fieldsOf S c) = true) (g i j : Nat) (fi fj : FieldD)
    (hfi : (fieldsOf S c)[i]? = some fi) (hgi : fi.group = some g)
    (hfj : (fieldsOf S c)[j]? = some fj) (hgj : fj.group = some g)
    (hi : i ∈ dictIdx S E cs (.msg c sl ow unk cur)) (hj : j ∈ dictIdx S E cs (.msg c sl ow unk cur)) : i = j := by
  have a := emitted_is_selected S E cs _ cur sl hm i fi g hfi hgi hi
  have b := emitted_is_selected S E cs _ cur sl hm j fj g hfj hgj hj
  rw [a] at b; injection b

/-- a group with no selected member has no entry at all -/
theorem json_none_selected (S : Schema) (E : Enums) (cs : KeyCase) (c : Nat) (sl : List Val) (ow : Bool) (unk : Bytes)
    (cur : List (Option Nat)) (hm : membersOk (fieldsOf S c) = true) (g : Nat)
    (h : whichOneOf (.msg c sl ow unk cur) g = Option.none) :
    (dictIdx S E cs (.msg c sl ow unk cur)).filter (inGroup (fieldsOf S c) g) = [] := by
  apply group_entries_none S E cs _ cur sl hm g
  intro i f _ _ e
  simp only [whichOneOf] at h
  rw [h] at e; cases e

/-- the number of raw slots is kept by every operation -/
theorem full_step (S : Schema) (m m' : Val) (op : Op) (h : FullVal S m) (hs : stepOp S m op = .ok m') : FullVal S m' := by
  cases m with
  | msg c sl ow unk cur =>
    obtain ⟨sl', ow', unk', cur', e, hl⟩ := stepOp_full S c sl ow unk cur op m' h hs
    subst e; exact hl
  | _ => exact absurd h (by simp [FullVal])

theorem full_history (S : Schema) (m : Val) (ops : List Op) (h : FullVal S m) : FullVal S (runHistory S m ops) := by
  induction ops generalizing m with
  | nil => exact h
  | cons op ops ih =>
    simp only [runHistory]
    cases hs : stepOp S m op with
    | error e => exact ih m h
    | ok m' => exact ih m' (full_step S m m' op h hs)

theorem full_fresh (S : Schema) (c : Nat) : FullVal S (fresh S c) := by simp [FullVal, fresh]

/-- **after ANY history of operations** on an instance of class `c` (assignments of any value,
    reads, `parse` of any bytes, instance `from_dict`, copy, deepcopy, pickle, observers; a
    raising operation leaves the instance as it was), for every member `i` of every group `g`:
    the result `m` is an instance of `c` satisfying the oneof invariant, and in
    `m.to_dict()` / `m.to_json()`
    * `i` has no entry unless it is `which_one_of(m, g)` — and then its raw slot is unset
      anyway, so nothing is lost;
    * if `i` is `which_one_of(m, g)` the entries of group `g` are exactly `[i]` (one entry, its
      default value included), or `[]` when `i` holds `None` in a message / wrapper / 64-bit /
      enum field. -/
theorem json_exclusive_after_history (S : Schema) (E : Enums) (cs : KeyCase) (c : Nat)
    (hw : WfClass S c) (hm : membersOk (fieldsOf S c) = true)
    (m0 : Val) (ops : List Op) (hc : classOf m0 = some c) (h0 : InvVal S m0) (hl0 : FullVal S m0)
    (i : Nat) (f : FieldD) (g : Nat) (hf : (fieldsOf S c)[i]? = some f) (hg : f.group = some g) :
    let m := runHistory S m0 ops
    InvVal S m ∧ classOf m = some c
    ∧ (whichOneOf m g ≠ some i → i ∉ dictIdx S E cs m ∧ SentinelAt f (slotOf m i))
    ∧ (whichOneOf m g = some i →
        (dictIdx S E cs m).filter (inGroup (fieldsOf S c) g) = if skipsSelected f (slotOf m i) then [] else [i])
    ∧ (i ∈ dictIdx S E cs m → whichOneOf m g = some i) := by
  intro m
  obtain ⟨hi, hcl⟩ := inv_history S c hw m0 ops hc h0
  have hfull := full_history S m0 ops hl0
  refine ⟨hi, hcl, ?_⟩
  change InvVal S m at hi
  change classOf m = some c at hcl
  change FullVal S m at hfull
  generalize m = mm at hi hcl hfull ⊢
  cases mm with
  | msg c' sl ow unk cur =>
    simp only [classOf, Option.some.injEq] at hcl; subst hcl
    obtain ⟨h1, h2, h3⟩ := json_exclusive S E cs c' sl ow unk cur hm i f g hf hg
    refine ⟨fun hne => ⟨h1 hne, unselected_is_unset S c' sl ow unk cur hi i f g hf hg hne⟩, ?_, h3⟩
    intro hsel
    have hlt : i < sl.length := by
      have : sl.length = (fieldsOf S c').length := hfull
      rw [this]
      rcases Nat.lt_or_ge i (fieldsOf S c').length with h | h
      · exact h
      · rw [List.getElem?_eq_none h] at hf; cases hf
    exact (h2 hsel hlt).2
  | _ => simp [classOf] at hcl

/-- the history may start at a fresh instance -/
theorem json_exclusive_from_fresh (S : Schema) (E : Enums) (cs : KeyCase) (c : Nat)
    (hw : WfClass S c) (hm : membersOk (fieldsOf S c) = true) (ops : List Op)
    (i : Nat) (f : FieldD) (g : Nat) (hf : (fieldsOf S c)[i]? = some f) (hg : f.group = some g) :
    let m := runHistory S (fresh S c) ops
    (whichOneOf m g ≠ some i → i ∉ dictIdx S E cs m)
    ∧ (whichOneOf m g = some i →
        (dictIdx S E cs m).filter (inGroup (fieldsOf S c) g) = if skipsSelected f (slotOf m i) then [] else [i]) := by
  have h := json_exclusive_after_history S E cs c hw hm (fresh S c) ops rfl (inv_fresh S c) (full_fresh S c) i f g hf hg
  exact ⟨fun hne => (h.2.2.1 hne).1, h.2.2.2.1⟩

/-! non-vacuity on `S2` (group 0 = {a : int32, b : string}) -/
def dictKeys : JVal → List JKey
  | .obj ks _ => ks
  | _ => []
example : membersOk (fieldsOf S2 0) = true := by decide
-- set a = 5, then set b = "" (its default): only b is written, and it IS written
example : dictIdx S2 [] .camel (runHistory S2 (fresh S2 0) [.setattr 0 (.int 5), .setattr 1 (.str [])]) = [1] := by decide
example : dictKeys (toDict S2 [] .camel false (runHistory S2 (fresh S2 0) [.setattr 0 (.int 5), .setattr 1 (.str [])]))
    = [.str [98]] := by decide
-- set b, then parse a record of a: only a (value 0 = default) is written
example : dictKeys (toDict S2 [] .camel false (runHistory S2 (fresh S2 0) [.setattr 1 (.str [104]), .parse [0x08, 0x00]]))
    = [.str [97]] := by decide
example : dictIdx S2 [] .camel (runHistory S2 (fresh S2 0) [.setattr 1 (.str [104]), .parse [0x08, 0x00]]) = [0] := by decide
example : dictKeys (toDict S2 [] .camel false (fresh S2 0)) = [] := by decide

/-! the exception in (2) is real: a selected member holding `None` is left out — sub-message /
    wrapper / int64 / enum member — while an int32 / string / bytes / float member holding `None` is written -/
def S3 : Schema := [{ fields := [{ name := "w", num := 1, ty := .message, wraps := some .int32, group := some 0 },
                                  { name := "n", num := 2, ty := .int64, group := some 0 },
                                  { name := "k", num := 3, ty := .int32, group := some 0 }], nGroups := 1 }]
example : membersOk (fieldsOf S3 0) = true := by decide
example : whichOneOf (runHistory S3 (fresh S3 0) [.setattr 0 .none]) 0 = some 0
    ∧ dictIdx S3 [] .camel (runHistory S3 (fresh S3 0) [.setattr 0 .none]) = [] := by decide
example : whichOneOf (runHistory S3 (fresh S3 0) [.setattr 1 .none]) 0 = some 1
    ∧ dictIdx S3 [] .camel (runHistory S3 (fresh S3 0) [.setattr 1 .none]) = [] := by decide
example : dictIdx S3 [] .camel (runHistory S3 (fresh S3 0) [.setattr 2 .none]) = [2] := by decide
example : dictIdx S3 [] .camel (runHistory S3 (fresh S3 0) [.setattr 0 (.int 0)]) = [0] := by decide
example : dictIdx S3 [] .camel (runHistory S3 (fresh S3 0) [.setattr 1 (.int 0)]) = [1] := by decide

/-! the guard `membersOk` is needed (schemas protoc rejects): an UNSELECTED repeated-wrapper
    member is written (`[]`); a SELECTED empty map member is not -/
def Sbad : Schema := [{ fields := [{ name := "r", num := 1, ty := .message, wraps := some .int32, repeated := true, group := some 0 },
                                    { name := "k", num := 2, ty := .int32, group := some 0 },
                                    { name := "mp", num := 3, ty := .map, group := some 0 }], nGroups := 1 }]
example : whichOneOf (runHistory Sbad (fresh Sbad 0) [.setattr 1 (.int 1)]) 0 = some 1
    ∧ dictIdx Sbad [] .camel (runHistory Sbad (fresh Sbad 0) [.setattr 1 (.int 1)]) = [0, 1] := by decide
example : whichOneOf (runHistory Sbad (fresh Sbad 0) [.setattr 2 (.dict [] [])]) 0 = some 2
    ∧ 2 ∉ dictIdx Sbad [] .camel (runHistory Sbad (fresh Sbad 0) [.setattr 2 (.dict [] [])]) := by decide

#print axioms json_exclusive
#print axioms json_at_most_one
#print axioms json_exclusive_after_history
#print axioms json_exclusive_from_fresh

end Bp.C07
