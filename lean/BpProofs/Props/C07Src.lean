import BpProofs.SrcTieObj
import BpProofs.Props.C07
/-
  C07, tied to the SOURCE: `Message.__setattr__`, `Message.__getattribute__`,
  `betterproto.which_one_of` and `Message._include_default_value_for_oneof` are translated from
  the Python AST on every run (harness/extract_srcobj.py → BpProofs/Gen/SrcObj.lean) and proved
  EQUAL to the model functions the theorems of Props/C07.lean are about (`setAttr`, `getAttr`,
  `whichOneOf`, `selectedInGroup`).  The corollaries restate the C07 sentences of the source as
  written.  If one of these methods changes what it does to the object — resets only the
  selected sibling, forgets to select on a default value, marks the holder on a read, stops
  raising for an unselected member — the tie stops checking.

  Reading: a Message instance of a class with fields `fs` is the model's `MState` (raw slots,
  `_serialized_on_wire`, `_unknown_fields`, `_group_current`), a field / group name is its
  index; `Src.setattr S fs st idx v` is `Message.__setattr__(self, name, v)` (result: the state
  afterwards), `Src.getattribute S fs st idx` is `getattr(self, name)` (result: value and state
  afterwards, or the exception).  What the object-level Python operations mean on `MState` is
  fixed in BpProofs/PyPreludeObj.lean (trusted).
-/
namespace Bp.C07
open Bp Bp.Py Bp.SrcTieObj

/-- **`Message.__setattr__` as written is the model's `setAttr`**: for every schema, class,
    state, field and value the method as written ends, without raising, in exactly the state
    `setAttr` computes — the value stored (a field-less message argument marked present),
    `_serialized_on_wire` set, and for a oneof member the group's selection set to it and EVERY
    other member of the group back to PLACEHOLDER.  Guards: the name is a field of the class, the
    instance has one raw slot per field (`FullVal`, kept by every operation: `full_step`). -/
theorem src_setattr (S : Schema) (fs : List FieldD) (st : MState) (idx : Nat) (v : Val)
    (hi : idx < fs.length) (hl : st.slots.length = fs.length) :
    Src.setattr S fs st idx v = .ok (setAttr S fs st idx v) :=
  setattr_eq S fs st idx v hi hl

/-- the loop of `__setattr__` runs over a Python SET (`oneof_field_by_group[group]`): its result
    does not depend on the iteration order -/
theorem src_setattr_order_independent (S : Schema) (fs : List FieldD) (attr g : Nat) (ms ms' : List (Nat × FieldD))
    (hp : ms.Perm ms') (st : MState) :
    Src.setattr.loop1 S fs attr g ms st = Src.setattr.loop1 S fs attr g ms' st :=
  setattr_loop_perm S fs attr g ms ms' hp st

/-- **`Message.__getattribute__` as written is the model's `getAttr`**: AttributeError exactly
    for a oneof member that is not the selected one of its group; otherwise the raw value, a
    PLACEHOLDER slot being replaced by the field default, which is stored in the slot (and
    nothing else is touched).  Guards: the name is a field of the class; `_group_current` has
    an entry for the field's group (first half of the oneof invariant `Inv`). -/
theorem src_getattribute (S : Schema) (fs : List FieldD) (st : MState) (idx : Nat)
    (hi : idx < fs.length) (hgl : ∀ g, (fs[idx]).group = some g → g < st.cur.length) :
    Src.getattribute S fs st idx = ofR (getAttr S fs st idx) :=
  getattribute_eq S fs st idx hi hgl

/-- **`which_one_of` as written** returns `("", None)` when the group has no selection, otherwise
    the selected name and `getattr` of it (`whichOneOfM`, BpProofs/SrcTieObj.lean).  Guard: the
    selection of the group, if any, names a field of the class whose group has an entry. -/
theorem src_which_one_of (S : Schema) (fs : List FieldD) (st : MState) (g : Nat)
    (hsel : ∀ i, st.cur.getD g Option.none = some i → i < fs.length ∧ ∀ f g', fs[i]? = some f → f.group = some g' → g' < st.cur.length) :
    Src.which_one_of S fs st g = ofR (whichOneOfM S fs st g) :=
  which_one_of_eq S fs st g hsel

/-- … and the name it reports is the model's `whichOneOf` (the observer the JSON half of C07 —
    `json_exclusive` — is stated with); the object keeps its selection, flag and unknown fields -/
theorem src_which_one_of_name (S : Schema) (c : Nat) (st : MState) (g : Nat) (name : Option Nat) (v : Val) (st' : MState)
    (hsel : ∀ i, st.cur.getD g Option.none = some i →
      i < (fieldsOf S c).length ∧ ∀ f g', (fieldsOf S c)[i]? = some f → f.group = some g' → g' < st.cur.length)
    (h : Src.which_one_of S (fieldsOf S c) st g = .ok ((name, v), st')) :
    name = whichOneOf (st.toVal c) g ∧ st'.cur = st.cur ∧ st'.onWire = st.onWire ∧ st'.unknown = st.unknown := by
  rw [which_one_of_eq S _ st g hsel] at h
  unfold whichOneOfM at h
  simp only [whichOneOf, MState.toVal]
  cases hc : st.cur.getD g Option.none with
  | none =>
    rw [hc] at h
    simp only [ofR_ok, Res.ok.injEq, Prod.mk.injEq] at h
    obtain ⟨⟨h1, _⟩, h3⟩ := h
    subst h3
    exact ⟨h1.symm, rfl, rfl, rfl⟩
  | some i =>
    rw [hc] at h
    simp only at h
    unfold getAttr at h
    split at h
    · simp [Except.bind] at h
    · split at h
      · simp [Except.bind] at h
      · simp only [bind_ok, ofR_ok, Res.ok.injEq, Prod.mk.injEq] at h
        obtain ⟨⟨h1, _⟩, h3⟩ := h
        subst h3
        exact ⟨h1.symm, rfl, rfl, rfl⟩

/-- **`_include_default_value_for_oneof` as written is the model's `selectedInGroup`** (what makes
    `dump` / `to_dict` write a selected member that holds its default) -/
theorem src_include_default (S : Schema) (fs : List FieldD) (st : MState) (idx : Nat) (f : FieldD) :
    Src.include_default_value_for_oneof S fs st idx f = .ok (selectedInGroup f idx st.cur) :=
  include_default_eq S fs st idx f

/-! ### the C07 sentences, of the source as written -/

/-- **assigning a member always makes it the selected one, even when assigning its default
    value**: whatever `v` is, after `__setattr__` as written `_group_current[group]` is the
    assigned member (through the tie from `assign_selects`) -/
theorem src_assign_selects (S : Schema) (fs : List FieldD) (st st' : MState) (idx : Nat) (v : Val) (g : Nat)
    (hi : idx < fs.length) (hl : st.slots.length = fs.length)
    (hg : (fs[idx]).group = some g) (hgl : g < st.cur.length)
    (h : Src.setattr S fs st idx v = .ok st') :
    st'.cur.getD g Option.none = some idx ∧ Src.include_default_value_for_oneof S fs st' idx fs[idx] = .ok true := by
  rw [setattr_eq S fs st idx v hi hl] at h
  injection h with h; subst h
  have hs := assign_selects S fs st idx v fs[idx] g (List.getElem?_eq_getElem hi) hg hgl
  refine ⟨hs, ?_⟩
  rw [include_default_eq]
  simp only [selectedInGroup, hg, hs, beq_self_eq_true]

/-- **reading any other member of the group raises AttributeError**: `getattr` as written, on a
    member that is not the selected one of its group (through the tie from `other_member_raises`) -/
theorem src_other_member_raises (S : Schema) (fs : List FieldD) (st : MState) (i : Nat) (g : Nat)
    (hi : i < fs.length) (hg : (fs[i]).group = some g) (hgl : g < st.cur.length)
    (hsel : st.cur.getD g Option.none ≠ some i) :
    Src.getattribute S fs st i = .raise .attr := by
  rw [getattribute_eq S fs st i hi (fun g' e => by rw [hg] at e; injection e with e; subst e; exact hgl),
    other_member_raises S fs st i fs[i] g (List.getElem?_eq_getElem hi) hg hsel]
  rfl

/-- … in particular right after assigning member `idx` as written, reading any other member `j`
    of the same group, as written, raises AttributeError -/
theorem src_assign_hides_siblings (S : Schema) (fs : List FieldD) (st st' : MState) (idx j : Nat) (v : Val) (g : Nat)
    (hi : idx < fs.length) (hj : j < fs.length) (hl : st.slots.length = fs.length)
    (hg : (fs[idx]).group = some g) (hgj : (fs[j]).group = some g) (hgl : g < st.cur.length) (hne : j ≠ idx)
    (h : Src.setattr S fs st idx v = .ok st') :
    Src.getattribute S fs st' j = .raise .attr := by
  obtain ⟨hs, _⟩ := src_assign_selects S fs st st' idx v g hi hl hg hgl h
  have hlen : st'.cur.length = st.cur.length := by
    rw [setattr_eq S fs st idx v hi hl] at h
    injection h with h; subst h
    unfold setAttr
    simp only [List.getElem?_eq_getElem hi, hg, List.length_set]
  exact src_other_member_raises S fs st' j g hj hgj (by omega) (by rw [hs]; intro e; injection e with e; exact hne e.symm)

/-- **after `__setattr__` as written at most one member of each group is set** — one step of the
    exclusivity invariant: if the oneof invariant `Inv` (every member other than the selected
    one holds PLACEHOLDER / None) holds before the assignment, it holds of the state the source
    as written produces, and hence no two different members of a group hold a value
    (through the tie from `setAttr_inv` / `inv_atMostOne`, the step `inv_step` iterates) -/
theorem src_setattr_exclusive (S : Schema) (fs : List FieldD) (n : Nat) (st st' : MState) (idx : Nat) (v : Val)
    (hw : WfGroups fs n) (hinv : Inv fs n st) (hi : idx < fs.length) (hl : st.slots.length = fs.length)
    (h : Src.setattr S fs st idx v = .ok st') :
    Inv fs n st' ∧ AtMostOne fs st'.slots := by
  rw [setattr_eq S fs st idx v hi hl] at h
  injection h with h; subst h
  have := setAttr_inv S fs n st idx v hw hinv
  exact ⟨this, inv_atMostOne fs n _ this⟩

/-- **a read as written touches nothing but the slot it fills**: `getattr` never changes
    `_serialized_on_wire`, `_group_current` or `_unknown_fields`, and the slot it writes is the
    one it read, with the value it returns (C06 / C14: observers are pure up to lazy defaults) -/
theorem src_read_keeps_presence (S : Schema) (fs : List FieldD) (st st' : MState) (idx : Nat) (v : Val)
    (hi : idx < fs.length) (hgl : ∀ g, (fs[idx]).group = some g → g < st.cur.length)
    (h : Src.getattribute S fs st idx = .ok (v, st')) :
    st'.onWire = st.onWire ∧ st'.cur = st.cur ∧ st'.unknown = st.unknown ∧ st'.slots = setAt st.slots idx v := by
  rw [getattribute_eq S fs st idx hi hgl] at h
  unfold getAttr at h
  simp only [List.getElem?_eq_getElem hi] at h
  split at h
  · simp at h
  · simp only [ofR_ok, Res.ok.injEq, Prod.mk.injEq] at h
    obtain ⟨h1, h2⟩ := h
    subst h2; subst h1
    exact ⟨rfl, rfl, rfl, rfl⟩

/-! non-vacuity on `S2` (group 0 = {a : int32, b : string}): the translated methods run on closed
    inputs — set a = 5, then b = "" (its default): b is selected, a is back to PLACEHOLDER,
    reading a raises, reading b gives "" -/
def st0 : MState := freshState { fields := fieldsOf S2 0, nGroups := 1 }
def stA : MState := setAttr S2 (fieldsOf S2 0) st0 0 (.int 5)
example : (match Src.setattr S2 (fieldsOf S2 0) st0 0 (.int 5) with
    | .ok st => st.cur == [some 0] && st.onWire && isPlaceholder (rawGet st 1) && !isPlaceholder (rawGet st 0)
    | _ => false) = true := by decide
example : (match Src.setattr S2 (fieldsOf S2 0) stA 1 (.str []) with
    | .ok st => st.cur == [some 1] && isPlaceholder (rawGet st 0) && !isPlaceholder (rawGet st 1)
    | _ => false) = true := by decide
example : (match Src.getattribute S2 (fieldsOf S2 0) stA 1 with | .raise .attr => true | _ => false) = true := by decide
example : (match Src.getattribute S2 (fieldsOf S2 0) stA 0 with | .ok (.int 5, _) => true | _ => false) = true := by decide
example : (match Src.which_one_of S2 (fieldsOf S2 0) stA 0 with | .ok ((some 0, .int 5), _) => true | _ => false) = true := by decide
example : (match Src.which_one_of S2 (fieldsOf S2 0) st0 0 with | .ok ((Option.none, .none), _) => true | _ => false) = true := by decide

end Bp.C07
