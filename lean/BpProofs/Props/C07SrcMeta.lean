import BpProofs.SrcTieMetaInit
import BpProofs.SrcTieObj
import BpProofs.Props.C07
import BpProofs.Props.C06
/-
  C07, tied to the SOURCE, the construction half: "`__post_init__` derives the selection from constructor
  arguments".  `Cls(**kw)` is the generated dataclass `__init__` + `Message.__setattr__` + `Message.__post_init__`
  as translated from the Python AST of the working tree (harness/extract_srcmeta.py → BpProofs/Gen/SrcMeta.lean;
  tie to the model's `construct`: BpProofs/SrcTieMetaInit.lean).

  What the source does when a constructor call names SEVERAL members of one group (outside the domain of the
  history theorems of Props/C07.lean — `inv_construct` needs `AtMostOne`; DESIGN §8 D26): `__post_init__` walks
  `meta_by_field_name` in declaration order and stores the name of every non-sentinel member under its group, so
  the LAST such member in DECLARATION order (not in argument order) ends up selected; exactly one member is
  selected, reading any other member raises AttributeError.  (The raw values of the other named members stay in
  their slots: the invariant `Inv` of C07 does not hold of such an instance.)
-/
set_option linter.unusedSimpArgs false
namespace Bp.C07
open Bp Bp.PyMeta Bp.SrcTieMeta
open Bp.Py (Res ofR)

/-! ### what PyPreludeObj.lean assumes of `self._betterproto`, proved of the translated tables -/

/-- the tie file's `membersFrom` is PyPreludeObj's (SrcTieMeta.lean imports no other prelude, so that it can be used
    together with either of the two families of ties) -/
theorem membersFrom_eq (g : Nat) : ∀ (fs : List FieldD) (j : Nat), SrcTieMeta.membersFrom g fs j = Py.membersFrom g fs j
  | [], _ => rfl
  | f :: fs, j => by simp [SrcTieMeta.membersFrom, Py.membersFrom, membersFrom_eq g fs (j + 1)]

/-- **the metadata the object-method ties (`src_setattr`, `src_getattribute`, `src_which_one_of`, `src_eq`, `src_copy` …)
    ASSUME is what `ProtoClassMetadata(cls)` as written builds**: `oneof_group_by_field.get(name)` is
    `Py.oneofGroupByField`, `oneof_field_by_group[g]` is `Py.oneofFieldByGroup` (the members in declaration order;
    KeyError exactly for a group without members), `meta_by_field_name[name]` is `Py.metaByFieldName`, iterating
    `meta_by_field_name` gives `Py.fieldNames`, `sorted_field_names` is a permutation of `Py.sortedFieldNames` (for
    pairwise distinct numbers), and `_get_field_default(name)` as written is `Py.getFieldDefault` — for every class -/
theorem src_tables_as_object_methods_assume (S : Schema) (fs : List FieldD) :
    ∃ M, SrcMeta.ProtoClassMetadata.init fs = .ok M
      ∧ (∀ name, PyEnum.dictGet M.oneof_group_by_field name = Py.oneofGroupByField fs name)
      ∧ (∀ g, PyEnum.dictItem M.oneof_field_by_group g =
            match Py.oneofFieldByGroup fs g with
            | [] => .raise .key
            | m :: ms => .ok (m :: ms))
      ∧ (∀ name, PyEnum.dictItem M.meta_by_field_name name = Py.metaByFieldName fs name)
      ∧ M.meta_by_field_name.map (·.1) = Py.fieldNames fs
      ∧ (numsDistinctB fs = true → M.sorted_field_names.Perm (Py.sortedFieldNames fs))
      ∧ (∀ self name, (∀ f, fs[name]? = some f → mapNotRepeated f = true) →
            SrcMeta.get_field_default (fun c => constructVal S c []) fs self name = Py.getFieldDefault S fs name) := by
  refine ⟨tables fs, init_eq fs, tables_group_by_field fs, ?_, ?_, ?_, tables_sorted_perm fs, ?_⟩
  · intro g
    have h := tables_field_by_group fs g
    rw [membersFrom_eq] at h
    unfold Py.oneofFieldByGroup
    cases hm : Py.membersFrom g fs 0 with
    | nil => rw [hm] at h; exact dictItem_none _ _ h
    | cons m ms => rw [hm] at h; exact dictItem_some _ _ _ h
  · intro k
    unfold Py.metaByFieldName
    cases h : fs[k]? with
    | none => simp [dictItem_none _ _ (by rw [tables_meta_by_field_name, h]), h]
    | some f => simp [dictItem_some _ _ f (by rw [tables_meta_by_field_name, h]), h]
  · show (enumFrom 0 fs).map (·.1) = List.range fs.length
    rw [enumFrom_map_fst, List.range_eq_range']
  · intro self k hg
    rw [get_field_default_eq S _ (constructVal_nil S) fs self k hg]
    rfl

/-- **the C06 sentence "a freshly constructed message reads every field as its proto3 default", everything as
    written**: `Cls()` (translated `__init__` / `__setattr__` / `__post_init__`), then `getattr` (translated
    `__getattribute__`, Gen/SrcObj.lean) on a field outside any oneof returns None for a proto3-optional field and
    otherwise the model's default, which is also what the translated `_get_field_default` returns -/
theorem src_fresh_getattr_default (S : Schema) (c : Nat) (i : Nat) (f : FieldD)
    (hf : (fieldsOf S c)[i]? = some f) (hg : f.group = Option.none) (hmr : mapNotRepeated f = true) :
    ∃ m cst, constructVal S c [] = .ok m ∧ stateOf m = some cst ∧ cst.1 = c
      ∧ (∃ st', Src.getattribute S (fieldsOf S c) cst.2 i = .ok (if f.optional then Val.none else defaultOf S f, st'))
      ∧ ∀ self, SrcMeta.get_field_default (fun c' => constructVal S c' []) (fieldsOf S c) self i = .ok (defaultOf S f) := by
  refine ⟨fresh S c, (c, freshState { fields := fieldsOf S c, nGroups := groupsOf S c }), constructVal_nil S c, rfl, rfl, ?_, ?_⟩
  · have hi : i < (fieldsOf S c).length := by
      rcases Nat.lt_or_ge i (fieldsOf S c).length with h | h
      · exact h
      · rw [List.getElem?_eq_none h] at hf; cases hf
    have hfi : (fieldsOf S c)[i] = f := by
      rw [List.getElem?_eq_getElem hi] at hf; injection hf
    obtain ⟨st', h⟩ := C06.fresh_default S c i f hf hg
    refine ⟨st', ?_⟩
    rw [SrcTieObj.getattribute_eq S _ _ i hi (by intro g e; rw [hfi, hg] at e; cases e), h]
    rfl
  · intro self
    rw [get_field_default_eq S _ (constructVal_nil S) _ self i
      (fun f' h' => by rw [hf] at h'; injection h' with h'; subst h'; exact hmr), hf]

/-! ### construction naming several members of one group -/

/-- the last member of group `g` (in declaration order) whose raw slot is not a sentinel, as a left fold:
    `acc` is the answer so far, `i` the index of the head of the lists -/
def lastSet (g : Nat) : List FieldD → List Val → Nat → Option Nat → Option Nat
  | f :: fs, v :: vs, i, acc => lastSet g fs vs (i + 1) (if f.group == some g && !isSentinel f v then some i else acc)
  | _, _, _, acc => acc

theorem initCur_lastSet (g : Nat) : ∀ (fs : List FieldD) (vs : List Val) (i : Nat) (cur : List (Option Nat)), g < cur.length →
    (initCur fs vs i cur).getD g Option.none = lastSet g fs vs i (cur.getD g Option.none)
  | [], _, _, _, _ => by simp [initCur, lastSet]
  | f :: fs, [], _, _, _ => by simp [initCur, lastSet]
  | f :: fs, v :: vs, i, cur, hl => by
    rw [initCur, lastSet]
    cases hg : f.group with
    | none => simpa using initCur_lastSet g fs vs (i + 1) cur hl
    | some g' =>
      by_cases hs : isSentinel f v = true
      · simpa [hs] using initCur_lastSet g fs vs (i + 1) cur hl
      · have hs' : isSentinel f v = false := by simpa using hs
        simp only [hs', Bool.not_false, if_true, Bool.and_true]
        rw [initCur_lastSet g fs vs (i + 1) _ (by simpa using hl), getD_set_cur]
        by_cases e : g' = g
        · subst e; simp [hl]
        · have : ¬ (some g' = some g) := fun h => e (Option.some.inj h)
          simp [e, this]

/-- what `lastSet` returns (from nothing) is a non-sentinel member of the group, and every later member of the
    group is a sentinel -/
theorem lastSet_spec (g : Nat) : ∀ (fs : List FieldD) (vs : List Val) (i : Nat) (acc : Option Nat) (j : Nat),
    lastSet g fs vs i acc = some j →
    (acc = some j ∧ ∀ k f, fs[k]? = some f → f.group = some g → k < vs.length → isSentinel f (vs.getD k .ph) = true)
    ∨ (∃ k f, j = i + k ∧ fs[k]? = some f ∧ f.group = some g ∧ isSentinel f (vs.getD k .ph) = false
        ∧ ∀ k' f', k < k' → fs[k']? = some f' → f'.group = some g → k' < vs.length → isSentinel f' (vs.getD k' .ph) = true)
  | [], _, _, acc, j, h => by
    left
    cases ‹List Val› <;> simp [lastSet] at h <;> exact ⟨h, by simp⟩
  | f :: fs, [], _, acc, j, h => by
    left; simp [lastSet] at h; exact ⟨h, by simp⟩
  | f :: fs, v :: vs, i, acc, j, h => by
    rw [lastSet] at h
    rcases lastSet_spec g fs vs (i + 1) _ j h with ⟨hacc, hall⟩ | ⟨k, f', hj, hf', hg', hs', hlater⟩
    · by_cases hc : (f.group == some g && !isSentinel f v) = true
      · right
        simp only [hc, if_true, Option.some.injEq] at hacc
        have hc' := hc
        simp only [Bool.and_eq_true, beq_iff_eq, Bool.not_eq_true'] at hc'
        refine ⟨0, f, by omega, rfl, hc'.1, by simpa using hc'.2, ?_⟩
        intro k' f' hk' hf' hg' hl'
        cases k' with
        | zero => omega
        | succ k' =>
          have := hall k' f' (by simpa using hf') hg' (by simpa using hl')
          simpa using this
      · left
        simp only [hc, Bool.false_eq_true, if_false] at hacc
        refine ⟨hacc, ?_⟩
        intro k f' hf' hg' hl'
        cases k with
        | zero =>
          have e : f = f' := by simpa using hf'
          rw [← e] at hg' ⊢
          have : (f.group == some g) = true := by simp [hg']
          simp only [this, Bool.true_and, Bool.not_eq_true', Bool.not_eq_false] at hc
          simpa using hc
        | succ k =>
          have := hall k f' (by simpa using hf') hg' (by simpa using hl')
          simpa using this
    · right
      refine ⟨k + 1, f', by omega, by simpa using hf', hg', by simpa using hs', ?_⟩
      intro k' f'' hk' hf'' hg'' hl'
      cases k' with
      | zero => omega
      | succ k' =>
        have := hlater k' f'' (by omega) (by simpa using hf'') hg'' (by simpa using hl')
        simpa using this

/-- **after a construction as written that names any members of any groups — several of one group included —
    `which_one_of` names, for every group, the LAST member in DECLARATION order that received a non-sentinel
    argument, or nothing**: the selection is `lastSet` of the raw slots (one value per group: at most one member
    is selected), the selected member is a member of the group that was given a value, and every later member of
    the group was not.  Guards: the arguments name fields of the class; the group is one of the class's. -/
theorem src_construct_selects_last_declared (S : Schema) (c : Nat) (kw : List (Nat × Val))
    (hkw : ∀ p ∈ kw, p.1 < (fieldsOf S c).length) (g : Nat) (hg : g < groupsOf S c) :
    ∃ m, constructVal S c kw = .ok m
      ∧ whichOneOf m g = lastSet g (fieldsOf S c) ((List.range (fieldsOf S c).length).map (slotOf m)) 0 Option.none
      ∧ ∀ j, whichOneOf m g = some j →
          ∃ f, (fieldsOf S c)[j]? = some f ∧ f.group = some g ∧ isSentinel f (slotOf m j) = false
            ∧ ∀ j' f', j < j' → (fieldsOf S c)[j']? = some f' → f'.group = some g → isSentinel f' (slotOf m j') = true := by
  refine ⟨construct S c kw, constructVal_eq S c kw hkw, ?_⟩
  set fs := fieldsOf S c with hfs
  set slots := initSlots fs (kw.map fun (p : Nat × Val) => (p.1, markEmpty S p.2)) 0 fs with hslots
  have hlen : slots.length = fs.length := initSlots_length _ _ _ _
  have hm : construct S c kw = .msg c slots (anyNonSentinel fs slots) [] (initCur fs slots 0 (List.replicate (groupsOf S c) Option.none)) := rfl
  have hslot : (List.range fs.length).map (slotOf (construct S c kw)) = slots := by
    rw [hm]
    apply List.ext_getElem?
    intro j
    simp only [List.getElem?_map, slotOf]
    by_cases hj : j < fs.length
    · simp [List.getElem?_range hj, slotOf, List.getD_eq_getElem?_getD, List.getElem?_eq_getElem (hlen ▸ hj)]
    · have h1 : (List.range fs.length)[j]? = none := by simp [hj]
      have h2 : slots[j]? = none := by simp [hlen]; omega
      simp [h1, h2]
  have hw : whichOneOf (construct S c kw) g = lastSet g fs slots 0 Option.none := by
    rw [hm]
    simp only [whichOneOf]
    rw [initCur_lastSet g fs slots 0 _ (by simpa using hg)]
    simp [List.getD_eq_getElem?_getD, List.getElem?_replicate, hg]
  refine ⟨by rw [hslot]; exact hw, ?_⟩
  intro j hj
  rw [hw] at hj
  rcases lastSet_spec g fs slots 0 Option.none j hj with ⟨h, _⟩ | ⟨k, f, hjk, hf, hgf, hs, hlater⟩
  · cases h
  · have hjk' : j = k := by omega
    subst hjk'
    have hso : ∀ i, slotOf (construct S c kw) i = slots.getD i .ph := fun i => by rw [hm]; rfl
    refine ⟨f, hf, hgf, by rw [hso]; exact hs, ?_⟩
    intro j' f' hlt hf' hg'
    rw [hso]
    have hj' : j' < fs.length := by
      rcases Nat.lt_or_ge j' fs.length with h | h
      · exact h
      · rw [List.getElem?_eq_none h] at hf'; cases hf'
    exact hlater j' f' hlt hf' hg' (by omega)

/-- **… and reading any other member of the group raises AttributeError**: `getattr` as written
    (Gen/SrcObj.lean) on the instance the construction as written leaves, for every member of the group other than
    the one `which_one_of` names — whatever was passed for it -/
theorem src_construct_other_members_raise (S : Schema) (c : Nat) (kw : List (Nat × Val))
    (hkw : ∀ p ∈ kw, p.1 < (fieldsOf S c).length) (g : Nat) (hg : g < groupsOf S c) (i : Nat) (f : FieldD)
    (hf : (fieldsOf S c)[i]? = some f) (hgf : f.group = some g) :
    ∃ m cst, constructVal S c kw = .ok m ∧ stateOf m = some cst
      ∧ (whichOneOf m g ≠ some i → Src.getattribute S (fieldsOf S c) cst.2 i = .raise .attr) := by
  refine ⟨construct S c kw, (c, _), constructVal_eq S c kw hkw, rfl, ?_⟩
  intro hsel
  have hi : i < (fieldsOf S c).length := by
    rcases Nat.lt_or_ge i (fieldsOf S c).length with h | h
    · exact h
    · rw [List.getElem?_eq_none h] at hf; cases hf
  have hfi : (fieldsOf S c)[i] = f := by
    rw [List.getElem?_eq_getElem hi] at hf; injection hf
  rw [SrcTieObj.getattribute_eq S _ _ i hi (by
    intro g' e
    rw [hfi, hgf] at e; injection e with e; subst e
    simp only [initCur_length, List.length_replicate]; exact hg)]
  rw [other_member_raises S _ _ i f g hf hgf (by simpa [whichOneOf, construct] using hsel)]
  rfl

/-! non-vacuity and the declaration-order rule on a concrete call: group {a, b}; `Cls(b="h", a=0)` and
    `Cls(a=0, b="h")` both select `b`, the later DECLARED member, and `a` raises -/
example : whichOneOf (construct S2 0 [(1, .str [104]), (0, .int 0)]) 0 = some 1 := by decide
example : whichOneOf (construct S2 0 [(0, .int 0), (1, .str [104])]) 0 = some 1 := by decide
example : constructVal S2 0 [(1, .str [104]), (0, .int 0)]
    = .ok (.msg 0 [.int 0, .str [104]] true [] [some 1]) := rfl
example : Src.getattribute S2 (fieldsOf S2 0) { slots := [.int 0, .str [104]], onWire := true, unknown := [], cur := [some 1] } 0
    = .raise .attr := rfl
/-- the invariant of C07 does NOT hold of that instance (the raw value of `a` stays): why `inv_construct` has the
    guard `AtMostOne` -/
example : ¬ InvVal S2 (construct S2 0 [(1, .str [104]), (0, .int 0)]) := by
  intro h
  have := h.2 0 { name := "a", num := 1, ty := .int32, group := some 0 } 0 rfl rfl (by decide)
  rcases this with h | h
  · cases h
  · exact absurd h.1 (by decide)

end Bp.C07
