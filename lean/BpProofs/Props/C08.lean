import BpModel.All
import BpProofs.Load
/-
  C08 — unknown fields survive decode/encode; schema evolution is lossless.
-/
namespace Bp.C08
open Bp Gen

/-- **no byte lost or invented by the framing**: the raw bytes kept for the parsed fields,
    concatenated in arrival order, are exactly the input — for every byte string the
    decoder accepts, any field numbers, any of the four wire types, any position -/
theorem raw_concat (bs : Bytes) (pfs : List PField) (h : loadFields bs = .ok pfs) :
    joinRaw pfs = bs := (loadFields_raw bs pfs h).1

/-- the fields the receiving class does not know (no such number, or a wire type that
    does not fit) are kept **byte-for-byte, in arrival order**, appended to what was
    already there; nothing else is ever put into `_unknown_fields` -/
theorem unknown_kept (S : Schema) (c : Nat) (d : MsgD) (sl : List Val) (ow : Bool) (unk : Bytes)
    (cur : List (Option Nat)) (bs : Bytes) (m' : Val) (hd : S[c]? = some d)
    (h : parseInto S (.msg c sl ow unk cur) bs = .ok m') :
    ∃ pfs sl' ow' cur', loadFields bs = .ok pfs
      ∧ m' = .msg c sl' ow' (unk ++ joinRaw (pfs.filter (isUnknownField d))) cur' := by
  rw [parseInto_eq S c d sl ow unk cur bs hd] at h
  cases hp : loadFields bs with
  | error e => rw [hp] at h; simp at h
  | ok pfs =>
    rw [hp] at h; simp only [bind_ok] at h
    cases hf : foldFields S (loadInto S bs.length) d { slots := sl, onWire := true, unknown := unk, cur := cur } pfs with
    | error e => rw [hf] at h; simp at h
    | ok st =>
      rw [hf] at h; simp only [bind_ok] at h
      injection h with h
      have := (foldFields_split S _ d pfs _ st hf).1
      refine ⟨pfs, st.slots, st.onWire, st.cur, rfl, ?_⟩
      rw [← h]; simp only [MState.toVal]; rw [this]

/-- … and they are **re-emitted byte-for-byte** after the known fields when the message
    is encoded again -/
theorem unknown_reemitted (S : Schema) (c : Nat) (sl : List Val) (ow : Bool) (unk : Bytes)
    (cur : List (Option Nat)) (out : Bytes) (h : dumpVal S (.msg c sl ow unk cur) = .ok out) :
    ∃ known, dumpSlots S (fieldsOf S c) cur 0 sl = .ok known ∧ out = known ++ unk := by
  rw [dumpVal_msg] at h
  cases hk : dumpSlots S (fieldsOf S c) cur 0 sl with
  | error e => rw [hk] at h; simp at h
  | ok known => rw [hk] at h; simp only [bind_ok] at h; injection h with h; exact ⟨known, rfl, h.symm⟩

/-- **unknown fields do not disturb the decoding of known fields**: decoding the input
    and decoding only its known records (unknown ones deleted, at whatever position they
    were) give the same field values, the same oneof selection and the same presence -/
theorem known_unaffected (S : Schema) (c : Nat) (d : MsgD) (sl : List Val) (ow : Bool) (unk : Bytes)
    (cur : List (Option Nat)) (bs : Bytes) (pfs : List PField) (sl' : List Val) (ow' : Bool) (unk' : Bytes)
    (cur' : List (Option Nat)) (hd : S[c]? = some d) (hp : loadFields bs = .ok pfs)
    (h : parseInto S (.msg c sl ow unk cur) bs = .ok (.msg c sl' ow' unk' cur')) :
    foldFields S (loadInto S bs.length) d { slots := sl, onWire := true, unknown := unk, cur := cur }
        (pfs.filter fun pf => !isUnknownField d pf)
      = .ok { slots := sl', onWire := ow', unknown := unk, cur := cur' } := by
  rw [parseInto_eq S c d sl ow unk cur bs hd, hp] at h
  simp only [bind_ok] at h
  cases hf : foldFields S (loadInto S bs.length) d { slots := sl, onWire := true, unknown := unk, cur := cur } pfs with
  | error e => rw [hf] at h; simp at h
  | ok st =>
    rw [hf] at h; simp only [bind_ok] at h
    injection h with h
    simp only [MState.toVal] at h
    injection h with _ h2 h3 _ h5
    have := (foldFields_split S _ d pfs _ st hf).2
    rw [this, h2, h3, h5]

/-- the known records alone form a byte string the decoder splits into exactly those
    records (so "the input without its unknown fields" is a meaningful input) -/
theorem known_records_reparse (d : MsgD) (bs : Bytes) (pfs : List PField) (hp : loadFields bs = .ok pfs) :
    loadFields (joinRaw (pfs.filter fun pf => !isUnknownField d pf))
      = .ok (pfs.filter fun pf => !isUnknownField d pf) := by
  apply loadFields_join
  intro pf hpf
  exact loadFields_parsed bs pfs hp pf (List.mem_filter.mp hpf).1

/-! non-vacuity: an older schema (only field 1) reads data written with fields 1, 2, 3 -/
def oldS : Schema := [{ fields := [{ name := "a", num := 1, ty := .int32 }] }]
example : (parse oldS 0 [0x08, 0x05, 0x12, 0x02, 0x68, 0x69, 0x18, 0x07]).bind (dumpVal oldS)
    = .ok [0x08, 0x05, 0x12, 0x02, 0x68, 0x69, 0x18, 0x07] := by decide
example : dumpVal oldS (.msg 0 [.int 5] true [0x12, 0x02, 0x68, 0x69, 0x18, 0x07] [])
    = .ok [0x08, 0x05, 0x12, 0x02, 0x68, 0x69, 0x18, 0x07] := by decide

end Bp.C08
