import BpModel.All
import BpProofs.Load
import BpProofs.Evolution
/-
  C08 — unknown fields survive decode/encode; schema evolution is lossless.

  RECORD LEVEL (`raw_concat`, `unknown_kept`, `unknown_reemitted`, `known_unaffected`,
  `known_records_reparse`): for every schema, every accepted byte string, any field numbers and
  wire types — the framing loses no byte, unknown records are kept byte for byte in arrival
  order and re-emitted after the known fields, and do not disturb the known fields.

  END TO END (`evolution_roundtrip`, `evolution_detail`, `evolution_total`; proofs in
  BpProofs/Evolution.lean, EvoMsg.lean, EvoProj.lean, EvoKeep.lean, EvoAgree.lean): the
  property's evolution clause, in full.  Setting: two schemas that agree on every class except
  `c`; the older class `c` keeps ANY sub-list of the fields of the newer class (same `FieldD`
  records, same relative order: fields dropped at the front, in the middle, at the end; oneof
  groups may lose all, some or none of their members, the selected one included) and the same
  number of oneof groups; no field of the newer schema refers to class `c` as sub-message or
  map-value class (so nested payloads are read identically by both programs; decidable:
  `evoB`, `schemaFreeB`, `olderB`).  For EVERY well-typed message `m` (`MsgOk`, the domain of
  the round-trip theorem C01: all scalar kinds, optional, oneof, repeated packed / unpacked,
  nested / recursive / repeated sub-messages, Timestamp / Duration, wrappers, maps, arbitrary
  unknown bytes) whose encoding is shorter than 2^64 bytes:
      bytes(m) --older program: parse--> mo --older program: bytes--> bs' --newer: parse--> m'
  all three steps succeed, and `m'` has the class, the oneof selection `cur` (also of groups
  whose selected member the older class dropped: it travels through the unknown bytes) and the
  unknown bytes `unk` of `m`, and slot values equivalent to those of `m` in the sense of C01
  (`ValEqv`); indeed `m'` IS what the newer program reads `bytes(m)` as (`evolution_detail`,
  which also says what the older program holds and writes: kept slots, renumbered selection,
  dropped records appended to the unknown bytes in arrival order; `bs'` = known records, then
  unknown records, a rearrangement of the records of `bytes(m)` of the same length).
  Ingredients: C01 for both schemas (on `m`, and on the projection of `m` onto the kept fields,
  which is well-typed in the older schema), the unknown-record lemmas above, and C02
  (`foldFields_core_filter`: unknown records anywhere; `foldFields_perm`: reordering records of
  different fields / groups).
  NOT COVERED (no counterexample known): an evolving class that is referred to by a field
  (its own or another class's) — then the older program also re-orders records INSIDE nested
  payloads; changes other than dropping fields (renumbering, type changes).
-/
namespace Bp.C08
open Bp Gen

/-- **no byte lost or invented by the framing**: the raw bytes kept for the parsed fields,
    concatenated in arrival order, are exactly the input — for every byte string the
    decoder accepts, any field numbers, any of the four wire types, any position -/
theorem raw_concat (bs : Bytes) (pfs : List PField) (h : loadFields bs = .ok pfs) :
    joinRaw pfs = bs := (loadFields_raw bs pfs h).1

/-- the fields the receiving class does not know (no such number, or a wire type that
    does not fit) are kept **byte-for-byte, in arrival order**, appended to what was
    already there; nothing else is ever put into `_unknown_fields` -/
theorem unknown_kept (S : Schema) (c : Nat) (d : MsgD) (sl : List Val) (ow : Bool) (unk : Bytes)
    (cur : List (Option Nat)) (bs : Bytes) (m' : Val) (hd : S[c]? = some d)
    (h : parseInto S (.msg c sl ow unk cur) bs = .ok m') :
    ∃ pfs sl' ow' cur', loadFields bs = .ok pfs
      ∧ m' = .msg c sl' ow' (unk ++ joinRaw (pfs.filter (isUnknownField d))) cur' := by
  rw [parseInto_eq S c d sl ow unk cur bs hd] at h
  cases hp : loadFields bs with
  | error e => rw [hp] at h; simp at h
  | ok pfs =>
    rw [hp] at h; simp only [bind_ok] at h
    cases hf : foldFields S (loadInto S bs.length) d { slots := sl, onWire := true, unknown := unk, cur := cur } pfs with
    | error e => rw [hf] at h; simp at h
    | ok st =>
      rw [hf] at h; simp only [bind_ok] at h
      injection h with h
      have := (foldFields_split S _ d pfs _ st hf).1
      refine ⟨pfs, st.slots, st.onWire, st.cur, rfl, ?_⟩
      rw [← h]; simp only [MState.toVal]; rw [this]

/-- … and they are **re-emitted byte-for-byte** after the known fields when the message
    is encoded again -/
theorem unknown_reemitted (S : Schema) (c : Nat) (sl : List Val) (ow : Bool) (unk : Bytes)
    (cur : List (Option Nat)) (out : Bytes) (h : dumpVal S (.msg c sl ow unk cur) = .ok out) :
    ∃ known, dumpSlots S (fieldsOf S c) cur 0 sl = .ok known ∧ out = known ++ unk := by
  rw [dumpVal_msg] at h
  cases hk : dumpSlots S (fieldsOf S c) cur 0 sl with
  | error e => rw [hk] at h; simp at h
  | ok known => rw [hk] at h; simp only [bind_ok] at h; injection h with h; exact ⟨known, rfl, h.symm⟩

/-- **unknown fields do not disturb the decoding of known fields**: decoding the input
    and decoding only its known records (unknown ones deleted, at whatever position they
    were) give the same field values, the same oneof selection and the same presence -/
theorem known_unaffected (S : Schema) (c : Nat) (d : MsgD) (sl : List Val) (ow : Bool) (unk : Bytes)
    (cur : List (Option Nat)) (bs : Bytes) (pfs : List PField) (sl' : List Val) (ow' : Bool) (unk' : Bytes)
    (cur' : List (Option Nat)) (hd : S[c]? = some d) (hp : loadFields bs = .ok pfs)
    (h : parseInto S (.msg c sl ow unk cur) bs = .ok (.msg c sl' ow' unk' cur')) :
    foldFields S (loadInto S bs.length) d { slots := sl, onWire := true, unknown := unk, cur := cur }
        (pfs.filter fun pf => !isUnknownField d pf)
      = .ok { slots := sl', onWire := ow', unknown := unk, cur := cur' } := by
  rw [parseInto_eq S c d sl ow unk cur bs hd, hp] at h
  simp only [bind_ok] at h
  cases hf : foldFields S (loadInto S bs.length) d { slots := sl, onWire := true, unknown := unk, cur := cur } pfs with
  | error e => rw [hf] at h; simp at h
  | ok st =>
    rw [hf] at h; simp only [bind_ok] at h
    injection h with h
    simp only [MState.toVal] at h
    injection h with _ h2 h3 _ h5
    have := (foldFields_split S _ d pfs _ st hf).2
    rw [this, h2, h3, h5]

/-- the known records alone form a byte string the decoder splits into exactly those
    records (so "the input without its unknown fields" is a meaningful input) -/
theorem known_records_reparse (d : MsgD) (bs : Bytes) (pfs : List PField) (hp : loadFields bs = .ok pfs) :
    loadFields (joinRaw (pfs.filter fun pf => !isUnknownField d pf))
      = .ok (pfs.filter fun pf => !isUnknownField d pf) := by
  apply loadFields_join
  intro pf hpf
  exact loadFields_parsed bs pfs hp pf (List.mem_filter.mp hpf).1

/-! non-vacuity: an older schema (only field 1) reads data written with fields 1, 2, 3 -/
def oldS : Schema := [{ fields := [{ name := "a", num := 1, ty := .int32 }] }]
example : (parse oldS 0 [0x08, 0x05, 0x12, 0x02, 0x68, 0x69, 0x18, 0x07]).bind (dumpVal oldS)
    = .ok [0x08, 0x05, 0x12, 0x02, 0x68, 0x69, 0x18, 0x07] := by decide
example : dumpVal oldS (.msg 0 [.int 5] true [0x12, 0x02, 0x68, 0x69, 0x18, 0x07] [])
    = .ok [0x08, 0x05, 0x12, 0x02, 0x68, 0x69, 0x18, 0x07] := by decide

/-! ### schema evolution, end to end -/

/-- **schema evolution is lossless**: newer schema `Sn`, older schema `So`, identical except for
    class `c` whose older version keeps a sub-list of the fields (`Older`); nothing refers to
    class `c` (`SchemaFree`).  A well-typed message written with `Sn`, read and re-written with
    `So`, and read again with `Sn` comes back with the same class, oneof selection and unknown
    bytes and with equivalent slot values (`ValEqv`, as in C01). -/
theorem evolution_roundtrip (Sn So : Schema) (c : Nat) (dn dold : MsgD)
    (hn : Sn[c]? = some dn) (ho : So[c]? = some dold) (hagree : ∀ c', c' ≠ c → So[c']? = Sn[c']?)
    (hfree : SchemaFree c Sn) (hold : Older dn dold)
    (sl : List Val) (ow : Bool) (unk : Bytes) (cur : List (Option Nat))
    (hm : MsgOk Sn (.msg c sl ow unk cur)) (bs : Bytes)
    (hdump : dumpVal Sn (.msg c sl ow unk cur) = .ok bs) (hbl : bs.length < 2 ^ 64) :
    ∃ mo bs' sl', parse So c bs = .ok mo ∧ dumpVal So mo = .ok bs'
      ∧ parse Sn c bs' = .ok (.msg c sl' true unk cur)
      ∧ ValEqv Sn (.msg c sl ow unk cur) (.msg c sl' true unk cur) :=
  Bp.evolution_roundtrip_older Sn So c dn dold hn ho hagree hfree hold sl ow unk cur hm bs hdump hbl

/-- … without an encoding hypothesis (every `MsgOk` value can be encoded) -/
theorem evolution_total {Sn So : Schema} {c : Nat} {dn dold : MsgD} {mask : List Bool}
    (E : Evo Sn So c dn dold mask) (sl : List Val) (ow : Bool) (unk : Bytes) (cur : List (Option Nat))
    (hm : MsgOk Sn (.msg c sl ow unk cur)) :
    ∃ bs, dumpVal Sn (.msg c sl ow unk cur) = .ok bs ∧ (bs.length < 2 ^ 64 →
      ∃ mo bs' sl', parse So c bs = .ok mo ∧ dumpVal So mo = .ok bs'
        ∧ parse Sn c bs' = .ok (.msg c sl' true unk cur)
        ∧ ValEqv Sn (.msg c sl ow unk cur) (.msg c sl' true unk cur)) :=
  Bp.evolution_roundtrip_total E sl ow unk cur hm

/-- **the three steps in detail** (`E : Evo …` bundles the setting with the mask of kept fields):
    what the older program holds (`slo`: the kept slots up to `ValEqv So`; `projCur mask cur`:
    the selection renumbered, unselected where the selected member was dropped; unknown bytes
    = the dropped records in arrival order, then those of `m`), what it writes (`bs'`: the records
    of `bs` it knows, then those it does not, each in arrival order; same length), and that the
    newer program reads `bs'` exactly as it reads `bs` -/
theorem evolution_detail {Sn So : Schema} {c : Nat} {dn dold : MsgD} {mask : List Bool}
    (E : Evo Sn So c dn dold mask) (sl : List Val) (ow : Bool) (unk : Bytes) (cur : List (Option Nat))
    (hm : MsgOk Sn (.msg c sl ow unk cur)) (bs : Bytes)
    (hdump : dumpVal Sn (.msg c sl ow unk cur) = .ok bs) (hbl : bs.length < 2 ^ 64) :
    ∃ (pfs : List PField) (dropped : Bytes) (slo sl' : List Val) (bs' : Bytes),
      loadFields bs = .ok pfs
      ∧ dropped ++ unk = joinRaw (pfs.filter (isUnknownField dold))
      ∧ bs' = joinRaw (pfs.filter fun pf => !isUnknownField dold pf) ++ joinRaw (pfs.filter (isUnknownField dold))
      ∧ bs'.length = bs.length
      ∧ parse So c bs = .ok (.msg c slo true (dropped ++ unk) (projCur mask cur))
      ∧ ValEqv So (.msg c (keep mask sl) ow (dropped ++ unk) (projCur mask cur))
          (.msg c slo true (dropped ++ unk) (projCur mask cur))
      ∧ dumpVal So (.msg c slo true (dropped ++ unk) (projCur mask cur)) = .ok bs'
      ∧ parse Sn c bs' = .ok (.msg c sl' true unk cur)
      ∧ parse Sn c bs = .ok (.msg c sl' true unk cur)
      ∧ ValEqv Sn (.msg c sl ow unk cur) (.msg c sl' true unk cur) :=
  Bp.evolution_detail E sl ow unk cur hm bs hdump hbl

/-! non-vacuity of the evolution theorem: `Bp.EvoEx` (BpProofs/Evolution.lean) — a class with a
    string field dropped in the middle, a dropped repeated field and a dropped SELECTED oneof
    member, a message with unknown bytes; `evoB` / `msgOkB` decide the hypotheses, the three
    steps are evaluated on the model -/
example : evoB EvoEx.SN EvoEx.SO 1 = true := by decide
example : ((dumpVal EvoEx.SN EvoEx.m).bind fun b => (parse EvoEx.SO 1 b).bind fun o => dumpVal EvoEx.SO o)
    = .ok [8, 5, 26, 2, 8, 7, 18, 2, 104, 105, 34, 2, 2, 3, 42, 1, 65, 72, 1] := by decide +kernel
example : parse EvoEx.SN 1 [8, 5, 26, 2, 8, 7, 18, 2, 104, 105, 34, 2, 2, 3, 42, 1, 65, 72, 1] = .ok EvoEx.m := by rfl

end Bp.C08

#print axioms Bp.C08.evolution_roundtrip
#print axioms Bp.C08.evolution_total
#print axioms Bp.C08.evolution_detail
