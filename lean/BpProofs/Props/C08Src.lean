import BpProofs.SrcTieLoad
import BpProofs.Props.C08
/-
  C08, tied to the SOURCE: what the record loop of `Message.load` as written does with a record the
  class does not know.  `Src.load_record` (one iteration, regenerated from the Python AST on every run
  by harness/extract_srcload.py → BpProofs/Gen/SrcLoad.lean) is proved equal to the model's `applyField`
  in BpProofs/SrcTieLoad.lean; `SrcTieLoad.loadLoop` is the loop around it.  Reading, trusted prelude
  and the guard `RecOk` (payload made of bytes, fuel ≥ len(payload) + 12; holds of every record the
  framing yields, `C02.src_records_ok`): see Props/C02Src.lean.
-/
namespace Bp.C08
open Bp Bp.Py Gen Bp.SrcTieLoad

/-- **an unknown record is kept verbatim by the source as written**: one iteration of the record loop for
    a record whose number the class does not declare appends exactly the record's raw bytes to
    `_unknown_fields` and changes nothing else — whatever the wire type and the payload -/
theorem src_unknown_record_kept (S : Schema) (rec : Loader) (d : MsgD) (st : MState) (pf : PField)
    (hnum : findField d.fields pf.num = Option.none) (fuel : Nat) (hok : RecOk fuel pf) :
    Src.load_record fuel S rec d st pf = .ok { st with unknown := st.unknown ++ pf.raw } := by
  rw [load_record_eq S rec d st pf hok.1 fuel hok.2, applyField_unknown S rec d st pf (by simp [isUnknownField, hnum])]
  rfl

/-- **the record loop as written keeps the unknown records byte for byte, in arrival order**: whenever it
    runs to the end, `_unknown_fields` is what it was followed by the raw bytes of exactly the records the
    class does not know (no such number, or a wire type that does not fit), in the order they arrived;
    nothing else is ever put there -/
theorem src_unknown_kept (S : Schema) (rec : Loader) (d : MsgD) (st st' : MState) (pfs : List PField)
    (fuel : Nat) (hok : ∀ pf ∈ pfs, RecOk fuel pf) (h : loadLoop fuel S rec d st pfs = .ok st') :
    st'.unknown = st.unknown ++ joinRaw (pfs.filter (isUnknownField d)) := by
  rw [loadLoop_eq S rec d fuel pfs hok st] at h
  cases hf : foldFields S rec d st pfs with
  | error e => rw [hf] at h; cases h
  | ok s =>
    rw [hf] at h
    injection h with h
    subst h
    exact (foldFields_split S rec d pfs st s hf).1

end Bp.C08
