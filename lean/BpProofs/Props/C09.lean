import BpModel.All
import BpProofs.Len
/-
  C09 — len(m) equals the encoded size and dump() writes exactly bytes(m).
  `Len.lean` (model of `__len__`, `_len_single`, `_len_preprocessed_single`) and
  `Dump.lean` (model of `dump`, `_serialize_single`, `_preprocess_single`) are written
  separately, branch for branch as in the code; these theorems relate the two walks.
-/
namespace Bp.C09
open Bp

/-- **len(m) == len(bytes(m))** for every schema and every value — well-typed or not:
    when `bytes(m)` raises, `len(m)` raises too; there is no hypothesis. -/
theorem len_eq (S : Schema) (m : Val) :
    lenVal S m = Except.map List.length (dumpVal S m) := lenVal_eq S m

/-- the same, read as the property states it -/
theorem len_eq_bytes (S : Schema) (m : Val) (bs : Bytes) (h : dumpVal S m = .ok bs) :
    lenVal S m = .ok bs.length := by rw [len_eq, h]; rfl

/-- **dump(stream, SIZE_DELIMITED)** writes the varint encoding of `len(bytes(m))`
    followed by `bytes(m)` -/
theorem dump_delimited (S : Schema) (m : Val) (bs : Bytes) (h : dumpVal S m = .ok bs) :
    dumpDelimited S m = .ok (encNat bs.length ++ bs) := by
  unfold dumpDelimited dumpDelimitedWith
  rw [len_eq_bytes S m bs h, h]
  simp [dumpVarint_nat]

/-- … and fails exactly when `bytes(m)` fails -/
theorem dump_delimited_error (S : Schema) (m : Val) (e : PyErr) (h : dumpVal S m = .error e) :
    dumpDelimited S m = .error e := by
  unfold dumpDelimited
  rw [len_eq, h]; rfl

/-- the prefix is a canonical varint that the decoder reads back as the body length,
    whatever follows (so a reader can skip exactly one message) -/
theorem delimited_prefix_readable (S : Schema) (m : Val) (bs rest : Bytes)
    (h : dumpVal S m = .ok bs) (hlen : bs.length < 2 ^ 64) :
    ∃ out, dumpDelimited S m = .ok out ∧
      loadVarint (out ++ rest) = .ok (bs.length, (encNat bs.length).length) := by
  refine ⟨_, dump_delimited S m bs h, ?_⟩
  rw [List.append_assoc]
  exact loadVarint_encNat bs.length (bs ++ rest) hlen

/-- one loop iteration: the size `__len__` adds for a field is the number of bytes
    `dump` writes for it (any field descriptor, any slot value, any oneof state) -/
theorem field_len_eq (S : Schema) (f : FieldD) (hid sel : Bool) (v : Val) :
    lenSlot S f hid sel v = Except.map List.length (dumpSlot S f hid sel v) := lenSlot_eq S f hid sel v

/-- `_len_single` vs `_serialize_single` -/
theorem single_len_eq (S : Schema) (num : Nat) (t : PType) (v : Val) (se : Bool) (w : Option PType) :
    lenScalar S num t v se w = Except.map List.length (serializeScalar S num t v se w) :=
  lenScalar_eq S num t v se w

/-! non-vacuity: the repaired D01 witness — an optional string set to "" encodes to two
    bytes and `len` agrees (before the repair `__len__` lacked `or meta.optional`) -/
def wS : Schema := [{ fields := [{ name := "s", num := 1, ty := .string, optional := true }] }]
example : dumpVal wS (.msg 0 [.str []] true [] []) = .ok [10, 0] := by decide
example : lenVal wS (.msg 0 [.str []] true [] []) = .ok 2 := by decide

end Bp.C09
