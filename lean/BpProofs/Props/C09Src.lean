import BpProofs.SrcTie
import BpProofs.SrcTieDump
import BpProofs.Props.C16
import BpProofs.Props.C09
import BpProofs.Len
/-
  C09, tied to the SOURCE: `__len__` is a second, hand-duplicated copy of the serialisation
  walk.  The arithmetic both copies are built from — `size_varint` against `encode_varint`,
  the key of every wire-type branch of `_len_single` against the key written by
  `_serialize_single`, the length prefix of a length-delimited field — is translated from
  the Python AST of the working tree on every run (BpProofs/Gen/SrcCodec.lean) and proved to
  agree pairwise, for every field number and every payload.

  The WALK itself — the body of the field loop of `__len__`, a hand-made copy of the body of
  the field loop of `dump` (skip on AttributeError / None, the skip test against the default,
  packed list / one record per item `or 2` / map entries / single value) — is translated too
  (harness/extract_srcdump.py → BpProofs/Gen/SrcDump.lean, `Src.len_field` / `Src.dump_field`)
  and proved equal to the model's `lenSlot` / `dumpSlot` (`src_len_field`); the two translated
  copies agree on every field, every value, both flags (`src_field_len_agrees`).
-/
namespace Bp.C09
open Bp Bp.Py

/-- `size_varint(v)` as written is the length of `encode_varint(v)` as written, for every integer -/
theorem src_size_is_encoded_length (v : Int) (fuel : Nat) (hf : v.natAbs + 2 ^ 64 < fuel) :
    Src.size_varint fuel v = (Src.encode_varint fuel v).bind fun bs => .ok ((bs.length : Nat) : Int) := by
  rw [SrcTie.size_varint_eq, SrcTie.encode_varint_eq v fuel hf, C16.size_eq]
  cases dumpVarint v <;> rfl

/-- varint-typed field: `_len_single` adds exactly the length of the key `_serialize_single` writes -/
theorem src_key_len_varint (num fuel : Nat) (size : Int) (hf : num * 8 + 2 ^ 64 < fuel) :
    Src.len_key_varint fuel (num : Int) size =
      (Src.serialize_key_varint fuel (num : Int)).bind fun key => .ok (size + ((key.length : Nat) : Int)) := by
  rw [SrcTie.len_key_varint_eq, SrcTie.serialize_key_varint_eq num fuel hf, C16.size_eq]
  cases dumpVarint ((num * 8 : Nat) : Int) <;> rfl

/-- fixed32-typed field -/
theorem src_key_len_fixed32 (num fuel : Nat) (size : Int) (hf : num * 8 + 5 + 2 ^ 64 < fuel) :
    Src.len_key_fixed32 fuel (num : Int) size =
      (Src.serialize_key_fixed32 fuel (num : Int)).bind fun key => .ok (size + ((key.length : Nat) : Int)) := by
  rw [SrcTie.len_key_fixed32_eq, SrcTie.serialize_key_fixed32_eq num fuel hf, C16.size_eq]
  cases dumpVarint ((num * 8 + 5 : Nat) : Int) <;> rfl

/-- fixed64-typed field -/
theorem src_key_len_fixed64 (num fuel : Nat) (size : Int) (hf : num * 8 + 1 + 2 ^ 64 < fuel) :
    Src.len_key_fixed64 fuel (num : Int) size =
      (Src.serialize_key_fixed64 fuel (num : Int)).bind fun key => .ok (size + ((key.length : Nat) : Int)) := by
  rw [SrcTie.len_key_fixed64_eq, SrcTie.serialize_key_fixed64_eq num fuel hf, C16.size_eq]
  cases dumpVarint ((num * 8 + 1 : Nat) : Int) <;> rfl

/-- length-delimited field, emitting branch: when `_len_single` is handed the length of the
    preprocessed value, it returns exactly the length of what `_serialize_single` appends
    (`key + varint(len(value)) + value`) -/
theorem src_lendelim_len (num fuel : Nat) (value output : Bytes)
    (hf : num * 8 + 2 + value.length + 2 ^ 64 < fuel) :
    Src.len_lendelim fuel (num : Int) ((value.length : Nat) : Int) =
      (Src.serialize_lendelim fuel (num : Int) value output).bind fun out =>
        .ok (((out.length - output.length : Nat)) : Int) := by
  rw [SrcTie.len_lendelim_eq, SrcTie.serialize_lendelim_eq num fuel value output hf, C16.size_eq, C16.size_eq]
  cases dumpVarint ((num * 8 + 2 : Nat) : Int) with
  | error e => rfl
  | ok k =>
    cases dumpVarint ((value.length : Nat) : Int) with
    | error e => rfl
    | ok l =>
      simp only [Except.map, Except.bind, Py.ofR, Res.bind, List.length_append]
      congr 1
      omega

/-- **the whole framing of a field, as written**: everything `_serialize_single` does after
    `_preprocess_single` is the model's `frame` — which key, whether a length prefix, and the
    emission test `len(value) or serialize_empty or wraps` -/
theorem src_serialize_frame (num fuel : Nat) (t : PType) (value : Bytes) (se wraps : Bool)
    (hf : num * 8 + 5 + value.length + 2 ^ 64 < fuel) :
    Src.serialize_frame fuel (num : Int) t value se wraps = Py.ofR (frame num t value se wraps) :=
  SrcTie.serialize_frame_eq num fuel t value se wraps hf

/-- … and everything `_len_single` does after `_len_preprocessed_single` is the model's `lenFrame` -/
theorem src_len_frame (num fuel : Nat) (t : PType) (size : Nat) (se wraps : Bool) :
    Src.len_frame fuel (num : Int) t (size : Int) se wraps =
      Py.ofR ((lenFrame num t size se wraps).map fun (n : Nat) => (n : Int)) :=
  SrcTie.len_frame_eq num fuel t size se wraps

/-- **`_len_single` and `_serialize_single` as written agree on every field**: for every field
    number, proto type, preprocessed value and flag combination, the framing of `_len_single`
    applied to `len(value)` returns the length of what the framing of `_serialize_single`
    returns for `value`, and the two raise together -/
theorem src_frame_len_agrees (num fuel : Nat) (t : PType) (value : Bytes) (se wraps : Bool)
    (hf : num * 8 + 5 + value.length + 2 ^ 64 < fuel) :
    Src.len_frame fuel (num : Int) t ((value.length : Nat) : Int) se wraps =
      (Src.serialize_frame fuel (num : Int) t value se wraps).bind fun out => .ok ((out.length : Nat) : Int) := by
  rw [src_len_frame, src_serialize_frame num fuel t value se wraps hf, lenFrame_eq]
  cases frame num t value se wraps <;> rfl

/-- **the per-field size computation of `Message.__len__` as written is the model's `lenSlot`**:
    for every field descriptor, every raw slot value, both flags and every running total, one
    iteration of the field loop adds exactly `lenSlot S f hid sel v` and raises exactly when it
    raises.  Same reading and guards as `C06.src_dump_field`. -/
theorem src_len_field (S : Schema) (hS : WfSchemaOpt S) (f : FieldD) (hid sel : Bool) (v : Val) (size : Int)
    (hok : SrcTieDump.dynOk f v = true) :
    Src.len_field S (dumpVal S) f (Py.getattrField S f hid v) sel size
      = Py.ofR ((lenSlot S f hid sel v).map fun (n : Nat) => size + (n : Int)) :=
  SrcTieDump.len_field_eq S hS f hid sel v size hok

/-- **the two hand-duplicated loop bodies as written agree**: on every field, every value and
    both flags, the iteration of `__len__` adds to `size` exactly the number of bytes the
    iteration of `dump` appends to the stream, and raises the same exception when that raises
    (through the model theorem `field_len_eq`) -/
theorem src_field_len_agrees (S : Schema) (hS : WfSchemaOpt S) (f : FieldD) (hid sel : Bool) (v : Val)
    (stream : Bytes) (size : Int) (hok : SrcTieDump.dynOk f v = true) :
    Src.len_field S (dumpVal S) f (Py.getattrField S f hid v) sel size =
      (Src.dump_field S (dumpVal S) f (Py.getattrField S f hid v) sel stream).bind fun out =>
        .ok (size + ((out.length - stream.length : Nat) : Int)) := by
  rw [src_len_field S hS f hid sel v size hok, SrcTieDump.dump_field_eq S hS f hid sel v stream hok, field_len_eq]
  cases dumpSlot S f hid sel v with
  | error e => rfl
  | ok b =>
    simp only [SrcTieDump.appR_ok, SrcTieDump.res_bind_ok, map_ok, SrcTieDump.ofR_ok, List.length_append]
    congr 2; omega

/-! non-vacuity: the repaired D01 witness on the translated loop bodies — an optional string set
    to "" is written as two bytes and counted as two -/
def fOptStr : FieldD := { name := "s", num := 1, ty := .string, optional := true }
example : Src.dump_field [] (dumpVal []) fOptStr (Py.getattrField [] fOptStr false (.str [])) false [] = .ok [10, 0] := by decide
example : Src.len_field [] (dumpVal []) fOptStr (Py.getattrField [] fOptStr false (.str [])) false 5 = .ok 7 := by decide

end Bp.C09
