import BpProofs.SrcTieMsg
import BpProofs.SrcTie
import BpProofs.Props.C09
/-
  C09, tied to the SOURCE, whole methods: `Message.__bytes__`, `Message.__len__` and
  `Message.dump(stream, SIZE_DELIMITED)` as written — the parts around the field loops (the
  `delimit == SIZE_DELIMITED` prefix, the loop over `meta_by_field_name.items()` with its `getattr` /
  `except AttributeError: continue`, `_include_default_value_for_oneof`, the unknown fields, the
  `BytesIO`) are translated from the Python AST of the working tree on every run
  (harness/extract_srcmsg.py → BpProofs/Gen/SrcMsg.lean); the loops call the translated loop bodies
  of C09Src.lean; `bytes(<nested Message>)` inside the intrinsics is the translated `__bytes__`
  itself (`Src.value_bytes`, nesting budget `depth`).

  Guards (BpProofs/SrcTieMsg.lean): `msgDynOk S m` (decidable: one raw slot per field and the guard
  `dynOk` of the loop-body tie at every nesting level; implied by the typing judgement,
  `msgDynOk_of_typed`), `WfSchemaOpt S`, `depthOf m < depth`, and fuel for the `while` loop of
  `dump_varint` where a varint is written.
-/
namespace Bp.C09
open Bp Bp.Py Bp.SrcTieMsg

/-- **`bytes(m)` as written is the model's `dumpVal`** (the function every C01 / C02 / C06 / C07 / C08 /
    C09 theorem about the encoder is stated of), for every schema and every guarded value; it raises
    exactly when the model raises, with the same exception -/
theorem src_bytes (S : Schema) (hS : WfSchemaOpt S) (fuel depth : Nat) (m : Val)
    (hg : msgDynOk S m = true) (hd : depthOf m < depth) :
    Src.value_bytes fuel S depth m = Py.ofR (dumpVal S m) :=
  value_bytes_eq S hS fuel depth m hg hd

/-- **`len(m)` as written is the model's `lenVal`** -/
theorem src_len (S : Schema) (hS : WfSchemaOpt S) (fuel depth : Nat) (m : Val)
    (hg : msgDynOk S m = true) (hd : depthOf m < depth) :
    Src.value_len fuel S depth m = Py.ofR ((lenVal S m).map fun (n : Nat) => (n : Int)) :=
  value_len_eq S hS fuel depth m hg (by omega)

/-- **`m.dump(stream)` as written appends `bytes(m)`** to whatever the stream holds -/
theorem src_dump (S : Schema) (hS : WfSchemaOpt S) (fuel depth : Nat) (m : Val) (stream : Bytes)
    (hg : msgDynOk S m = true) (hd : depthOf m < depth) :
    Src.value_dump fuel S depth m stream 0 = Py.ofR ((dumpVal S m).map fun b => stream ++ b) :=
  value_dump_eq S hS fuel depth m stream hg (by omega)

/-- **`m.dump(stream, SIZE_DELIMITED)` as written appends the model's `dumpDelimited`** -/
theorem src_dump_delimited (S : Schema) (hS : WfSchemaOpt S) (fuel depth : Nat) (m : Val) (stream : Bytes)
    (hg : msgDynOk S m = true) (hd : depthOf m < depth)
    (hf : ∀ bs, dumpVal S m = .ok bs → bs.length + 2 ^ 64 < fuel) :
    Src.value_dump fuel S depth m stream (-1) = Py.ofR ((dumpDelimited S m).map fun b => stream ++ b) :=
  value_dump_delimited_eq S hS fuel depth m stream hg (by omega) hf

/-- **C09 of the SOURCE FUNCTIONS ONLY, first half: `len(m)` as written equals `len(bytes(m))` as
    written** — whenever `bytes(m)` as written returns, `len(m)` as written returns the number of
    bytes it returned; when it raises, `len(m)` raises the same exception (through the model theorem
    `len_eq`) -/
theorem src_len_is_len_of_bytes (S : Schema) (hS : WfSchemaOpt S) (fuel depth : Nat) (m : Val)
    (hg : msgDynOk S m = true) (hd : depthOf m < depth) :
    Src.value_len fuel S depth m =
      (Src.value_bytes fuel S depth m).bind fun bs => .ok ((bs.length : Nat) : Int) := by
  rw [src_len S hS fuel depth m hg hd, src_bytes S hS fuel depth m hg hd, len_eq]
  cases dumpVal S m <;> rfl

/-- **… second half: `m.dump(stream, SIZE_DELIMITED)` as written writes the varint (as
    `encode_varint` as written produces it) of that length, followed by `bytes(m)` as written** — and
    raises what `bytes(m)` raises when that raises (through the model theorem `dump_delimited`) -/
theorem src_dump_delimited_is_prefixed_bytes (S : Schema) (hS : WfSchemaOpt S) (fuel depth : Nat) (m : Val) (stream : Bytes)
    (hg : msgDynOk S m = true) (hd : depthOf m < depth)
    (hfs : ∀ bs, Src.value_bytes fuel S depth m = .ok bs → bs.length + 2 ^ 64 < fuel) :
    Src.value_dump fuel S depth m stream (-1) =
      (Src.value_bytes fuel S depth m).bind fun bs =>
        (Src.encode_varint fuel ((bs.length : Nat) : Int)).bind fun pre => .ok (stream ++ (pre ++ bs)) := by
  have hf : ∀ bs, dumpVal S m = .ok bs → bs.length + 2 ^ 64 < fuel := by
    intro bs hbs; apply hfs; rw [src_bytes S hS fuel depth m hg hd, hbs]; rfl
  rw [src_dump_delimited S hS fuel depth m stream hg hd hf, src_bytes S hS fuel depth m hg hd]
  cases hb : dumpVal S m with
  | error e => rw [dump_delimited_error S m e hb]; rfl
  | ok bs =>
    have hfuel := hf bs hb
    rw [dump_delimited S m bs hb]
    simp only [SrcTieDump.ofR_ok, SrcTieDump.res_bind_ok]
    rw [SrcTie.encode_varint_eq _ fuel (by simpa using hfuel), dumpVarint_nat]
    rfl

/-- `SerializeToString()`, `__getstate__()` and the argument `__reduce__()` hands to `FromString`
    are, as written, `bytes(self)` -/
theorem src_aliases (fuel : Nat) (S : Schema) (k : Nat) (m : Val) :
    Src.value_serialize_to_string fuel S k m = Src.value_bytes fuel S (k + 1) m
    ∧ Src.value_getstate fuel S k m = Src.value_bytes fuel S (k + 1) m
    ∧ Src.value_reduce fuel S k m = Src.value_bytes fuel S (k + 1) m :=
  value_serialize_eq fuel S k m

/-! non-vacuity: the repaired D01 witness on the translated whole methods — an optional string set
    to "" is two bytes, `len` says two, the delimited form is `02 0a 00`; and a nested message -/
example : Src.value_bytes 0 wS 2 (.msg 0 [.str []] true [] []) = .ok [10, 0] := by decide
example : Src.value_len 0 wS 2 (.msg 0 [.str []] true [] []) = .ok 2 := by decide
def wN : Schema := [{ fields := [{ name := "i", num := 1, ty := .int32 }] },
                    { fields := [{ name := "sub", num := 2, ty := .message, kind := .user 0 }] }]
def mN : Val := .msg 1 [.msg 0 [.int 5] true [] []] true [] []
example : msgDynOk wN mN = true ∧ depthOf mN = 2 := by decide
example : Src.value_bytes 0 wN 3 mN = .ok [18, 2, 8, 5] := by decide
example : dumpVal wN mN = .ok [18, 2, 8, 5] := by decide

end Bp.C09
