import BpModel.All
import BpProofs.Load
import BpProofs.Props.C09
/-
  C10 — delimited streams read back intact; truncation never yields a partial message.
  (Model of `dump(stream, SIZE_DELIMITED)` / `load(stream, SIZE_DELIMITED)` after the
  D01 and D12 repairs: the reader takes exactly the announced number of bytes.)
-/
namespace Bp.C10
open Bp Gen

/-- one frame on the wire: canonical varint of the body length, then the body -/
def frameOf (body : Bytes) : Bytes := encNat body.length ++ body

/-- the writer emits exactly `frameOf bytes(m)` -/
theorem writer_frame (S : Schema) (m : Val) (body : Bytes) (h : dumpVal S m = .ok body) :
    dumpDelimited S m = .ok (frameOf body) := C09.dump_delimited S m body h

/-- **each load consumes exactly its own message**: from a stream that starts with one
    frame, the reader parses precisely the body (as `parse` would) and leaves precisely
    what follows — whatever the body contains (empty bodies, unknown fields, another
    message type) and whatever follows -/
theorem reader_frame (S : Schema) (m0 : Val) (body rest : Bytes) (hlen : body.length < 2 ^ 64) :
    loadDelimited S m0 (frameOf body ++ rest)
      = (parseInto S m0 body).bind fun v => .ok (v, rest) := by
  unfold loadDelimited frameOf
  rw [List.append_assoc, loadVarint_encNat body.length (body ++ rest) hlen]
  simp only []
  rw [List.drop_left]
  have h1 : ¬ (body ++ rest).length < body.length := by simp
  simp only [h1, if_false, List.take_left, List.drop_left]

/-- an empty message is a one-byte frame and does not swallow its successor (D12 witness) -/
theorem empty_frame (S : Schema) (m0 : Val) (rest : Bytes) :
    loadDelimited S m0 (frameOf [] ++ rest) = (parseInto S m0 []).bind fun v => .ok (v, rest) :=
  reader_frame S m0 [] rest (by decide)

/-- streams: writing a list of bodies and reading them back with successive loads -/
def frameAll : List Bytes → Bytes
  | [] => []
  | b :: bs => frameOf b ++ frameAll bs

def loadMany (S : Schema) : List Val → Bytes → R (List Val × Bytes)
  | [], bs => .ok ([], bs)
  | m0 :: ms, bs =>
    (loadDelimited S m0 bs).bind fun (v, rest) =>
      (loadMany S ms rest).bind fun (vs, rest') => .ok (v :: vs, rest')

def parseAll (S : Schema) : List Val → List Bytes → R (List Val)
  | m0 :: ms, b :: bs => (parseInto S m0 b).bind fun v => (parseAll S ms bs).bind fun vs => .ok (v :: vs)
  | _, _ => .ok []

/-- **any sequence of messages written with SIZE_DELIMITED is read back by successive
    loads as the sequence of their individual decodings**, consuming exactly the frames
    and leaving the rest of the stream untouched (receivers may be of different types:
    `m0s` is arbitrary) -/
theorem stream_roundtrip (S : Schema) (m0s : List Val) (bodies : List Bytes) (rest : Bytes)
    (hl : m0s.length = bodies.length) (hlen : ∀ b ∈ bodies, b.length < 2 ^ 64) :
    loadMany S m0s (frameAll bodies ++ rest) = (parseAll S m0s bodies).bind fun vs => .ok (vs, rest) := by
  induction m0s generalizing bodies with
  | nil =>
    cases bodies with
    | nil => rfl
    | cons b bs => simp at hl
  | cons m0 ms ih =>
    cases bodies with
    | nil => simp at hl
    | cons b bs =>
      simp only [frameAll, loadMany, parseAll, List.append_assoc]
      rw [reader_frame S m0 b _ (hlen b (by simp))]
      cases parseInto S m0 b with
      | error e => rfl
      | ok v =>
        simp only [bind_ok]
        rw [ih bs (by simpa using hl) (fun x hx => hlen x (by simp [hx]))]
        cases parseAll S ms bs <;> rfl

/-- **a stream cut inside a frame never yields a message**: every proper prefix of a
    frame makes the load raise (cut in the length prefix: EOFError; cut in the body:
    ValueError) -/
theorem cut_frame_rejected (S : Schema) (m0 : Val) (body : Bytes) (hlen : body.length < 2 ^ 64) (n : Nat)
    (hn : n < (frameOf body).length) :
    ∃ e, loadDelimited S m0 ((frameOf body).take n) = .error e := by
  unfold loadDelimited frameOf at *
  have hv := loadVarint_encNat body.length body hlen
  by_cases hp : n < (encNat body.length).length
  · -- inside the prefix
    rw [loadVarint_trunc _ _ _ n hv hp]
    exact ⟨_, rfl⟩
  · have e : (encNat body.length ++ body).take n
        = (encNat body.length ++ body).take (encNat body.length).length ++ body.take (n - (encNat body.length).length) := by
      rw [List.take_append, List.take_append]
      simp
      rw [List.take_of_length_le (by omega)]
    rw [e, loadVarint_prefix _ _ _ hv]
    simp only []
    rw [List.take_left, List.drop_left]
    have : (body.take (n - (encNat body.length).length)).length < body.length := by
      simp only [List.length_append] at hn
      simp [List.length_take]; omega
    rw [if_pos this]
    exact ⟨_, rfl⟩

/-- … and a stream cut after `j` whole frames yields exactly the first `j` loads of the
    uncut stream (then the next load raises by `cut_frame_rejected` or hits end of input) -/
theorem cut_between_frames (S : Schema) (m0 : Val) (body tail : Bytes) (hlen : body.length < 2 ^ 64) (n : Nat)
    (hn : (frameOf body).length ≤ n) :
    loadDelimited S m0 ((frameOf body ++ tail).take n)
      = (parseInto S m0 body).bind fun v => .ok (v, tail.take (n - (frameOf body).length)) := by
  rw [List.take_append, List.take_of_length_le hn]
  exact reader_frame S m0 body _ hlen

/-! non-vacuity: two frames, the first one empty -/
def S1 : Schema := [{ fields := [{ name := "i", num := 2, ty := .int32 }] }]
example : frameAll [[], [0x10, 0x05]] = [0, 2, 0x10, 0x05] := by decide
example : (loadMany S1 [fresh S1 0, fresh S1 0] [0, 2, 0x10, 0x05, 0xff]).map (·.2) = .ok [0xff] := by decide

end Bp.C10
