import BpProofs.SrcTieMsgLoad
import BpProofs.Props.C09SrcMsg
import BpProofs.Props.C10
/-
  C10, tied to the SOURCE: `Message.load(stream, SIZE_DELIMITED)` and `Message.dump(stream,
  SIZE_DELIMITED)` as written.  The outer part of `load` — the `size == SIZE_DELIMITED` /
  `size is not None` prefix with `load_varint`, `stream.read(size)`, the length check and the rebinding
  of `stream`, `self._serialized_on_wire = True`, the loop over `load_fields(stream)`, `return self` —
  is translated from the Python AST of the working tree on every run (harness/extract_srcmsg.py →
  BpProofs/Gen/SrcMsg.lean); the record loop calls the translated loop body `Src.load_record`;
  `<Cls>().parse(<bytes>)` inside `_postprocess_single` is the translated `parse` itself
  (`Src.class_parse`, nesting budget `depth`).

  Guards: `WfBytes bs` (the input consists of bytes), `bs.length + 12 ≤ fuel` (fuel for the `while`
  loops of the codec primitives); on the writer side those of C09SrcMsg.lean.
-/
namespace Bp.C10
open Bp Bp.Py Bp.SrcTieMsg

/-- **`parse` as written with the recursive knot tied is the model's `loadInto`, at every nesting
    budget** (`Msg.toR`: an exhausted budget is AssertionError, as in the model) -/
theorem src_class_parse (fuel : Nat) (S : Schema) (depth : Nat) (d : MsgD) (st : MState) (bs : Bytes)
    (hw : WfBytes bs) (hf : bs.length + 12 ≤ fuel) :
    Msg.toR (Src.class_parse fuel S depth d st bs) = loadInto S depth d st bs :=
  class_parse_eq fuel S depth d st bs hw hf

/-- **`m.load(stream, SIZE_DELIMITED)` as written is the model's `loadDelimited`** (the function the
    C10 theorems are stated of) on every stream that holds a complete frame: the result and the
    unread rest of the stream (`depth` = the announced size: the nesting budget `parseInto` uses) -/
theorem src_load_delimited (fuel : Nat) (S : Schema) (c : Nat) (d : MsgD) (hc : S[c]? = some d)
    (sl : List Val) (ow : Bool) (unk : Bytes) (cur : List (Option Nat)) (bs : Bytes)
    (hw : WfBytes bs) (hf : bs.length + 12 ≤ fuel)
    (size k : Nat) (hv : loadVarint bs = .ok (size, k)) (hlen : size ≤ (bs.drop k).length) :
    Src.value_load fuel S size (.msg c sl ow unk cur) bs (some (-1))
      = Py.ofR (loadDelimited S (.msg c sl ow unk cur) bs) := by
  rw [value_load_delimited_at fuel S size c d hc sl ow unk cur bs hw hf, loadDelimitedAt_frame S _ bs size k hv hlen]

/-- … and on a stream whose frame is cut short (or whose length prefix cannot be read) it raises what
    the model raises, at every nesting budget: ValueError / EOFError, never a partial message -/
theorem src_load_delimited_short (fuel : Nat) (S : Schema) (depth c : Nat) (d : MsgD) (hc : S[c]? = some d)
    (sl : List Val) (ow : Bool) (unk : Bytes) (cur : List (Option Nat)) (bs : Bytes)
    (hw : WfBytes bs) (hf : bs.length + 12 ≤ fuel)
    (hshort : ∀ size k, loadVarint bs = .ok (size, k) → (bs.drop k).length < size) :
    Src.value_load fuel S depth (.msg c sl ow unk cur) bs (some (-1))
      = Py.ofR (loadDelimited S (.msg c sl ow unk cur) bs) := by
  rw [value_load_delimited_at fuel S depth c d hc sl ow unk cur bs hw hf, loadDelimitedAt_short S _ bs _ hshort]

/-- **a delimited frame written by the source as written is read back by the source as written,
    consuming exactly its own bytes** (SOURCE FUNCTIONS ONLY): if `m.dump(stream, SIZE_DELIMITED)` as
    written, on an empty stream, produced `out`, then `bytes(m)` as written returns some `body`, and
    `m0.load(…, SIZE_DELIMITED)` as written on `out` followed by ANY `rest` returns what `m0.parse(body)`
    as written returns and leaves exactly `rest` unread — for every receiver `m0` of a class of the
    schema (through `C09.dump_delimited` and `reader_frame`) -/
theorem src_frame_roundtrip (S : Schema) (hS : WfSchemaOpt S) (fuel depth : Nat) (m : Val)
    (hg : msgDynOk S m = true) (hd : depthOf m < depth)
    (c : Nat) (d : MsgD) (hc : S[c]? = some d) (sl : List Val) (ow : Bool) (unk : Bytes) (cur : List (Option Nat))
    (out rest : Bytes) (hdump : Src.value_dump fuel S depth m [] (-1) = .ok out)
    (hw : WfBytes (out ++ rest)) (hbl : out.length < 2 ^ 64) (hf : (out ++ rest).length + 12 ≤ fuel)
    (hfs : ∀ bs, Src.value_bytes fuel S depth m = .ok bs → bs.length + 2 ^ 64 < fuel) :
    ∃ body, Src.value_bytes fuel S depth m = .ok body ∧
      Src.value_load fuel S body.length (.msg c sl ow unk cur) (out ++ rest) (some (-1))
        = (Src.value_parse fuel S body.length (.msg c sl ow unk cur) body).bind fun v => .ok (v, rest) := by
  have hb := C09.src_bytes S hS fuel depth m hg hd
  have hfd : ∀ bs, dumpVal S m = .ok bs → bs.length + 2 ^ 64 < fuel := by
    intro bs hbs; apply hfs; rw [hb, hbs]; rfl
  have hdd := C09.src_dump_delimited S hS fuel depth m [] hg hd hfd
  rw [hdump] at hdd
  cases hbody : dumpVal S m with
  | error e => rw [C09.dump_delimited_error S m e hbody] at hdd; cases hdd
  | ok body =>
    rw [C09.dump_delimited S m body hbody] at hdd
    have hout : out = encNat body.length ++ body := by
      simp only [map_ok, SrcTieDump.ofR_ok, List.nil_append] at hdd
      injection hdd
    subst hout
    refine ⟨body, by rw [hb, hbody]; rfl, ?_⟩
    have hlen : body.length < 2 ^ 64 := by
      simp only [List.length_append] at hbl; omega
    have hv : loadVarint ((encNat body.length ++ body) ++ rest) = .ok (body.length, (encNat body.length).length) := by
      rw [List.append_assoc]; exact loadVarint_encNat body.length (body ++ rest) hlen
    have hle : body.length ≤ (((encNat body.length ++ body) ++ rest).drop (encNat body.length).length).length := by
      rw [List.append_assoc, List.drop_left]; simp
    rw [src_load_delimited fuel S c d hc sl ow unk cur _ hw hf body.length _ hv hle]
    have hwb : WfBytes body := fun b hbm => hw b (by simp [hbm])
    have hfb : body.length + 12 ≤ fuel := by
      simp only [List.length_append] at hf; omega
    rw [value_parse_eq fuel S _ body hwb hfb]
    have := reader_frame S (.msg c sl ow unk cur) body rest hlen
    unfold frameOf at this
    rw [this]
    cases parseInto S (.msg c sl ow unk cur) body <;> rfl

end Bp.C10
