import BpModel.Grpc
import BpModel.Gen.StubTable
import BpProofs.Grpc
/-
  C11 — the generated gRPC stub and the generated server base agree.

  Proved here: (1) for the probe service rendered through the *real* template by the
  plugin of the working tree under all six option sets (`Gen/StubTable.lean`, regenerated
  and re-checked on every run): the helper the stub method calls, the Cardinality that
  helper passes to the channel, the Cardinality in `__mapping__`, the way `__rpc_*` reads
  the request and delivers the response, the request/reply classes and the python names
  all agree with each other and with the streaming flags of the descriptor; the default
  body of every base method raises UNIMPLEMENTED; (2) for ALL package / service / method
  names: stub and base use the same route string and distinct RPCs have distinct routes
  (so the server's route table has exactly one handler per RPC); (3) for all values:
  per-call timeout / deadline / metadata win over the stub-level defaults.

  NOT proved (partial, DESIGN.md §10): that grpclib's transport delivers each message
  once, in order, and carries the status back — observed end to end by harness/props/c11.py.
-/
namespace Bp.C11
open Bp.Grpc Bp.Gen

def lookup3 (h : String) : Option (String × Bool) := (helperCardinality.find? (·.1 == h)).map (·.2)

/-- what one row of the table must satisfy for the two halves of the template to agree -/
def rowAgrees (r : StubRow) : Bool :=
  r.ok
  -- the stub's branch and the client helper it selects
  && r.stubHelper == helperOf r.clientStreaming r.serverStreaming
  -- the Cardinality that helper passes to channel.request = the one in __mapping__ = the flags
  && lookup3 r.stubHelper == some (r.mapCard, true)
  && r.mapCard == mappingCardOf r.clientStreaming r.serverStreaming
  && r.mapCard == cardName (cardOf r.clientStreaming r.serverStreaming)
  -- adapter shapes: how __rpc_* reads the request(s) and delivers the response(s)
  && r.rpcRecv == recvOf r.clientStreaming
  && r.rpcSend == sendOf r.serverStreaming
  -- caller side shape: request iterator parameter iff client streaming, async generator iff server streaming
  && r.stubIterParam == r.clientStreaming && r.baseIterParam == r.clientStreaming
  && r.stubYields == r.serverStreaming && r.baseYields == r.serverStreaming
  -- request / reply classes
  && r.stubRespType == r.mapRespType
  && r.stubReqType == (if r.clientStreaming then r.mapReqType else "")

/-- **"for all four streaming cardinalities" the call reaches a handler of the same
    cardinality with the same request/reply types** — `decide` over the regenerated table:
    6 option sets × 4 flag combinations. -/
theorem stub_base_agree : stubTable.all rowAgrees = true ∧ stubTable.length = 24 := by
  constructor <;> decide

/-- all four flag combinations occur under every option set (the table is not vacuous) -/
theorem table_covers_all_cardinalities :
    stubOptionSets.all (fun o => [(false, false), (false, true), (true, false), (true, true)].all (fun (cs, ss) =>
      stubTable.any (fun r => r.opt == o && r.clientStreaming == cs && r.serverStreaming == ss))) = true := by
  decide

/-- **"invokes exactly the handler for the same RPC"**, table part: the route literal in
    the stub call, the key in `__mapping__` and the model's `route` of the proto names are
    one string, and the mapping entry is bound to the `__rpc_*` adapter of the same method,
    which calls the handler of the same method -/
theorem route_agree :
    stubTable.all (fun r => r.stubRoute == r.mapRoute
      && r.mapRoute == String.ofList (route probePackage.toList probeService.toList r.proto.toList)
      && r.mapRpc == r.rpcName && r.rpcCalls == r.baseName) = true := by
  decide

/-- python-name agreement: the stub method, the base method, the adapter and the mapping
    entry carry the same python name, which is `pythonize_method_name` of the proto name
    as computed by the working tree -/
theorem pyname_agree :
    stubTable.all (fun r => r.stubName == r.baseName && r.rpcName == r.baseName
      && probePyNames.lookup r.proto == some r.stubName) = true := by
  decide

/-- **distinct RPCs have distinct routes, for all names**: the route determines package,
    service and method, whenever the service names contain neither `.` nor `/` and the
    packages no `/` (protobuf identifiers never do; the method name is unrestricted).
    Hence a route table built from any set of services has exactly one entry per RPC. -/
theorem routes_injective (pkg svc m pkg' svc' m' : Str)
    (hp : '/' ∉ pkg) (hp' : '/' ∉ pkg') (hs : '/' ∉ svc ∧ '.' ∉ svc) (hs' : '/' ∉ svc' ∧ '.' ∉ svc')
    (h : route pkg svc m = route pkg' svc' m') : pkg = pkg' ∧ svc = svc' ∧ m = m' := by
  unfold route at h
  simp only [List.cons.injEq, true_and] at h
  have nslash : ∀ p s : Str, '/' ∉ p → '/' ∉ s → '/' ∉ packagePart p ++ s := by
    intro p s h1 h2 hm
    rcases List.mem_append.mp hm with hm | hm
    · unfold packagePart at hm
      split at hm
      · cases hm
      · rcases List.mem_append.mp hm with hm | hm
        · exact h1 hm
        · simp at hm
    · exact h2 hm
  obtain ⟨e1, e2⟩ := split_first '/' _ _ m m' (nslash pkg svc hp hs.1) (nslash pkg' svc' hp' hs'.1) h
  obtain ⟨e3, e4⟩ := split_package pkg pkg' svc svc' hs.2 hs'.2 e1
  exact ⟨e3, e4, e2⟩

/-- contrapositive, as the property states it -/
theorem distinct_rpcs_distinct_routes (pkg svc m pkg' svc' m' : Str)
    (hp : '/' ∉ pkg) (hp' : '/' ∉ pkg') (hs : '/' ∉ svc ∧ '.' ∉ svc) (hs' : '/' ∉ svc' ∧ '.' ∉ svc')
    (hne : (pkg, svc, m) ≠ (pkg', svc', m')) : route pkg svc m ≠ route pkg' svc' m' := by
  intro h
  obtain ⟨a, b, c⟩ := routes_injective pkg svc m pkg' svc' m' hp hp' hs hs' h
  exact hne (by rw [a, b, c])

/-- the guard is needed: a dotted "service name" collides with a longer package -/
example : route "a".toList "b.C".toList "M".toList = route "a.b".toList "C".toList "M".toList := by decide

/-- non-vacuity: the route of the probe's first method -/
example : route "probe.v1".toList "ProbeSvc".toList "UnaryUnary".toList = "/probe.v1.ProbeSvc/UnaryUnary".toList := by
  decide

/-- **per-call timeout / deadline / metadata take precedence over the stub-level
    defaults**, for every combination of None / set on both levels and all values -/
theorem kw_precedence {α : Type} (stub call : Kw α) :
    (resolveKw stub call).timeout = (if call.timeout.isSome then call.timeout else stub.timeout)
    ∧ (resolveKw stub call).deadline = (if call.deadline.isSome then call.deadline else stub.deadline)
    ∧ (resolveKw stub call).metadata = (if call.metadata.isSome then call.metadata else stub.metadata) := by
  refine ⟨?_, ?_, ?_⟩
  · cases h : call.timeout <;> simp [resolveKw, resolve, h]
  · cases h : call.deadline <;> simp [resolveKw, resolve, h]
  · cases h : call.metadata <;> simp [resolveKw, resolve, h]

/-- … spelled out: a per-call value is what is sent; without one the stub default is sent;
    the three keywords do not influence each other -/
theorem kw_call_wins {α : Type} (d : Option α) (v : α) : resolve d (some v) = some v := rfl
theorem kw_default_used {α : Type} (d : Option α) : resolve d (none : Option α) = d := rfl

/-- every helper forwards exactly the resolved keywords to `channel.request` (table part) -/
theorem helpers_forward_resolved_kwargs :
    helperCardinality.all (fun (_, _, kw) => kw) = true ∧ helperCardinality.length = 4 := by
  constructor <;> decide

/-- the source of `__resolve_request_kwargs` has, for each of the three keywords, exactly
    the shape `self.k if k is None else k` that `resolve` models (read with `ast` on every run) -/
theorem resolve_source_shape :
    resolveShape = [("timeout", true), ("deadline", true), ("metadata", true)] := by
  decide

/-- **"a method not overridden answers UNIMPLEMENTED"**, static part: under every option
    set the default body of every base method raises
    `grpclib.GRPCError(grpclib.const.Status.UNIMPLEMENTED)` as its first statement, and is
    an async generator exactly when the RPC is server streaming (so the adapter can
    iterate it) -/
theorem unimplemented_default :
    stubTable.all (fun r => r.baseUnimplemented && r.baseYields == r.serverStreaming) = true := by
  decide

end Bp.C11
