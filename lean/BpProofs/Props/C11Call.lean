import BpModel.GrpcCall
import BpModel.Gen.StubTable
import BpProofs.GrpcCall
import BpProofs.Props.C11
/-
  C11, the central sentence — "a call made through the generated client stub … invokes exactly the handler …, once,
  with a request (or request stream) equal to what the caller sent, and the caller receives the handler's response
  (or response stream) equal and in order, for all four streaming cardinalities.  A method not overridden answers
  UNIMPLEMENTED, a handler's GRPCError status reaches the caller" — about the MODEL of the call protocol
  (BpModel/GrpcCall.lean): the four helpers of `ServiceStub` as lists of stream operations, the generated `__rpc_*`
  adapters and `_call_rpc_handler_server_stream` compiled with the handler (an arbitrary interaction tree) into the
  server task, one grpclib stream as two FIFOs + status.  `call card h reqs` is the run under the canonical schedule;
  Props/C11Sched.lean: every schedule ends the same way (with one exception, a genuine race of the code).

  The specification side is `hFeed`: the handler's body run ON ITS OWN against the request list.  The theorems say
  that helper + transport + adapter add nothing and lose nothing: what the handler is given, what the caller gets.

  Assumed, not proved: the model of grpclib's stream (head of BpModel/GrpcCall.lean); tied to the source:
  Props/C11Src.lean.
-/
namespace Bp.C11
open Bp.Grpc Bp.GrpcCall Bp.Gen

variable {Req Resp : Type}

/-- the caller's argument fits the stub method's signature: one message for a unary request -/
def reqsFit (card : Card) (reqs : List Req) : Bool := csOf card || reqs.length == 1

/-- the handler's body run on its own: on the request iterator over `reqs` (client streaming), on the one message -/
def handlerRun (card : Card) (h : Handler Req Resp) (reqs : List Req) : HOut Req Resp :=
  if csOf card then hFeed true (h.body none) reqs else hFeed false (h.body reqs.head?) []

/-- **the sentence, for every cardinality, every request list, every handler** (of the kind the Base class
    declares: an async generator exactly for a server-streaming RPC).  The handler's body is started exactly ONCE;
    it is given exactly the sent message (unary request) / the answers `hFeed` computes from the sent list (request
    stream: `handler_given_is_sent_prefix`); the server task finishes; the caller's `async for` receives exactly
    the handler's yields in order (server streaming; nothing for a unary response) and the call ends with the
    handler's return value (unary response), with the end of the iteration (response stream), or with the handler's
    GRPCError -/
theorem call_delivers (card : Card) (h : Handler Req Resp) (reqs : List Req)
    (hk : h.isGen = ssOf card) (hr : reqsFit card reqs = true) :
    call card h reqs =
      { calls := 1,
        hIn := if csOf card then (handlerRun card h reqs).given else [reqs.head?],
        served := true,
        yielded := if ssOf card then (handlerRun card h reqs).yields else [],
        result := if ssOf card then genResult (handlerRun card h reqs).fin
                  else coroResult (handlerRun card h reqs).fin } := by
  cases card with
  | unaryUnary =>
    obtain ⟨r, rfl⟩ : ∃ r, reqs = [r] := by
      match reqs, hr with
      | [r], _ => exact ⟨r, rfl⟩
    simpa [handlerRun, csOf, ssOf] using call_unaryUnary h hk r
  | unaryStream =>
    obtain ⟨r, rfl⟩ : ∃ r, reqs = [r] := by
      match reqs, hr with
      | [r], _ => exact ⟨r, rfl⟩
    simpa [handlerRun, csOf, ssOf] using call_unaryStream h hk r
  | streamUnary => simpa [handlerRun, csOf, ssOf] using call_streamUnary h hk reqs
  | streamStream => simpa [handlerRun, csOf, ssOf] using call_streamStream h hk reqs

/-- **"the handler is invoked exactly once"** -/
theorem handler_invoked_once (card : Card) (h : Handler Req Resp) (reqs : List Req)
    (hk : h.isGen = ssOf card) (hr : reqsFit card reqs = true) : (call card h reqs).calls = 1 := by
  rw [call_delivers card h reqs hk hr]

/-- **"with a request equal to what the caller sent"**, unary request: the handler is given that message -/
theorem handler_given_unary (card : Card) (h : Handler Req Resp) (r : Req) (hc : csOf card = false)
    (hk : h.isGen = ssOf card) : (call card h [r]).hIn = [some r] := by
  rw [call_delivers card h [r] hk (by simp [reqsFit])]; simp [hc]

/-- **"with a request stream equal to what the caller sent"**: the successive pulls of the request iterator are
    answered with the sent messages in order without loss or duplication (`taken ++ unread = reqs`), the end of
    the stream is reported only after the last sent message, and then at every further pull -/
theorem handler_given_is_sent_prefix (card : Card) (h : Handler Req Resp) (reqs : List Req) (hc : csOf card = true)
    (hk : h.isGen = ssOf card) :
    ∃ unread : List Req,
      (call card h reqs).hIn.filterMap id ++ unread = reqs
      ∧ (call card h reqs).hIn =
          ((call card h reqs).hIn.filterMap id).map some
            ++ List.replicate ((call card h reqs).hIn.countP Option.isNone) none
      ∧ ((call card h reqs).hIn.any Option.isNone = true → unread = []) := by
  rw [call_delivers card h reqs hk (by simp [reqsFit, hc])]
  simp only [hc, if_true, handlerRun]
  exact ⟨_, hFeed_given (h.body none) reqs⟩

/-- … so a handler that reads its request stream to the end has been given exactly the sent list -/
theorem handler_given_all (card : Card) (h : Handler Req Resp) (reqs : List Req) (hc : csOf card = true)
    (hk : h.isGen = ssOf card) (hend : (call card h reqs).hIn.any Option.isNone = true) :
    (call card h reqs).hIn.filterMap id = reqs := by
  obtain ⟨u, h1, _, h3⟩ := handler_given_is_sent_prefix card h reqs hc hk
  rw [h3 hend, List.append_nil] at h1; exact h1

/-- **"the caller receives the handler's response stream equal and in order"** -/
theorem caller_gets_yields (card : Card) (h : Handler Req Resp) (reqs : List Req) (hs : ssOf card = true)
    (hk : h.isGen = ssOf card) (hr : reqsFit card reqs = true) :
    (call card h reqs).yielded = (handlerRun card h reqs).yields := by
  rw [call_delivers card h reqs hk hr]; simp [hs]

/-- **"the caller receives the handler's response"**: the value the handler returns is the value of the call -/
theorem caller_gets_return (card : Card) (h : Handler Req Resp) (reqs : List Req) (x : Resp) (hs : ssOf card = false)
    (hk : h.isGen = ssOf card) (hr : reqsFit card reqs = true)
    (hret : (handlerRun card h reqs).fin = .ret (some x)) :
    (call card h reqs).result = .returned (some x) ∧ (call card h reqs).yielded = [] := by
  rw [call_delivers card h reqs hk hr]; simp [hs, hret, coroResult]

/-- **"a handler's GRPCError status reaches the caller"**, all four cardinalities: the call ends with exactly that
    error — for a response stream after exactly the responses the handler yielded before raising -/
theorem handler_error_reaches_caller (card : Card) (h : Handler Req Resp) (reqs : List Req) (e : GErr)
    (hk : h.isGen = ssOf card) (hr : reqsFit card reqs = true)
    (hraise : (handlerRun card h reqs).fin = .raise e) :
    (call card h reqs).result = .grpcError e
    ∧ (call card h reqs).yielded = (if ssOf card then (handlerRun card h reqs).yields else []) := by
  rw [call_delivers card h reqs hk hr]
  cases hs : ssOf card <;> simp [hraise, coroResult, genResult]

/-- **"a method not overridden answers UNIMPLEMENTED"**: the default body of the Base class, under every
    cardinality, for every request list: the caller gets GRPCError(UNIMPLEMENTED) and no response -/
theorem unimplemented_answers (card : Card) (reqs : List Req) (hr : reqsFit card reqs = true) :
    (call (Resp := Resp) card (unimplementedHandler card) reqs).result = .grpcError unimplementedErr
    ∧ (call (Resp := Resp) card (unimplementedHandler card) reqs).yielded = []
    ∧ unimplementedErr.status = 12 := by
  rw [call_delivers card _ reqs rfl hr]
  cases card <;> simp [unimplementedHandler, handlerRun, csOf, ssOf, hFeed, coroResult, genResult, unimplementedErr]

/-! ### the kind of the handler matters: what the adapters do with the other kind (decided witnesses) -/

/-- WITHOUT the unreachable `yield` a server-streaming handler is a coroutine function:
    `_call_rpc_handler_server_stream` closes the coroutine without running it — its GRPCError does NOT reach the
    caller, who sees an empty stream ending normally (why the template emits `yield` after `raise`; C11-b) -/
theorem coroutine_handler_of_stream_rpc_not_run :
    call (Req := Nat) (Resp := Nat) .unaryStream ⟨false, fun _ => .raise ⟨5, none⟩⟩ [7]
      = ⟨0, [], true, [], .returned none⟩ := by decide

/-- an async generator as the handler of a unary-response RPC: `await` of it fails, the caller sees UNKNOWN -/
theorem generator_handler_of_unary_rpc :
    call (Req := Nat) (Resp := Nat) .unaryUnary ⟨true, fun _ => .yield 1 (.ret none)⟩ [7]
      = ⟨0, [], true, [], .grpcError internalErr⟩ := by decide

/-! ### the stub's helper and the base's adapter are the model's, for the rendered probe service -/

def helperName : Card → String
  | .unaryUnary => "_unary_unary" | .unaryStream => "_unary_stream"
  | .streamUnary => "_stream_unary" | .streamStream => "_stream_stream"
def recvName : RecvShape → String | .recvMessage => "recv_message" | .aiter => "aiter"
def sendName : SendShape → String | .sendMessage => "send_message" | .serverStream => "server_stream"

/-- **the stub helper chosen for (cs, ss) and the `__rpc_*` shape chosen for (cs, ss) are compatible**: under
    every option set, for every RPC of the probe service as rendered by the real template (regenerated table), the
    helper the stub method calls is the one `call` runs for the cardinality of the flags (`helperProg`), the
    Cardinality that helper gives to `channel.request` is the one of `__mapping__` and of the model's program, and
    the adapter reads the request and delivers the response the way `rpcShape` of that cardinality says -/
theorem stub_and_adapter_are_the_models :
    stubTable.all (fun r =>
      let card := cardOf r.clientStreaming r.serverStreaming
      r.stubHelper == helperName card
      && lookup3 r.stubHelper == some (cardName (helperProg (Req := Nat) (α := Unit) card [] ⟨none, none, none⟩ [0]).card, true)
      && r.mapCard == cardName card
      && r.rpcRecv == recvName (rpcShape card).recv
      && r.rpcSend == sendName (rpcShape card).send
      && csOf card == r.clientStreaming && ssOf card == r.serverStreaming
      && r.baseYields == (unimplementedHandler (Req := Nat) (Resp := Nat) card).isGen) = true := by
  decide

/-! ### non-vacuity -/

private def echo2 : HProg Nat Nat :=
  .recv fun a => match a with
    | none => .ret none
    | some x => .yield (x + 100) (.recv fun b => match b with
      | none => .ret none
      | some y => .yield (y + 100) (.recv fun _ => .ret none))

example : call .streamStream ⟨true, fun _ => echo2⟩ [1, 2]
    = ⟨1, [some 1, some 2, none], true, [101, 102], .returned none⟩ := by decide
example : call (Req := Nat) .unaryUnary ⟨false, fun r => .ret (r.map (· + 1))⟩ [41]
    = ⟨1, [some 41], true, [], .returned (some 42)⟩ := by decide
example : call (Req := Nat) (Resp := Nat) .unaryStream ⟨true, fun _ => .yield 1 (.yield 2 (.raise ⟨5, none⟩))⟩ [0]
    = ⟨1, [some 0], true, [1, 2], .grpcError ⟨5, none⟩⟩ := by decide
example : call (Req := Nat) (Resp := Nat) .streamUnary
      ⟨false, fun _ => .recv fun a => .recv fun b => .ret (some (a.getD 0 + b.getD 0))⟩ [3, 4, 5]
    = ⟨1, [some 3, some 4], true, [], .returned (some 7)⟩ := by decide
example : reqsFit .unaryUnary [1] = true ∧ reqsFit .streamStream ([] : List Nat) = true := by decide

end Bp.C11
