import BpProofs.GrpcSched
import BpProofs.Props.C11Call
/-
  C11, call protocol: the result of a call does not depend on how asyncio interleaves the client's main task (the
  helper's coroutine / async generator), the client's sender task (`_send_messages` under `ensure_future`, in
  `_stream_stream`) and the server's handler task.  `run strict σ c`: the schedule `σ` names the task that takes the
  next step (a task that cannot step is skipped); `quiescent`: no task can step.  `call` / `callProg` are the run
  under the canonical schedule (BpModel/GrpcCall.lean: `canon`).

  Proved: (1) from any start of a client program of the shape `good` (sends first, nothing but receive-side
  operations after a `spawn`) all schedules that end quiescent end in the SAME configuration — by the diamond
  property of `step` (BpProofs/GrpcSched.lean) — for the semantics without the check "outgoing stream was ended" of
  `Stream.__aexit__`, and with it for programs without a sender task; (2) with the check and with a sender task
  (`_stream_stream`) the same holds under the guard `drained` — for the generated adapter: the handler pulls its
  request iterator until it is exhausted; (3) without the guard it is FALSE of the code (a decided witness below,
  replayed on the real code by harness/props/c11.py: the caller gets `ProtocolError('Outgoing stream was not ended')`
  after the responses when the handler returns while the request iterator still has something to send).
-/
namespace Bp.C11
open Bp.Grpc Bp.GrpcCall

variable {Req Resp α : Type}

/-! ## programs of the four helpers have the shape the uniqueness theorem needs -/

theorem good_sends (ms : List Req) (tail : List (COp Req)) (h : good true tail = true) :
    good true (ms.map (fun m => COp.send (SOp.message m false)) ++ COp.send SOp.endStream :: tail) = true := by
  induction ms with
  | nil => exact h
  | cons x xs ih => exact ih

theorem helper_good (card : Card) (route : Str) (kw : Kw α) (reqs : List Req) :
    good false (helperProg card route kw reqs).ops = true := by
  cases card with
  | unaryUnary => cases reqs <;> rfl
  | unaryStream => cases reqs <;> rfl
  | streamUnary =>
    cases reqs with
    | nil => rfl
    | cons r rs =>
      simp only [helperProg, streamUnary, sendMessages_map, List.append_assoc, List.singleton_append, good]
      exact good_sends (r :: rs) _ rfl
  | streamStream => cases reqs <;> simp [helperProg, streamStream, good, recvOnly]

theorem sends_noSpawn (ms : List Req) (tail : List (COp Req)) (h : tail.all (fun o => !isSpawn o) = true) :
    (ms.map (fun m => COp.send (SOp.message m false)) ++ COp.send SOp.endStream :: tail).all (fun o => !isSpawn o)
      = true := by
  induction ms with
  | nil => simpa [isSpawn] using h
  | cons x xs ih => simpa [isSpawn] using ih

theorem helper_noSpawn (card : Card) (route : Str) (kw : Kw α) (reqs : List Req) (hc : card ≠ .streamStream) :
    (helperProg card route kw reqs).ops.all (fun o => !isSpawn o) = true := by
  cases card with
  | unaryUnary => cases reqs <;> rfl
  | unaryStream => cases reqs <;> rfl
  | streamUnary =>
    cases reqs with
    | nil => rfl
    | cons r rs =>
      simp only [helperProg, streamUnary, sendMessages_map, List.append_assoc, List.singleton_append]
      rw [all_cons']; exact ⟨rfl, sends_noSpawn (r :: rs) _ rfl⟩
  | streamStream => exact absurd rfl hc

/-! ## the theorems -/

/-- **every schedule ends like the canonical one**, any client program of the shape `good` WITHOUT a sender task
    against any server program: if the schedule `σ` ends with no task able to step, the outcome is `callProg`'s -/
theorem every_schedule_sequential_client (p : ClientProg Req α) (v : VProg Req Resp)
    (hg : good false p.ops = true) (hn : p.ops.all (fun o => !isSpawn o) = true)
    (σ : List Task) (hq : quiescent true (run true σ (initV p v)) = true) :
    outcome (run true σ (initV p v)) = callProg p v := by
  rw [run_eq_canon true _ (inv_initV true p v hg (fun _ => hn)) σ ((quiet_iff _ _).mpr hq)]; rfl

/-- … WITH a sender task, under the guard: under the canonical schedule the server saw the end of the request
    stream, or never finished -/
theorem every_schedule_concurrent_client (p : ClientProg Req α) (v : VProg Req Resp)
    (hg : good false p.ops = true) (hd : drained (initV p v) = true)
    (σ : List Task) (hq : quiescent true (run true σ (initV p v)) = true) :
    outcome (run true σ (initV p v)) = callProg p v := by
  rw [run_strict_eq_canon _ (inv_initV false p v hg (fun h => by cases h)) (inv2_initV p v) hd σ
    ((quiet_iff _ _).mpr hq)]; rfl

/-- … and WITHOUT the check of `__aexit__` (`strict = false`), no guard: the check is the only thing in the call
    protocol whose result depends on the interleaving -/
theorem every_schedule_without_the_check (p : ClientProg Req α) (v : VProg Req Resp)
    (hg : good false p.ops = true) (σ : List Task) (hq : quiescent false (run false σ (initV p v)) = true) :
    run false σ (initV p v) = canon false (initV p v) :=
  run_eq_canon false _ (inv_initV false p v hg (fun h => by cases h)) σ ((quiet_iff _ _).mpr hq)

/-- there is such a schedule: the canonical one -/
theorem some_schedule_ends (strict : Bool) (p : ClientProg Req α) (v : VProg Req Resp) (hg : good false p.ops = true) :
    ∃ σ, quiescent strict (run strict σ (initV p v)) = true ∧ run strict σ (initV p v) = canon strict (initV p v) := by
  obtain ⟨σ, h⟩ := canon_reach strict (initV p v)
  exact ⟨σ, by rw [h]; exact (quiet_iff _ _).mp (canon_quiet strict _ hg), h⟩

/-- **`_unary_unary`, `_unary_stream`, `_stream_unary` against any handler: whatever the interleaving of the
    client with the server's handler task, the call ends as `call` says** (hence as `call_delivers` says) -/
theorem all_schedules_sequential_helpers (card : Card) (hc : card ≠ .streamStream) (h : Handler Req Resp)
    (reqs : List Req) (σ : List Task)
    (hq : quiescent true (run true σ (init (helperProg (α := Unit) card [] ⟨none, none, none⟩ reqs) (rpcShape card) h)) = true) :
    outcome (run true σ (init (helperProg (α := Unit) card [] ⟨none, none, none⟩ reqs) (rpcShape card) h))
      = call card h reqs :=
  every_schedule_sequential_client _ _ (helper_good card _ _ reqs) (helper_noSpawn card _ _ reqs hc) σ hq

/-- the guard for `_stream_stream` against the generated adapter, in terms of the handler alone: run on its own
    against the request list, the handler's pulls of the request iterator reach the end of the stream -/
theorem drained_stream_stream (h : Handler Req Resp) (hg : h.isGen = true) (reqs : List Req) :
    drained (init (streamStream (α := Unit) [] ⟨none, none, none⟩ reqs) (rpcShape .streamStream) h)
      = (hFeed true (h.body none) reqs).given.any Option.isNone := by
  have hv : ∀ c0 : Cfg Req Resp, (canon false c0).v = (vRunG (sRun (mRunC false c0))).v := by
    intro c0; unfold canon mRunC; rw [mRun_v]
  simp only [drained, hv, init, initV, streamStream, mRunC, rpcShape, csOf, ssOf, serverProg]
  simp [mRun, sendRequest, downRecv, sRun, sRunL_sendMessages .streamStream rfl, vRunG, afterRecv, callServerStream,
    hg, callArg, vRun, vRun_genProg, VProg.isHalt]

/-- **`_stream_stream` with its concurrent sender task: for a handler that reads its request stream to the end,
    every interleaving of the three tasks ends as `call` says** -/
theorem all_schedules_stream_stream (h : Handler Req Resp) (hg : h.isGen = true) (reqs : List Req)
    (hend : (hFeed true (h.body none) reqs).given.any Option.isNone = true) (σ : List Task)
    (hq : quiescent true (run true σ (init (streamStream (α := Unit) [] ⟨none, none, none⟩ reqs) (rpcShape .streamStream) h)) = true) :
    outcome (run true σ (init (streamStream (α := Unit) [] ⟨none, none, none⟩ reqs) (rpcShape .streamStream) h))
      = call .streamStream h reqs :=
  every_schedule_concurrent_client _ _ (helper_good .streamStream _ _ reqs)
    (by rw [← hend]; exact drained_stream_stream h hg reqs) σ hq

/-! ## the guard is needed: a race of the code (D51) -/

/-- a stream-stream handler that yields one response and returns WITHOUT reading its request iterator -/
def earlyHandler : Handler Nat Nat := ⟨true, fun _ => .yield 7 (.ret none)⟩

/-- the schedule: the main task sends the request and starts the sender task, the server task runs the handler to
    its end, the main task receives the response and the end of the stream and leaves the `async with` block —
    all before the sender task has sent anything -/
def raceSchedule : List Task := [.M, .M, .V, .V, .V, .M, .M, .M, .S, .S, .S]

/-- **not every schedule ends alike without the guard**: under `raceSchedule` the caller of `_stream_stream` gets
    the handler's response and then `ProtocolError` (the check of `recv_trailing_metadata` in `__aexit__`: the
    sender task has not called `stream.end()` yet), under the canonical schedule the iteration ends normally -/
theorem stream_stream_race :
    let c0 := init (streamStream (α := Unit) [] ⟨none, none, none⟩ [1, 2]) (rpcShape .streamStream) earlyHandler
    quiescent true (run true raceSchedule c0) = true
    ∧ outcome (run true raceSchedule c0) = ⟨1, [], true, [7], .protocolError⟩
    ∧ call .streamStream earlyHandler [1, 2] = ⟨1, [], true, [7], .returned none⟩
    ∧ drained c0 = false := by
  decide

end Bp.C11
