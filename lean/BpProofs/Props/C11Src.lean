import BpProofs.SrcTieGrpc
import BpProofs.Props.C11Call
/-
  C11, call protocol, tied to the SOURCE as regenerated on every run (harness/extract_srcgrpc.py →
  BpProofs/Gen/SrcGrpc.lean): the five client helpers + `_send_messages` of grpclib_client.py,
  `_call_rpc_handler_server_stream` of grpclib_server.py, and — rendered through the working tree's plugin +
  template.py.j2 for the probe service under all six option sets — the four stub methods, the four default Base
  methods, the four `__rpc_*` adapters and `__mapping__`.  Each translated definition IS the model definition the
  theorems of Props/C11Call.lean / Props/C11.lean are about; the end-to-end sentence is restated over the translated
  definitions only.  `channel.request(route, Cardinality.X, req_type, resp_type, **kwargs)` is part of the
  translated term: another Cardinality constant, another type argument, other kwargs break an equation below.

  Trusted: BpProofs/PyPreludeGrpc.lean (what the accepted Python constructs mean), the translator, the model of the
  grpclib stream (head of BpModel/GrpcCall.lean).
-/
namespace Bp.C11
open Bp Bp.Grpc Bp.GrpcCall Bp.SrcGrpc Bp.SrcTieGrpc Bp.Gen

variable {Req Resp α : Type}

/-! ## the functions as written are the model's -/

/-- `ServiceStub.__resolve_request_kwargs` as written is `resolveKw` (the `kw_precedence` theorems are about it) -/
theorem src_resolve_request_kwargs (self : Kw α) (timeout deadline metadata : Option α) :
    SrcGrpc.resolve_request_kwargs self timeout deadline metadata = resolveKw self ⟨timeout, deadline, metadata⟩ :=
  resolve_request_kwargs_eq self timeout deadline metadata

/-- … so, of the source: a per-call value wins, without one the stub default is used -/
theorem src_kw_precedence (self : Kw α) (timeout deadline metadata : Option α) :
    (SrcGrpc.resolve_request_kwargs self timeout deadline metadata).timeout
        = (if timeout.isSome then timeout else self.timeout)
    ∧ (SrcGrpc.resolve_request_kwargs self timeout deadline metadata).deadline
        = (if deadline.isSome then deadline else self.deadline)
    ∧ (SrcGrpc.resolve_request_kwargs self timeout deadline metadata).metadata
        = (if metadata.isSome then metadata else self.metadata) := by
  rw [src_resolve_request_kwargs]; exact kw_precedence self ⟨timeout, deadline, metadata⟩

/-- `_send_messages` as written — both branches of `isinstance(messages, AsyncIterable)` — sends every message
    of the source in order with `end=False`, then calls `stream.end()` -/
theorem src_send_messages (src : PyG.Source Req) : SrcGrpc.send_messages src = sendMessages src.items :=
  send_messages_eq src

/-- `_unary_unary` as written: `channel.request(route, UNARY_UNARY, type(request), response_type, **resolved)`,
    `send_message(request, end=True)`, `recv_message()`, leave, `assert`, `return` -/
theorem src_unary_unary (self : Kw α) (route : Str) (request : Req) (response_type : PyG.Ty)
    (timeout deadline metadata : Option α) :
    (SrcGrpc.unary_unary self route request response_type timeout deadline metadata).prog
        = unaryUnary route (resolveKw self ⟨timeout, deadline, metadata⟩) request
    ∧ (SrcGrpc.unary_unary self route request response_type timeout deadline metadata).opened.reqTy = .req
    ∧ (SrcGrpc.unary_unary self route request response_type timeout deadline metadata).opened.respTy = response_type :=
  unary_unary_eq self route request response_type timeout deadline metadata

theorem src_unary_stream (self : Kw α) (route : Str) (request : Req) (response_type : PyG.Ty)
    (timeout deadline metadata : Option α) :
    (SrcGrpc.unary_stream self route request response_type timeout deadline metadata).prog
        = unaryStream route (resolveKw self ⟨timeout, deadline, metadata⟩) request
    ∧ (SrcGrpc.unary_stream self route request response_type timeout deadline metadata).opened.reqTy = .req
    ∧ (SrcGrpc.unary_stream self route request response_type timeout deadline metadata).opened.respTy = response_type :=
  unary_stream_eq self route request response_type timeout deadline metadata

theorem src_stream_unary (self : Kw α) (route : Str) (src : PyG.Source Req) (request_type response_type : PyG.Ty)
    (timeout deadline metadata : Option α) :
    (SrcGrpc.stream_unary self route src request_type response_type timeout deadline metadata).prog
        = streamUnary route (resolveKw self ⟨timeout, deadline, metadata⟩) src.items
    ∧ (SrcGrpc.stream_unary self route src request_type response_type timeout deadline metadata).opened.reqTy = request_type
    ∧ (SrcGrpc.stream_unary self route src request_type response_type timeout deadline metadata).opened.respTy = response_type :=
  stream_unary_eq self route src request_type response_type timeout deadline metadata

theorem src_stream_stream (self : Kw α) (route : Str) (src : PyG.Source Req) (request_type response_type : PyG.Ty)
    (timeout deadline metadata : Option α) :
    (SrcGrpc.stream_stream self route src request_type response_type timeout deadline metadata).prog
        = streamStream route (resolveKw self ⟨timeout, deadline, metadata⟩) src.items
    ∧ (SrcGrpc.stream_stream self route src request_type response_type timeout deadline metadata).opened.reqTy = request_type
    ∧ (SrcGrpc.stream_stream self route src request_type response_type timeout deadline metadata).opened.respTy = response_type :=
  stream_stream_eq self route src request_type response_type timeout deadline metadata

/-- `ServiceBase._call_rpc_handler_server_stream` as written, followed by the adapter's return -/
theorem src_call_rpc_handler_server_stream (h : Handler Req Resp) (request : PyG.ReqArg Req) :
    SrcGrpc.call_rpc_handler_server_stream h request PyG.adapterReturn = callServerStream h request.isIter request.val :=
  call_rpc_handler_server_stream_eq h request

/-- the four rendered `__rpc_*` adapters are the model's server programs of the four cardinalities -/
theorem src_rpc_adapters (h : Handler Req Resp) :
    SrcGrpc.rpc_uu h = serverProg (rpcShape .unaryUnary) h
    ∧ SrcGrpc.rpc_us h = serverProg (rpcShape .unaryStream) h
    ∧ SrcGrpc.rpc_su h = serverProg (rpcShape .streamUnary) h
    ∧ SrcGrpc.rpc_ss h = serverProg (rpcShape .streamStream) h :=
  ⟨rpc_uu_eq h, rpc_us_eq h, rpc_su_eq h, rpc_ss_eq h⟩

/-- the four rendered default methods: `raise GRPCError(UNIMPLEMENTED)`, an async generator (the unreachable
    `yield`) exactly for the server-streaming ones -/
theorem src_default_methods :
    (SrcGrpc.base_uu : Handler Req Resp) = unimplementedHandler .unaryUnary
    ∧ (SrcGrpc.base_us : Handler Req Resp) = unimplementedHandler .unaryStream
    ∧ (SrcGrpc.base_su : Handler Req Resp) = unimplementedHandler .streamUnary
    ∧ (SrcGrpc.base_ss : Handler Req Resp) = unimplementedHandler .streamStream := base_eq

/-- the route of the probe's RPC `m`, by the model's `route` -/
def probeRoute (m : String) : Str := route probePackage.toList probeService.toList m.toList

theorem probe_routes :
    "/probe.v1.ProbeSvc/UnaryUnary".toList = probeRoute "UnaryUnary"
    ∧ "/probe.v1.ProbeSvc/UnaryStream".toList = probeRoute "UnaryStream"
    ∧ "/probe.v1.ProbeSvc/StreamUnary".toList = probeRoute "StreamUnary"
    ∧ "/probe.v1.ProbeSvc/StreamStream".toList = probeRoute "StreamStream" := by decide

/-- the rendered stub method of the unary-unary RPC: it calls the helper of its cardinality (`helperProg`) with the
    route of its RPC, its own request argument, the reply class, and the caller's three keywords -/
theorem src_stub_uu (self : Kw α) (req : Req) (t d m : Option α) :
    (SrcGrpc.stub_uu self req t d m).prog
        = helperProg .unaryUnary (probeRoute "UnaryUnary") (resolveKw self ⟨t, d, m⟩) [req]
    ∧ ((SrcGrpc.stub_uu self req t d m).opened.reqTy, (SrcGrpc.stub_uu self req t d m).opened.respTy) = (.req, .resp) := by
  simp only [SrcGrpc.stub_uu, PyG.returnAwait, unary_unary_eq, helperProg, probe_routes.1]; simp

theorem src_stub_us (self : Kw α) (req : Req) (t d m : Option α) :
    (SrcGrpc.stub_us self req t d m).prog
        = helperProg .unaryStream (probeRoute "UnaryStream") (resolveKw self ⟨t, d, m⟩) [req]
    ∧ ((SrcGrpc.stub_us self req t d m).opened.reqTy, (SrcGrpc.stub_us self req t d m).opened.respTy) = (.req, .resp) := by
  simp only [SrcGrpc.stub_us, PyG.asyncForYield, unary_stream_eq, helperProg, probe_routes.2.1]; simp

theorem src_stub_su (self : Kw α) (src : PyG.Source Req) (t d m : Option α) :
    (SrcGrpc.stub_su self src t d m).prog
        = helperProg .streamUnary (probeRoute "StreamUnary") (resolveKw self ⟨t, d, m⟩) src.items
    ∧ ((SrcGrpc.stub_su self src t d m).opened.reqTy, (SrcGrpc.stub_su self src t d m).opened.respTy) = (.req, .resp) := by
  simp only [SrcGrpc.stub_su, PyG.returnAwait, stream_unary_eq, helperProg, probe_routes.2.2.1]; simp

theorem src_stub_ss (self : Kw α) (src : PyG.Source Req) (t d m : Option α) :
    (SrcGrpc.stub_ss self src t d m).prog
        = helperProg .streamStream (probeRoute "StreamStream") (resolveKw self ⟨t, d, m⟩) src.items
    ∧ ((SrcGrpc.stub_ss self src t d m).opened.reqTy, (SrcGrpc.stub_ss self src t d m).opened.respTy) = (.req, .resp) := by
  simp only [SrcGrpc.stub_ss, PyG.asyncForYield, stream_stream_eq, helperProg, probe_routes.2.2.2]; simp

/-- the rendered `__mapping__`: one entry per RPC, keyed by the route the stub method of the same RPC sends, bound
    to the adapter of the same position, with the Cardinality of the helper that stub method calls and the request /
    reply classes the stub passes -/
theorem src_mapping :
    SrcGrpc.mapping =
      [(probeRoute "UnaryUnary", 0, .unaryUnary, .req, .resp), (probeRoute "UnaryStream", 1, .unaryStream, .req, .resp),
       (probeRoute "StreamUnary", 2, .streamUnary, .req, .resp), (probeRoute "StreamStream", 3, .streamStream, .req, .resp)] := by
  decide

/-! ## the end-to-end sentence over the translated definitions only -/

/-- the call of the probe's RPC of each cardinality AS WRITTEN: the translated stub method (which calls the
    translated helper, which calls the translated `__resolve_request_kwargs` / `_send_messages`) against the
    translated `__rpc_*` adapter (which calls the translated `_call_rpc_handler_server_stream`) bound to `h` -/
def srcCall (card : Card) (self : Kw α) (h : Handler Req Resp) (src : PyG.Source Req) (t d m : Option α) :
    Outcome Req Resp :=
  match card, src.items with
  | .unaryUnary, r :: _ => callProg (SrcGrpc.stub_uu self r t d m).prog (SrcGrpc.rpc_uu h)
  | .unaryStream, r :: _ => callProg (SrcGrpc.stub_us self r t d m).prog (SrcGrpc.rpc_us h)
  | .streamUnary, _ => callProg (SrcGrpc.stub_su self src t d m).prog (SrcGrpc.rpc_su h)
  | .streamStream, _ => callProg (SrcGrpc.stub_ss self src t d m).prog (SrcGrpc.rpc_ss h)
  | _, [] => ⟨0, [], false, [], .hang⟩

/-- it is the model's `call`, whatever the stub defaults, the per-call keywords and the kind of source -/
theorem src_call_is_call (card : Card) (self : Kw α) (h : Handler Req Resp) (src : PyG.Source Req) (t d m : Option α)
    (hr : reqsFit card src.items = true) : srcCall card self h src t d m = call card h src.items := by
  obtain ⟨a1, a2, a3, a4⟩ := src_rpc_adapters h
  cases card with
  | unaryUnary =>
    match hi : src.items, hr with
    | [r], _ => simp only [srcCall, hi]; rw [(src_stub_uu self r t d m).1, a1]; rfl
  | unaryStream =>
    match hi : src.items, hr with
    | [r], _ => simp only [srcCall, hi]; rw [(src_stub_us self r t d m).1, a2]; rfl
  | streamUnary =>
    have : srcCall .streamUnary self h src t d m = callProg (SrcGrpc.stub_su self src t d m).prog (SrcGrpc.rpc_su h) := by
      unfold srcCall; cases src.items <;> rfl
    rw [this, (src_stub_su self src t d m).1, a3]; rfl
  | streamStream =>
    have : srcCall .streamStream self h src t d m = callProg (SrcGrpc.stub_ss self src t d m).prog (SrcGrpc.rpc_ss h) := by
      unfold srcCall; cases src.items <;> rfl
    rw [this, (src_stub_ss self src t d m).1, a4]; rfl

/-- **the sentence over the code as written**, every cardinality, every request list, every handler of the declared
    kind, every combination of stub-level and per-call keywords, both kinds of request source: the translated stub
    method against the translated adapter starts the handler's body exactly once, gives it the sent request(s),
    and the caller gets exactly its responses in order and its return value / its GRPCError -/
theorem src_call_delivers (card : Card) (self : Kw α) (h : Handler Req Resp) (src : PyG.Source Req) (t d m : Option α)
    (hk : h.isGen = ssOf card) (hr : reqsFit card src.items = true) :
    srcCall card self h src t d m =
      { calls := 1,
        hIn := if csOf card then (handlerRun card h src.items).given else [src.items.head?],
        served := true,
        yielded := if ssOf card then (handlerRun card h src.items).yields else [],
        result := if ssOf card then genResult (handlerRun card h src.items).fin
                  else coroResult (handlerRun card h src.items).fin } := by
  rw [src_call_is_call card self h src t d m hr, call_delivers card h src.items hk hr]

/-- the translated default method of each cardinality -/
def srcBase (card : Card) : Handler Req Resp :=
  match card with
  | .unaryUnary => SrcGrpc.base_uu
  | .unaryStream => SrcGrpc.base_us
  | .streamUnary => SrcGrpc.base_su
  | .streamStream => SrcGrpc.base_ss

/-- **"a method not overridden answers UNIMPLEMENTED"** over the code as written: the translated stub method
    against the translated adapter bound to the translated DEFAULT method — status 12, no response -/
theorem src_unimplemented_answers (card : Card) (self : Kw α) (src : PyG.Source Req) (t d m : Option α)
    (hr : reqsFit card src.items = true) :
    (srcCall (Resp := Resp) card self (srcBase card) src t d m).result = .grpcError ⟨12, none⟩
    ∧ (srcCall (Resp := Resp) card self (srcBase card) src t d m).yielded = [] := by
  have hb : (srcBase card : Handler Req Resp) = unimplementedHandler card := by
    obtain ⟨b1, b2, b3, b4⟩ := src_default_methods (Req := Req) (Resp := Resp)
    cases card <;> simp [srcBase, b1, b2, b3, b4]
  rw [hb, src_call_is_call card self _ src t d m hr]
  exact ⟨(unimplemented_answers card src.items hr).1, (unimplemented_answers card src.items hr).2.1⟩

/-- **"per-call timeout / deadline / metadata take precedence"** where it matters: the keywords the translated stub
    method hands to `channel.request` -/
theorem src_channel_request_kwargs (self : Kw α) (req : Req) (src : PyG.Source Req) (t d m : Option α) :
    (SrcGrpc.stub_uu self req t d m).opened.kw = resolveKw self ⟨t, d, m⟩
    ∧ (SrcGrpc.stub_us self req t d m).opened.kw = resolveKw self ⟨t, d, m⟩
    ∧ (SrcGrpc.stub_su self src t d m).opened.kw = resolveKw self ⟨t, d, m⟩
    ∧ (SrcGrpc.stub_ss self src t d m).opened.kw = resolveKw self ⟨t, d, m⟩ := by
  simp [SrcGrpc.stub_uu, SrcGrpc.stub_us, SrcGrpc.stub_su, SrcGrpc.stub_ss, PyG.returnAwait, PyG.asyncForYield,
    SrcGrpc.unary_unary, SrcGrpc.unary_stream, SrcGrpc.stream_unary, SrcGrpc.stream_stream, PyG.asyncWith,
    PyG.channelRequest, resolve_request_kwargs_eq]

/-! ### non-vacuity -/

example : srcCall (α := Nat) .streamStream ⟨some 1, none, none⟩
      ⟨true, fun _ => .recv fun a => .yield (a.getD 0 + 1) (.recv fun _ => .ret none)⟩ ⟨true, [5]⟩ none (some 2) none
    = ⟨1, [some 5, none], true, [6], .returned none⟩ := by decide
example : (SrcGrpc.stub_uu (α := Nat) ⟨some 1, some 2, none⟩ (7 : Nat) none (some 3) none).opened.kw
    = ⟨some 1, some 3, none⟩ := by decide

end Bp.C11
