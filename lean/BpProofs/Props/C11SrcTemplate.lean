import BpProofs.SrcTieTemplate
import BpProofs.Props.C11
/-
  C11 ("a call made through the generated client stub … invokes exactly the handler for the same RPC … for all four
  streaming cardinalities … A method not overridden answers UNIMPLEMENTED"), the part the TEMPLATE decides, tied to
  the source of src/betterproto/templates/template.py.j2 as regenerated on every run (harness/extract_srctemplate.py →
  BpProofs/Gen/SrcTemplate.lean; `Tpl.template_eq`: the template as written IS the named parts of
  BpProofs/TemplateModel.lean, by `rfl`).  What `Gen/StubTable.lean` reads off a RENDERED probe service under six option
  sets is derived here from the template's syntax tree, for EVERY service, method, name, type and typing compiler:

    * per service one `…Stub` class and one `…Base` class; per RPC, in the order of `service.methods`: one stub
      method, one default method, one `__rpc_*` adapter and one `__mapping__` row (`src_stub_class`, `src_base_class`);
    * the stub method calls the helper `Grpc.helperOf client_streaming server_streaming` with the route, the request
      (iterator), the request type iff client streaming, the response type; it is an async generator (`yield
      response`) iff server streaming (`src_stub_body`);
    * the `__mapping__` row: key = the SAME `method.route`, handler = `self.__rpc_<py_name>` of the SAME method,
      cardinality `Grpc.mappingCardOf …` = the cardinality that helper passes to `channel.request`
      (`src_mapping_row`, `src_cardinalities_agree`), request / reply types;
    * the adapter reads one request (`recv_message`) or takes the stream iterator, and calls `self.<py_name>` of the
      same method, sending one response or handing over to `_call_rpc_handler_server_stream` (`src_rpc_adapter`);
    * the default body of EVERY Base method raises `GRPCError(Status.UNIMPLEMENTED)` as its first statement and, iff
      the RPC is server streaming, contains the unreachable `yield` that makes it an async generator
      (`src_default_unimplemented`).
  Trusted: BpProofs/PyPreludeTemplate.lean, Jinja's lexer / parser, the translator.
-/
namespace Bp.C11
open Bp Bp.Tpl Bp.Grpc

/-! ## one of each per RPC, in order -/

/-- the Stub class of a service: the class line, the comment (or `pass` when there is neither comment nor method),
    then one stub method per RPC in the order of `service.methods` -/
theorem src_stub_class (tc : TypingCompiler) (s : Service) :
    stubClass tc s
      = [Piece.lit "class ", Piece.expr "output_file.services[].py_name" s.py_name, Piece.lit "Stub(betterproto.ServiceStub):\n"]
        ++ (if s.comment ≠ [] then [Piece.expr "output_file.services[].comment" s.comment, Piece.lit "\n\n"]
            else if s.methods = [] then [Piece.lit "    pass\n"] else [])
        ++ s.methods.flatMap (stubMethod tc s.py_name) := by
  unfold stubClass passIfEmpty
  cases hc : s.comment <;> cases hm : s.methods <;> simp

/-- the Base class of a service: one default method per RPC, then one `__rpc_*` adapter per RPC, then the
    `__mapping__` with one row per RPC — all three in the order of `service.methods` -/
theorem src_base_class (tc : TypingCompiler) (s : Service) :
    baseClass tc s
      = [Piece.lit "class ", Piece.expr "output_file.services[].py_name" s.py_name, Piece.lit "Base(ServiceBase):\n"]
        ++ optComment "output_file.services[].comment" s.comment ++ [Piece.lit "\n"]
        ++ s.methods.flatMap (baseMethod tc) ++ [Piece.lit "\n"]
        ++ s.methods.flatMap rpcMethod ++ mappingHead tc ++ s.methods.flatMap mappingRow
        ++ [Piece.lit "        }\n\n"] := by
  simp only [baseClass, nl, List.append_eq, List.append_assoc]

/-- one Stub and one Base per service of the file, in order -/
theorem src_service_classes (c : OutputFile) :
    stubsBlock c = c.services.flatMap (stubClass c.typing_compiler) ∧
    basesBlock c = c.services.flatMap (baseClass c.typing_compiler) := ⟨rfl, rfl⟩

/-! ## the stub method body: the four-way choice -/

/-- the call a stub method makes, written with the model's `helperOf` -/
def stubCall (m : Method) : List Piece :=
  [Piece.lit ((if m.server_streaming then "        async for response in self." else "        return await self.")
     ++ helperOf m.client_streaming m.server_streaming ++ "(\n            \""),
   Piece.expr "output_file.services[].methods[].route" m.route, Piece.lit "\",\n            ",
   Piece.expr "output_file.services[].methods[].py_input_message_param" m.py_input_message_param]
  ++ (if m.client_streaming then
        [Piece.lit "_iterator,\n            ", Piece.expr "output_file.services[].methods[].py_input_message_type" m.py_input_message_type]
      else [])
  ++ [Piece.lit ",\n            ",
      Piece.expr "output_file.services[].methods[].py_output_message_type.strip('\"')" (Py.strStrip m.py_output_message_type "\"".toList),
      Piece.lit (",\n            timeout=timeout,\n            deadline=deadline,\n            metadata=metadata,\n        )"
        ++ (if m.server_streaming then ":\n            yield response\n" ++ (if m.client_streaming then "" else "\n")
            else "\n"))]

/-- **the stub body is that call**, for every method: helper by the two flags, route first, request (the
    `_iterator` parameter and the request type iff client streaming), response type, the three keyword arguments
    forwarded; `yield response` per response iff server streaming, `return await` otherwise -/
theorem src_stub_body (m : Method) : stubBody m = stubCall m := by
  unfold stubBody stubCall
  cases m.client_streaming <;> cases m.server_streaming <;> simp [helperOf, qt]

/-- the whole stub method: signature, docstring, deprecation warning, then that call -/
theorem src_stub_method (tc : TypingCompiler) (svc : Tpl.Str) (m : Method) :
    ∃ signature : List Piece, stubMethod tc svc m
      = signature ++ optComment "output_file.services[].methods[].comment" m.comment ++ stubDeprecation svc m ++ stubCall m
        ++ [Piece.lit "\n"] := by
  refine ⟨[Piece.lit "    async def ", Piece.expr "output_file.services[].methods[].py_name" m.py_name, Piece.lit "(self"]
    ++ stubParam tc m ++ stubKwargs tc ++ stubReturn tc m ++ [Piece.lit "\":\n"], ?_⟩
  rw [← src_stub_body]
  simp only [stubMethod, nl, List.append_eq, List.append_assoc]

/-! ## the `__mapping__` row and the adapter -/

/-- **the row of an RPC**: keyed by the same `method.route` the stub passes, bound to the `__rpc_*` adapter of the same
    python name, with the cardinality of the two flags and the request / reply classes -/
theorem src_mapping_row (m : Method) :
    mappingRow m
      = [Piece.lit "        \"", Piece.expr "output_file.services[].methods[].route" m.route,
         Piece.lit "\": grpclib.const.Handler(\n            self.__rpc_", Piece.expr "output_file.services[].methods[].py_name" m.py_name,
         Piece.lit ",\n",
         Piece.lit ("            grpclib.const.Cardinality." ++ mappingCardOf m.client_streaming m.server_streaming ++ ",\n"),
         Piece.lit "            ", Piece.expr "output_file.services[].methods[].py_input_message_type" m.py_input_message_type,
         Piece.lit ",\n            ", Piece.expr "output_file.services[].methods[].py_output_message_type" m.py_output_message_type,
         Piece.lit ",\n        ),\n"] := by
  unfold mappingRow cardinality
  cases m.client_streaming <;> cases m.server_streaming <;> simp [mappingCardOf]

/-- the cardinality in the row is the model's, and it is the one the helper chosen by the stub passes to
    `channel.request` (grpclib_client.py, `Gen.helperCardinality`), forwarding the resolved keyword arguments -/
theorem src_cardinalities_agree (cs ss : Bool) :
    mappingCardOf cs ss = cardName (cardOf cs ss) ∧ lookup3 (helperOf cs ss) = some (mappingCardOf cs ss, true) := by
  cases cs <;> cases ss <;> decide

/-- **the adapter of an RPC**: `__rpc_<py_name>`; one request by `recv_message` or the stream's iterator; calls
    `self.<py_name>` — the default / overridden method of the SAME RPC — and sends its one response, or hands the
    async generator to `_call_rpc_handler_server_stream` -/
theorem src_rpc_adapter (m : Method) :
    rpcMethod m
      = [Piece.lit "    async def __rpc_", Piece.expr "output_file.services[].methods[].py_name" m.py_name,
         Piece.lit "(self, stream: \"grpclib.server.Stream[",
         Piece.expr "output_file.services[].methods[].py_input_message_type" m.py_input_message_type, Piece.lit ", ",
         Piece.expr "output_file.services[].methods[].py_output_message_type" m.py_output_message_type, Piece.lit "]\") -> None:\n"]
        ++ (if m.client_streaming then [Piece.lit "        request = stream.__aiter__()\n"]
            else [Piece.lit "        request = await stream.recv_message()\n"])
        ++ (if m.server_streaming then
              [Piece.lit "        await self._call_rpc_handler_server_stream(\n            self.",
               Piece.expr "output_file.services[].methods[].py_name" m.py_name,
               Piece.lit ",\n            stream,\n            request,\n        )\n"]
            else
              [Piece.lit "        response = await self.", Piece.expr "output_file.services[].methods[].py_name" m.py_name,
               Piece.lit "(request)\n        await stream.send_message(response)\n"])
        ++ [Piece.lit "\n"] := by
  unfold rpcMethod rpcRecv rpcSend nl
  cases m.client_streaming <;> cases m.server_streaming <;> simp

/-! ## UNIMPLEMENTED -/

/-- **"a method not overridden answers UNIMPLEMENTED"**, for every method of every service: after the signature
    and the docstring the default body's first statement is the `raise`; the unreachable `yield <reply type>()`
    follows iff the RPC is server streaming (the default is then an async generator, which the adapter iterates) -/
theorem src_default_unimplemented (tc : TypingCompiler) (m : Method) :
    ∃ signature : List Piece, baseMethod tc m
      = signature ++ optComment "output_file.services[].methods[].comment" m.comment
        ++ [Piece.lit "        raise grpclib.GRPCError(grpclib.const.Status.UNIMPLEMENTED)\n"]
        ++ (if m.server_streaming then
              [Piece.lit "        yield ", Piece.expr "output_file.services[].methods[].py_output_message_type" m.py_output_message_type,
               Piece.lit "()\n"]
            else [])
        ++ [Piece.lit "\n"] := by
  refine ⟨[Piece.lit "    async def ", Piece.expr "output_file.services[].methods[].py_name" m.py_name, Piece.lit "(self"]
    ++ baseParam tc m ++ [Piece.lit ") -> "] ++ baseReturn tc m ++ [Piece.lit ":\n"], ?_⟩
  simp only [baseMethod, nl, raiseUnimplemented, unreachableYield, List.append_eq, List.append_assoc]

set_option maxRecDepth 20000 in
/-- non-vacuity: the rendered default of a server-streaming method -/
example :
    let m : Method := {
      py_name := "watch".toList, comment := [], route := "/p.S/Watch".toList, client_streaming := false,
      server_streaming := true, py_input_message_param := "req".toList, py_input_message_type := "In".toList,
      py_output_message_type := "Out".toList, proto_obj := { options := { deprecated := false } } }
    let tc : TypingCompiler := {
      optional := id, dict := fun a _ => a, union := fun a _ => a, iterable := id,
      async_iterable := id, async_iterator := fun t => "AsyncIterator[\"".toList ++ t ++ "\"]".toList,
      imports := [], import_lines := [] }
    String.ofList (text (baseMethod tc m))
      = "    async def watch(self, req: \"In\") -> AsyncIterator[\"Out\"]:\n        raise grpclib.GRPCError(grpclib.const.Status.UNIMPLEMENTED)\n        yield Out()\n\n" := by
  decide

end Bp.C11
