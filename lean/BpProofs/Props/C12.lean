import BpModel.All
import BpProofs.ChanAux
/-
  C12 — AsyncChannel: exactly-once ordered delivery, no stranded receiver.
  Only property statements live here; the invariant and its preservation are in
  BpProofs/Chan.lean, ChanInv.lean, ChanLeaf.lean, ChanStep.lean.

  Every theorem is about `run (init maxsize progs) cs`: the state reached from ANY list of task
  programs (senders with `send` / `send_from`, receivers, closers, cancellers), ANY buffer
  limit and ANY sequence of scheduler choices (which ready handle runs, which `wait_for` timer
  fires) — no bound on any of them.  The model is of the code WITH the D06 repair
  (`task_done()` only after a successful `get()`).

  Liveness: here as safety (`quiescent_closed_no_blocked_receiver`, `woken_runnable`); that every
  schedule is finite and ends in such a quiescent state — no fairness assumption — is
  Props/C12Term.lean (`step_decreases`, `schedules_bounded`, `terminates_no_blocked_receiver`).
-/
namespace Bp.C12
open Bp.Chan

/-- the state after the scheduler made the choices `cs` -/
abbrev reach (maxsize : Nat) (progs : List Prog) (cs : List Choice) : Sys := run (init maxsize progs) cs

/-- data items in the order the receivers got them -/
def received (s : Sys) : List Item := s.recvLog.map Prod.snd
/-- data items still buffered -/
def queuedData (s : Sys) : List Item := s.queue.filter Item.isData

/-- the invariant holds in every reachable state -/
theorem reachable_inv (maxsize : Nat) (progs : List Prog) (cs : List Choice) : Inv (reach maxsize progs cs) :=
  run_inv (init_inv maxsize progs) cs

/-- **nothing invented, nothing lost, global FIFO**: the items received so far followed by the
    items still buffered are exactly the items whose `put` completed, in that order. -/
theorem exactly_once (maxsize : Nat) (progs : List Prog) (cs : List Choice) :
    received (reach maxsize progs cs) ++ queuedData (reach maxsize progs cs) = (reach maxsize progs cs).putLog :=
  (reachable_inv maxsize progs cs).st.fifo.symm

/-- **nothing received twice**: no data item occurs twice among received ++ buffered -/
theorem no_duplicate (maxsize : Nat) (progs : List Prog) (cs : List Choice) (a b : Nat) :
    (received (reach maxsize progs cs) ++ queuedData (reach maxsize progs cs)).count (.data a b) ≤ 1 := by
  rw [exactly_once]
  exact count_le_one_of_pairwise (reachable_inv maxsize progs cs).st.ord a b

/-- **per-sender FIFO**: in the global order of receive events, two items of the same sender appear
    in the order sent (increasing sequence number) -/
theorem fifo_per_sender (maxsize : Nat) (progs : List Prog) (cs : List Choice) :
    (received (reach maxsize progs cs)).Pairwise SendOrd := by
  have h := (reachable_inv maxsize progs cs).st.ord
  rw [← exactly_once, List.pairwise_append] at h
  exact h.1

/-- `task_done()` never raises in the repaired code: `_unfinished_tasks` equals qsize -/
theorem unfinished_eq_qsize (maxsize : Nat) (progs : List Prog) (cs : List Choice) :
    (reach maxsize progs cs).unfinished = (reach maxsize progs cs).queue.length :=
  (reachable_inv maxsize progs cs).nm.unfin

/-- **earmark invariant**: while some getter is pending, every buffered item is earmarked for a
    getter that has been woken and not yet run -/
theorem earmark (maxsize : Nat) (progs : List Prog) (cs : List Choice) :
    0 < tsum (mPend true) (reach maxsize progs cs).tasks →
      (reach maxsize progs cs).queue.length ≤ tsum (mWok true) (reach maxsize progs cs).tasks :=
  (reachable_inv maxsize progs cs).nm.earG

/-- `_waiting_receivers` counts exactly the receivers inside `get()` -/
theorem waiting_eq (maxsize : Nat) (progs : List Prog) (cs : List Choice) :
    (reach maxsize progs cs).waiting = tsum mInGet (reach maxsize progs cs).tasks :=
  (reachable_inv maxsize progs cs).nm.waitingEq

/-- **flush arithmetic**: once `_flush_queue` has run, every receiver inside `get()` is covered by a
    buffered item or by a sentinel the flush task still has to put -/
theorem flush_cover (maxsize : Nat) (progs : List Prog) (cs : List Choice) :
    (reach maxsize progs cs).flushed = true →
      (reach maxsize progs cs).waiting ≤ (reach maxsize progs cs).queue.length + tsum mOwed (reach maxsize progs cs).tasks := by
  intro hf
  have := (reachable_inv maxsize progs cs).nm.cover
  simp only [abs, hf, ind_true] at this
  exact this trivial

/-- **after close + flush no getter is pending** -/
theorem closed_no_pending (maxsize : Nat) (progs : List Prog) (cs : List Choice) :
    (reach maxsize progs cs).flushed = true → tsum mOwed (reach maxsize progs cs).tasks = 0 →
      tsum (mPend true) (reach maxsize progs cs).tasks = 0 := by
  intro hf ho
  have hc := flush_cover maxsize progs cs hf
  have he := earmark maxsize progs cs
  have hw := waiting_eq maxsize progs cs
  generalize reach maxsize progs cs = s at *
  -- waiting ≥ pending + woken
  have hsum : tsum (mPend true) s.tasks + tsum (mWok true) s.tasks ≤ tsum mInGet s.tasks := by
    generalize s.tasks = ts
    induction ts with
    | nil => simp [tsum]
    | cons y ys ih =>
      simp only [tsum]
      have : mPend true y + mWok true y ≤ mInGet y := by
        cases hwy : y.wait with
        | ready => simp [mPend, mWok, mInGet, hwy]
        | done => simp [mPend, mWok, mInGet, hwy]
        | blocked g f => cases g <;> cases f <;> simp [mPend, mWok, mInGet, Wait.inGet, hwy]
      omega
  omega

/-- a woken task is runnable (the wake-up is not lost) -/
theorem woken_runnable (s : Sys) (t : Nat) (x : Task) (g : Bool) (hx : s.tasks[t]? = some x)
    (hw : x.wait = .blocked g .woken) : runnable s t = true := by
  simp [runnable, waitOf, hx, hw]

/-- **deadlock freedom as safety**: in a quiescent state (no handle ready) of a closed channel
    no task is inside `get()` — no receiver is blocked. -/
theorem quiescent_closed_no_blocked_receiver (maxsize : Nat) (progs : List Prog) (cs : List Choice)
    (hq : quiescent (reach maxsize progs cs) = true) (hc : (reach maxsize progs cs).closed = true) :
    (reach maxsize progs cs).waiting = 0 ∧
    ∀ (t : Nat) (x : Task), (reach maxsize progs cs).tasks[t]? = some x → x.wait.inGet = false := by
  have hI := reachable_inv maxsize progs cs
  generalize reach maxsize progs cs = s at *
  have hwG : tsum (mWok true) s.tasks = 0 := tsum_zero_of (fun t x hx => by
    rcases quiescent_wait hq hx with h | ⟨g, h⟩ <;> simp [mWok, h])
  have hwP : tsum (mWok false) s.tasks = 0 := tsum_zero_of (fun t x hx => by
    rcases quiescent_wait hq hx with h | ⟨g, h⟩ <;> simp [mWok, h])
  have hfr : tsum mFresh s.tasks = 0 := tsum_zero_of (fun t x hx => by
    rcases quiescent_wait hq hx with h | ⟨g, h⟩ <;> simp [mFresh, h])
  have n5 := hI.nm.fresh; have n3 := hI.nm.earG; have n4 := hI.nm.earP; have n8 := hI.nm.cover
  have n2 := hI.nm.waitingEq; have b2 := hI.nm.b2
  simp only [abs, hc, ind_true] at n5 n3 n4 n8 n2 b2
  have hfl : ind s.flushed = 1 := by
    rcases Nat.lt_or_ge (ind s.flushed) 1 with h0 | h1
    · have := n5 trivial (by omega); omega
    · omega
  -- everything inside get() is pending
  have hIP : tsum mInGet s.tasks = tsum (mPend true) s.tasks := by
    have : ∀ (t : Nat) (x : Task), s.tasks[t]? = some x → mInGet x = mPend true x := by
      intro t x hx
      rcases quiescent_wait hq hx with h | ⟨g, h⟩
      · simp [mInGet, mPend, Wait.inGet, h]
      · cases g <;> simp [mInGet, mPend, Wait.inGet, h]
    generalize s.tasks = ts at this
    induction ts with
    | nil => rfl
    | cons y ys ih =>
      simp only [tsum]
      rw [this 0 y (by simp), ih (fun t x hx => this (t + 1) x (by simpa using hx))]
  -- owed sentinels belong to flush tasks suspended on a pending putter
  have hOw : tsum (mPend false) s.tasks = 0 → tsum mOwed s.tasks = 0 := by
    intro hp0
    apply tsum_zero_of
    intro t x hx
    rcases quiescent_wait hq hx with h | ⟨g, h⟩
    · simp [mOwed, h]
    · cases g
      · have := tsum_zero hp0 hx; simp [mPend, h] at this
      · have hr := hI.st.getRecv t x hx (by simp [Wait.inGet, h])
        cases hcode : x.code <;> simp [hcode, Code.isReceiver] at hr
        simp [mOwed, h, hcode, owedOf]
  have hw0 : s.waiting = 0 := by
    rcases Nat.eq_zero_or_pos (tsum (mPend true) s.tasks) with hp | hp
    · omega
    · have hql : s.queue.length = 0 := by have := n3 hp; omega
      have hpP : tsum (mPend false) s.tasks = 0 := by
        rcases Nat.eq_zero_or_pos (tsum (mPend false) s.tasks) with h0 | h0
        · exact h0
        · have := n4 h0; omega
      have := hOw hpP
      have := n8 hfl
      omega
  refine ⟨hw0, ?_⟩
  intro t x hx
  have := tsum_zero (f := mInGet) (by rw [← n2]; exact hw0) hx
  cases hi : x.wait.inGet
  · rfl
  · simp [mInGet, hi] at this

/-- **send after close raises**: a sender that starts a `send` (or enters `send_from`) on a closed
    channel finishes with ChannelClosed and touches nothing else -/
theorem send_after_close_raises (s : Sys) (t : Nat) (x : Task) (m : SMode) (nx r : Nat) (cl : Bool)
    (hx : s.tasks[t]? = some x) (hw : x.wait = .ready) (hm : x.mustCancel = false)
    (hc : x.code = .sender m nx r cl) (hstart : (m = .each ∧ 0 < r) ∨ m = .fromStart) (hcl : s.closed = true) :
    micro s t = finish s t x .chanClosed := by
  unfold micro
  simp only [hx, hw, hm, hc, hcl, Bool.false_eq_true, if_false]
  rcases hstart with ⟨rfl, hr⟩ | rfl
  · simp [hr]
  · simp

/-- **cancellation / timeout surfaces as such**: when a receiver that was cancelled (or timed out)
    while blocked in `get()` runs again, it ends with Cancelled (an external `cancel()` was
    requested) or Timeout (only its `wait_for` timer fired) — never with another exception — and
    the invariant (nothing lost, nothing duplicated, bookkeeping intact) still holds. -/
theorem cancel_surfaces (maxsize : Nat) (progs : List Prog) (cs : List Choice) (t : Nat) (x : Task) (g : Bool)
    (hx : (reach maxsize progs cs).tasks[t]? = some x)
    (hw : x.wait = .blocked g .cancelled ∨ (x.wait = .blocked g .woken ∧ x.mustCancel = true)) :
    ∃ x', (micro (reach maxsize progs cs) t).tasks[t]? = some x' ∧ x'.wait = .done ∧
      x'.out = (if x.cancelReq then .cancelled else .timeout) ∧ Inv (micro (reach maxsize progs cs) t) := by
  have hI := reachable_inv maxsize progs cs
  generalize reach maxsize progs cs = s at *
  refine ⟨{ x with wait := .done, out := cancelOutcome x }, ?_, rfl, rfl, micro_inv hI t⟩
  have hl := getElem?_lt hx
  have key : ∀ f, (cancelBranch s t x g f).tasks[t]? = some { x with wait := .done, out := cancelOutcome x } := by
    intro f
    unfold cancelBranch
    have hfin : ∀ s2 : Sys, s2.tasks = (finish s t x (cancelOutcome x)).tasks →
        (∀ u, u ∈ s2.dq g → True) → (wake g s2).tasks[t]? = some { x with wait := .done, out := cancelOutcome x } ∧
        s2.tasks[t]? = some { x with wait := .done, out := cancelOutcome x } := by
      intro s2 hs2 _
      have h2 : s2.tasks[t]? = some { x with wait := .done, out := cancelOutcome x } := by
        rw [hs2]; simp [finish, Sys.setTask, hl]
      refine ⟨?_, h2⟩
      rw [wake_tasks]
      obtain ⟨_, hB⟩ := wakeNext_spec g (s2.dq g) s2.tasks
      rcases hB with ⟨h1, _⟩ | ⟨u, y, _, hy, hp, h4, _⟩
      · rw [h1]; exact h2
      · rw [h4]
        by_cases hut : t = u
        · subst hut; rw [h2] at hy; cases hy; simp at hp
        · rw [List.getElem?_set_ne (fun e => hut e.symm)]; exact h2
    cases g <;> simp only [Bool.false_eq_true, if_false, if_true] <;> split
    · exact (hfin _ (by rfl) (fun _ _ => trivial)).1
    · exact (hfin _ (by rfl) (fun _ _ => trivial)).2
    · exact (hfin _ (by rfl) (fun _ _ => trivial)).1
    · exact (hfin _ (by rfl) (fun _ _ => trivial)).2
  unfold micro
  rcases hw with hw | ⟨hw, hm⟩
  · simp only [hx, hw]; exact key _
  · simp only [hx, hw]; rw [if_pos hm]; exact key _

/-- **drained**: without any cancellation or timeout, in a quiescent state of a closed channel in
    which some receiver has run to completion, every item whose send completed before the first
    `close()` has been received (the first `n` put items are the first `n` received items). -/
theorem drained (maxsize : Nat) (progs : List Prog) (cs : List Choice)
    (hq : quiescent (reach maxsize progs cs) = true) (hc : (reach maxsize progs cs).closed = true)
    (hnc : (reach maxsize progs cs).cancels = 0)
    (hr : ∃ (t : Nat) (x : Task), (reach maxsize progs cs).tasks[t]? = some x ∧ x.code.isReceiver = true ∧ x.wait = .done)
    (n : Nat) (hn : (reach maxsize progs cs).preClose = some n) :
    n ≤ (received (reach maxsize progs cs)).length ∧
    (reach maxsize progs cs).putLog.take n = (received (reach maxsize progs cs)).take n := by
  have hw0 := (quiescent_closed_no_blocked_receiver maxsize progs cs hq hc).1
  have hI := reachable_inv maxsize progs cs
  have hex := exactly_once maxsize progs cs
  generalize reach maxsize progs cs = s at *
  obtain ⟨t, x, hx, hrc, hwd⟩ := hr
  have hpos : 0 < tsum mRecvDone s.tasks := by
    have := tsum_ge (f := mRecvDone) hx
    simp [mRecvDone, hrc, hwd] at this
    omega
  have d2 := hI.nm.d2
  simp only [abs, hc, hn, ind_true, Option.getD_some] at d2
  have := d2 hnc hpos trivial
  have hle : n ≤ (received s).length := by simp only [received, List.length_map]; omega
  refine ⟨hle, ?_⟩
  rw [← hex, List.take_append_of_le_length hle]

/-- non-vacuity: one sender, one receiver, a closer — a schedule in which the receiver is blocked,
    is flushed awake and everything is delivered -/
example : (reach 0 [.sender false 2 false, .receiver false, .closer]
    [.run 1, .run 0, .run 2, .run 3, .run 1]).recvLog = [(1, .data 0 0), (1, .data 0 1)] := by decide

example : quiescent (reach 0 [.sender false 2 false, .receiver false, .closer]
    [.run 1, .run 0, .run 2, .run 3, .run 1]) = true := by decide

/-- non-vacuity of `cancel_surfaces`: a woken-then-cancelled receiver hands its item to the next one
    (the D06 witness schedule, on the repaired model) -/
example : (reach 0 [.sender false 1 false, .receiver false, .receiver false, .canceller 1]
    [.run 1, .run 2, .run 0, .run 3, .run 1, .run 2]).recvLog = [(2, .data 0 0)] := by decide

end Bp.C12
