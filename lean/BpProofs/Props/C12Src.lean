import BpProofs.SrcTieChan
import BpProofs.Props.C12Term
/-
  C12 ("AsyncChannel: exactly-once ordered delivery, no stranded receiver"), tied to the SOURCE of
  src/betterproto/grpc/util/async_channel.py as regenerated on every run (harness/extract_srcchan.py →
  BpProofs/Gen/SrcChan.lean).  Every method of `AsyncChannel` is translated statement by statement into a resumption
  program `Co` (one command per access to `_closed` / `_flushed` / `_waiting_receivers` and per call on `self._queue`;
  `try … finally` = the `finally` block on every exit, including the exception continuation of the awaited `get()`).

  What is proved (BpProofs/SrcTieChan.lean), for EVERY system state, EVERY task whose record is coherent and EVERY
  assignment `fl` of `receive()` / `__anext__()` to the receiver tasks:
    * `src_micro`  — one atomic action `Chan.micro` of the model IS one segment step of the translated program run over
      the model's `asyncio.Queue` (`exec1`: synchronous commands, the `await` reached is attempted, the synchronous
      commands after it, up to the next loop head / await / end of the method); a task that ENTERS `send_from` makes
      two such steps in one action (`exec2`) — the only stutter;
    * `src_stop`   — the program point at which that step stops is the `frame` of the task's new record (so the steps
      chain: a simulation);
    * `src_run_eq` — hence `run (init …) cs`, the object of ALL theorems of Props/C12.lean and Props/C12Term.lean, is the
      run `srcRun` of the translated source; `src_exactly_once`, `src_fifo_per_sender`, `src_no_blocked_receiver`,
      `src_step_decreases` restate those theorems about the source as written.
  Per method: `src_receive`, `src_anext`, `src_send`, `src_send_from`, `src_close`, `src_flush_queue` (the step of a
  task that calls it), `src_done`, `src_closed`, `src_init` (the synchronous ones), and the sentences of C12 about the
  source text itself: `src_flush_arith`, `src_flush_once`, `src_receive_exits` (the `finally` on every exit path),
  `src_task_done_only_after_get` (the D06 sentence), `src_send_after_close`, `src_send_from_after_close`.

  Trusted: the translator, BpProofs/PyPreludeChan.lean (the meaning of the commands over the hand-written model of
  CPython's asyncio.Queue of BpModel/Chan.lean, which stays hand-modelled and lock-step validated), and the task
  programs (`frame` at a call, `commit`: the loops of harness/chanloop.py that CALL the methods).
  NOT translated: the `isinstance(source, AsyncIterable)` branch of `send_from` (`SrcChan.send_from_async_branch`).
-/
set_option linter.unusedSimpArgs false
namespace Bp.C12
open Bp.Chan Bp.PyChan Bp.SrcTieChan

/-! ## the synchronous methods as written -/

/-- `__init__` as written (`asyncio.Queue(buffer_limit)`, `_closed = False`, `_waiting_receivers = 0`,
    `_flushed = False`), run in a world that holds only the task programs, gives the model's initial state -/
theorem src_init (buffer_limit : Int) (close : Bool) (progs : List Prog) :
    runSync { maxsize := 0, tasks := progs.map Prog.toTask } (SrcChan.init buffer_limit close fun _ => .ret .none) =
      (init buffer_limit.toNat progs, .ret .none) := by
  simp [SrcChan.init, runSync, storeClosed, init]

/-- `closed()` as written returns `_closed` -/
theorem src_closed (s : Sys) (k : PyChan.Val → Co) : runSync s (SrcChan.closed k) = runSync s (k (.bool s.closed)) :=
  run_closed s k

/-- `done()` as written returns `_closed and qsize() <= _waiting_receivers` — the test of the model's receiver -/
theorem src_done (s : Sys) (k : PyChan.Val → Co) :
    runSync s (SrcChan.done k) = runSync s (k (.bool (s.closed && decide (s.queue.length ≤ s.waiting)))) :=
  run_done s k

/-- `close()` as written (`_closed = True; asyncio.ensure_future(self._flush_queue())`) is the model's `doClose` -/
theorem src_close_sync (s : Sys) (k : PyChan.Val → Co) : runSync s (SrcChan.close k) = runSync (doClose s) (k .none) :=
  run_close s k

/-- `__aiter__()` as written returns `self` -/
theorem src_aiter (s : Sys) (k : PyChan.Val → Co) : runSync s (SrcChan.aiter k) = runSync s (k .self) :=
  run_aiter s k

/-! ## the tie: `micro` is a segment step of the translated source -/

/-- **A**: one atomic action of the model = one segment step of the translated source (`srcMicro`: the coroutine state
    `frame fl t x` of the task is run by `exec1` — `exec2` when it enters `send_from` —, or CancelledError is thrown
    into it, and `commit` writes the task's new record), for every state, every task with a coherent record, every
    assignment of `receive` / `__anext__` to the receivers -/
theorem src_micro (fl : Nat → Flavour) (s : Sys) (t : Nat) (hcoh : ∀ x, s.tasks[t]? = some x → Coh x) :
    micro s t = srcMicro fl s t :=
  micro_eq_srcMicro fl s t hcoh

/-- **B**: the program point at which that step of the coroutine stopped is the `frame` of the record `commit` writes
    (suspended: the `await` node; at a loop head: the loop with what is left) -/
theorem src_stop (fl : Nat → Flavour) (s : Sys) (t : Nat) (x : Task) (r : Sys × Stop) (hC : Coh x)
    (h : srcExec fl s t x = some r) :
    match r.2 with
    | .suspended g c => c = SrcTieChan.frame fl t { x with wait := .blocked g .pending, code := inPut x.code }
    | .atHead c => c = SrcTieChan.frame fl t { x with wait := .ready, code := nextCode s x.code }
    | _ => True :=
  stop_frame fl s t x r hC h

/-- coherence holds in every reachable state -/
theorem reachable_coh (maxsize : Nat) (progs : List Prog) (cs : List Choice) (t : Nat) (x : Task)
    (hx : (reach maxsize progs cs).tasks[t]? = some x) : Coh x :=
  coh_of_tinv (reachable_tinv maxsize progs cs) hx

/-- the runs of the model ARE the runs of the translated source: every scheduler step runs the chosen task's coroutine
    segment by segment until it is suspended or finished -/
theorem src_run_eq (fl : Nat → Flavour) (maxsize : Nat) (progs : List Prog) (cs : List Choice) :
    srcRun fl (init maxsize progs) cs = reach maxsize progs cs :=
  (run_eq fl (init_tinv maxsize progs) cs).symm

/-! ## the step of a task that calls a method, method by method -/

theorem coh_ready {x : Task} (hw : x.wait = .ready) : Coh x := by
  constructor <;> intro h <;> rw [hw] at h <;> cases h

/-- `receive()` as written: the action of a ready receiver task that calls it -/
theorem src_receive (s : Sys) (t : Nat) (x : Task) (tm : Bool) (hx : s.tasks[t]? = some x) (hw : x.wait = .ready)
    (hm : x.mustCancel = false) (hc : x.code = .receiver tm) :
    micro s t = Cm s t x (exec1 t s SrcChan.receive) := by
  rw [micro_eq_srcMicro (fun _ => .receive) s t (fun y hy => by rw [hx] at hy; cases hy; exact coh_ready hw)]
  simp only [srcMicro, hx, srcExec, hw, hm, hc, SrcTieChan.frame, frameReady, recvCo, Bool.false_eq_true, if_false]

/-- `__anext__()` as written: the action of a ready receiver task that iterates (`async for`) -/
theorem src_anext (s : Sys) (t : Nat) (x : Task) (tm : Bool) (hx : s.tasks[t]? = some x) (hw : x.wait = .ready)
    (hm : x.mustCancel = false) (hc : x.code = .receiver tm) :
    micro s t = Cm s t x (exec1 t s SrcChan.anext) := by
  rw [micro_eq_srcMicro (fun _ => .anext) s t (fun y hy => by rw [hx] at hy; cases hy; exact coh_ready hw)]
  simp only [srcMicro, hx, srcExec, hw, hm, hc, SrcTieChan.frame, frameReady, recvCo, Bool.false_eq_true, if_false]

/-- `receive` / `__anext__` as written reach their `await self._queue.get()` (the node `atGet`) exactly when the
    channel is not done, having incremented `_waiting_receivers`; otherwise they raise ChannelDone / StopAsyncIteration -/
theorem src_receive_prefix (f : Flavour) (s : Sys) :
    runSync s (recvCo f) =
      if (s.closed && decide (s.queue.length ≤ s.waiting)) = true then (s, .raise (doneExc f))
      else ({ s with waiting := s.waiting + 1 }, atGet f) :=
  run_recv f s

/-- a receiver woken inside `get()` (by a `put_nowait`, a flush sentinel, or a cancelled neighbour passing the wake-up
    on): `while self.empty()` again, then `get_nowait`, `task_done()`, the sentinel test, `finally` -/
theorem src_receive_resumed (fl : Nat → Flavour) (s : Sys) (t : Nat) (x : Task) (tm : Bool)
    (hx : s.tasks[t]? = some x) (hw : x.wait = .blocked true .woken) (hm : x.mustCancel = false)
    (hc : x.code = .receiver tm) :
    micro s t = Cm s t x (exec1 t s (atGet (fl t))) := by
  have hC : Coh x := ⟨fun _ => by simp [hc, Code.isReceiver], fun h => by rw [hw] at h; cases h⟩
  rw [micro_eq_srcMicro fl s t (fun y hy => by rw [hx] at hy; cases hy; exact hC)]
  simp only [srcMicro, hx, srcExec, hw, hm, hc, SrcTieChan.frame, frameBlocked, Bool.false_eq_true, if_false]

/-- a receiver cancelled / timed out inside `get()`: CancelledError is thrown in at the `await`; the `except:` clause
    of `Queue.get`, then the exception continuation of the translated `await` (the `finally` block, re-raise) -/
theorem src_receive_cancelled (fl : Nat → Flavour) (s : Sys) (t : Nat) (x : Task) (tm : Bool)
    (hx : s.tasks[t]? = some x) (hw : x.wait = .blocked true .cancelled) (hc : x.code = .receiver tm) :
    micro s t = Cm s t x (throwIn t s true .cancelled (atGet (fl t))) := by
  have hC : Coh x := ⟨fun _ => by simp [hc, Code.isReceiver], fun h => by rw [hw] at h; cases h⟩
  rw [micro_eq_srcMicro fl s t (fun y hy => by rw [hx] at hy; cases hy; exact hC)]
  simp only [srcMicro, hx, srcExec, hw, hc, SrcTieChan.frame, frameBlocked]

/-- `send(item)` as written: the action of a sender task that sends item by item and has items left -/
theorem src_send (s : Sys) (t : Nat) (x : Task) (nx r : Nat) (cl : Bool) (hx : s.tasks[t]? = some x)
    (hw : x.wait = .ready) (hm : x.mustCancel = false) (hc : x.code = .sender .each nx (r + 1) cl) :
    micro s t = Cm s t x (exec1 t s (SrcChan.send (.data t nx))) := by
  rw [micro_eq_srcMicro (fun _ => .receive) s t (fun y hy => by rw [hx] at hy; cases hy; exact coh_ready hw)]
  simp only [srcMicro, hx, srcExec, hw, hm, hc, SrcTieChan.frame, frameReady, Bool.false_eq_true, if_false]

/-- `send_from(source, close)` as written (the synchronous-iterable branch): the action of a task that enters it
    (`_closed` test, first loop head, first `put`: two segments) -/
theorem src_send_from (s : Sys) (t : Nat) (x : Task) (nx r : Nat) (cl : Bool) (hx : s.tasks[t]? = some x)
    (hw : x.wait = .ready) (hm : x.mustCancel = false) (hc : x.code = .sender .fromStart nx r cl) :
    micro s t = Cm s t x (exec2 t s (SrcChan.send_from (items t nx r) cl)) := by
  rw [micro_eq_srcMicro (fun _ => .receive) s t (fun y hy => by rw [hx] at hy; cases hy; exact coh_ready hw)]
  simp only [srcMicro, hx, srcExec, hw, hm, hc, SrcTieChan.frame, frameReady, Bool.false_eq_true, if_false]

/-- … and the action of a task at the loop head of `send_from` (one iteration: `await self._queue.put(item)`; after the
    last item `if close: self.close()`, `return self`) -/
theorem src_send_from_loop (s : Sys) (t : Nat) (x : Task) (nx r : Nat) (cl : Bool) (hx : s.tasks[t]? = some x)
    (hw : x.wait = .ready) (hm : x.mustCancel = false) (hc : x.code = .sender .fromRunning nx r cl) :
    micro s t = Cm s t x (exec1 t s (SrcChan.send_from_for1 (sendFromTail cl) (items t nx r))) := by
  rw [micro_eq_srcMicro (fun _ => .receive) s t (fun y hy => by rw [hx] at hy; cases hy; exact coh_ready hw)]
  simp only [srcMicro, hx, srcExec, hw, hm, hc, SrcTieChan.frame, frameReady, Bool.false_eq_true, if_false]

/-- `sendFromTail` is what the source has after the loop of `send_from`: entering `send_from` on an open channel
    reaches exactly the loop `send_from_for1 (sendFromTail close) source` -/
theorem src_send_from_prefix (s : Sys) (xs : List Item) (cl : Bool) :
    runSync s (SrcChan.send_from xs cl) =
      if s.closed = true then (s, .raise .channelClosed) else (s, SrcChan.send_from_for1 (sendFromTail cl) xs) :=
  run_send_from s xs cl

/-- `close()` as written: the action of a closer task -/
theorem src_close (s : Sys) (t : Nat) (x : Task) (hx : s.tasks[t]? = some x) (hw : x.wait = .ready)
    (hm : x.mustCancel = false) (hc : x.code = .closer) :
    micro s t = Cm s t x (exec1 t s (SrcChan.close fun _ => .ret .none)) := by
  rw [micro_eq_srcMicro (fun _ => .receive) s t (fun y hy => by rw [hx] at hy; cases hy; exact coh_ready hw)]
  simp only [srcMicro, hx, srcExec, hw, hm, hc, SrcTieChan.frame, frameReady, Bool.false_eq_true, if_false]

/-- `_flush_queue()` as written: the first action of the task `close()` spawned (up to the head of the loop) -/
theorem src_flush_queue (s : Sys) (t : Nat) (x : Task) (hx : s.tasks[t]? = some x) (hw : x.wait = .ready)
    (hm : x.mustCancel = false) (hc : x.code = .flusher none) :
    micro s t = Cm s t x (exec1 t s SrcChan._flush_queue) := by
  rw [micro_eq_srcMicro (fun _ => .receive) s t (fun y hy => by rw [hx] at hy; cases hy; exact coh_ready hw)]
  simp only [srcMicro, hx, srcExec, hw, hm, hc, SrcTieChan.frame, frameReady, Bool.false_eq_true, if_false]

/-- … and one iteration of its loop (`await self._queue.put(self.__flush)`), `r` sentinels still to put -/
theorem src_flush_queue_loop (s : Sys) (t : Nat) (x : Task) (r : Nat) (hx : s.tasks[t]? = some x)
    (hw : x.wait = .ready) (hm : x.mustCancel = false) (hc : x.code = .flusher (some r)) :
    micro s t = Cm s t x (exec1 t s (SrcChan._flush_queue_for1 (.ret .none) r)) := by
  rw [micro_eq_srcMicro (fun _ => .receive) s t (fun y hy => by rw [hx] at hy; cases hy; exact coh_ready hw)]
  simp only [srcMicro, hx, srcExec, hw, hm, hc, SrcTieChan.frame, frameReady, Bool.false_eq_true, if_false]

/-! ## sentences of C12 about the source as written -/

/-- **flush arithmetic**: the first `_flush_queue` as written sets `_flushed` and goes on to put exactly
    `deadlocked_receivers = max(0, _waiting_receivers − qsize())` sentinels -/
theorem src_flush_arith (s : Sys) (hf : s.flushed = false) :
    runSync s SrcChan._flush_queue =
      ({ s with flushed := true }, SrcChan._flush_queue_for1 (.ret .none) (s.waiting - s.queue.length)) := by
  rw [run_flush, if_neg (by simp [hf])]

/-- the loop puts one sentinel per iteration, nothing else: `n + 1` left = a loop head, `await put(__flush)`, `n` left -/
theorem src_flush_loop (k : Co) (n : Nat) :
    SrcChan._flush_queue_for1 k (n + 1) = .iter (.awaitPut Item.flush (SrcChan._flush_queue_for1 k n) Co.raise) ∧
    SrcChan._flush_queue_for1 k 0 = .iter k :=
  ⟨rfl, rfl⟩

/-- **one-shot `_flushed`**: a `_flush_queue` that finds `_flushed` set returns without touching anything -/
theorem src_flush_once (s : Sys) (hf : s.flushed = true) : runSync s SrcChan._flush_queue = (s, .ret .none) := by
  rw [run_flush, if_pos hf]

/-- **`_waiting_receivers` is decremented on every exit path of `receive` / `__anext__`** after the `await get()`:
    a data item (normal return), the sentinel (None / StopAsyncIteration), `task_done()` raising, and an exception
    raised by the `get()` itself (cancellation; a timeout of `wait_for` arrives as CancelledError too) — and on each of
    them the method is left (`ret` / `raise`), with nothing else of the channel changed but `_unfinished_tasks` -/
theorem src_receive_exits (f : Flavour) (S : Sys) :
    (∀ it, (runSync S (getK f it)).1 =
             { S with waiting := S.waiting - 1, unfinished := (if S.unfinished = 0 then 0 else S.unfinished - 1) } ∧
           (runSync S (getK f it)).2 =
             (if S.unfinished = 0 then .raise .valueError
              else match it with
                | .flush => (match f with | .receive => .ret .none | .anext => .raise .stopAsyncIteration)
                | .data a b => .ret (.item (.data a b)))) ∧
    (∀ e, runSync S (getH e) = ({ S with waiting := S.waiting - 1 }, .raise e)) := by
  constructor
  · intro it
    cases f <;> cases it <;> by_cases hu : S.unfinished = 0 <;>
      simp [getK, runSync, recvFin, isFlush, hu, toNat_pred]
  · intro e
    simp [getH, runSync, recvFin, toNat_pred]

/-- **`task_done()` is called only after a successful `get()`** (the D06 sentence): when the awaited `get()` raises
    (CancelledError of a cancellation or a timeout), `receive` / `__anext__` as written re-raise THAT exception with
    `_unfinished_tasks` untouched — `task_done()` is not on that path — and only `_waiting_receivers` decremented -/
theorem src_task_done_only_after_get (f : Flavour) (s : Sys) (e : Exc) :
    ∃ k, (runSync { s with waiting := s.waiting + 1 } (atGet f)).2 = .awaitGet k getH ∧
      runSync s (getH e) = ({ s with waiting := s.waiting - 1 }, .raise e) ∧
      (runSync s (getH e)).1.unfinished = s.unfinished := by
  refine ⟨getK f, rfl, ?_, ?_⟩ <;> simp [getH, runSync, recvFin, toNat_pred]

/-- **a `send` after `close()` raises ChannelClosed before any `put`**: `send` as written on a closed channel
    raises with the state untouched -/
theorem src_send_after_close (s : Sys) (it : Item) (hc : s.closed = true) :
    runSync s (SrcChan.send it) = (s, .raise .channelClosed) := by
  rw [run_send, if_pos hc]

/-- … and so does `send_from` as written, whatever the source and `close` -/
theorem src_send_from_after_close (s : Sys) (xs : List Item) (cl : Bool) (hc : s.closed = true) :
    runSync s (SrcChan.send_from xs cl) = (s, .raise .channelClosed) := by
  rw [run_send_from, if_pos hc]

/-- … hence a sender task that starts a `send` / enters `send_from` on a closed channel ends with ChannelClosed -/
theorem src_sender_after_close (fl : Nat → Flavour) (s : Sys) (t : Nat) (x : Task) (m : SMode) (nx r : Nat) (cl : Bool)
    (hx : s.tasks[t]? = some x) (hw : x.wait = .ready) (hm : x.mustCancel = false)
    (hc : x.code = .sender m nx r cl) (hstart : (m = .each ∧ 0 < r) ∨ m = .fromStart) (hcl : s.closed = true) :
    srcMicro fl s t = finish s t x .chanClosed := by
  rw [← micro_eq_srcMicro fl s t (fun y hy => by rw [hx] at hy; cases hy; exact coh_ready hw)]
  exact send_after_close_raises s t x m nx r cl hx hw hm hc hstart hcl

/-- the translated text stores `_waiting_receivers - 1` as an `Int` truncated at 0; on every reachable state the
    truncation never happens: a task inside `get()` is counted in `_waiting_receivers` -/
theorem src_waiting_positive_inside_get (maxsize : Nat) (progs : List Prog) (cs : List Choice) (t : Nat) (x : Task)
    (hx : (reach maxsize progs cs).tasks[t]? = some x) (hg : x.wait.inGet = true) :
    1 ≤ (reach maxsize progs cs).waiting := by
  rw [waiting_eq]
  have := tsum_ge (f := mInGet) hx
  simp only [mInGet, hg, if_true] at this
  exact this

/-! ## the theorems of C12, about the runs of the source as written -/

/-- **nothing invented, nothing lost, global FIFO**, of the translated source -/
theorem src_exactly_once (fl : Nat → Flavour) (maxsize : Nat) (progs : List Prog) (cs : List Choice) :
    received (srcRun fl (init maxsize progs) cs) ++ queuedData (srcRun fl (init maxsize progs) cs) =
      (srcRun fl (init maxsize progs) cs).putLog := by
  rw [src_run_eq]; exact exactly_once maxsize progs cs

/-- **per-sender FIFO**, of the translated source -/
theorem src_fifo_per_sender (fl : Nat → Flavour) (maxsize : Nat) (progs : List Prog) (cs : List Choice) :
    (received (srcRun fl (init maxsize progs) cs)).Pairwise SendOrd := by
  rw [src_run_eq]; exact fifo_per_sender maxsize progs cs

/-- **flush arithmetic, globally**: once `_flush_queue` has run, every receiver inside `get()` is covered by a buffered
    item or by a sentinel still to be put -/
theorem src_flush_cover (fl : Nat → Flavour) (maxsize : Nat) (progs : List Prog) (cs : List Choice) :
    (srcRun fl (init maxsize progs) cs).flushed = true →
      (srcRun fl (init maxsize progs) cs).waiting ≤
        (srcRun fl (init maxsize progs) cs).queue.length + tsum mOwed (srcRun fl (init maxsize progs) cs).tasks := by
  rw [src_run_eq]; exact flush_cover maxsize progs cs

/-- **no stranded receiver**, of the translated source: in a quiescent state of a closed channel no task is inside
    `get()` -/
theorem src_no_blocked_receiver (fl : Nat → Flavour) (maxsize : Nat) (progs : List Prog) (cs : List Choice)
    (hq : quiescent (srcRun fl (init maxsize progs) cs) = true) (hc : (srcRun fl (init maxsize progs) cs).closed = true) :
    (srcRun fl (init maxsize progs) cs).waiting = 0 ∧
    ∀ (t : Nat) (x : Task), (srcRun fl (init maxsize progs) cs).tasks[t]? = some x → x.wait.inGet = false := by
  rw [src_run_eq] at hq hc ⊢; exact quiescent_closed_no_blocked_receiver maxsize progs cs hq hc

/-- **every schedule of the translated source is finite**: an enabled scheduler choice strictly decreases the measure
    when the step is made by the translated source (so at most `schedBound progs` choices, `schedules_bounded_explicit`) -/
theorem src_step_decreases (fl : Nat → Flavour) (maxsize : Nat) (progs : List Prog) (cs : List Choice) (c : Choice)
    (he : enabled (srcRun fl (init maxsize progs) cs) c = true) :
    mu (srcStep fl (srcRun fl (init maxsize progs) cs) c) < mu (srcRun fl (init maxsize progs) cs) := by
  rw [src_run_eq] at he ⊢
  rw [← step_eq fl (reachable_tinv maxsize progs cs) c]
  exact reachable_step_decreases maxsize progs cs c he

/-! ## non-vacuity -/

/-- the translated source, run: one sender (`send` × 2), one receiver using `receive()`, a closer — the receiver blocks,
    is flushed awake and everything is delivered -/
example : (srcRun (fun _ => .receive) (init 0 [.sender false 2 false, .receiver false, .closer])
    [.run 1, .run 0, .run 2, .run 3, .run 1]).recvLog = [(1, .data 0 0), (1, .data 0 1)] := by decide

/-- the same with `send_from` and `async for`, on a bounded buffer -/
example : (srcRun (fun _ => .anext) (init 1 [.sender true 2 true, .receiver false])
    [.run 0, .run 1, .run 0, .run 1, .run 0, .run 2, .run 1]).recvLog = [(1, .data 0 0), (1, .data 0 1)] := by decide

/-- the hypotheses of `src_receive_cancelled` are satisfiable: the D06 schedule (a woken-then-cancelled receiver hands
    its item on), run with the translated source -/
example : (srcRun (fun _ => .receive) (init 0 [.sender false 1 false, .receiver false, .receiver false, .canceller 1])
    [.run 1, .run 2, .run 0, .run 3, .run 1, .run 2]).recvLog = [(2, .data 0 0)] := by decide

/-- `Coh` is needed: on an (unreachable) state in which a SENDER is recorded as cancelled inside `get()`, the model
    decrements `_waiting_receivers`, the source of `send` has no such `finally` -/
example : (micro { maxsize := 0, waiting := 1, tasks := [{ code := .sender .each 0 1 false, wait := .blocked true .cancelled }] } 0).waiting
    ≠ (srcMicro (fun _ => .receive)
        { maxsize := 0, waiting := 1, tasks := [{ code := .sender .each 0 1 false, wait := .blocked true .cancelled }] } 0).waiting := by
  decide

end Bp.C12
