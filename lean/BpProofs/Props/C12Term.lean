import BpModel.All
import BpProofs.ChanTerm
import BpProofs.Props.C12
/-
  C12 — AsyncChannel: **termination of every schedule, without a fairness assumption**.
  Only property statements live here; the measure `mu`, the extra invariant `PutOk` and the
  per-action decrease are in BpProofs/ChanTerm.lean.

  Props/C12.lean states liveness as safety ("in a quiescent state of a closed channel no receiver
  is blocked") and leaves "a quiescent state is eventually reached" to the fairness of the event
  loop.  The theorems below remove that caveat for the model: there is NO infinite sequence of
  enabled scheduler choices (ready handle runs, `wait_for` timer firings).  Every program is
  finite, a wake-up is consumed by the task it wakes, a spurious wake-up is paid for by the `put` /
  `get` / cancellation that caused it, every timer fires at most once and every `close()` spawns
  one finite `_flush_queue` task.  So whatever the scheduler picks, after at most
  `schedBound progs` choices no choice is enabled any more; in particular every way of running
  ready handles reaches a quiescent state, to which `quiescent_closed_no_blocked_receiver`
  applies.

  `mu s` = Σ over live tasks (1 if it holds a ready handle + 1 if `_must_cancel` + 4 per item still
  to put + 3 for a future `close()` + 2 for a future `cancel()` + 2 for an unfired timer + 1 for an
  unstarted flusher) + 2·qsize + (4 per live receiver while the channel is not flushed).
-/
namespace Bp.C12
open Bp.Chan

/-- the hypothesis of the termination theorems (the invariant `Inv` of C12 plus "only a task with
    something left to put is ever suspended inside `Queue.put()`") holds in every reachable state -/
theorem reachable_tinv (maxsize : Nat) (progs : List Prog) (cs : List Choice) : TInv (reach maxsize progs cs) :=
  run_tinv (init_tinv maxsize progs) cs

/-- **every enabled scheduler choice strictly decreases the measure** in a reachable state:
    running the ready handle of a task (all its atomic actions until it suspends or finishes) as
    well as firing a live `wait_for` timer -/
theorem step_decreases {s : Sys} {c : Choice} (h : TInv s) (he : enabled s c = true) : mu (step s c) < mu s :=
  step_term h he

/-- the same for the states of a run: whatever was scheduled before (`cs`, valid or not), the next
    enabled choice decreases the measure -/
theorem reachable_step_decreases (maxsize : Nat) (progs : List Prog) (cs : List Choice) (c : Choice)
    (he : enabled (reach maxsize progs cs) c = true) :
    mu (step (reach maxsize progs cs) c) < mu (reach maxsize progs cs) :=
  step_term (reachable_tinv maxsize progs cs) he

/-- the measure of the initial state is an explicit function of the configuration:
    `1 + 4n (+3 with close)` per sender of `n` items, 7 per receiver, 4 per closer, 3 per canceller;
    it does not depend on the buffer limit -/
theorem bound_explicit (maxsize : Nat) (progs : List Prog) : mu (init maxsize progs) = schedBound progs :=
  mu_init maxsize progs

/-- **every schedule of enabled choices is finite, with an explicit bound**: a schedule in which
    every choice is enabled when it is taken (`validSched`) has at most `mu (init …)` choices -/
theorem schedules_bounded (maxsize : Nat) (progs : List Prog) (cs : List Choice)
    (hv : validSched (init maxsize progs) cs = true) : cs.length ≤ mu (init maxsize progs) := by
  have := sched_term (init_tinv maxsize progs) cs hv
  omega

/-- … and the bound written out -/
theorem schedules_bounded_explicit (maxsize : Nat) (progs : List Prog) (cs : List Choice)
    (hv : validSched (init maxsize progs) cs = true) : cs.length ≤ schedBound progs := by
  rw [← mu_init maxsize progs]; exact schedules_bounded maxsize progs cs hv

/-- **no infinite schedule**: of every infinite sequence of choices some finite prefix contains a
    choice that is not enabled when taken — no scheduler, fair or unfair, keeps the system busy forever -/
theorem no_infinite_schedule (maxsize : Nat) (progs : List Prog) (f : Nat → Choice) :
    ∃ n, validSched (init maxsize progs) ((List.range n).map f) = false := by
  refine ⟨schedBound progs + 1, ?_⟩
  cases hv : validSched (init maxsize progs) ((List.range (schedBound progs + 1)).map f)
  · rfl
  · have := schedules_bounded_explicit maxsize progs _ hv
    simp only [List.length_map, List.length_range] at this
    omega

/-- **every maximal schedule is quiescent**: a valid schedule that cannot be extended by running a
    ready handle (live timers may remain: a timeout need not ever fire) has reached a quiescent state -/
theorem maximal_schedule_quiescent (maxsize : Nat) (progs : List Prog) (cs : List Choice)
    (hmax : ∀ t, validSched (init maxsize progs) (cs ++ [.run t]) = false)
    (hv : validSched (init maxsize progs) cs = true) :
    quiescent (reach maxsize progs cs) = true := by
  cases hq : quiescent (reach maxsize progs cs)
  · obtain ⟨t, ht⟩ := not_quiescent hq
    have := hmax t
    rw [validSched_append, hv] at this
    simp only [validSched, enabled, Bool.and_true, Bool.true_and] at this
    rw [ht] at this
    cases this
  · rfl

/-- **every schedule can be run to quiescence in boundedly many steps**: every valid schedule `cs`
    has a valid extension `cs ++ cs'`, of total length ≤ the bound, that ends in a quiescent state.
    (By `schedules_bounded` and `maximal_schedule_quiescent` ANY way of extending `cs` by ready
    handles until none is left is such an extension; no choice of the scheduler can avoid it.) -/
theorem run_to_quiescence (maxsize : Nat) (progs : List Prog) (cs : List Choice)
    (hv : validSched (init maxsize progs) cs = true) :
    ∃ cs', validSched (init maxsize progs) (cs ++ cs') = true ∧ (cs ++ cs').length ≤ schedBound progs ∧
      quiescent (reach maxsize progs (cs ++ cs')) = true := by
  obtain ⟨cs', hv', hq⟩ := exists_quiescent (reachable_tinv maxsize progs cs)
  have hval : validSched (init maxsize progs) (cs ++ cs') = true := by
    rw [validSched_append, hv]; exact hv'
  refine ⟨cs', hval, schedules_bounded_explicit maxsize progs _ hval, ?_⟩
  show quiescent (run (init maxsize progs) (cs ++ cs')) = true
  rw [run_append]; exact hq

/-- **no stranded receiver, without fairness**: every maximal valid schedule has at most
    `schedBound progs` choices and ends in a quiescent state in which, if the channel has been
    closed, no receiver is blocked inside `get()` -/
theorem terminates_no_blocked_receiver (maxsize : Nat) (progs : List Prog) (cs : List Choice)
    (hv : validSched (init maxsize progs) cs = true)
    (hmax : ∀ t, validSched (init maxsize progs) (cs ++ [.run t]) = false) :
    cs.length ≤ schedBound progs ∧ quiescent (reach maxsize progs cs) = true ∧
    ((reach maxsize progs cs).closed = true →
      (reach maxsize progs cs).waiting = 0 ∧
      ∀ (t : Nat) (x : Task), (reach maxsize progs cs).tasks[t]? = some x → x.wait.inGet = false) := by
  have hq := maximal_schedule_quiescent maxsize progs cs hmax hv
  exact ⟨schedules_bounded_explicit maxsize progs cs hv, hq,
    fun hc => quiescent_closed_no_blocked_receiver maxsize progs cs hq hc⟩

/-- … and such a maximal schedule is reached from every valid schedule, within the bound -/
theorem eventually_no_blocked_receiver (maxsize : Nat) (progs : List Prog) (cs : List Choice)
    (hv : validSched (init maxsize progs) cs = true) :
    ∃ cs', validSched (init maxsize progs) (cs ++ cs') = true ∧ (cs ++ cs').length ≤ schedBound progs ∧
      quiescent (reach maxsize progs (cs ++ cs')) = true ∧
      ((reach maxsize progs (cs ++ cs')).closed = true →
        (reach maxsize progs (cs ++ cs')).waiting = 0 ∧
        ∀ (t : Nat) (x : Task), (reach maxsize progs (cs ++ cs')).tasks[t]? = some x → x.wait.inGet = false) := by
  obtain ⟨cs', h1, h2, h3⟩ := run_to_quiescence maxsize progs cs hv
  exact ⟨cs', h1, h2, h3, fun hc => quiescent_closed_no_blocked_receiver maxsize progs (cs ++ cs') h3 hc⟩

/-! ### non-vacuity: a sender of 2 items with close (buffer limit 1, so it blocks in `put`), three
    receivers (one with a `wait_for` timer that fires), a canceller of receiver 1 -/

/-- the configuration of the examples -/
def demo : List Prog := [.sender false 2 true, .receiver false, .receiver true, .receiver false, .canceller 1]
/-- receivers 1, 2 block; the sender puts item 0 (waking 1) and blocks on the full buffer; the
    canceller cancels 1 while it is woken (`_must_cancel`); 3 takes item 0 (waking the sender) and
    blocks; 1 ends Cancelled; the timer of 2 fires; the sender puts item 1 (waking 3), finishes and
    closes; 2 ends with Timeout; 3 takes item 1 and finishes (closed and empty); the flusher
    (task 5) finds nobody waiting and finishes -/
def demoSched : List Choice :=
  [.run 1, .run 2, .run 0, .run 4, .run 3, .run 1, .fire 2, .run 0, .run 2, .run 3, .run 5]

example : validSched (init 1 demo) demoSched = true := by decide
example : quiescent (reach 1 demo demoSched) = true := by decide
example : (reach 1 demo demoSched).closed = true := by decide
example : (reach 1 demo demoSched).recvLog = [(3, .data 0 0), (3, .data 0 1)] := by decide
example : (reach 1 demo demoSched).tasks.map Task.out = [.ok, .cancelled, .timeout, .ok, .ok, .ok] := by decide
/-- the bound for this configuration, the length of this schedule, and the measure along it -/
example : schedBound demo = 36 ∧ demoSched.length = 11 ∧ mu (reach 1 demo demoSched) = 0 := by decide
/-- the schedule is maximal: no ready handle is left (the hypothesis of `maximal_schedule_quiescent`) -/
example : ∀ t < 6, validSched (init 1 demo) (demoSched ++ [.run t]) = false := by decide
/-- the measure strictly decreases along the schedule -/
example : (List.range 12).map (fun n => mu (reach 1 demo (demoSched.take n))) =
    [36, 35, 34, 32, 30, 28, 20, 19, 16, 11, 2, 0] := by decide

end Bp.C12
