import BpModel.Importing
import BpProofs.Importing
import BpProofs.ImportingParse
/-
  C13 — Cross-package type references in generated code resolve to the right class.

  Only property statements live here; lemmas are in BpProofs/Importing*.lean.

  Model (BpModel/Importing.lean): `getTypeReference package sourceType unwrap pydantic`
  returns the reference (`Ref`, rendered verbatim as the string the real function returns)
  and the import it adds (`Import`, rendered verbatim).  `Import.bind cur` is the (name,
  object) the statement binds when executed in the module `<root>.<cur>`; `denote cur b ref`
  is what the forward-reference string evaluates to in that module: `(module, class name)`.
  `classOf ty` is the class name the plugin gives the (nested) type `ty`;
  `fullName pkg ty` is protoc's `.pkg.Outer.Inner`.

  Packages are arbitrary lists of segments: any depth, any relative position (same,
  ancestor, descendant, sibling, cousin, the root package `[]`) — there is no bound.

  Guards (decidable, evaluated by the driver: `WF pkgok`, `WF typeok`, `WF simplepkg`):
    pkgOk p    every segment is non-empty, made of identifier characters, without capitals
    typeOk ty  every part of the type name begins with a capital letter
  Both are forced by the regex of parse_source_type_name (D19 outside them).
-/
namespace Bp.C13
open Bp.Casing Bp.Naming Bp.Importing

abbrev str (s : String) : List Char := s.toList

/-- packages given as a dotted string, for readable witnesses -/
abbrev pkg (s : String) : Pkg := splitPkg s.toList

/-- **"For any two proto packages in any relative position … a field, map value, oneof member
    or RPC type that refers to a message, nested message or enum of the other package
    resolves … to exactly the class generated for that type."**
    For ALL package paths `cur`, `tgt` and all (nested) type names: the reference string
    returned for `.tgt.Type` in the module of `cur`, evaluated in that module after its
    import statement has run, is the class `classOf ty` of module `<root>.<tgt>`.
    (`tgt` = google.protobuf is the well-known-type case below; a package called
    `betterproto…` would be taken for the runtime library.) -/
theorem reference_resolves (cur tgt : Pkg) (ty : List Str) (unwrap pydantic : Bool)
    (hc : pkgOk cur = true) (ht : pkgOk tgt = true) (hty : typeOk ty = true)
    (hg : tgt ≠ googleProtobuf) (hb : tgt.take 1 ≠ [str "betterproto"]) :
    let r := getTypeReference (dotted cur) (fullName tgt ty) unwrap pydantic
    denote cur (r.imp.bind cur) r.ref = some (.gen tgt, classOf ty) := by
  have hnw := not_wellknown tgt ty ht hty hg
  have hlook : wrapperTable.lookup (fullName tgt ty) = none := by
    cases h : wrapperTable.lookup (fullName tgt ty) with
    | none => rfl
    | some v =>
      have hm := lookup_mem h
      have tbl : ∀ kv ∈ wrapperTable, (parseSourceTypeName kv.1).1 = dotted googleProtobuf := by decide
      exact absurd rfl (hnw _ (tbl _ hm))
  have hdur : fullName tgt ty ≠ str ".google.protobuf.Duration" := hnw _ (by decide)
  have hts : fullName tgt ty ≠ str ".google.protobuf.Timestamp" := hnw _ (by decide)
  have hseg : ∀ s ∈ tgt, isClassName s = false ∧ s ≠ [] := by
    simp only [pkgOk, List.all_eq_true] at ht
    exact fun s hs => ⟨segOk_not_class (ht s hs), segOk_ne_nil (ht s hs)⟩
  have hred : redirect cur tgt pydantic = tgt := by simp [redirect, hg]
  have key := refCore_resolves cur tgt (classOf ty) hseg hb (classOf_isClassName ty hty)
  simp only [getTypeReference]
  have e1 : (if unwrap = true then wrapperTable.lookup (fullName tgt ty) else none) = none := by
    cases unwrap <;> simp [hlook]
  rw [e1]
  simp only [hdur, hts, and_false, if_false, parse_fullName tgt ty ht hty, splitPkg_dotted cur hc,
    splitPkg_dotted tgt ht, hred, classOf_eq]
  exact key

/-- **"Well-known types resolve to betterproto's bundled google.protobuf classes."**
    From every package other than google.protobuf itself, a reference to
    `.google.protobuf.<Name>` that is not unwrapped (RPC types; `unwrap = False`) denotes
    the class `<Name>` of the absolute module `betterproto.lib[.pydantic].google.protobuf`. -/
theorem wkt_resolves_to_bundled (cur : Pkg) (name : Str) (pydantic : Bool)
    (hc : pkgOk cur = true) (hcur : cur ≠ googleProtobuf) (hn : tyPartOk name = true) :
    let r := getTypeReference (dotted cur) (fullName googleProtobuf [name]) false pydantic
    denote cur (r.imp.bind cur) r.ref
      = some (.abs ([str "betterproto", str "lib"] ++ (if pydantic then [str "pydantic"] else []) ++ googleProtobuf),
              pythonizeClassName name) := by
  have hgp : pkgOk googleProtobuf = true := by decide
  have hty : typeOk [name] = true := by simp [typeOk, hn]
  have hp := parse_fullName googleProtobuf [name] hgp hty
  have hd : dotted [name] = name := rfl
  simp only [getTypeReference, Bool.false_eq_true, if_false, false_and, hp, splitPkg_dotted cur hc,
    splitPkg_dotted googleProtobuf hgp, hd]
  have hred : redirect cur googleProtobuf pydantic
      = [str "betterproto", str "lib"] ++ (if pydantic then [str "pydantic"] else []) ++ googleProtobuf := by
    unfold redirect
    rw [if_pos ⟨rfl, hcur⟩]
  rw [hred]
  have hcore : ∀ p : Pkg, refCore cur ([str "betterproto", str "lib"] ++ p) (pythonizeClassName name)
      = referenceAbsolute ([str "betterproto", str "lib"] ++ p) (pythonizeClassName name) := by
    intro p
    unfold refCore
    have ht : List.take 1 ([str "betterproto", str "lib"] ++ p) = ["betterproto".toList] := rfl
    rw [if_pos ht]
  rw [List.append_assoc, hcore]
  exact absolute_resolves cur _ _

/-- fields of the unwrapped well-known types are not references at all: Timestamp,
    Duration and the wrappers become `datetime`, `timedelta`, `Optional[<scalar>]` -/
theorem wkt_unwrapped :
    (getTypeReference (str "a.b") (str ".google.protobuf.Timestamp") true false).ref = .builtin (str "datetime") ∧
    (getTypeReference (str "a.b") (str ".google.protobuf.Duration") true false).ref = .builtin (str "timedelta") ∧
    (getTypeReference (str "a.b") (str ".google.protobuf.Int32Value") true false).ref = .builtin (str "Optional[int]") ∧
    (getTypeReference (str "") (str ".google.protobuf.StringValue") true true).ref = .builtin (str "Optional[str]") := by
  decide

/-! ## "also … when many such references coexist in one module"

  FULL STATEMENT (false of the code, D20): two different targets never bind the same name
  in one module:   tgt₁ ≠ tgt₂ → boundName cur (ref cur tgt₁) ≠ boundName cur (ref cur tgt₂).
  Proved: the descendant case under the guard "no segment contains `_`".  The other pairs
  of cases (ancestor / cousin / absolute against each other) are NOT proved; they are
  validated by the check (all ordered pairs of depth ≤ 3 on the real function, and really
  imported all-at-once universes). -/

/-- descendant packages imported into one module get pairwise different names when no
    segment contains an underscore -/
theorem descendant_aliases_injective_partial (cur t1 t2 : Pkg) (ty1 ty2 : Str)
    (h1 : t1.take cur.length = cur) (n1 : t1 ≠ cur) (h2 : t2.take cur.length = cur) (n2 : t2 ≠ cur)
    (s1 : ∀ s ∈ t1, s ≠ [] ∧ '_' ∉ s) (s2 : ∀ s ∈ t2, s ≠ [] ∧ '_' ∉ s)
    (hb : boundName cur (referenceDescendent cur t1 ty1) = boundName cur (referenceDescendent cur t2 ty2)) :
    t1 = t2 := by
  rw [boundName_descendent cur t1 ty1 h1 n1 (fun s hs => (s1 s hs).1),
    boundName_descendent cur t2 ty2 h2 n2 (fun s hs => (s2 s hs).1)] at hb
  have e := Option.some.inj hb
  have d1 : t1.drop cur.length ≠ [] := by
    intro h
    have := List.take_append_drop cur.length t1
    rw [h1, h, List.append_nil] at this
    exact n1 this.symm
  have d2 : t2.drop cur.length ≠ [] := by
    intro h
    have := List.take_append_drop cur.length t2
    rw [h2, h, List.append_nil] at this
    exact n2 this.symm
  have r1 := splitOn_joinWith '_' _ d1 (fun w hw => (s1 w (List.mem_of_mem_drop hw)).2)
  have r2 := splitOn_joinWith '_' _ d2 (fun w hw => (s2 w (List.mem_of_mem_drop hw)).2)
  rw [e, r2] at r1
  have a1 := List.take_append_drop cur.length t1
  have a2 := List.take_append_drop cur.length t2
  rw [h1] at a1
  rw [h2] at a2
  rw [← a1, ← a2, r1]

/-- D20 witnesses (replayed on really generated packages): with an underscore in a segment
    two different packages are bound to one name in the same module — from the root package
    `a.b.c` and `a.b_c` (descendants), from `x` the cousins `d.e` and `d_e`. -/
theorem alias_collision_descendant_witness :
    pkg "a.b.c" ≠ pkg "a.b_c" ∧
    boundName [] (getTypeReference (str "") (str ".a.b.c.Msg") true false)
      = boundName [] (getTypeReference (str "") (str ".a.b_c.Msg") true false) := by decide
theorem alias_collision_cousin_witness :
    pkg "d.e" ≠ pkg "d_e" ∧
    boundName (pkg "x") (getTypeReference (str "x") (str ".d.e.Msg") true false)
      = boundName (pkg "x") (getTypeReference (str "x") (str ".d_e.Msg") true false) := by decide
/-- the same without any underscore: a digit-letter boundary inside a segment
    (`x2y` vs `x2.y`) — `safe_snake_case` splits words there -/
theorem alias_collision_digit_witness :
    pkg "x2y" ≠ pkg "x2.y" ∧
    boundName (pkg "q") (getTypeReference (str "q") (str ".x2y.Msg") true false)
      = boundName (pkg "q") (getTypeReference (str "q") (str ".x2.y.Msg") true false) := by decide

/-! ## D19: outside the guards the reference is wrong -/

/-- package `Cap` (capitalised), message `X`, referenced from the root package: parsed as the
    type `Cap.X` of no package, i.e. a sibling class `CapX` of the current module -/
theorem capitalised_package_witness :
    pkgOk (pkg "Cap") = false ∧
    (let r := getTypeReference (str "") (fullName (pkg "Cap") [str "X"]) true false
     denote [] (r.imp.bind []) r.ref = some (.gen [], str "CapX")) := by decide

/-- message `lower` with nested message `inner` in package `a`, referenced from `a`:
    parsed as type `inner` of the (non-existent) package `a.lower` -/
theorem lower_case_type_witness :
    typeOk [str "lower", str "inner"] = false ∧
    (let r := getTypeReference (str "a") (fullName (pkg "a") [str "lower", str "inner"]) true false
     denote (pkg "a") (r.imp.bind (pkg "a")) r.ref = some (.gen (pkg "a.lower"), str "Inner")) ∧
    classOf [str "lower", str "inner"] = str "LowerInner" := by decide

/-! ## non-vacuity: one instance of every case, with the verbatim strings -/

example : pkgOk (pkg "a.b_c.v1") = true ∧ typeOk [str "Msg", str "Inner"] = true := by decide
example : (getTypeReference (str "a.b") (str ".a.b.Msg") true false).ref.render = str "\"Msg\"" := by decide
example : let r := getTypeReference (str "a") (str ".a.b.c.Msg.Inner") true false
    r.ref.render = str "\"b_c.MsgInner\"" ∧ r.imp.render = str "from .b import c as b_c" := by decide
example : let r := getTypeReference (str "a") (str ".a.b.Msg") true false
    r.ref.render = str "\"b.Msg\"" ∧ r.imp.render = str "from . import b" := by decide
example : let r := getTypeReference (str "a.b") (str ".a.Msg") true false
    r.ref.render = str "\"__a__.Msg\"" ∧ r.imp.render = str "from ... import a as __a__" := by decide
example : let r := getTypeReference (str "a.b") (str ".Msg") true false
    r.ref.render = str "\"__Msg__\"" ∧ r.imp.render = str "from ... import Msg as __Msg__" := by decide
example : let r := getTypeReference (str "a.b") (str ".a.c.d.Msg") true false
    r.ref.render = str "\"_c_d__.Msg\"" ∧ r.imp.render = str "from ..c import d as _c_d__" := by decide
example : let r := getTypeReference (str "a") (str ".google.protobuf.Empty") true false
    r.ref.render = str "\"betterproto_lib_google_protobuf.Empty\"" ∧
    r.imp.render = str "import betterproto.lib.google.protobuf as betterproto_lib_google_protobuf" := by decide

end Bp.C13
