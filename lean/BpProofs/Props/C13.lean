import BpModel.Importing
namespace Bp.C13
open Bp.Importing
theorem placeholder : splitPkg [] = [] := rfl
end Bp.C13
