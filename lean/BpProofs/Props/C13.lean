import BpModel.Importing
import BpProofs.Importing
import BpProofs.ImportingParse
import BpProofs.ImportingAlias
/-
  C13 — Cross-package type references in generated code resolve to the right class.

  Only property statements live here; lemmas are in BpProofs/Importing*.lean.

  Model (BpModel/Importing.lean): `getTypeReference package sourceType unwrap pydantic`
  returns the reference (`Ref`, rendered verbatim as the string the real function returns)
  and the import it adds (`Import`, rendered verbatim).  `Import.bind cur` is the (name,
  object) the statement binds when executed in the module `<root>.<cur>`; `denote cur b ref`
  is what the forward-reference string evaluates to in that module: `(module, class name)`.
  `classOf ty` is the class name the plugin gives the (nested) type `ty`;
  `fullName pkg ty` is protoc's `.pkg.Outer.Inner`.

  Packages are arbitrary lists of segments: any depth, any relative position (same,
  ancestor, descendant, sibling, cousin, the root package `[]`) — there is no bound.

  Guards (decidable, evaluated by the driver: `WF pkgok`, `WF typeok`, `WF simplepkg`):
    pkgOk p    every segment is non-empty, made of identifier characters, without capitals
    typeOk ty  every part of the type name begins with a capital letter
  Both are forced by the regex of parse_source_type_name (D19 outside them).

  "… when many such references coexist in one module" (last part of the file):
  `aliases_injective` — ALL pairs of import kinds (child / descendant / ancestor / root /
  cousin / unrelated / bundled well-known types): two imports of one module that bind the
  same name bind the same object; `alias_determines_package`; `all_at_once` — in the
  namespace built by all the imports of a module every reference denotes the class of ITS
  package.  Guard `Site.ok cur pydantic` (decidable): `simplePkg` target (D20 outside), not a
  package `betterproto…`, and not the one package `<cur>.betterproto.lib[.pydantic].google.protobuf`
  — `alias_collision_bundled_witness`: that descendant and the bundled well-known types get
  the same alias although no segment contains `_` (a collision beyond D20).
-/
namespace Bp.C13
open Bp.Casing Bp.Naming Bp.Importing

abbrev str (s : String) : List Char := s.toList

/-- packages given as a dotted string, for readable witnesses -/
abbrev pkg (s : String) : Pkg := splitPkg s.toList

/-- **"For any two proto packages in any relative position … a field, map value, oneof member
    or RPC type that refers to a message, nested message or enum of the other package
    resolves … to exactly the class generated for that type."**
    For ALL package paths `cur`, `tgt` and all (nested) type names: the reference string
    returned for `.tgt.Type` in the module of `cur`, evaluated in that module after its
    import statement has run, is the class `classOf ty` of module `<root>.<tgt>`.
    (`tgt` = google.protobuf is the well-known-type case below; a package called
    `betterproto…` would be taken for the runtime library.) -/
theorem reference_resolves (cur tgt : Pkg) (ty : List Str) (unwrap pydantic : Bool)
    (hc : pkgOk cur = true) (ht : pkgOk tgt = true) (hty : typeOk ty = true)
    (hg : tgt ≠ googleProtobuf) (hb : tgt.take 1 ≠ [str "betterproto"]) :
    let r := getTypeReference (dotted cur) (fullName tgt ty) unwrap pydantic
    denote cur (r.imp.bind cur) r.ref = some (.gen tgt, classOf ty) := by
  have hnw := not_wellknown tgt ty ht hty hg
  have hlook : wrapperTable.lookup (fullName tgt ty) = none := by
    cases h : wrapperTable.lookup (fullName tgt ty) with
    | none => rfl
    | some v =>
      have hm := lookup_mem h
      have tbl : ∀ kv ∈ wrapperTable, (parseSourceTypeName kv.1).1 = dotted googleProtobuf := by decide
      exact absurd rfl (hnw _ (tbl _ hm))
  have hdur : fullName tgt ty ≠ str ".google.protobuf.Duration" := hnw _ (by decide)
  have hts : fullName tgt ty ≠ str ".google.protobuf.Timestamp" := hnw _ (by decide)
  have hseg : ∀ s ∈ tgt, isClassName s = false ∧ s ≠ [] := by
    simp only [pkgOk, List.all_eq_true] at ht
    exact fun s hs => ⟨segOk_not_class (ht s hs), segOk_ne_nil (ht s hs)⟩
  have hred : redirect cur tgt pydantic = tgt := by simp [redirect, hg]
  have key := refCore_resolves cur tgt (classOf ty) hseg hb (classOf_isClassName ty hty)
  simp only [getTypeReference]
  have e1 : (if unwrap = true then wrapperTable.lookup (fullName tgt ty) else none) = none := by
    cases unwrap <;> simp [hlook]
  rw [e1]
  simp only [hdur, hts, and_false, if_false, parse_fullName tgt ty ht hty, splitPkg_dotted cur hc,
    splitPkg_dotted tgt ht, hred, classOf_eq]
  exact key

/-- **"Well-known types resolve to betterproto's bundled google.protobuf classes."**
    From every package other than google.protobuf itself, a reference to
    `.google.protobuf.<Name>` that is not unwrapped (RPC types; `unwrap = False`) denotes
    the class `<Name>` of the absolute module `betterproto.lib[.pydantic].google.protobuf`. -/
theorem wkt_resolves_to_bundled (cur : Pkg) (name : Str) (pydantic : Bool)
    (hc : pkgOk cur = true) (hcur : cur ≠ googleProtobuf) (hn : tyPartOk name = true) :
    let r := getTypeReference (dotted cur) (fullName googleProtobuf [name]) false pydantic
    denote cur (r.imp.bind cur) r.ref
      = some (.abs ([str "betterproto", str "lib"] ++ (if pydantic then [str "pydantic"] else []) ++ googleProtobuf),
              pythonizeClassName name) := by
  have hgp : pkgOk googleProtobuf = true := by decide
  have hty : typeOk [name] = true := by simp [typeOk, hn]
  have hp := parse_fullName googleProtobuf [name] hgp hty
  have hd : dotted [name] = name := rfl
  simp only [getTypeReference, Bool.false_eq_true, if_false, false_and, hp, splitPkg_dotted cur hc,
    splitPkg_dotted googleProtobuf hgp, hd]
  have hred : redirect cur googleProtobuf pydantic
      = [str "betterproto", str "lib"] ++ (if pydantic then [str "pydantic"] else []) ++ googleProtobuf := by
    unfold redirect
    rw [if_pos ⟨rfl, hcur⟩]
  rw [hred]
  have hcore : ∀ p : Pkg, refCore cur ([str "betterproto", str "lib"] ++ p) (pythonizeClassName name)
      = referenceAbsolute ([str "betterproto", str "lib"] ++ p) (pythonizeClassName name) := by
    intro p
    unfold refCore
    have ht : List.take 1 ([str "betterproto", str "lib"] ++ p) = ["betterproto".toList] := rfl
    rw [if_pos ht]
  rw [List.append_assoc, hcore]
  exact absolute_resolves cur _ _

/-- fields of the unwrapped well-known types are not references at all: Timestamp,
    Duration and the wrappers become `datetime`, `timedelta`, `Optional[<scalar>]` -/
theorem wkt_unwrapped :
    (getTypeReference (str "a.b") (str ".google.protobuf.Timestamp") true false).ref = .builtin (str "datetime") ∧
    (getTypeReference (str "a.b") (str ".google.protobuf.Duration") true false).ref = .builtin (str "timedelta") ∧
    (getTypeReference (str "a.b") (str ".google.protobuf.Int32Value") true false).ref = .builtin (str "Optional[int]") ∧
    (getTypeReference (str "") (str ".google.protobuf.StringValue") true true).ref = .builtin (str "Optional[str]") := by
  decide

/-! ## "also … when many such references coexist in one module"

  FULL STATEMENT (false of the code, D20): two different targets never bind the same name
  in one module:   tgt₁ ≠ tgt₂ → boundName cur (ref cur tgt₁) ≠ boundName cur (ref cur tgt₂).
  First the descendant case under the guard "no segment contains `_`" and the D20 witnesses;
  then (section "all pairs of kinds") the full statement under `Site.ok`. -/

/-- descendant packages imported into one module get pairwise different names when no
    segment contains an underscore -/
theorem descendant_aliases_injective_partial (cur t1 t2 : Pkg) (ty1 ty2 : Str)
    (h1 : t1.take cur.length = cur) (n1 : t1 ≠ cur) (h2 : t2.take cur.length = cur) (n2 : t2 ≠ cur)
    (s1 : ∀ s ∈ t1, s ≠ [] ∧ '_' ∉ s) (s2 : ∀ s ∈ t2, s ≠ [] ∧ '_' ∉ s)
    (hb : boundName cur (referenceDescendent cur t1 ty1) = boundName cur (referenceDescendent cur t2 ty2)) :
    t1 = t2 := by
  rw [boundName_descendent cur t1 ty1 h1 n1 (fun s hs => (s1 s hs).1),
    boundName_descendent cur t2 ty2 h2 n2 (fun s hs => (s2 s hs).1)] at hb
  have e := Option.some.inj hb
  have d1 : t1.drop cur.length ≠ [] := by
    intro h
    have := List.take_append_drop cur.length t1
    rw [h1, h, List.append_nil] at this
    exact n1 this.symm
  have d2 : t2.drop cur.length ≠ [] := by
    intro h
    have := List.take_append_drop cur.length t2
    rw [h2, h, List.append_nil] at this
    exact n2 this.symm
  have r1 := splitOn_joinWith '_' _ d1 (fun w hw => (s1 w (List.mem_of_mem_drop hw)).2)
  have r2 := splitOn_joinWith '_' _ d2 (fun w hw => (s2 w (List.mem_of_mem_drop hw)).2)
  rw [e, r2] at r1
  have a1 := List.take_append_drop cur.length t1
  have a2 := List.take_append_drop cur.length t2
  rw [h1] at a1
  rw [h2] at a2
  rw [← a1, ← a2, r1]

/-- D20 witnesses (replayed on really generated packages): with an underscore in a segment
    two different packages are bound to one name in the same module — from the root package
    `a.b.c` and `a.b_c` (descendants), from `x` the cousins `d.e` and `d_e`. -/
theorem alias_collision_descendant_witness :
    pkg "a.b.c" ≠ pkg "a.b_c" ∧
    boundName [] (getTypeReference (str "") (str ".a.b.c.Msg") true false)
      = boundName [] (getTypeReference (str "") (str ".a.b_c.Msg") true false) := by decide
theorem alias_collision_cousin_witness :
    pkg "d.e" ≠ pkg "d_e" ∧
    boundName (pkg "x") (getTypeReference (str "x") (str ".d.e.Msg") true false)
      = boundName (pkg "x") (getTypeReference (str "x") (str ".d_e.Msg") true false) := by decide
/-- the same without any underscore: a digit-letter boundary inside a segment
    (`x2y` vs `x2.y`) — `safe_snake_case` splits words there -/
theorem alias_collision_digit_witness :
    pkg "x2y" ≠ pkg "x2.y" ∧
    boundName (pkg "q") (getTypeReference (str "q") (str ".x2y.Msg") true false)
      = boundName (pkg "q") (getTypeReference (str "q") (str ".x2.y.Msg") true false) := by decide

/-! ## D19: outside the guards the reference is wrong -/

/-- package `Cap` (capitalised), message `X`, referenced from the root package: parsed as the
    type `Cap.X` of no package, i.e. a sibling class `CapX` of the current module -/
theorem capitalised_package_witness :
    pkgOk (pkg "Cap") = false ∧
    (let r := getTypeReference (str "") (fullName (pkg "Cap") [str "X"]) true false
     denote [] (r.imp.bind []) r.ref = some (.gen [], str "CapX")) := by decide

/-- message `lower` with nested message `inner` in package `a`, referenced from `a`:
    parsed as type `inner` of the (non-existent) package `a.lower` -/
theorem lower_case_type_witness :
    typeOk [str "lower", str "inner"] = false ∧
    (let r := getTypeReference (str "a") (fullName (pkg "a") [str "lower", str "inner"]) true false
     denote (pkg "a") (r.imp.bind (pkg "a")) r.ref = some (.gen (pkg "a.lower"), str "Inner")) ∧
    classOf [str "lower", str "inner"] = str "LowerInner" := by decide

/-! ## non-vacuity: one instance of every case, with the verbatim strings -/

example : pkgOk (pkg "a.b_c.v1") = true ∧ typeOk [str "Msg", str "Inner"] = true := by decide
example : (getTypeReference (str "a.b") (str ".a.b.Msg") true false).ref.render = str "\"Msg\"" := by decide
example : let r := getTypeReference (str "a") (str ".a.b.c.Msg.Inner") true false
    r.ref.render = str "\"b_c.MsgInner\"" ∧ r.imp.render = str "from .b import c as b_c" := by decide
example : let r := getTypeReference (str "a") (str ".a.b.Msg") true false
    r.ref.render = str "\"b.Msg\"" ∧ r.imp.render = str "from . import b" := by decide
example : let r := getTypeReference (str "a.b") (str ".a.Msg") true false
    r.ref.render = str "\"__a__.Msg\"" ∧ r.imp.render = str "from ... import a as __a__" := by decide
example : let r := getTypeReference (str "a.b") (str ".Msg") true false
    r.ref.render = str "\"__Msg__\"" ∧ r.imp.render = str "from ... import Msg as __Msg__" := by decide
example : let r := getTypeReference (str "a.b") (str ".a.c.d.Msg") true false
    r.ref.render = str "\"_c_d__.Msg\"" ∧ r.imp.render = str "from ..c import d as _c_d__" := by decide
example : let r := getTypeReference (str "a") (str ".google.protobuf.Empty") true false
    r.ref.render = str "\"betterproto_lib_google_protobuf.Empty\"" ∧
    r.imp.render = str "import betterproto.lib.google.protobuf as betterproto_lib_google_protobuf" := by decide

/-! ## all pairs of import kinds, and all the references of a module at once

  Alias algebra (BpProofs/ImportingAlias.lean).  Every name an import binds in module `cur` is
    `enc k ws` = `_`·k ++ "_".join(ws) ++ (`__` if k > 0)   bound to a MODULE:
        child / descendant   k = 0,            ws = tgt[len(cur):]
        ancestor (not root)  k = len(cur)-len(tgt)+1, ws = [tgt[-1]]
        cousin / unrelated   k = len(cur)-len(shared), ws = tgt[len(shared):]
        bundled google.protobuf   k = 0,       ws = betterproto.lib[.pydantic].google.protobuf (absolute)
    or `_`·len(cur) ++ ClassName ++ `__`   bound to a CLASS of the root package.
  With simple segments the name determines `(k, ws)` (`enc_inj`: count the leading
  underscores, split the rest at `_`), a class name is told from a segment by its first
  character, and `(k, ws)` determines the generated package: `cur[:len(cur)-k] ++ ws`
  in all three relative kinds. -/

/-- **alias injectivity for ALL pairs of kinds.**  Two references made in the module of
    package `cur` — to types of packages in ANY relative position: child, deeper descendant,
    ancestor, the root package, cousin, unrelated, google.protobuf — whose imports bind the
    same name bind the same object. -/
theorem aliases_injective (cur : Pkg) (pydantic : Bool) (s1 s2 : Site) (hc : pkgOk cur = true)
    (h1 : s1.ok cur pydantic = true) (h2 : s2.ok cur pydantic = true)
    (a : Str) (o1 o2 : Obj)
    (b1 : (siteRef cur pydantic s1).imp.bind cur = some (a, o1))
    (b2 : (siteRef cur pydantic s2).imp.bind cur = some (a, o2)) : o1 = o2 := by
  obtain ⟨p1, p2, p3, p4⟩ := Site.ok_parts h1
  obtain ⟨q1, q2, q3, q4⟩ := Site.ok_parts h2
  have f1 := (typeRef_form cur s1.tgt s1.ty s1.unwrap pydantic hc p1 p2 p3 p4 _ b1).1
  have f2 := (typeRef_form cur s2.tgt s2.ty s2.unwrap pydantic hc q1 q2 q3 q4 _ b2).1
  have := form_inj cur pydantic _ _ f1 f2 rfl
  injection this

/-- the object a reference's import binds determines the package (and, for the root package,
    the class) -/
theorem objOf_inj (cur : Pkg) (pydantic : Bool) (t1 t2 : Pkg) (ty1 ty2 : List Str)
    (h : (if t1 = googleProtobuf ∧ cur ≠ googleProtobuf then Obj.module (.abs (bundled pydantic))
          else if t1 = [] then .cls (.gen []) (classOf ty1) else .module (.gen t1))
       = (if t2 = googleProtobuf ∧ cur ≠ googleProtobuf then Obj.module (.abs (bundled pydantic))
          else if t2 = [] then .cls (.gen []) (classOf ty2) else .module (.gen t2))) :
    t1 = t2 ∧ (t1 = [] → classOf ty1 = classOf ty2) := by
  have hgp : googleProtobuf ≠ ([] : Pkg) := by decide
  by_cases c1 : t1 = googleProtobuf ∧ cur ≠ googleProtobuf
  · rw [if_pos c1] at h
    by_cases c2 : t2 = googleProtobuf ∧ cur ≠ googleProtobuf
    · exact ⟨by rw [c1.1, c2.1], fun e => absurd (c1.1 ▸ e) hgp⟩
    · rw [if_neg c2] at h
      by_cases d2 : t2 = []
      · rw [if_pos d2] at h; cases h
      · rw [if_neg d2] at h; injection h with h; cases h
  · rw [if_neg c1] at h
    by_cases c2 : t2 = googleProtobuf ∧ cur ≠ googleProtobuf
    · rw [if_pos c2] at h
      by_cases d1 : t1 = []
      · rw [if_pos d1] at h; cases h
      · rw [if_neg d1] at h; injection h with h; cases h
    · rw [if_neg c2] at h
      by_cases d1 : t1 = [] <;> by_cases d2 : t2 = []
      · rw [if_pos d1, if_pos d2] at h
        injection h with _ h
        exact ⟨by rw [d1, d2], fun _ => h⟩
      · rw [if_pos d1, if_neg d2] at h; cases h
      · rw [if_neg d1, if_pos d2] at h; cases h
      · rw [if_neg d1, if_neg d2] at h
        injection h with h; injection h with h
        exact ⟨h, fun e => absurd e d1⟩

/-- … hence **two different target packages never get the same alias / bound name** (for the
    root package, whose classes are imported one by one: two different classes never do);
    google.protobuf, which is redirected to the bundled library, is told from all generated
    packages too -/
theorem alias_determines_package (cur : Pkg) (pydantic : Bool) (s1 s2 : Site) (hc : pkgOk cur = true)
    (h1 : s1.ok cur pydantic = true) (h2 : s2.ok cur pydantic = true)
    (hb : boundName cur (siteRef cur pydantic s1) = boundName cur (siteRef cur pydantic s2))
    (hsome : boundName cur (siteRef cur pydantic s1) ≠ none) :
    s1.tgt = s2.tgt ∧ (s1.tgt = [] → classOf s1.ty = classOf s2.ty) := by
  obtain ⟨p1, p2, p3, p4⟩ := Site.ok_parts h1
  obtain ⟨q1, q2, q3, q4⟩ := Site.ok_parts h2
  unfold boundName at hb hsome
  cases e1 : (siteRef cur pydantic s1).imp.bind cur with
  | none => rw [e1] at hsome; exact absurd rfl hsome
  | some b1 =>
    cases e2 : (siteRef cur pydantic s2).imp.bind cur with
    | none => rw [e1, e2] at hb; cases hb
    | some b2 =>
      rw [e1, e2] at hb
      simp only [Option.map_some, Option.some.injEq] at hb
      obtain ⟨f1, g1⟩ := typeRef_form cur s1.tgt s1.ty s1.unwrap pydantic hc p1 p2 p3 p4 _ e1
      obtain ⟨f2, g2⟩ := typeRef_form cur s2.tgt s2.ty s2.unwrap pydantic hc q1 q2 q3 q4 _ e2
      have := form_inj cur pydantic _ _ f1 f2 hb
      subst this
      rw [g1] at g2
      exact objOf_inj cur pydantic s1.tgt s2.tgt s1.ty s2.ty g2

/-- **all kinds coexisting**: in the namespace built by ALL the import statements of the
    module of `cur` (executed in any order: `sites` is an arbitrary list, the last binding of a
    name wins), every reference to a type of a generated package denotes the class generated
    for that type in ITS package -/
theorem all_at_once (cur : Pkg) (pydantic : Bool) (sites : List Site) (hc : pkgOk cur = true)
    (hok : ∀ s ∈ sites, s.ok cur pydantic = true) (s : Site) (hs : s ∈ sites) (hg : s.tgt ≠ googleProtobuf) :
    denoteNs cur (moduleNs cur pydantic sites) (siteRef cur pydantic s).ref = some (.gen s.tgt, classOf s.ty) := by
  obtain ⟨p1, p2, -, p4⟩ := Site.ok_parts (hok s hs)
  rw [denoteNs_eq_denote cur pydantic sites hc hok s hs]
  exact reference_resolves cur s.tgt s.ty s.unwrap pydantic hc (simplePkg_pkgOk p1) p4 hg p2

/-- … and every well-known type that is not unwrapped denotes the bundled class -/
theorem all_at_once_wkt (cur : Pkg) (pydantic : Bool) (sites : List Site) (hc : pkgOk cur = true)
    (hcur : cur ≠ googleProtobuf) (hok : ∀ s ∈ sites, s.ok cur pydantic = true) (name : Str)
    (hs : { tgt := googleProtobuf, ty := [name], unwrap := false } ∈ sites) :
    denoteNs cur (moduleNs cur pydantic sites)
        (siteRef cur pydantic { tgt := googleProtobuf, ty := [name], unwrap := false }).ref
      = some (.abs (bundled pydantic), pythonizeClassName name) := by
  have hn : tyPartOk name = true := by
    have := (Site.ok_parts (hok _ hs)).2.2.2
    simpa [typeOk] using this
  rw [denoteNs_eq_denote cur pydantic sites hc hok _ hs]
  exact wkt_resolves_to_bundled cur name pydantic hc hcur hn

/-- the imports of a module never shadow one of its own classes: no bound name looks like a
    class name (class names begin with a capital or a digit, bound names with `_` or a
    lower-case letter) -/
theorem alias_never_a_class_name (cur : Pkg) (pydantic : Bool) (s : Site) (hc : pkgOk cur = true)
    (h : s.ok cur pydantic = true) (a : Str) (ha : boundName cur (siteRef cur pydantic s) = some a) :
    isClassName a = false := by
  obtain ⟨p1, p2, p3, p4⟩ := Site.ok_parts h
  unfold boundName at ha
  cases e : (siteRef cur pydantic s).imp.bind cur with
  | none => rw [e] at ha; cases ha
  | some b =>
    rw [e] at ha
    simp only [Option.map_some, Option.some.injEq] at ha
    subst ha
    exact form_not_className cur pydantic b (typeRef_form cur s.tgt s.ty s.unwrap pydantic hc p1 p2 p3 p4 b e).1

/-- **a collision beyond D20** (no `_`, no digit-letter boundary, no keyword in any segment):
    in the module of package `x`, the descendant package `x.betterproto.lib.google.protobuf`
    and the bundled google.protobuf (`import betterproto.lib.google.protobuf as …`) are both
    bound to `betterproto_lib_google_protobuf`; with both imports in the module, the
    reference to the descendant's `Msg` denotes a class of the bundled library.  This is the
    only shape excluded by `Site.ok` besides D19 / D20. -/
theorem alias_collision_bundled_witness :
    let cur := pkg "x"
    let s1 : Site := { tgt := pkg "x.betterproto.lib.google.protobuf", ty := [str "Msg"], unwrap := true }
    let s2 : Site := { tgt := pkg "google.protobuf", ty := [str "Empty"], unwrap := true }
    simplePkg s1.tgt = true ∧ simplePkg s2.tgt = true ∧ s1.tgt.take 1 ≠ [str "betterproto"] ∧
    (siteRef cur false s1).imp.render = str "from .betterproto.lib.google import protobuf as betterproto_lib_google_protobuf" ∧
    (siteRef cur false s2).imp.render = str "import betterproto.lib.google.protobuf as betterproto_lib_google_protobuf" ∧
    boundName cur (siteRef cur false s1) = boundName cur (siteRef cur false s2) ∧
    (siteRef cur false s1).imp.bind cur ≠ (siteRef cur false s2).imp.bind cur ∧
    denoteNs cur (moduleNs cur false [s1, s2]) (siteRef cur false s1).ref
      = some (.abs (pkg "betterproto.lib.google.protobuf"), str "Msg") := by decide

/-! non-vacuity: module `a.b` referring at once to a child, a deeper descendant, its parent,
    the root package, a cousin, an unrelated package, a sibling type and a well-known type -/
def demoSites : List Site :=
  [ { tgt := pkg "a.b.c", ty := [str "Msg"], unwrap := true },
    { tgt := pkg "a.b.c.d", ty := [str "Msg", str "Inner"], unwrap := true },
    { tgt := pkg "a", ty := [str "Msg"], unwrap := true },
    { tgt := [], ty := [str "Top"], unwrap := true },
    { tgt := pkg "a.c.d", ty := [str "Msg"], unwrap := true },
    { tgt := pkg "z.b", ty := [str "Msg"], unwrap := true },
    { tgt := pkg "a.b", ty := [str "Own"], unwrap := true },
    { tgt := pkg "google.protobuf", ty := [str "Empty"], unwrap := false },
    { tgt := pkg "google.protobuf", ty := [str "Timestamp"], unwrap := true } ]

example : pkgOk (pkg "a.b") = true ∧ demoSites.all (Site.ok (pkg "a.b") false) = true := by decide
example : (moduleNs (pkg "a.b") false demoSites).map (·.1)
    = [str "c", str "c_d", str "__a__", str "__Top__", str "_c_d__", str "__z_b__", str "betterproto_lib_google_protobuf"] := by decide
example : demoSites.map (fun s => denoteNs (pkg "a.b") (moduleNs (pkg "a.b") false demoSites) (siteRef (pkg "a.b") false s).ref)
    = [some (.gen (pkg "a.b.c"), str "Msg"), some (.gen (pkg "a.b.c.d"), str "MsgInner"), some (.gen (pkg "a"), str "Msg"),
       some (.gen [], str "Top"), some (.gen (pkg "a.c.d"), str "Msg"), some (.gen (pkg "z.b"), str "Msg"),
       some (.gen (pkg "a.b"), str "Own"), some (.abs (pkg "betterproto.lib.google.protobuf"), str "Empty"), none] := by decide

#print axioms reference_resolves
#print axioms aliases_injective
#print axioms alias_determines_package
#print axioms all_at_once
#print axioms all_at_once_wkt
#print axioms alias_never_a_class_name
#print axioms alias_collision_bundled_witness

end Bp.C13
