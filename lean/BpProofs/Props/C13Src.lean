import BpProofs.SrcTieImp
import BpProofs.Props.C13
/-
  C13, tied to the SOURCE: the five `reference_*` functions of
  src/betterproto/compile/importing.py and the dispatch of `get_type_reference` (every statement
  after the call of `parse_source_type_name`), as regenerated from the Python AST of the working tree
  on every run (harness/extract_srcimp.py → BpProofs/Gen/SrcImporting.lean), ARE the model functions
  of BpModel/Importing.lean the C13 theorems are about: same returned text, same line added to
  `imports`, for ALL package paths, type names and prior contents of the set.

  A translated function takes the state of the `imports` set (the list of the strings added so far)
  and returns `Py.Res (reference text × imports afterwards)`; `.raise .key` stands for Python's
  IndexError.  `added i` is what the model's import `i` contributes: nothing for `Import.none`
  (sibling), otherwise the one line `i.render`.

  Not translated (still validated by the correspondence run only): the `unwrap` block of
  `get_type_reference` and the regular expression of `parse_source_type_name`; and that Python reads
  the rendered import line / reference string as `Import.bind` / `denote` say.
  Trusted: BpProofs/PyPrelude.lean, BpProofs/PyPreludeStr.lean (meaning of the Python primitives).
-/
namespace Bp.C13
open Bp Bp.Py Bp.Casing Bp.Naming Bp.Importing Bp.SrcTieImp

/-- `reference_absolute` as written returns the model's reference text and adds the model's import line -/
theorem src_reference_absolute (fuel : Nat) (imports py : List Str) (ty : Str) :
    Src.reference_absolute fuel imports py ty
      = .ok ((referenceAbsolute py ty).ref.render, imports ++ [(referenceAbsolute py ty).imp.render]) :=
  reference_absolute_eq fuel imports py ty

/-- `reference_sibling` as written returns the model's reference text (and touches no set) -/
theorem src_reference_sibling (fuel : Nat) (ty : Str) :
    Src.reference_sibling fuel ty = .ok (referenceSibling ty).ref.render ∧ (referenceSibling ty).imp = .none :=
  ⟨reference_sibling_eq fuel ty, rfl⟩

/-- `reference_descendent` as written is the model's, for every `py_package` longer than `current_package`
    (exactly when Python's `importing_descendent[-1]` exists) … -/
theorem src_reference_descendent (fuel : Nat) (cur imports py : List Str) (ty : Str) (h : py.drop cur.length ≠ []) :
    Src.reference_descendent fuel cur imports py ty
      = .ok ((referenceDescendent cur py ty).ref.render, imports ++ [(referenceDescendent cur py ty).imp.render]) :=
  reference_descendent_eq fuel cur imports py ty h

/-- … and raises IndexError otherwise (never reached from `get_type_reference`: `src_dispatch`) -/
theorem src_reference_descendent_raises (fuel : Nat) (cur imports py : List Str) (ty : Str) (h : py.drop cur.length = []) :
    Src.reference_descendent fuel cur imports py ty = .raise .key :=
  reference_descendent_raises fuel cur imports py ty h

/-- `reference_ancestor` as written is the model's, for all arguments (root package `[]` included) -/
theorem src_reference_ancestor (fuel : Nat) (cur imports py : List Str) (ty : Str) :
    Src.reference_ancestor fuel cur imports py ty
      = .ok ((referenceAncestor cur py ty).ref.render, imports ++ [(referenceAncestor cur py ty).imp.render]) :=
  reference_ancestor_eq fuel cur imports py ty

/-- `reference_cousin` as written is the model's, for every non-empty `py_package`
    (exactly when Python's `py_package[-1]` exists) … -/
theorem src_reference_cousin (fuel : Nat) (cur imports py : List Str) (ty : Str) (h : py ≠ []) :
    Src.reference_cousin fuel cur imports py ty
      = .ok ((referenceCousin cur py ty).ref.render, imports ++ [(referenceCousin cur py ty).imp.render]) :=
  reference_cousin_eq fuel cur imports py ty h

/-- … and raises IndexError on the empty package (never reached from `get_type_reference`) -/
theorem src_reference_cousin_raises (fuel : Nat) (cur imports : List Str) (ty : Str) :
    Src.reference_cousin fuel cur imports [] ty = .raise .key :=
  reference_cousin_raises fuel cur imports ty

/-- **the dispatch of `get_type_reference` as written** — splitting of the two package names, the
    google.protobuf redirection, the five-way case distinction and the calls — is `refCore` on the
    `redirect`ed split packages, for ALL strings; in particular it never raises (the two IndexErrors
    above are unreachable) -/
theorem src_dispatch (fuel : Nat) (package : Str) (imports : List Str) (srcPkg srcName : Str) (pydantic : Bool) :
    Src.get_type_reference_dispatch fuel package imports srcPkg srcName pydantic
      = (let cur := splitPkg package
         let r := refCore cur (redirect cur (splitPkg srcPkg) pydantic) (pythonizeClassName srcName)
         .ok (r.ref.render, imports ++ added r.imp)) :=
  dispatch_eq fuel package imports srcPkg srcName pydantic

/-- … which is how the model's `getTypeReference` is assembled: on the two strings
    `parse_source_type_name` returns, the source as written returns / adds what `getTypeReference`
    says (for a site that is not unwrapped; the `unwrap` block is in front of the dispatch) -/
theorem src_dispatch_is_getTypeReference (fuel : Nat) (package sourceType : Str) (imports : List Str) (pydantic : Bool) :
    Src.get_type_reference_dispatch fuel package imports (parseSourceTypeName sourceType).1
        (parseSourceTypeName sourceType).2 pydantic
      = .ok ((getTypeReference package sourceType false pydantic).ref.render,
             imports ++ added (getTypeReference package sourceType false pydantic).imp) := by
  rw [src_dispatch]
  simp only [getTypeReference, Bool.false_eq_true, if_false, false_and]

/-- the same for a reference site of C13 (`siteRef`, the object of `aliases_injective`, `all_at_once` …):
    with the package and type name protoc gives, the source as written produces exactly its texts -/
theorem src_dispatch_is_siteRef (fuel : Nat) (cur tgt : Pkg) (ty : List Str) (imports : List Str) (pydantic : Bool)
    (ht : pkgOk tgt = true) (hty : typeOk ty = true) :
    let r := siteRef cur pydantic { tgt := tgt, ty := ty, unwrap := false }
    Src.get_type_reference_dispatch fuel (dotted cur) imports (dotted tgt) (dotted ty) pydantic
      = .ok (r.ref.render, imports ++ added r.imp) := by
  have h := src_dispatch_is_getTypeReference fuel (dotted cur) (fullName tgt ty) imports pydantic
  rw [parse_fullName tgt ty ht hty] at h
  exact h

/-- **`reference_resolves`, of the source as written.**  For ALL package paths `cur`, `tgt` in any
    relative position and all (nested) type names: the reference text the translated source returns
    and the import line it adds for `.tgt.Type` in the module of `cur` are the renderings of a
    reference / import such that the reference, evaluated in that module after the import has run, is
    the class `classOf ty` of module `<root>.<tgt>` -/
theorem src_reference_resolves (fuel : Nat) (cur tgt : Pkg) (ty : List Str) (imports : List Str) (pydantic : Bool)
    (hc : pkgOk cur = true) (ht : pkgOk tgt = true) (hty : typeOk ty = true)
    (hg : tgt ≠ googleProtobuf) (hb : tgt.take 1 ≠ [str "betterproto"]) :
    let r := siteRef cur pydantic { tgt := tgt, ty := ty, unwrap := false }
    Src.get_type_reference_dispatch fuel (dotted cur) imports (dotted tgt) (dotted ty) pydantic
        = .ok (r.ref.render, imports ++ added r.imp) ∧
      denote cur (r.imp.bind cur) r.ref = some (.gen tgt, classOf ty) :=
  ⟨src_dispatch_is_siteRef fuel cur tgt ty imports pydantic ht hty,
   reference_resolves cur tgt ty false pydantic hc ht hty hg hb⟩

/-- **`aliases_injective`, of the source as written.**  Two references made in the module of `cur` to
    types of packages in ANY relative position (guard `Site.ok`): the import lines the translated source
    adds are the renderings of two imports which, when they bind the same name, bind the same object -/
theorem src_aliases_injective (fuel : Nat) (cur : Pkg) (pydantic : Bool) (t1 t2 : Pkg) (ty1 ty2 : List Str)
    (imports1 imports2 : List Str) (hc : pkgOk cur = true)
    (h1 : Site.ok cur pydantic { tgt := t1, ty := ty1, unwrap := false } = true)
    (h2 : Site.ok cur pydantic { tgt := t2, ty := ty2, unwrap := false } = true) :
    let r1 := siteRef cur pydantic { tgt := t1, ty := ty1, unwrap := false }
    let r2 := siteRef cur pydantic { tgt := t2, ty := ty2, unwrap := false }
    Src.get_type_reference_dispatch fuel (dotted cur) imports1 (dotted t1) (dotted ty1) pydantic
        = .ok (r1.ref.render, imports1 ++ added r1.imp) ∧
    Src.get_type_reference_dispatch fuel (dotted cur) imports2 (dotted t2) (dotted ty2) pydantic
        = .ok (r2.ref.render, imports2 ++ added r2.imp) ∧
    ∀ (a : Str) (o1 o2 : Obj), r1.imp.bind cur = some (a, o1) → r2.imp.bind cur = some (a, o2) → o1 = o2 := by
  obtain ⟨p1, _, _, p4⟩ := Site.ok_parts h1
  obtain ⟨q1, _, _, q4⟩ := Site.ok_parts h2
  exact ⟨src_dispatch_is_siteRef fuel cur t1 ty1 imports1 pydantic (simplePkg_pkgOk p1) p4,
    src_dispatch_is_siteRef fuel cur t2 ty2 imports2 pydantic (simplePkg_pkgOk q1) q4,
    fun a o1 o2 b1 b2 => aliases_injective cur pydantic _ _ hc h1 h2 a o1 o2 b1 b2⟩

/-! non-vacuity: the translated source run on concrete packages (the verbatim strings) -/
example : Src.get_type_reference_dispatch 0 (str "a.b") [] (str "a.c.d") (str "Msg") false
    = .ok (str "\"_c_d__.Msg\"", [str "from ..c import d as _c_d__"]) := by decide
example : Src.get_type_reference_dispatch 0 (str "a") [str "x"] (str "a.b.c") (str "Msg.Inner") false
    = .ok (str "\"b_c.MsgInner\"", [str "x", str "from .b import c as b_c"]) := by decide
example : Src.get_type_reference_dispatch 0 (str "a.b") [] (str "") (str "Msg") false
    = .ok (str "\"__Msg__\"", [str "from ... import Msg as __Msg__"]) := by decide
example : Src.get_type_reference_dispatch 0 (str "a") [] (str "google.protobuf") (str "Empty") true
    = .ok (str "\"betterproto_lib_pydantic_google_protobuf.Empty\"",
           [str "import betterproto.lib.pydantic.google.protobuf as betterproto_lib_pydantic_google_protobuf"]) := by decide
example : Src.get_type_reference_dispatch 0 (str "a.b") [] (str "a.b") (str "Own") false = .ok (str "\"Own\"", []) := by decide
example : Src.reference_cousin 0 [str "a"] [] [] (str "T") = .raise .key := by decide

#print axioms src_reference_absolute
#print axioms src_reference_descendent
#print axioms src_reference_ancestor
#print axioms src_reference_cousin
#print axioms src_dispatch
#print axioms src_dispatch_is_getTypeReference
#print axioms src_reference_resolves
#print axioms src_aliases_injective

end Bp.C13
