import BpProofs.SrcTieImpRe
import BpProofs.ImportingParse
/-
  C13, tied to the SOURCE: `parse_source_type_name` of src/betterproto/compile/importing.py — the regular
  expression `^\.?([^A-Z]+)\.(.+)` PARSED from the source of the working tree on every run, `re.match`, and the two
  branches of the function (harness/extract_srcimpre.py → BpProofs/Gen/SrcImportingRe.lean) — IS the model's
  `parseSourceTypeName` (BpModel/Importing.lean), the function the C13 theorems and the tie of the dispatch of
  `get_type_reference` (Props/C13Src.lean) take the source package and type name from.  With this the whole of
  `get_type_reference` after its `unwrap` block is regenerated from the source.

  Trusted: BpProofs/PyRegex.lean (CPython's backtracking matcher), BpProofs/PyPreludeImpRe.lean (`re.match` = one
  attempt at position 0; `\.` = `[.]`; `.` = `[^\n]`; `lstrip`), the translator.
-/
namespace Bp.C13
open Bp Bp.Casing Bp.Importing Bp.SrcTieImpRe

/-- `parse_source_type_name` as written returns what the model's `parseSourceTypeName` returns, for EVERY string
    without a newline (every string protoc can hand to the plugin: type names are dotted identifiers) -/
theorem src_parse_source_type_name (s : Str) (hn : NoNl s) :
    Src.parse_source_type_name s = parseSourceTypeName s :=
  parse_source_type_name_eq s hn

/-- protoc's fully qualified name `.pkg.Outer.Inner` of a type of package `pkg` (any depth, the empty package
    included; segments without capitals) is split by the source as written into exactly that package and the
    dotted type name -/
theorem src_parse_full_name (pkg : Pkg) (ty : List Str) (hp : pkgOk pkg = true) (ht : typeOk ty = true) :
    Src.parse_source_type_name (fullName pkg ty) = (dotted pkg, dotted ty) := by
  have hn : NoNl (fullName pkg ty) := by
    intro c hc
    simp only [fullName, List.mem_cons] at hc
    rcases hc with rfl | hc
    · decide
    · have hall : ∀ c ∈ dotted (pkg ++ ty), c = '.' ∨ identChar c = true := by
        apply joinWith_chars '.' (fun c => c = '.' ∨ identChar c = true) (Or.inl rfl)
        intro w hw c hc
        rcases List.mem_append.mp hw with hw | hw
        · have h := List.all_eq_true.mp hp w hw
          simp only [segOk, Bool.and_eq_true, List.all_eq_true] at h
          exact Or.inr (h.1.2 c hc).1
        · simp only [typeOk, Bool.and_eq_true, List.all_eq_true] at ht
          have h := ht.2 w hw
          simp only [tyPartOk, Bool.and_eq_true, List.all_eq_true] at h
          exact Or.inr (h.2 c hc)
      rcases hall c hc with rfl | hi
      · decide
      · rintro rfl
        revert hi; decide
  rw [src_parse_source_type_name _ hn, parse_fullName pkg ty hp ht]

/-- outside that domain the source and the model differ (a model infidelity, not a defect): `(.+)` stops at a
    newline, the model's scan does not.  Replayed on the real code by the C13 check. -/
theorem src_parse_newline_witness :
    Src.parse_source_type_name "a.b\nc".toList = ("a".toList, "b".toList) ∧
    parseSourceTypeName "a.b\nc".toList = ("a".toList, "b\nc".toList) :=
  newline_witness

/-- non-vacuity: a nested type of a two-segment package -/
example : Src.parse_source_type_name ".a.b1.Outer.Inner".toList = ("a.b1".toList, "Outer.Inner".toList) := by
  have := src_parse_full_name ["a".toList, "b1".toList] ["Outer".toList, "Inner".toList] (by decide) (by decide)
  simpa [fullName, dotted, joinWith] using this

end Bp.C13
