import BpProofs.SrcTieImpRe
import BpProofs.ImportingParse
import BpProofs.Props.C13Src
/-
  C13, tied to the SOURCE: `parse_source_type_name` of src/betterproto/compile/importing.py — the regular
  expression `^\.?([^A-Z]+)\.(.+)` PARSED from the source of the working tree on every run, `re.match`, and the two
  branches of the function (harness/extract_srcimpre.py → BpProofs/Gen/SrcImportingRe.lean) — IS the model's
  `parseSourceTypeName` (BpModel/Importing.lean), the function the C13 theorems and the tie of the dispatch of
  `get_type_reference` (Props/C13Src.lean) take the source package and type name from.  With this the whole of
  `get_type_reference` after its `unwrap` block is regenerated from the source.

  Trusted: BpProofs/PyRegex.lean (CPython's backtracking matcher), BpProofs/PyPreludeImpRe.lean (`re.match` = one
  attempt at position 0; `\.` = `[.]`; `.` = `[^\n]`; `lstrip`), the translator.
-/
namespace Bp.C13
open Bp Bp.Py Bp.Casing Bp.Naming Bp.Importing Bp.SrcTieImp Bp.SrcTieImpRe

/-- `parse_source_type_name` as written returns what the model's `parseSourceTypeName` returns, for EVERY string
    without a newline (every string protoc can hand to the plugin: type names are dotted identifiers) -/
theorem src_parse_source_type_name (s : Str) (hn : NoNl s) :
    Src.parse_source_type_name s = parseSourceTypeName s :=
  parse_source_type_name_eq s hn

/-- protoc's fully qualified name `.pkg.Outer.Inner` of a type of package `pkg` (any depth, the empty package
    included; segments without capitals) is split by the source as written into exactly that package and the
    dotted type name -/
theorem src_parse_full_name (pkg : Pkg) (ty : List Str) (hp : pkgOk pkg = true) (ht : typeOk ty = true) :
    Src.parse_source_type_name (fullName pkg ty) = (dotted pkg, dotted ty) := by
  have hn : NoNl (fullName pkg ty) := by
    intro c hc
    simp only [fullName, List.mem_cons] at hc
    rcases hc with rfl | hc
    · decide
    · have hall : ∀ c ∈ dotted (pkg ++ ty), c = '.' ∨ identChar c = true := by
        apply joinWith_chars '.' (fun c => c = '.' ∨ identChar c = true) (Or.inl rfl)
        intro w hw c hc
        rcases List.mem_append.mp hw with hw | hw
        · have h := List.all_eq_true.mp hp w hw
          simp only [segOk, Bool.and_eq_true, List.all_eq_true] at h
          exact Or.inr (h.1.2 c hc).1
        · simp only [typeOk, Bool.and_eq_true, List.all_eq_true] at ht
          have h := ht.2 w hw
          simp only [tyPartOk, Bool.and_eq_true, List.all_eq_true] at h
          exact Or.inr (h.2 c hc)
      rcases hall c hc with rfl | hi
      · decide
      · rintro rfl
        revert hi; decide
  rw [src_parse_source_type_name _ hn, parse_fullName pkg ty hp ht]

/-- outside that domain the source and the model differ (a model infidelity, not a defect): `(.+)` stops at a
    newline, the model's scan does not.  Replayed on the real code by the C13 check. -/
theorem src_parse_newline_witness :
    Src.parse_source_type_name "a.b\nc".toList = ("a".toList, "b".toList) ∧
    parseSourceTypeName "a.b\nc".toList = ("a".toList, "b\nc".toList) :=
  newline_witness

/-- **`get_type_reference` as written, the WHOLE function** — the `unwrap` block (wrapper types through the
    regenerated `WRAPPER_TYPES` table, Duration, Timestamp), `parse_source_type_name` with its regular expression,
    the google.protobuf redirection, the five-way dispatch and the five `reference_*` functions, all regenerated
    from the source — returns the text and adds the import line of the model's `getTypeReference`, for ALL
    package strings, all type names without a newline, both values of `unwrap` and `pydantic`
    (`typing_compiler.optional` being the direct-import compiler's, as in the model) -/
theorem src_get_type_reference (fuel : Nat) (package sourceType : Str) (imports : List Str) (unwrap pydantic : Bool)
    (hn : NoNl sourceType) :
    Src.get_type_reference fuel package imports sourceType unwrap pydantic optionalText
      = .ok ((getTypeReference package sourceType unwrap pydantic).ref.render,
             imports ++ added (getTypeReference package sourceType unwrap pydantic).imp) := by
  have hd := src_dispatch_is_getTypeReference fuel package sourceType imports pydantic
  have hp := src_parse_source_type_name sourceType hn
  unfold Src.get_type_reference
  cases unwrap with
  | false =>
    simp only [Bool.false_eq_true, if_false, hp]
    exact hd
  | true =>
    simp only [if_true]
    cases hl : wrapperTable.lookup sourceType with
    | some ty =>
      simp only [Py.inWrapperTypes, Py.wrapperValueTypeName, hl, Option.isSome_some, if_true, Py.Res.bind]
      rw [gtr_wrapper package sourceType pydantic ty hl]
      simp only [Ref.render, added, List.append_nil]
    | none =>
      simp only [Py.inWrapperTypes, hl, Option.isSome_none, Bool.false_eq_true, if_false, decide_eq_true_eq]
      by_cases h1 : sourceType = ".google.protobuf.Duration".toList
      · rw [if_pos h1, h1, gtr_duration]
        simp only [Ref.render, added, List.append_nil]
      · by_cases h2 : sourceType = ".google.protobuf.Timestamp".toList
        · rw [if_neg h1, if_pos h2, h2, gtr_timestamp]
          simp only [Ref.render, added, List.append_nil]
        · rw [if_neg h1, if_neg h2, gtr_other package sourceType pydantic hl h1 h2]
          simp only [hp]
          exact hd

/-- the sentence of C13 about well-known types, of the whole source function: a wrapper type in an unwrapping
    site becomes `Optional[<python type>]` with NO import, whatever the current package -/
theorem src_wrapper_unwraps (fuel : Nat) (package : Str) (imports : List Str) (pydantic : Bool) :
    ∀ kv ∈ wrapperTable,
      Src.get_type_reference fuel package imports kv.1 true pydantic optionalText
        = .ok (optionalText ((wrapperTable.lookup kv.1).getD []), imports) := by
  intro kv hkv
  have hn : NoNl kv.1 := by
    have : ∀ kv ∈ wrapperTable, NoNl kv.1 := by decide
    exact this kv hkv
  have hl : (wrapperTable.lookup kv.1).isSome = true := by
    have : ∀ kv ∈ wrapperTable, (wrapperTable.lookup kv.1).isSome = true := by decide
    exact this kv hkv
  rw [src_get_type_reference fuel package kv.1 imports true pydantic hn]
  cases h : wrapperTable.lookup kv.1 with
  | none => rw [h] at hl; cases hl
  | some ty => simp [getTypeReference, h, Ref.render, added]

/-- non-vacuity: the whole function on concrete arguments (a cousin reference; a wrapper; a Timestamp) -/
example : Src.get_type_reference 0 "a.b".toList [] ".a.c.d.Msg".toList true false optionalText
    = .ok ("\"_c_d__.Msg\"".toList, ["from ..c import d as _c_d__".toList]) := by decide
example : Src.get_type_reference 0 "a".toList [] ".google.protobuf.Int32Value".toList true false optionalText
    = .ok ("Optional[int]".toList, []) := by decide
example : Src.get_type_reference 0 "a".toList [] ".google.protobuf.Timestamp".toList true false optionalText
    = .ok ("datetime".toList, []) := by decide
example : Src.get_type_reference 0 "a".toList [] ".google.protobuf.Timestamp".toList false false optionalText
    = .ok ("\"betterproto_lib_google_protobuf.Timestamp\"".toList,
           ["import betterproto.lib.google.protobuf as betterproto_lib_google_protobuf".toList]) := by decide

/-- non-vacuity: a nested type of a two-segment package -/
example : Src.parse_source_type_name ".a.b1.Outer.Inner".toList = ("a.b1".toList, "Outer.Inner".toList) := by
  have := src_parse_full_name ["a".toList, "b1".toList] ["Outer".toList, "Inner".toList] (by decide) (by decide)
  simpa [fullName, dotted, joinWith] using this

end Bp.C13
