import BpProofs.SrcTieTemplate
import BpProofs.Props.C13
/-
  C13 ("… resolves, once the generated packages are imported, to exactly the class generated for that type — also when
  packages depend on each other circularly and when many such references coexist in one module"), the part the
  TEMPLATES decide: WHICH import lines the generated module contains and WHERE.  Tied to the source of
  src/betterproto/templates/header.py.j2 and template.py.j2 as regenerated on every run
  (harness/extract_srctemplate.py → BpProofs/Gen/SrcTemplate.lean: `Src.render_header`, `Src.render_template`,
  `Src.render_module`, functions from an ABSTRACT context — any `output_file` whatsoever — to the list of rendered
  pieces).  `Tpl.text` of the list is the string `Template.render` returns.

  The named parts (`Tpl.enumsBlock`, `messagesBlock`, `stubsBlock`, `basesBlock`, `moduleImportLines`, …) are those of
  BpProofs/TemplateModel.lean; `Tpl.header_eq` / `Tpl.template_eq` (SrcTieTemplate.lean) prove by `rfl` that the
  templates as written are exactly these parts in this order.

  What the theorems say about the source as written, for ALL contexts:
    * the cross-package imports (`imports_end`, the import texts `get_type_reference` adds — BpModel/Importing.lean's
      `Import.render`) are emitted by the BODY template only, each element exactly once, each as a line of its own at
      column 0, in one block that stands AFTER every enum class, every message class and every client Stub of the
      module and before the server Base classes; nothing else of the module depends on `imports_end`;
    * NO deduplication / case folding happens on the way (`|sort|unique` would merge `Money` / `money`);
    * the header: one `import <m>` line per element of `python_module_imports`; `from datetime import …` iff
      `datetime_imports` is non-empty, listing exactly its elements; `import betterproto` always; the grpclib /
      `ServiceBase` imports iff the file has services; the `TYPE_CHECKING` block iff `imports_type_checking_only` is
      non-empty, with exactly its elements.
  The Base classes follow the import block in the source as written (they are the only thing that does): their
  annotations are strings or typing-compiler output and their bodies run after import, so a circular package import
  that is still in progress when the block runs is not touched by them; this is what the code does, stated as it is.

  Trusted: BpProofs/PyPreludeTemplate.lean (meaning of the Jinja constructs), Jinja's lexer / parser, the translator.
  Validated against the real Jinja by harness/tests/check_srctemplate.py.
-/
namespace Bp.C13
open Bp Bp.Tpl

/-! ## the body template: where `imports_end` goes -/

/-- **the `imports_end` block: position, and nothing else depends on it.**  For every context `c` and every value
    `s` of `imports_end`: the body template as written renders
      (all enum classes) (all message classes) (all client stubs)  "\n"  (one line per element of `s`)  "\n"
      (all server Base classes)
    where the parts before and after are those of `c` — they do not change with `s`. -/
theorem src_imports_end_position (c : OutputFile) (s : PySet) :
    Src.render_template { c with imports_end := s }
      = (enumsBlock c ++ messagesBlock c ++ stubsBlock c) ++ Piece.lit "\n" ::
          (s.flatMap (fun i => [Piece.expr "output_file.imports_end[]" i, Piece.lit "\n"]) ++ Piece.lit "\n" :: basesBlock c) := by
  rw [template_eq]
  simp only [template, nl, List.append_eq, List.append_assoc, List.cons_append, List.nil_append, importsEndLines]
  rfl

/-- the parts around the block: one class per enum, one per message, one Stub and one Base per service, in the
    order of the context's lists (so "after every class / stub" is after ALL of them) -/
theorem src_blocks (c : OutputFile) :
    messagesBlock c = c.messages.flatMap (messageClass c.pydantic_dataclasses) ∧
    stubsBlock c = c.services.flatMap (stubClass c.typing_compiler) ∧
    basesBlock c = c.services.flatMap (baseClass c.typing_compiler) ∧
    enumsBlock c = c.enums.flatMap (enumClass c.pydantic_dataclasses) := by
  refine ⟨rfl, rfl, rfl, ?_⟩
  unfold enumsBlock
  cases h : c.enums <;> simp

/-- the header emits nothing of `imports_end` -/
theorem src_header_ignores_imports_end (c : OutputFile) (s : PySet) :
    Src.render_header { c with imports_end := s } = Src.render_header c := rfl

/-- **each element exactly once**: `imports_end` is a Python set (`Nodup`: its iteration order lists every element
    once); the block then contains the piece of each element exactly once … -/
theorem src_imports_end_each_once (s : PySet) (hs : s.Nodup) (i : Str) (hi : i ∈ s) :
    (s.flatMap (fun i => [Piece.expr "output_file.imports_end[]" i, Piece.lit "\n"])).count (Piece.expr "output_file.imports_end[]" i) = 1 := by
  have := count_importsEndLines s i
  unfold importsEndLines at this
  rw [this]
  exact count_eq_one_of_nodup hs hi

/-- … and, as text, the block is the elements each followed by a newline, in iteration order: every import is a
    line of its own (the piece before the block is `"\n"`, see `src_imports_end_position`, so the first one starts
    at column 0 as well) -/
theorem src_imports_end_text (s : PySet) :
    text (s.flatMap (fun i => [Piece.expr "output_file.imports_end[]" i, Piece.lit "\n"])) = s.flatMap (fun i => i ++ ['\n']) :=
  text_importsEndLines s

/-- **no case folding, no deduplication**: two imports that differ only in case are both emitted (Jinja's
    `|unique` — case-insensitive — would drop one; the source applies no filter to `imports_end`) -/
theorem src_imports_end_keeps_case_variants (c : OutputFile) :
    let a := "from .. import Money as _Money__".toList
    let b := "from .. import money as _money__".toList
    ∃ pre post, Src.render_template { c with imports_end := [a, b] }
        = pre ++ [Piece.expr "output_file.imports_end[]" a, Piece.lit "\n", Piece.expr "output_file.imports_end[]" b, Piece.lit "\n"] ++ post := by
  intro a b
  refine ⟨(enumsBlock c ++ messagesBlock c ++ stubsBlock c) ++ [Piece.lit "\n"], Piece.lit "\n" :: basesBlock c, ?_⟩
  rw [src_imports_end_position]
  simp

/-! ## the namespace the emitted lines build -/

section ns
open Bp.Importing

/-- **composition with `all_at_once` (Props/C13.lean)**: let `sites` be the reference sites of the module of package
    `cur` and let `imports_end` hold the texts (`Import.render`) of their imports — every site's import is there or is
    "no import", nothing else is there; listed in ANY order, a set has none.  Then (1) the body template as written
    emits exactly these texts, each as a line of its own, in one block between blank lines, and (2) in the namespace
    that executing these lines in that order builds (`Import.bind`, BpModel/Importing.lean), every reference of the
    module to a type of a generated package denotes the class generated for that type in ITS package.
    (That Python reads an import text as `Import.bind` says is validated by really importing generated packages —
    check C13 —, not proved.) -/
theorem src_imports_end_namespace (cur : Pkg) (pydantic : Bool) (sites : List Site) (hc : pkgOk cur = true)
    (hok : ∀ s ∈ sites, s.ok cur pydantic = true)
    (imps : List Import)
    (hcover : ∀ s ∈ sites, (siteRef cur pydantic s).imp = .none ∨ (siteRef cur pydantic s).imp ∈ imps)
    (honly : ∀ i ∈ imps, ∃ s ∈ sites, (siteRef cur pydantic s).imp = i)
    (c : OutputFile) (hctx : c.imports_end = imps.map Import.render) :
    (∃ pre post, text (Src.render_template c)
        = pre ++ '\n' :: (imps.flatMap (fun i => i.render ++ ['\n'])) ++ '\n' :: post) ∧
    ∀ s ∈ sites, s.tgt ≠ googleProtobuf →
      denoteNs cur (imps.filterMap (Import.bind cur)) (siteRef cur pydantic s).ref
        = some (.gen s.tgt, classOf s.ty) := by
  constructor
  · refine ⟨text (enumsBlock c ++ messagesBlock c ++ stubsBlock c), text (basesBlock c), ?_⟩
    have e : Src.render_template c = _ := src_imports_end_position c c.imports_end
    have hl : ∀ l : List Import, List.flatMap (fun i => i ++ ['\n']) (l.map Import.render)
        = l.flatMap (fun i => i.render ++ ['\n']) := by
      intro l
      induction l with
      | nil => rfl
      | cons x r ih => simp only [List.map_cons, List.flatMap_cons, ih]
    simp only [e, text_append, text_cons, src_imports_end_text, hctx, hl]
    simp [Piece.text]
  · intro s hs hg
    rw [← all_at_once cur pydantic sites hc hok s hs hg]
    symm
    apply denoteNs_same_set
    · intro b hb
      obtain ⟨s', hs', hb'⟩ := List.mem_filterMap.1 hb
      rcases hcover s' hs' with h | h
      · rw [h] at hb'; cases hb'
      · exact List.mem_filterMap.2 ⟨_, h, hb'⟩
    · intro b hb
      obtain ⟨i, hi, hb'⟩ := List.mem_filterMap.1 hb
      obtain ⟨s', hs', rfl⟩ := honly i hi
      exact List.mem_filterMap.2 ⟨s', hs', hb'⟩
    · intro b hb b' hb' e
      have hforms := moduleNs_form cur pydantic sites hc hok
      exact form_inj cur pydantic b b' (hforms b hb) (hforms b' hb') e

/-- non-vacuity: a cousin reference from `a.b` to `c.d.Msg` -/
example :
    let cur := pkg "a.b"
    let s : Site := { tgt := pkg "c.d", ty := [str "Msg"], unwrap := false }
    pkgOk cur = true ∧ s.ok cur false = true ∧ s.tgt ≠ googleProtobuf ∧
    (siteRef cur false s).imp.render = str "from ...c import d as __c_d__" := by
  decide

end ns

/-! ## the header -/

/-- **the header, line group by line group**, for every context -/
theorem src_header_shape (c : OutputFile) :
    Src.render_header c
      = preamble c ++ allEnums c ++ allMessages c ++ allServices c ++ [Piece.lit ")\n\n"]
        ++ moduleImportLines c.python_module_imports ++ [Piece.lit "\n"]
        ++ dataclassImport c.pydantic_dataclasses ++ [Piece.lit "\n"]
        ++ datetimeImport c.datetime_imports
        ++ typingImportLines c.typing_compiler ++ [Piece.lit "\n"]
        ++ pydanticImport c.pydantic_imports
        ++ [Piece.lit "\nimport betterproto\n"]
        ++ grpcImports c.services ++ [Piece.lit "\n"]
        ++ typeCheckingBlock c.imports_type_checking_only := by
  rw [header_eq]
  simp only [header, nl, betterprotoImport, List.append_eq, List.append_assoc]

/-- the head of the header (`preamble`: the first three pieces as written, whose wording the model leaves open) is
    nothing but comment lines and blank lines — the one expression, the list of input files, stands inside the
    comment line `# sources: …` — followed by the opening of `__all__ = (`: no import, no statement hides there -/
theorem src_preamble_is_comments (c : OutputFile) : preambleOk (preamble c) = true := by
  unfold preamble
  rfl

/-- **one `import <m>` line per element of `python_module_imports`**: the lines are those of a permutation of the
    set (its `|sort`), nothing added, nothing dropped -/
theorem src_module_import_lines (s : PySet) :
    ∃ l : List Str, l.Perm s ∧
      text (moduleImportLines s) = l.flatMap (fun m => "import ".toList ++ m ++ ['\n']) :=
  ⟨jsort s, jsort_perm s, text_moduleImportLines s⟩

/-- **`from datetime import …` iff `datetime_imports` is non-empty** … -/
theorem src_datetime_import_iff (s : PySet) : datetimeImport s = [] ↔ s = [] := by
  unfold datetimeImport
  cases s <;> simp

/-- … **and it lists exactly the elements of the set** (a permutation, comma separated), on one line -/
theorem src_datetime_import_text (s : PySet) (h : s ≠ []) :
    ∃ l : List Str, l.Perm s ∧
      text (datetimeImport s) = "from datetime import ".toList ++ jjoin ", ".toList l ++ ['\n'] := by
  refine ⟨jsort s, jsort_perm s, ?_⟩
  unfold datetimeImport
  cases s with
  | nil => exact absurd rfl h
  | cons x r =>
    simp only [List.isEmpty_cons, Bool.not_false, if_true, List.append_eq]
    rw [text_append, text_append, text_commaList]
    simp [text, Piece.text]

/-- the same for `from pydantic import …` -/
theorem src_pydantic_import_iff (s : PySet) : pydanticImport s = [] ↔ s = [] := by
  unfold pydanticImport
  cases s <;> simp

/-- **`import betterproto` always** -/
theorem src_betterproto_always (c : OutputFile) : Piece.lit "\nimport betterproto\n" ∈ Src.render_header c := by
  rw [src_header_shape]
  simp

/-- **the grpclib / `ServiceBase` imports iff the file has services** -/
theorem src_grpc_imports_iff (sv : List Service) :
    grpcImports sv = (if sv = [] then []
      else [Piece.lit "from betterproto.grpc.grpclib_server import ServiceBase\nimport grpclib\n"]) := by
  unfold grpcImports
  cases sv <;> simp

/-- **the `TYPE_CHECKING` block iff `imports_type_checking_only` is non-empty**, with one indented line per element -/
theorem src_type_checking_block (s : PySet) :
    typeCheckingBlock s = (if s = [] then []
      else Piece.lit "from typing import TYPE_CHECKING\n\nif TYPE_CHECKING:\n" ::
        (jsort s).flatMap (fun i => [Piece.lit "    ", Piece.expr "(output_file.imports_type_checking_only|sort)[]" i, Piece.lit "\n"])) ∧ (jsort s).Perm s := by
  refine ⟨?_, jsort_perm s⟩
  unfold typeCheckingBlock
  cases s <;> simp

/-- what compiler.py passes to ruff: header, then body -/
theorem src_module (c : OutputFile) :
    text (Src.render_module c) = text (Src.render_header c) ++ text (Src.render_template c) :=
  text_append _ _

/-- non-vacuity: a context with two case-variant imports, a module import and a datetime import -/
example :
    let c : OutputFile := {
      input_filenames := ["a.proto".toList], enums := [], messages := [], services := [],
      python_module_imports := ["warnings".toList], datetime_imports := ["timedelta".toList, "datetime".toList],
      pydantic_imports := [], imports_type_checking_only := [],
      imports_end := ["from .. import Money as _Money__".toList, "from .. import money as _money__".toList],
      pydantic_dataclasses := false,
      typing_compiler := { optional := id, dict := fun a _ => a, union := fun a _ => a, iterable := id,
                           async_iterable := id, async_iterator := id, imports := [], import_lines := [] } }
    String.ofList (text (Src.render_template c))
      = "\nfrom .. import Money as _Money__\nfrom .. import money as _money__\n\n" ∧
    String.ofList (text (datetimeImport c.datetime_imports)) = "from datetime import datetime, timedelta\n" := by
  decide

end Bp.C13
