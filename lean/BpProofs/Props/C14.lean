import BpModel.All
import BpProofs.Presence
import BpProofs.Ops
import BpProofs.Props.C07
import BpProofs.CopyBytes
import BpProofs.OkSound
/-
  C14 — observers are pure; copy, deepcopy and pickle are faithful and independent.
  (Model after the D13 repair: copies keep `_serialized_on_wire` and `_unknown_fields`.)

  What is proved here, sentence by sentence:
    * observers are pure: `materialize_invisible`, `observer_pure_bytes`, `observer_pure_len`,
      `observer_pure_presence`;
    * copies keep class / `serialized_on_wire` / unknown fields / the oneof invariant, for ANY
      instance satisfying the invariant: `copies_keep_presence`;
    * copies are BYTE-FAITHFUL and VALUE-FAITHFUL, for every well-typed reachable message
      (`MsgOk`, the domain of C01, decided by `msgOkB`): `copy_bytes_faithful`,
      `copy_is_original` (the copy is the original value, at every nesting level: same slots,
      same oneof selection — copied verbatim since the D45 repair), `copy_stays_welltyped`,
      `copy_steps` (lemmas in BpProofs/CopyBytes.lean; `initCur_eq_cur` there shows that a
      constructor call re-derives exactly the stored selection under the oneof invariant);
    * pickle = parse ∘ bytes: `pickle_is_wire_roundtrip` (faithfulness is then C01).
  Not expressible in this value-tree model: independence (aliasing) of copies — that half is proved over the
  HEAP model (BpModel/Heap.lean) in Props/C14Heap.lean (`deepcopy_disjoint`, `deepcopy_independent`, …).
-/
namespace Bp.C14
open Bp Gen

/-- the attribute reads of an observer (bytes, len, dump, to_dict, to_json, to_pydict read
    every field and thereby materialise lazily defaulted values) do not change the bytes
    any slot contributes -/
theorem materialize_invisible (S : Schema) (hw : WfSchemaOpt S) (fs : List FieldD) (cur : List (Option Nat))
    (idx : Nat) (vs : List Val) :
    dumpSlots S fs cur idx (materializeAll S fs cur idx vs) = dumpSlots S fs cur idx vs := by
  induction vs generalizing idx with
  | nil => rfl
  | cons v vs ih =>
    rw [materializeAll, dumpSlots, dumpSlots]
    cases hf : fs[idx]? with
    | none => rfl
    | some f =>
      simp only []
      rw [ih (idx + 1)]
      by_cases hh : hidden f idx cur = true
      · simp only [hh, if_true]
      · have hh' : hidden f idx cur = false := by simpa using hh
        simp only [hh', Bool.false_eq_true, if_false]
        cases v with
        | ph =>
          simp only [materialize]
          rw [dumpSlot_default S hw f, dumpSlot]
          simp
        | _ => rfl

/-- **observers never change what a message subsequently encodes to** … -/
theorem observer_pure_bytes (S : Schema) (hw : WfSchemaOpt S) (m m' : Val) (op : Op)
    (hop : op = .readAll ∨ op = .rawObs) (hs : stepOp S m op = .ok m') :
    dumpVal S m' = dumpVal S m := by
  cases m with
  | msg c sl ow unk cur =>
    unfold stepOp at hs
    simp only [stateOf] at hs
    rcases hop with h | h <;> subst h <;> simp only at hs <;> injection hs with hs <;> subst hs
    · simp only [MState.toVal]
      rw [dumpVal_msg, dumpVal_msg, materialize_invisible S hw]
    · rfl
  | _ => unfold stepOp at hs; simp [stateOf] at hs

/-- … its length … -/
theorem observer_pure_len (S : Schema) (hw : WfSchemaOpt S) (m m' : Val) (op : Op)
    (hop : op = .readAll ∨ op = .rawObs) (hs : stepOp S m op = .ok m') :
    lenVal S m' = lenVal S m := by
  rw [lenVal_eq, lenVal_eq, observer_pure_bytes S hw m m' op hop hs]

/-- … or what it reports as present: the oneof selection, `serialized_on_wire` and the
    unknown fields are untouched, and so is every slot that held a value (only
    PLACEHOLDER slots are filled, with the very default a read returns anyway) -/
theorem observer_pure_presence (S : Schema) (c : Nat) (sl : List Val) (ow : Bool) (unk : Bytes)
    (cur : List (Option Nat)) (m' : Val) (op : Op) (hop : op = .readAll ∨ op = .rawObs)
    (hs : stepOp S (.msg c sl ow unk cur) op = .ok m') :
    ∃ sl', m' = .msg c sl' ow unk cur ∧ sl'.length = sl.length
      ∧ ∀ (i : Nat) (v : Val), sl[i]? = some v → v ≠ Val.ph → sl'[i]? = some v := by
  unfold stepOp at hs
  simp only [stateOf] at hs
  rcases hop with h | h <;> subst h <;> simp only at hs <;> injection hs with hs <;> subst hs
  · refine ⟨_, rfl, ?_, ?_⟩
    · -- length
      have : ∀ (j : Nat) (vs : List Val), (materializeAll S (fieldsOf S c) cur j vs).length = vs.length := by
        intro j vs; induction vs generalizing j with
        | nil => rfl
        | cons v vs ih => simp [materializeAll, ih]
      exact this 0 sl
    · intro i v hv hne
      have hg := materializeAll_getD S (fieldsOf S c) cur 0 sl i
      have hlt : i < sl.length := by
        by_contra hc
        have : sl[i]? = Option.none := List.getElem?_eq_none (by omega)
        rw [this] at hv; simp at hv
      have hmat : ∀ f, materialize S f v = v := by intro f; cases v <;> first | rfl | exact absurd rfl hne
      have hd : sl.getD i .ph = v := by simp [List.getD_eq_getElem?_getD, hv]
      have hlen : (materializeAll S (fieldsOf S c) cur 0 sl).length = sl.length := by
        have : ∀ (j : Nat) (vs : List Val), (materializeAll S (fieldsOf S c) cur j vs).length = vs.length := by
          intro j vs; induction vs generalizing j with
          | nil => rfl
          | cons v vs ih => simp [materializeAll, ih]
        exact this 0 sl
      have hsome : (materializeAll S (fieldsOf S c) cur 0 sl)[i]? = some ((materializeAll S (fieldsOf S c) cur 0 sl).getD i .ph) := by
        rw [List.getD_eq_getElem?_getD]
        have : i < (materializeAll S (fieldsOf S c) cur 0 sl).length := by omega
        rw [List.getElem?_eq_getElem this]; rfl
      rw [hsome, hg]
      simp only [Nat.zero_add, hd, hlt, if_true]
      cases (fieldsOf S c)[i]? with
      | none => rfl
      | some f => simp only []; split <;> simp [hmat f]
  · exact ⟨sl, rfl, rfl, fun i v hv _ => hv⟩

/-- **copy and deepcopy keep the class, `serialized_on_wire` and the unknown fields
    verbatim**, and re-derive a selection that satisfies the oneof invariant (C07) -/
theorem copies_keep_presence (S : Schema) (c : Nat) (sl : List Val) (ow : Bool) (unk : Bytes)
    (cur : List (Option Nat)) (hw : C07.WfClass S c) (h : C07.InvVal S (.msg c sl ow unk cur)) :
    (∃ sl' cur', deepCopy S (.msg c sl ow unk cur) = .msg c sl' ow unk cur' ∧ C07.InvVal S (.msg c sl' ow unk cur'))
    ∧ (∃ sl' cur', shallowCopy S (.msg c sl ow unk cur) = .msg c sl' ow unk cur' ∧ C07.InvVal S (.msg c sl' ow unk cur')) :=
  ⟨deepCopy_inv S c sl ow unk cur hw h, shallowCopy_inv S c sl ow unk cur hw h⟩

/-- **a pickle round trip goes through the wire format**: the unpickled message is
    `parse(bytes(m))` (so its faithfulness is exactly the binary round trip, C01) -/
theorem pickle_is_wire_roundtrip (S : Schema) (c : Nat) (sl : List Val) (ow : Bool) (unk : Bytes)
    (cur : List (Option Nat)) :
    stepOp S (.msg c sl ow unk cur) .pickle
      = (dumpVal S (.msg c sl ow unk cur)).bind fun bs => parse S c bs := rfl

/-! non-vacuity: reading every field of a message with an unset string and sub-message -/
def S4 : Schema := [{ fields := [{ name := "s", num := 1, ty := .string }, { name := "m", num := 2, ty := .message, kind := .user 0 },
                                  { name := "i", num := 3, ty := .int32 }] }]
example : (stepOp S4 (.msg 0 [.ph, .ph, .int 7] true [9, 9] []) .readAll).bind (dumpVal S4) = .ok [0x18, 0x07, 9, 9] := by decide

/-! ### copies are byte-faithful (lemmas: BpProofs/CopyBytes.lean) -/

/-- **"`copy.copy(m)` and `copy.deepcopy(m)` encode to the same bytes as `m`"** (C14,
    `copy_faithful` / `deepcopy_faithful`, the `dump … = dump s` half): for EVERY well-typed
    reachable message `m` — nested messages, lists, maps, oneofs, unknown fields included — and
    also when `bytes(m)` raises (both sides are then the same error) -/
theorem copy_bytes_faithful (S : Schema) (m : Val) (h : MsgOk S m) :
    dumpVal S (deepCopy S m) = dumpVal S m ∧ dumpVal S (shallowCopy S m) = dumpVal S m :=
  ⟨deepCopy_bytes S m h, shallowCopy_bytes S m h⟩

/-- **"… and are equal to `m`"** (C14, the `… ≈ s` half, in its strongest form): in the model,
    where values have no identity, both copies ARE the original — the constructor gets every raw
    slot back as it was (PLACEHOLDER is replaced by `None` only for optional fields, which under
    `MsgOk` never hold PLACEHOLDER), `__post_init__` re-derives the very same oneof selection,
    and `_serialized_on_wire` / `_unknown_fields` are carried over.  Hence equal under `==`,
    same presence (`which_one_of`, `is_set`, `serialized_on_wire`), same `to_dict`, … -/
theorem copy_is_original (S : Schema) (m : Val) (h : MsgOk S m) :
    deepCopy S m = m ∧ shallowCopy S m = m :=
  ⟨deepCopy_id S m h, shallowCopy_id S m h⟩

/-- **"a copy is again a well-typed reachable message"** (so every theorem with the hypothesis
    `MsgOk` — the binary round trip C01 in particular, and this one — applies to the copy, to
    copies of copies, …) -/
theorem copy_stays_welltyped (S : Schema) (m : Val) (h : MsgOk S m) :
    MsgOk S (deepCopy S m) ∧ MsgOk S (shallowCopy S m) :=
  ⟨deepCopy_ok S m h, shallowCopy_ok S m h⟩

/-- the same as steps of the instance state machine the harness replays -/
theorem copy_steps (S : Schema) (m : Val) (h : MsgOk S m) :
    stepOp S m .deepcopy = .ok m ∧ stepOp S m .copy = .ok m := by
  cases h with
  | mk c d sl ow unk cur hd h1 h2 h3 h4 h5 h6 h7 hsl hunk =>
    have hm : MsgOk S (.msg c sl ow unk cur) := MsgOk.mk c d sl ow unk cur hd h1 h2 h3 h4 h5 h6 h7 hsl hunk
    constructor
    · show Except.ok (deepCopy S (.msg c sl ow unk cur)) = _
      rw [deepCopy_id S _ hm]
    · show Except.ok (shallowCopy S (.msg c sl ow unk cur)) = _
      rw [shallowCopy_id S _ hm]

/-! non-vacuity: the theorems instantiated on the nested example value of BpProofs/OkSound.lean
    (sub-message with a oneof selection and unknown fields, repeated messages, maps with message /
    Timestamp / Duration values, wrapper, optional Duration), and the same facts observed by kernel
    evaluation of the model -/
example : dumpVal OkEx.SEx (deepCopy OkEx.SEx OkEx.mEx) = .ok OkEx.bsEx
    ∧ dumpVal OkEx.SEx (shallowCopy OkEx.SEx OkEx.mEx) = .ok OkEx.bsEx := by
  have := copy_bytes_faithful OkEx.SEx OkEx.mEx OkEx.mEx_ok
  rw [OkEx.mEx_dump] at this
  exact this
example : MsgOk OkEx.SEx (deepCopy OkEx.SEx OkEx.mEx) := (copy_stays_welltyped _ _ OkEx.mEx_ok).1
set_option maxRecDepth 8000 in
example : dumpVal OkEx.SEx (deepCopy OkEx.SEx OkEx.mEx) = .ok OkEx.bsEx := by decide +kernel
set_option maxRecDepth 8000 in
example : dumpVal OkEx.SEx (shallowCopy OkEx.SEx OkEx.mEx) = .ok OkEx.bsEx := by decide +kernel
example : msgOkB OkEx.SEx (deepCopy OkEx.SEx OkEx.mEx) = true := by decide +kernel
/-- the oneof selection of the nested `Node` (member `sub`, index 3) survives the copy -/
example : (match deepCopy OkEx.SEx OkEx.mid with | .msg _ _ _ _ cur => cur | _ => []) = [some 3] := by decide +kernel

/-- since the D45 repair a copy receives the selection of its original verbatim (it used to be
    re-derived from which slots are set): even a value outside `MsgOk` whose selected member holds
    PLACEHOLDER (reachable only by assigning the sentinel itself) is copied faithfully -/
example :
    let m : Val := .msg 0 [.ph, .none, .ph, .ph, .ph, .ph] false [] [some 2]
    msgOkB OkEx.SEx m = false
    ∧ dumpVal OkEx.SEx m = .ok [0x18, 0x00]
    ∧ dumpVal OkEx.SEx (deepCopy OkEx.SEx m) = .ok [0x18, 0x00]
    ∧ dumpVal OkEx.SEx (shallowCopy OkEx.SEx m) = .ok [0x18, 0x00] := by decide +kernel

end Bp.C14

#print axioms Bp.C14.copy_bytes_faithful
#print axioms Bp.C14.copy_is_original
#print axioms Bp.C14.copy_stays_welltyped
#print axioms Bp.C14.copy_steps
