import BpProofs.HeapBasic
import BpProofs.HeapCopy
import BpProofs.HeapMut
/-
  C14, the ALIASING half — "… and mutating a deep copy or an unpickled copy never affects the
  original" — over the heap model BpModel/Heap.lean (objects with identity: message cells, the lists
  and dicts of repeated / map fields, the `_group_current` dict and the `_unknown_fields` bytes object
  of every message are heap cells; `copyVal` models `copy.deepcopy` under `Message.__copy_state_to`,
  memo quirk included; `shallowCopy` models `copy.copy`).  The VALUE half is Props/C14.lean.

  All statements are for EVERY well-formed heap (`WF`: references in range, `_unknown_fields` is a
  bytes object; decidable: `wfB`), every object, every amount of fuel (`none` = RecursionError on a
  cyclic graph), every depth `n` of observation and every sequence of mutations.

    * `deepcopy_disjoint`      no mutable cell is reachable from both the copy and the original
                               (the copy's `_group_current` included);
    * `deepcopy_value`         the copy has the original's value, the original's cells are untouched;
    * `deepcopy_independent`   no program working through the copy (and objects it creates) changes
                               the original's value, and symmetrically;
    * `pickle_copy_independent` the same for the aliasing structure of an unpickled copy;
    * `shallow_copy_shares_exactly`  what `copy.copy` shares and which mutations are visible;
    * `shared_gcur_breaks_independence` … `decide`-checked witnesses for the seeded-bug classes.
  Link to the code: driver command HEAPCOPY, harness/props/c14.py stage "heap" (sharing pattern along
  all paths observed with `is`, values after mutations).
-/
namespace Bp.C14
open Bp.Hp

/-! ### deep copy and unpickled copy (`copyWith cfg`, `cfg.shareGc = false`) -/

theorem copyWith_disjoint {cfg : Cfg} (hcfg : cfg.shareGc = false) {fuel : Nat} {h h' : Heap} {o c : Nat}
    (hw : WF h) (ho : o < h.length) (hcp : copyWith cfg fuel h o = some (h', c)) (x : Nat)
    (hc : Reach h' c x) (hox : Reach h' o x) : isBytes h' x = true := by
  obtain ⟨⟨ext, rfl⟩, _, _, _, hfresh, _⟩ := copyWith_spec hcfg hw ho hcp
  have hsame : ∀ y, Reach h o y → (h ++ ext)[y]? = h[y]? :=
    fun y hy => List.getElem?_append_left (hw.1.reach ho hy)
  have hx : x < h.length := hw.1.reach ho (Reach.transport_back hsame hox)
  rcases hfresh x hc with hh | hh
  · omega
  · exact hh

/-- **after `deepcopy`, no MUTABLE object is reachable from both the copy and the original**:
    whatever both reach is an (immutable) `bytes` object — `_unknown_fields`, which
    `__copy_state_to` assigns without copying.  Also for the executable `reach`. -/
theorem deepcopy_disjoint (fuel : Nat) (h h' : Heap) (o c : Nat) (hw : WF h) (ho : o < h.length)
    (hcp : deepCopy fuel h o = some (h', c)) :
    (∀ x, Reach h' c x → Reach h' o x → isBytes h' x = true) ∧
    (∀ x, x ∈ reach h' c → x ∈ reach h' o → isBytes h' x = true) :=
  ⟨copyWith_disjoint rfl hw ho hcp,
   fun x h1 h2 => copyWith_disjoint rfl hw ho hcp x (reach_sound _ _ _ h1) (reach_sound _ _ _ h2)⟩

/-- in particular **the copy of a message has a `_group_current` dict of its own**: a `gcur` cell
    allocated by the copy, with the original's selection, that the original does not reach -/
theorem deepcopy_gcur_fresh (fuel : Nat) (h h' : Heap) (o c : Nat) (hw : WF h) (ho : o < h.length)
    (sl : List HVal) (ow : Bool) (u g : Nat) (hcell : h[o]? = some (.msg sl ow u g))
    (hcp : deepCopy fuel h o = some (h', c)) :
    ∃ sl' g', h'[c]? = some (.msg sl' ow u g') ∧ h'[g']? = some (.gcur (selAt h g)) ∧ ¬ Reach h' o g' := by
  have hdis := copyWith_disjoint rfl hw ho hcp
  unfold deepCopy copyWith at hcp
  cases fuel with
  | zero => simp [copyVal] at hcp
  | succ fuel =>
    simp only [copyVal, List.lookup, hcell] at hcp
    cases hci : copyItems (freshMemo (copyVal {} fuel)) h [] sl with
    | none => simp [hci] at hcp
    | some r =>
      obtain ⟨h1, m1, sl'⟩ := r
      simp only [hci, Bool.false_eq_true, if_false, Option.some.injEq, Prod.mk.injEq] at hcp
      obtain ⟨rfl, rfl⟩ := hcp
      have hc : (h1 ++ [Cell.gcur (selAt h g), Cell.msg sl' ow u h1.length])[h1.length + 1]?
          = some (Cell.msg sl' ow u h1.length) := by simp
      have hg : (h1 ++ [Cell.gcur (selAt h g), Cell.msg sl' ow u h1.length])[h1.length]?
          = some (Cell.gcur (selAt h g)) := by simp
      refine ⟨sl', h1.length, hc, hg, ?_⟩
      intro hr
      have := hdis h1.length (Reach.edge hc (by simp [Cell.refs])) hr
      unfold isBytes at this
      rw [hg] at this; cases this

/-- **the deep copy has the original's value** (to every depth; so do its bytes: Props/C14.lean),
    **and taking it leaves every existing object untouched** -/
theorem deepcopy_value (fuel : Nat) (h h' : Heap) (o c : Nat) (hw : WF h) (ho : o < h.length)
    (hcp : deepCopy fuel h o = some (h', c)) :
    (∀ n, absVal n h' c = absVal n h o) ∧ (∃ ext, h' = h ++ ext) ∧ (∀ i, i < h.length → h'[i]? = h[i]?) ∧
    (∀ n, absVal n h' o = absVal n h o) := by
  obtain ⟨⟨ext, rfl⟩, _, _, _, _, hval⟩ := copyWith_spec (cfg := {}) rfl hw ho hcp
  refine ⟨hval, ⟨ext, rfl⟩, fun i hi => List.getElem?_append_left hi, ?_⟩
  intro n
  exact absV_append n h ext _ hw.1 (by intro r hr; simp [HVal.refs] at hr; subst hr; exact ho)

theorem copyWith_sep {cfg : Cfg} (hcfg : cfg.shareGc = false) {fuel : Nat} {h h' : Heap} {o c : Nat}
    (hw : WF h) (ho : o < h.length) (hcp : copyWith cfg fuel h o = some (h', c)) :
    Sep h' o [c] ∧ Sep h' c [o] := by
  have hdis := copyWith_disjoint hcfg hw ho hcp
  obtain ⟨⟨ext, rfl⟩, hw', hc, _, _, _⟩ := copyWith_spec hcfg hw ho hcp
  have ho' : o < (h ++ ext).length := by simp; omega
  constructor
  · refine ⟨hw'.1, ho', by simpa using hc, ?_⟩
    rintro x ⟨r, hr, hrx⟩ hox
    simp only [List.mem_singleton] at hr; subst hr
    exact hdis x hrx hox
  · refine ⟨hw'.1, hc, by simpa using ho', ?_⟩
    rintro x ⟨r, hr, hrx⟩ hcx
    simp only [List.mem_singleton] at hr; subst hr
    exact hdis x hcx hrx

/-- **mutating a deep copy never affects the original** — for EVERY program `ms` (any sequence of field
    assignments, oneof switches, list appends / clears, dict stores, merges of unknown fields, and
    constructions of new messages / lists / dicts) whose every step is applied THROUGH the copy
    (`Legal h' [c] ms`: target and stored references reachable from the copy or from objects the
    program itself created), the value of the original is what it was before the copy was taken;
    **and symmetrically** programs working through the original never change the copy. -/
theorem deepcopy_independent (fuel : Nat) (h h' : Heap) (o c : Nat) (hw : WF h) (ho : o < h.length)
    (hcp : deepCopy fuel h o = some (h', c)) (ms : List Mut) :
    (Legal h' [c] ms → ∀ n, absVal n (runMuts h' ms) o = absVal n h o) ∧
    (Legal h' [o] ms → ∀ n, absVal n (runMuts h' ms) c = absVal n h o) := by
  obtain ⟨s1, s2⟩ := copyWith_sep (cfg := {}) rfl hw ho hcp
  obtain ⟨hv, _, _, hvo⟩ := deepcopy_value fuel h h' o c hw ho hcp
  exact ⟨fun hl n => (s1.run ms hl n).trans (hvo n), fun hl n => (s2.run ms hl n).trans (hv n)⟩

/-- **mutating an unpickled copy never affects the original** (aliasing structure of
    `pickle.loads(pickle.dumps(m))` = a tree of fresh objects; its value is the wire round trip, C01),
    and the unpickled copy shares no mutable object with the original -/
theorem pickle_copy_independent (fuel : Nat) (h h' : Heap) (o c : Nat) (hw : WF h) (ho : o < h.length)
    (hcp : pickleCopy fuel h o = some (h', c)) (ms : List Mut) :
    (∀ x, Reach h' c x → Reach h' o x → isBytes h' x = true) ∧
    (Legal h' [c] ms → ∀ n, absVal n (runMuts h' ms) o = absVal n h' o) ∧
    (Legal h' [o] ms → ∀ n, absVal n (runMuts h' ms) c = absVal n h' c) := by
  obtain ⟨s1, s2⟩ := copyWith_sep (cfg := { useMemo := false }) rfl hw ho hcp
  exact ⟨copyWith_disjoint (cfg := { useMemo := false }) rfl hw ho hcp, s1.run ms, s2.run ms⟩

/-! ### shallow copy -/

/-- the operations on the message object itself: assign a plain field, read a field (lazily storing
    its default), assign a oneof member, merge unknown fields -/
def IsMsgOp (t : Nat) (mu : Mut) : Prop :=
  (∃ i v, mu = .setSlot t i v) ∨ (∃ i v, mu = .fill t i v) ∨ (∃ g i sibs v, mu = .selectMember t g i sibs v)
    ∨ (∃ bs, mu = .mergeUnknown t bs)

theorem IsMsgOp.target {t : Nat} {mu : Mut} (hm : IsMsgOp t mu) : mu.target = some t := by
  rcases hm with ⟨_, _, rfl⟩ | ⟨_, _, rfl⟩ | ⟨_, _, _, _, rfl⟩ | ⟨_, rfl⟩ <;> rfl

theorem selAt_of {hh : Heap} {k : Nat} {s : List (Option Nat)} (hk : hh[k]? = some (Cell.gcur s)) :
    selAt hh k = s := by
  unfold selAt; rw [hk]

/-- **`copy.copy` shares exactly the children.**  After `shallowCopy h o = some (h', c)`:
    1. two cells are new — the copy's message cell `c` and its own `_group_current` cell — with the
       original's slot VALUES (the same references), flags, bytes object and selection; the copy has the
       original's value;
    2. neither new cell is reachable from the original;
    3. everything else the copy reaches is reachable from a child of the original (a slot value or
       the bytes object) — and every such child is reached by both: it is SHARED;
    4. hence assigning or reading a field, switching a oneof member or merging unknown fields ON THE COPY (any
       operand) never changes the original's value;
    5. and the same operations ON THE ORIGINAL never change the copy — provided the original is not
       its own descendant and no descendant uses its `_group_current` (true of every graph betterproto
       builds; stated as hypotheses because the heap is arbitrary);
    6. whereas ANY mutation of another object (a shared list, dict or sub-message, at any depth) is seen
       identically through both: afterwards copy and original still have the same value (provided
       the original's `_group_current` is a gcur cell that no other message uses). -/
theorem shallow_copy_shares_exactly (h h' : Heap) (o c : Nat) (hcl : Closed h)
    (hcp : shallowCopy h o = some (h', c)) :
    ∃ sl ow u g, h[o]? = some (.msg sl ow u g) ∧
      -- 1
      h' = h ++ [.gcur (selAt h g), .msg sl ow u h.length] ∧ c = h.length + 1 ∧
      (∀ n, absVal n h' c = absVal n h o) ∧
      -- 2
      ¬ Reach h' o c ∧ ¬ Reach h' o h.length ∧
      -- 3
      (∀ x, Reach h' c x ↔ (x = c ∨ x = h.length ∨ ∃ b ∈ u :: itemRefs sl, Reach h b x)) ∧
      (∀ b ∈ u :: itemRefs sl, ∀ x, Reach h b x → Reach h' o x ∧ Reach h' c x) ∧
      -- 4
      (∀ mu, IsMsgOp c mu → ∀ n, absVal n (applyMut h' mu) o = absVal n h' o) ∧
      -- 5
      ((∀ b ∈ u :: itemRefs sl, ¬ Reach h b o ∧ ¬ Reach h b g) →
        ∀ mu, IsMsgOp o mu → ∀ n, absVal n (applyMut h' mu) c = absVal n h' c) ∧
      -- 6
((∃ sel, h[g]? = some (.gcur sel)) → (∀ t sl' ow' u', h[t]? = some (.msg sl' ow' u' g) → t = o) →
        ∀ mu, mu.target ≠ some o → mu.target ≠ some c →
          ∀ n, absVal n (applyMut h' mu) c = absVal n (applyMut h' mu) o) := by
  unfold shallowCopy at hcp
  cases hcell : h[o]? with
  | none => simp [hcell] at hcp
  | some cell =>
    cases cell with
    | msg sl ow u g =>
      simp only [hcell, Option.some.injEq, Prod.mk.injEq] at hcp
      obtain ⟨rfl, rfl⟩ := hcp
      have ho : o < h.length := by
        by_contra hge
        rw [List.getElem?_eq_none (by omega)] at hcell; cases hcell
      have hul : u < h.length := hcl o _ hcell u (by simp [Cell.refs])
      have hgl : g < h.length := hcl o _ hcell g (by simp [Cell.refs])
      have hslr : ∀ b ∈ itemRefs sl, b < h.length := fun b hb => hcl o _ hcell b (by simp [Cell.refs, hb])
      have hchild : ∀ b ∈ u :: itemRefs sl, b < h.length := by
        intro b hb
        rcases List.mem_cons.mp hb with rfl | hb
        · exact hul
        · exact hslr b hb
      -- abbreviations
      generalize hE : [Cell.gcur (selAt h g), Cell.msg sl ow u h.length] = ext
      have hextlen : ext.length = 2 := by rw [← hE]; rfl
      have hcC : (h ++ ext)[h.length + 1]? = some (Cell.msg sl ow u h.length) := by
        rw [← hE]; simp
      have hcG : (h ++ ext)[h.length]? = some (Cell.gcur (selAt h g)) := by
        rw [← hE]; simp
      have hold : ∀ i, i < h.length → (h ++ ext)[i]? = h[i]? := fun i hi => List.getElem?_append_left hi
      -- reachability from old cells is the same in both heaps
      have hfwd : ∀ a x, a < h.length → Reach h a x → Reach (h ++ ext) a x := by
        intro a x ha hr
        exact Reach.transport (fun y hy => hold y (hcl.reach ha hy)) hr
      have hback : ∀ a x, a < h.length → Reach (h ++ ext) a x → Reach h a x := by
        intro a x ha hr
        exact Reach.transport_back (fun y hy => hold y (hcl.reach ha hy)) hr
      have hoOld : ∀ x, Reach (h ++ ext) o x → x < h.length := fun x hx => hcl.reach ho (hback o x ho hx)
      have hgOnly : ∀ x, Reach (h ++ ext) h.length x → x = h.length := by
        intro x hx
        cases hx with
        | refl => rfl
        | step hc hb _ => rw [hcG] at hc; cases hc; simp [Cell.refs] at hb
      have hreachC : ∀ x, Reach (h ++ ext) (h.length + 1) x ↔
          (x = h.length + 1 ∨ x = h.length ∨ ∃ b ∈ u :: itemRefs sl, Reach h b x) := by
        intro x
        constructor
        · intro hx
          cases hx with
          | refl => exact Or.inl rfl
          | step hc hb hr =>
            rw [hcC] at hc; cases hc
            simp only [Cell.refs, List.mem_cons] at hb
            rcases hb with rfl | rfl | hb
            · exact Or.inr (Or.inr ⟨_, by simp, hback _ x hul hr⟩)
            · exact Or.inr (Or.inl (hgOnly x hr))
            · exact Or.inr (Or.inr ⟨_, by simp [hb], hback _ x (hslr _ hb) hr⟩)
        · rintro (rfl | rfl | ⟨b, hb, hr⟩)
          · exact .refl _
          · exact Reach.edge hcC (by simp [Cell.refs])
          · refine .step hcC ?_ (hfwd b x (hchild b hb) hr)
            simp only [Cell.refs, List.mem_cons] at hb ⊢
            rcases hb with rfl | hb
            · exact Or.inl rfl
            · exact Or.inr (Or.inr hb)
      have hvalC : ∀ (hh : Heap), hh[h.length + 1]? = some (Cell.msg sl ow u h.length) →
          ∀ n, absVal (n + 1) hh (h.length + 1) = .msg (sl.map (absV n hh)) ow (bytesAt hh u) (selAt hh h.length) := by
        intro hh hc n; simp [absVal, absV, hc]
      have hvalO : ∀ (hh : Heap), hh[o]? = some (Cell.msg sl ow u g) →
          ∀ n, absVal (n + 1) hh o = .msg (sl.map (absV n hh)) ow (bytesAt hh u) (selAt hh g) := by
        intro hh hc n; simp [absVal, absV, hc]
      refine ⟨sl, ow, u, g, rfl, by rw [← hE], rfl, ?_, ?_, ?_, hreachC, ?_, ?_, ?_, ?_⟩
      · -- value
        intro n
        cases n with
        | zero => rfl
        | succ n =>
          rw [hvalC _ hcC, hvalO _ hcell]
          congr 1
          · apply List.map_congr_left
            intro w hw
            exact absV_append n h ext w hcl (fun r hr => hslr r (mem_itemRefs_of hw hr))
          · exact bytesAt_congr (hold u hul)
          · exact selAt_of hcG
      · intro hr; have := hoOld _ hr; omega
      · intro hr; have := hoOld _ hr; omega
      · intro b hb x hr
        refine ⟨?_, (hreachC x).mpr (Or.inr (Or.inr ⟨b, hb, hr⟩))⟩
        refine .step ((hold o ho).trans hcell) ?_ (hfwd b x (hchild b hb) hr)
        simp only [Cell.refs, List.mem_cons] at hb ⊢
        rcases hb with rfl | hb
        · exact Or.inl rfl
        · exact Or.inr (Or.inr hb)
      · -- 4: operations on the copy
        intro mu hmu n
        apply absV_frame
        rintro x ⟨r, hr, hrx⟩
        simp [HVal.refs] at hr; subst hr
        have hxl := hoOld x hrx
        by_contra hne
        rcases applyMut_changed_target (h ++ ext) mu x (by simp; omega) hne with ⟨ht, _⟩ | ⟨t, sl', ow', u', sel, ht, hct, _⟩
        · rw [hmu.target] at ht; cases ht; omega
        · rw [hmu.target] at ht; cases ht
          rw [hcC] at hct; cases hct; omega
      · -- 5: operations on the original
        intro hacyc mu hmu n
        apply absV_frame
        rintro x ⟨r, hr, hrx⟩
        simp [HVal.refs] at hr; subst hr
        have hcases := (hreachC x).mp hrx
        have hxl : x < (h ++ ext).length := by
          rcases hcases with rfl | rfl | ⟨b, hb, hbx⟩
          · simp; omega
          · simp; omega
          · have := hcl.reach (hchild b hb) hbx; simp; omega
        by_contra hne
        have hx2 : x = o ∨ x = g := by
          rcases applyMut_changed_target (h ++ ext) mu x hxl hne with ⟨ht, _⟩ | ⟨t, sl', ow', u', sel, ht, hct, _⟩
          · rw [hmu.target] at ht; cases ht; exact Or.inl rfl
          · rw [hmu.target] at ht; cases ht
            rw [hold o ho, hcell] at hct; cases hct; exact Or.inr rfl
        rcases hcases with rfl | rfl | ⟨b, hb, hbx⟩
        · omega
        · omega
        · rcases hx2 with rfl | rfl
          · exact (hacyc b hb).1 hbx
          · exact (hacyc b hb).2 hbx
      · -- 6: any other mutation is seen identically through both
        intro hgsel hown mu hto htc n
        cases n with
        | zero => rfl
        | succ n =>
          obtain ⟨sel0, hsel0⟩ := hgsel
          have hkeep : ∀ x, x < (h ++ ext).length →
              (x = o ∨ x = h.length + 1 ∨ x = h.length ∨ x = g) → (applyMut (h ++ ext) mu)[x]? = (h ++ ext)[x]? := by
            intro x hxl hx
            by_contra hne
            rcases applyMut_changed_target (h ++ ext) mu x hxl hne with ⟨ht, hng⟩ | ⟨t, sl', ow', u', sel, ht, hct, hxg⟩
            · rcases hx with rfl | rfl | rfl | rfl
              · exact hto ht
              · exact htc ht
              · exact hng _ hcG
              · exact hng sel0 ((hold _ hgl).trans hsel0)
            · rcases hx with rfl | rfl | rfl | rfl
              · rw [hold _ ho, hcell] at hxg; cases hxg
              · rw [hcC] at hxg; cases hxg
              · -- who uses the new gcur cell?  only the copy
                by_cases htl : t < h.length
                · rw [hold t htl] at hct
                  have := hcl t _ hct h.length (by simp [Cell.refs]); omega
                · have htl2 : t < (h ++ ext).length := by
                    by_contra hge
                    rw [List.getElem?_eq_none (by omega)] at hct; cases hct
                  have : t = h.length ∨ t = h.length + 1 := by simp [hextlen] at htl2; omega
                  rcases this with rfl | rfl
                  · rw [hcG] at hct; cases hct
                  · exact htc ht
              · -- who uses the original's gcur cell?  only the original
                by_cases htl : t < h.length
                · rw [hold t htl] at hct
                  exact hto (by rw [ht, hown t _ _ _ hct])
                · have htl2 : t < (h ++ ext).length := by
                    by_contra hge
                    rw [List.getElem?_eq_none (by omega)] at hct; cases hct
                  have : t = h.length ∨ t = h.length + 1 := by simp [hextlen] at htl2; omega
                  rcases this with rfl | rfl
                  · rw [hcG] at hct; cases hct
                  · rw [hcC] at hct; cases hct; omega
          have hlen2 : (h ++ ext).length = h.length + 2 := by simp [hextlen]
          rw [hvalC _ ((hkeep _ (by omega) (Or.inr (Or.inl rfl))).trans hcC),
              hvalO _ ((hkeep _ (by omega) (Or.inl rfl)).trans ((hold o ho).trans hcell))]
          congr 1
          rw [selAt_of ((hkeep _ (by omega) (Or.inr (Or.inr (Or.inl rfl)))).trans hcG),
              selAt_of ((hkeep _ (by omega) (Or.inr (Or.inr (Or.inr rfl)))).trans ((hold g hgl).trans hsel0)),
              selAt_of hsel0]
    | _ => simp [hcell] at hcp

/-! ### witnesses (`decide`) and non-vacuity -/

/-- `Top(a=5 [oneof g0 = {slot 0, slot 1}], rep=[S, S], map={1: S}, sub=S)` with unknown fields `09 09`,
    where `S = Sub(x=7)` is ONE object used four times -/
def H0 : Heap :=
  [ .bytes [], .gcur [], .msg [.leaf 7] true 0 1,                       -- 2 = S
    .list [.ref 2, .ref 2],                                              -- 3
    .dict [1] [.ref 2],                                                  -- 4
    .bytes [9, 9], .gcur [some 0],
    .msg [.leaf 5, .ph, .ref 3, .ref 4, .ref 2] true 5 6 ]               -- 7 = Top

example : wfB H0 = true := by decide

/-- the deep copy exists, allocates 10 cells, and the copy is cell 17 -/
example : (deepCopy 4 H0 7).map (fun r => (r.1.length, r.2)) = some (18, 17) := by decide

/-- the memo quirk: inside the list the two items stay ONE object (cell 10), while the map value
    (cell 13) and the `sub` field (cell 15) are further, separate copies of `S` -/
example : (deepCopy 4 H0 7).map (fun r => r.1.drop 8) = some
    [ .gcur [], .msg [.leaf 7] true 0 8, .list [.ref 9, .ref 9],
      .gcur [], .msg [.leaf 7] true 0 11, .dict [1] [.ref 12],
      .gcur [], .msg [.leaf 7] true 0 14,
      .gcur [some 0], .msg [.leaf 5, .ph, .ref 10, .ref 13, .ref 15] true 5 16 ] := by decide

/-- copy and original meet only in the two bytes objects -/
example : (deepCopy 4 H0 7).map (fun r => (reach r.1 r.2).filter (fun x => (reach r.1 7).contains x)) = some [5, 0] := by
  decide

/-- a program through the copy: switch the oneof, append a NEW message to the list, mutate the
    (copied) sub-message inside the map, merge unknown fields -/
def prog (c : Nat) : List Mut :=
  [ .selectMember c 0 1 [0] (.leaf 9), .newMsg 1 0, .listAppend 10 (.ref 20), .setSlot 20 0 (.leaf 1),
    .setSlot 12 0 (.leaf 8), .mergeUnknown c [3, 3] ]

/-- it is legal (`deepcopy_independent` applies to it) … -/
example : (deepCopy 4 H0 7).map (fun r => legalB r.1 [r.2] (prog r.2)) = some true := by decide

/-- … it does change the copy, and (as the theorem says) not the original -/
example : (deepCopy 4 H0 7).map (fun r =>
    ((absVal 4 (runMuts r.1 (prog r.2)) r.2).enc == (absVal 4 r.1 r.2).enc,
     (absVal 4 (runMuts r.1 (prog r.2)) 7).enc == (absVal 4 H0 7).enc)) = some (false, true) := by decide

/-- **BUG CLASS (seeded repeatedly): the copy shares `_group_current`.**  With
    `clone._group_current = self._group_current`, switching the oneof member on the deep copy changes
    what the ORIGINAL reports as selected: independence fails in the model. -/
theorem shared_gcur_breaks_independence :
    (copyWith { shareGc := true } 4 H0 7).map (fun r =>
      ((absVal 4 r.1 r.2).enc == (absVal 4 H0 7).enc,                                        -- a faithful copy …
       legalB r.1 [r.2] [.selectMember r.2 0 1 [0] (.leaf 9)],                                 -- … a legal step …
       (absVal 4 (applyMut r.1 (.selectMember r.2 0 1 [0] (.leaf 9))) 7).enc == (absVal 4 H0 7).enc))
      = some (true, true, false) := by decide                                                 -- … changes the original

/-- the same for `copy.copy` -/
theorem shared_gcur_breaks_shallow :
    (shallowCopySharedGc H0 7).map (fun r =>
      (absVal 4 (applyMut r.1 (.selectMember r.2 0 1 [0] (.leaf 9))) 7).enc == (absVal 4 H0 7).enc) = some false := by
  decide

/-- **BUG CLASS: `_unknown_fields` as a shared mutable `bytearray`**: extending the copy's unknown
    fields in place changes the original (the bytes object is shared by `__copy_state_to`; it is safe
    only because `bytes` is immutable and `+=` rebinds) -/
theorem inplace_unknown_breaks_independence :
    (deepCopy 4 H0 7).map (fun r =>
      ((absVal 4 (mergeUnknownInPlace r.1 r.2 [3]) 7).enc == (absVal 4 H0 7).enc,
       (absVal 4 (applyMut r.1 (.mergeUnknown r.2 [3])) 7).enc == (absVal 4 H0 7).enc)) = some (false, true) := by decide

/-- `copy.copy`: appending to the copy's list IS visible through the original (shared child), switching the
    copy's oneof member is NOT (own `_group_current`) -/
example : (shallowCopy H0 7).map (fun r =>
    ((absVal 4 (applyMut r.1 (.listAppend 3 (.leaf 1))) 7).enc == (absVal 4 H0 7).enc,
     (absVal 4 (applyMut r.1 (.selectMember r.2 0 1 [0] (.leaf 9))) 7).enc == (absVal 4 H0 7).enc,
     (absVal 4 (applyMut r.1 (.selectMember r.2 0 1 [0] (.leaf 9))) r.2).enc == (absVal 4 H0 7).enc))
    = some (false, true, false) := by decide

/-- a cyclic graph (`m.sub = m`): deepcopy does not terminate in Python (RecursionError), `none` here -/
example : deepCopy 50 [.bytes [], .gcur [], .msg [.ref 2] true 0 1] 2 = none := by decide

end Bp.C14
