import BpProofs.PyDictReads
import BpProofs.OkSound
/-
  C14 — `to_pydict` is a pure observer, at every nesting level.
  (The model of `to_pydict` / `from_pydict` is BpModel/PyDict.lean; its tie to the source is
  Props/C14SrcPyDict.lean; the round trip `from_pydict(to_pydict(m))` is at the end of this file.)

  `m.to_pydict()` returns a new dict and never assigns to the message (the translated loop body has no
  write: Props/C14SrcPyDict.lean).  The one way it changes the object is through READING attributes:
  `Message.__getattribute__` stores the default of a PLACEHOLDER slot in the slot.  `pyReads S m` is
  the instance after all the reads the call performs — on `m`, and through the recursive calls on every
  sub-message that is written, every item of a repeated message field, every message value of a map
  field, and on the default sub-message of a selected oneof member it has just stored (validated
  against the real code by the `PYREADS` correspondence: `is_set` of every field at every level).

  Sentence of the property: "Read-only operations — …, to_pydict — never change what a message
  subsequently encodes to, compares equal to or reports as present."
    * encodes to:        `to_pydict_pure_bytes`, `to_pydict_pure_len`
    * compares equal to: `to_pydict_pure_eq` (for every well-typed reachable message, `MsgOk`)
    * reports as present: `to_pydict_pure_presence` (the message itself: class, `_serialized_on_wire`,
      unknown fields, the selection of every oneof group, every slot that held a value, `is_set` of
      every explicit-presence field, `bool(m)`), `to_pydict_pure_every_level` (every message instance
      nested anywhere inside it)
    * the same for ANY set of lazy-default stores at any depth (`MatV`: every observer, with or
      without `include_default_values`, completed or interrupted by an exception): `reads_pure`;
      the top-level reads of `bytes` / `len` / `to_dict` of Props/C14.lean are an instance
      (`readAll_is_reads`).
  Hypothesis `WfSchemaOpt S` (decidable: `wfSchemaOptB`): proto3-optional fields are singular non-map
  fields, as protoc guarantees.
-/
namespace Bp.C14
open Bp Gen

/-- **… never change what a message subsequently encodes to** (no typing hypothesis: every value) -/
theorem to_pydict_pure_bytes (S : Schema) (hw : WfSchemaOpt S) (m : Val) :
    dumpVal S (pyReads S m) = dumpVal S m :=
  matV_dumpVal S hw m _ (pyReads_mat S m)

/-- … nor its `len` -/
theorem to_pydict_pure_len (S : Schema) (hw : WfSchemaOpt S) (m : Val) :
    lenVal S (pyReads S m) = lenVal S m :=
  matV_lenVal S hw m _ (pyReads_mat S m)

/-- **… compares equal to**: the message after the reads is `==` to the message before, both ways,
    for every well-typed reachable message -/
theorem to_pydict_pure_eq (S : Schema) (hw : WfSchemaOpt S) (m : Val) (hm : MsgOk S m) :
    msgEq S m (pyReads S m) = true ∧ msgEq S (pyReads S m) m = true :=
  matV_msgEq S hw m _ (pyReads_mat S m) hm

/-- **… or reports as present**: after the reads the instance has the same class, the same
    `_serialized_on_wire`, the same unknown fields and the same selection in every oneof group
    (`which_one_of`); as many slots; every slot that held a value holds it still (itself read:
    `MatV`, to which all of this applies again); a slot that was PLACEHOLDER is PLACEHOLDER or holds
    the default of its (visible) field; `is_set` of every explicit-presence (proto3 `optional`) field
    that was not PLACEHOLDER is unchanged; and `bool(m)` / `serialized_on_wire(m)` (some slot differs
    from its default) are unchanged -/
theorem to_pydict_pure_presence (S : Schema) (hw : WfSchemaOpt S) (c : Nat) (sl : List Val) (ow : Bool) (unk : Bytes)
    (cur : List (Option Nat)) :
    ∃ sl', pyReads S (.msg c sl ow unk cur) = .msg c sl' ow unk cur ∧ sl'.length = sl.length ∧
      (∀ (i : Nat) (v : Val), sl[i]? = some v → v ≠ .ph → ∃ v', sl'[i]? = some v' ∧ MatV S v v') ∧
      (∀ (i : Nat), sl[i]? = some .ph → sl'[i]? = some .ph ∨
        ∃ f d, (fieldsOf S c)[i]? = some f ∧ hidden f i cur = false ∧ sl'[i]? = some d ∧ MatV S (defaultOf S f) d) ∧
      (∀ (i : Nat) (f : FieldD) (v : Val), (fieldsOf S c)[i]? = some f → f.optional = true → sl[i]? = some v → v ≠ .ph →
        ∃ v', sl'[i]? = some v' ∧ isSet f v' = isSet f v) ∧
      slotsEqFresh S (fieldsOf S c) sl' = slotsEqFresh S (fieldsOf S c) sl := by
  have hs := pyReadsSlots_mat S (fieldsOf S c) cur sl 0
  refine ⟨pyReadsSlots S (fieldsOf S c) cur 0 sl, by rw [pyReads], matSlots_length S _ _ cur 0 sl hs,
    matSlots_get S _ _ cur 0 sl hs, ?_, ?_, ?_⟩
  · intro i hi
    have := matSlots_get_ph S _ _ cur 0 sl hs i hi
    simpa using this
  · intro i f v hf ho hv hne
    obtain ⟨v', hv', hm⟩ := matSlots_get S _ _ cur 0 sl hs i v hv hne
    refine ⟨v', hv', ?_⟩
    have hn := matV_none S v v' hm
    unfold isSet
    simp only [ho, if_true]
    by_cases h : v = .none
    · rw [h, hn.mp h]
    · have h' : v' ≠ .none := fun e => h (hn.mpr e)
      cases v <;> cases v' <;> first | rfl | exact absurd rfl h | exact absurd rfl h'
  · have := matSlots_eqFresh S hw _ (fieldsOf S c) cur 0 sl hs
    simpa using this

/-- **… at every nesting level**: every message instance reachable inside `m` (through slots, list
    items, dict values: `subAt m path`) is still there after `m.to_pydict()`, at the same place, with
    the same class, `_serialized_on_wire`, unknown fields and oneof selections; only PLACEHOLDER slots
    of visible fields may have received their defaults (`MatSlots`, to which `reads_pure` applies) -/
theorem to_pydict_pure_every_level (S : Schema) (m : Val) (path : List Nat) (c : Nat) (sl : List Val) (ow : Bool)
    (unk : Bytes) (cur : List (Option Nat)) (h : subAt m path = some (.msg c sl ow unk cur)) :
    ∃ sl', subAt (pyReads S m) path = some (.msg c sl' ow unk cur) ∧ MatSlots S (fieldsOf S c) cur 0 sl sl' :=
  matV_subAt S path m _ (pyReads_mat S m) c sl ow unk cur h

/-- **any lazy-default stores, at any depth, are invisible**: if `m'` differs from `m` only in that
    PLACEHOLDER slots of visible fields hold their defaults (`MatV`; the defaults themselves possibly
    read) then `m'` encodes to the same bytes, has the same length, and — for a well-typed reachable
    `m` — is `==` to `m`.  This covers every read-only operation of the property at once (attribute
    reads of any depth, `bytes`, `len`, `to_dict`, `to_json`, `to_pydict`, with
    `include_default_values` or interrupted by an exception). -/
theorem reads_pure (S : Schema) (hw : WfSchemaOpt S) (m m' : Val) (h : MatV S m m') :
    dumpVal S m' = dumpVal S m ∧ lenVal S m' = lenVal S m ∧ (∀ k, eqDefault S k m' = eqDefault S k m) ∧
    (MsgOk S m → msgEq S m m' = true ∧ msgEq S m' m = true) :=
  ⟨matV_dumpVal S hw m m' h, matV_lenVal S hw m m' h, matV_eqDefault S hw m' m h, matV_msgEq S hw m m' h⟩

/-- the state after the top-level reads of Props/C14.lean (`Op.readAll`: bytes / len / to_dict) is
    such a change: `observer_pure_bytes` there is an instance of `reads_pure` -/
theorem readAll_is_reads (S : Schema) (c : Nat) (sl : List Val) (ow : Bool) (unk : Bytes) (cur : List (Option Nat)) :
    ∃ m', stepOp S (.msg c sl ow unk cur) .readAll = .ok m' ∧ MatV S (.msg c sl ow unk cur) m' :=
  ⟨_, rfl, MatV.msg c sl _ ow unk cur (materializeAll_mat S (fieldsOf S c) cur sl 0)⟩

/-- what the reads of `to_pydict` are: a change of that kind, for every value -/
theorem to_pydict_reads_are_lazy_defaults (S : Schema) (m : Val) : MatV S m (pyReads S m) := pyReads_mat S m

/-- **D04, in the model of the reads: a map field keeps its keys and its values stay what they
    were** (messages stay messages: `MatL`) — `to_pydict` does not store the converted dicts in the field -/
theorem to_pydict_keeps_maps (S : Schema) (f : FieldD) (sel : Bool) (ks vs : List Val) :
    ∃ vs', pyReadsSlot S f sel (.dict ks vs) = .dict ks vs' ∧ MatL S vs vs' :=
  ⟨pyReadsList S vs, by rw [pyReadsSlot], pyReadsList_mat S vs⟩

/-! non-vacuity, on the nested example of BpProofs/OkSound.lean (`mEx`: a `Top` with a `Node` holding a
    selected `sub` oneof member, repeated and map `Node`s some of them fresh, unknown fields …): the
    reads DO change the state (slots of `mid`, of `leaf1`, of the list and map items are filled), and the
    bytes / equality are those of the original -/
theorem wfEx : WfSchemaOpt OkEx.SEx := wfSchemaOpt_of_B _ (by decide)

/-- the reads DO change the state: the unset `i` of `leaf2` (an item of `mid.kids`, a value of `m1`) holds `0` afterwards … -/
example : (match pyReads OkEx.SEx OkEx.leaf2 with | .msg _ (.int 0 :: _) _ _ _ => true | _ => false) = true := by decide +kernel
example : (match OkEx.leaf2 with | .msg _ (.ph :: _) _ _ _ => true | _ => false) = true := by decide +kernel
/-- … while in `mid`, whose selected member is `sub` (index 3), the hidden member `a` (index 2) stays PLACEHOLDER -/
example : (match pyReads OkEx.SEx OkEx.mid with | .msg _ sl _ _ _ => isPh (sl.getD 2 .none) | _ => false) = true := by decide +kernel
set_option maxRecDepth 8000 in
example : dumpVal OkEx.SEx (pyReads OkEx.SEx OkEx.mEx) = .ok OkEx.bsEx := by
  rw [to_pydict_pure_bytes OkEx.SEx wfEx, OkEx.mEx_dump]
example : msgEq OkEx.SEx OkEx.mEx (pyReads OkEx.SEx OkEx.mEx) = true :=
  (to_pydict_pure_eq OkEx.SEx wfEx OkEx.mEx OkEx.mEx_ok).1

end Bp.C14
