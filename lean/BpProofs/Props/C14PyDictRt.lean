import BpProofs.PyDictRt
import BpProofs.JsonRtMain
/-
  C14 (touching C04) — the round trip `Cls().from_pydict(m.to_pydict(casing))`.
  Model: BpModel/PyDict.lean (`toPyDict`, `fromPyDict`; tied to the source by Props/C14SrcPyDict.lean and to the
  real code by the `TOPYDICT` / `FROMPYDICT` correspondence of harness/pydictstage.py).  Proof: BpProofs/PyDictRt.lean
  (slot by slot `to_pydict` writes a field exactly when `to_dict` does and `from_pydict`'s step stores what
  `from_dict` stores; the key loop is then the `setattr` sequence of the instance form of `from_dict`), on top of
  C04's `roundtrip_class`.  (A file of its own: the purity theorems of Props/C14PyDict.lean import the `==`
  development, whose names clash with those of the JSON development.)
-/
namespace Bp.C14
open Bp Gen

/-! ## the round trip `Cls().from_pydict(m.to_pydict(casing))` -/

/-- **`from_pydict(to_pydict(m))` gives `m` back**: for every schema inside the decidable guard
    `pyDictOk S cs` (BpModel/PyDict.lean: the field kinds and names of C04's `jsonOk` — D15 / D17 —
    minus message-typed oneof members, proto3-optional sub-messages / Timestamps / Durations and
    repeated Timestamps / Durations, see the witnesses below) with `groupsOk S`, both casings, and every
    value inside the guards of `C04.roundtrip_all` (`wellTyped'`: typed slots, no unknown fields,
    canonical NaN; `selOk`: a oneof selection names a member of its group) whose dicts have pairwise
    distinct keys (`dictKeysOk`: what a Python dict is), nested to any depth:
    `m.to_pydict(casing)` does not raise, `Cls().from_pydict(…)` of the result does not raise and
    returns a message `m'` — the SAME `m'` as `Cls.from_dict(m.to_dict(casing))` (`jrt m`) — with
    `m ≈ m'` (`DEqv`: same class, unknown fields, oneof selection, `_serialized_on_wire` set, slots
    related one by one; `C04.deqv_state`) and `bytes(m') == bytes(m)`. -/
theorem from_pydict_to_pydict (S : Schema) (cs : KeyCase) (c : Nat) (sl : List Val) (ow : Bool) (unk : Bytes)
    (cur : List (Option Nat))
    (hok : pyDictOk S cs = true) (hgroups : groupsOk S = true)
    (hwt : wellTyped' S (.msg c sl ow unk cur) = true) (hsel : selOk S (.msg c sl ow unk cur) = true)
    (hkeys : dictKeysOk (.msg c sl ow unk cur) = true) :
    ∃ p m', toPyDict S cs false (.msg c sl ow unk cur) = .ok p ∧ fromPyDict S c p = .ok m' ∧
      fromDictC S [] c (toDict S [] cs false (.msg c sl ow unk cur)) = .ok m' ∧
      DEqv S (.msg c sl ow unk cur) m' ∧ dumpVal S m' = dumpVal S (.msg c sl ow unk cur) := by
  obtain ⟨p, h1, h2⟩ := pydict_roundtrip S cs hok hgroups c sl ow unk cur hwt hsel hkeys
  obtain ⟨a, b, d⟩ := roundtrip_class S [] cs ⟨(pyDictOk_schema S cs hok).1, hgroups⟩ c sl ow unk cur hwt hsel
  exact ⟨p, _, h1, h2, a, b, d⟩

/-! ### non-vacuity: a nested value inside all guards -/

/-- `message Sub { int32 x = 1; string name = 2; }`
    `message Top { Sub sub = 1; repeated Sub subs = 2; map<string, Sub> by_name = 3; oneof pick { int32 a = 4; string b = 5; }`
    `              google.protobuf.Timestamp at = 6; google.protobuf.Int32Value w = 7; repeated sint64 nums = 8; bytes raw = 9; }` -/
def Spy : Schema := [
  { fields := [{ name := "x", num := 1, ty := .int32 }, { name := "name", num := 2, ty := .string }] },
  { fields := [{ name := "sub", num := 1, ty := .message, kind := .user 0 },
               { name := "subs", num := 2, ty := .message, kind := .user 0, repeated := true },
               { name := "by_name", num := 3, ty := .map, mapK := .string, mapV := .message, mapVKind := .user 0 },
               { name := "a", num := 4, ty := .int32, group := some 0 },
               { name := "b", num := 5, ty := .string, group := some 0 },
               { name := "at", num := 6, ty := .message, kind := .timestamp },
               { name := "w", num := 7, ty := .message, kind := .user 2, wraps := some .int32 },
               { name := "nums", num := 8, ty := .sint64, repeated := true },
               { name := "raw", num := 9, ty := .bytes }], nGroups := 1 },
  wrapperD .int32]
def subN (n : Int) : Val := .msg 0 [.int n, .ph] true [] []
/-- `Top(sub=Sub(x=-5), subs=[Sub(x=1), Sub()], by_name={"k": Sub(x=9), "": Sub()}, a=0, at=…, w=0, nums=[-1, 150], raw=b"\x01\x02")` -/
def mpy : Val := .msg 1 [subN (-5), .list [subN 1, .msg 0 [.ph, .ph] false [] []],
    .dict [.str [107], .str []] [subN 9, .msg 0 [.ph, .ph] false [] []],
    .int 0, .ph, .ts 1700000000123456, .int 0, .list [.int (-1), .int 150], .byt [1, 2]] true [] [some 3]

example : pyDictOk Spy .camel = true ∧ pyDictOk Spy .snake = true ∧ groupsOk Spy = true ∧ wellTyped' Spy mpy = true ∧
    selOk Spy mpy = true ∧ dictKeysOk mpy = true := by decide +kernel

theorem from_pydict_to_pydict_instance :
    ∃ p m', toPyDict Spy .camel false mpy = .ok p ∧ fromPyDict Spy 1 p = .ok m' ∧ DEqv Spy mpy m' ∧
      dumpVal Spy m' = dumpVal Spy mpy := by
  obtain ⟨p, m', h1, h2, _, h4, h5⟩ := from_pydict_to_pydict Spy .camel 1 _ _ _ _ (by decide +kernel) (by decide +kernel)
    (show wellTyped' Spy mpy = true by decide +kernel) (by decide +kernel) (by decide +kernel)
  exact ⟨p, m', h1, h2, h4, h5⟩

/-- the same by evaluation of the model: the bytes after the round trip are those of the original -/
example : ((toPyDict Spy .camel false mpy).bind (fromPyDict Spy 1)).bind (dumpVal Spy) = dumpVal Spy mpy := by decide +kernel

/-! ### what is outside `pyDictOk`, and why: one decided witness each (replayed on the real code by
    harness/pydictstage.py `replay_witnesses`) -/

def one (fs : List FieldD) (n : Nat := 0) : Schema := [{ fields := fs, nGroups := n }, { fields := [{ name := "x", num := 1, ty := .int32 }] }]

/-- the call raised AttributeError -/
def raisedAttr {α : Type} : R α → Bool
  | .error .attr => true
  | _ => false
/-- the dict written is `{"s": {"x": 1}}` -/
def isSX1 : R PVal → Bool
  | .ok (.obj [.str [115]] [.obj [.str [120]] [.num 1]]) => true
  | _ => false
/-- the dict written is `{}` -/
def isEmptyObj : R PVal → Bool
  | .ok (.obj [] []) => true
  | _ => false

def SoneofMsg : Schema := one [{ name := "a", num := 1, ty := .int32, group := some 0 },
                               { name := "s", num := 2, ty := .message, kind := .user 1, group := some 0 }] 1
def moneofMsg : Val := .msg 0 [.ph, .msg 1 [.int 1] true [] []] true [] [some 1]
/-- a oneof member of message type: `to_pydict` writes it (`{"s": {"x": 1}}`), `from_pydict` reads the
    attribute on the fresh instance first — AttributeError (`'g' is set to None, not 's'`) -/
theorem pydict_oneof_message_witness :
    pyDictOk SoneofMsg .camel = false ∧ wellTyped' SoneofMsg moneofMsg = true ∧
    isSX1 (toPyDict SoneofMsg .camel false moneofMsg) = true ∧
    raisedAttr ((toPyDict SoneofMsg .camel false moneofMsg).bind (fromPyDict SoneofMsg 0)) = true := by decide +kernel

def SoptMsg : Schema := one [{ name := "s", num := 1, ty := .message, kind := .user 1, optional := true }]
def moptMsg : Val := .msg 0 [.msg 1 [.int 1] true [] []] true [] []
/-- a proto3-optional sub-message: the attribute of the fresh instance is None, `None.from_pydict(…)`
    raises AttributeError -/
theorem pydict_optional_message_witness :
    pyDictOk SoptMsg .camel = false ∧ wellTyped' SoptMsg moptMsg = true ∧
    isSX1 (toPyDict SoptMsg .camel false moptMsg) = true ∧
    raisedAttr ((toPyDict SoptMsg .camel false moptMsg).bind (fromPyDict SoptMsg 0)) = true := by decide +kernel

def SoptTs : Schema := one [{ name := "t", num := 1, ty := .message, kind := .timestamp, optional := true }]
def moptTs : Val := .msg 0 [.ts 0] true [] []
/-- a proto3-optional Timestamp at the epoch: present for `bytes()` (`0a 00`), written by `to_dict`, left out
    by `to_pydict` (which has no `or meta.optional` in its emission test: the D27 repair went into `to_dict` only) -/
theorem pydict_optional_timestamp_witness :
    pyDictOk SoptTs .camel = false ∧ dumpVal SoptTs moptTs = .ok [0x0a, 0x00] ∧
    isEmptyObj (toPyDict SoptTs .camel false moptTs) = true ∧
    (match toDict SoptTs [] .camel false moptTs with | .obj [_] [.tsStr 0] => true | _ => false) = true := by
  decide +kernel

def SrepTs : Schema := one [{ name := "t", num := 1, ty := .message, kind := .timestamp, repeated := true }]
def mrepTs : Val := .msg 0 [.list [.ts 0]] true [] []
/-- a repeated Timestamp: `to_pydict` treats the items as messages — AttributeError
    (`'datetime.datetime' object has no attribute 'to_pydict'`) -/
theorem pydict_repeated_timestamp_witness :
    pyDictOk SrepTs .camel = false ∧ wellTyped' SrepTs mrepTs = true ∧
    raisedAttr (toPyDict SrepTs .camel false mrepTs) = true := by decide +kernel

end Bp.C14
