import BpProofs.SrcTieObjObs
/-
  C14 (observers are pure) / C06 (presence) / C01 (`==`), tied to the SOURCE: the raw-slot
  observers `Message.__bool__`, `betterproto.serialized_on_wire`, `Message.is_set` and
  `Message.__eq__` are translated from the Python AST on every run (harness/extract_srcobj.py →
  BpProofs/Gen/SrcObjObs.lean) and proved EQUAL to the model functions (`slotsEqFresh`, `isSet`,
  `slotsEq` / `msgEq`).

  PURITY is in the types: the translator gives an observer a result WITHOUT a state component
  and refuses (Unsupported → this file no longer builds) any write to an object in its body —
  `super().__setattr__`, `x.__dict__[…] = …`, `x._group_current[…] = …`, a call of `getattr`
  (whose translation returns a state), or a call of a method that is not translated.  So
  "`==` / `bool()` / `is_set` / `serialized_on_wire` as written change nothing" holds by
  construction of `Src.msg_eq`, `Src.msg_bool`, `Src.is_set`, `Src.serialized_on_wire`; the
  theorems below say WHAT they compute.

  Reading as in Props/C07Src.lean (a Message instance is an `MState`, a field name its index;
  the meaning of the object-level operations: BpProofs/PyPreludeObj.lean, trusted).
-/
namespace Bp.C14
open Bp Bp.Py Bp.SrcTieObjObs

/-- **`Message.__bool__` as written** is true exactly when some raw slot is neither PLACEHOLDER
    nor equal to its field's default (the negation of the model's `slotsEqFresh`, which is also
    what the model's emission decision for a sub-message uses) — for every schema, class, state -/
theorem src_bool (S : Schema) (fs : List FieldD) (st : MState) :
    Src.msg_bool S fs st = .ok (!slotsEqFresh S fs st.slots) :=
  msg_bool_eq S fs st

/-- **`serialized_on_wire(m)` as written**: the `_serialized_on_wire` flag, or `bool(m)` -/
theorem src_serialized_on_wire (S : Schema) (fs : List FieldD) (st : MState) :
    Src.serialized_on_wire S fs st = .ok (st.onWire || !slotsEqFresh S fs st.slots) :=
  serialized_on_wire_eq S fs st

/-- **`Message.is_set` as written is the model's `isSet`**: the raw slot is not the dataclass
    default (None for an optional field, PLACEHOLDER otherwise).  Guard: the name is a field. -/
theorem src_is_set (S : Schema) (fs : List FieldD) (st : MState) (idx : Nat) (f : FieldD) (hf : fs[idx]? = some f) :
    Src.is_set S fs st idx = .ok (isSet f (st.slots.getD idx .ph)) :=
  is_set_eq S fs st idx f hf

/-- **`Message.__eq__` as written is the model's field loop `slotsEq`** (NotImplemented for an
    operand of another class): raw slots in declaration order, PLACEHOLDER on both sides skipped,
    PLACEHOLDER on one side replaced by the field default for the comparison only (nothing is
    stored), `_equal_or_both_nan` deciding.  `ne` stands for Python's `!=` on two field values;
    the only assumption on it is `hne`: what it does not report unequal is equal in the sense of
    `_equal_or_both_nan`.  Guards: both instances have one raw slot per field. -/
theorem src_eq (S : Schema) (fs : List FieldD) (ne : Val → Val → Bool) (sameType : Bool) (a b : MState)
    (hne : ∀ x y, ne x y = false → valEq S x y = true)
    (ha : a.slots.length = fs.length) (hb : b.slots.length = fs.length) :
    Src.msg_eq S fs ne sameType a b
      = .ok (if sameType then EqRes.bool (slotsEq S fs a.slots b.slots) else EqRes.notImplemented) :=
  msg_eq_eq S fs ne sameType a b hne ha hb

/-- … hence for two instances of one class `c` the method as written returns the model's `msgEq`
    — the relation C01's `roundtrip_equal` and C14's `copy_is_original` are stated with -/
theorem src_eq_msgEq (S : Schema) (c : Nat) (ne : Val → Val → Bool) (a b : MState)
    (hne : ∀ x y, ne x y = false → valEq S x y = true)
    (ha : a.slots.length = (fieldsOf S c).length) (hb : b.slots.length = (fieldsOf S c).length) :
    Src.msg_eq S (fieldsOf S c) ne true a b = .ok (EqRes.bool (msgEq S (a.toVal c) (b.toVal c))) := by
  rw [msg_eq_eq S _ ne true a b hne ha hb]
  simp [msgEq, MState.toVal, isMsgVal, EqS.valEq_msg_msg]

/-- **`==` as written ignores what a pure observer may not look at**: `_serialized_on_wire`,
    `_unknown_fields` and `_group_current` of either operand -/
theorem src_eq_ignores_bookkeeping (S : Schema) (fs : List FieldD) (ne : Val → Val → Bool) (sameType : Bool)
    (a b a' b' : MState) (hne : ∀ x y, ne x y = false → valEq S x y = true)
    (ha : a.slots.length = fs.length) (hb : b.slots.length = fs.length)
    (hsa : a'.slots = a.slots) (hsb : b'.slots = b.slots) :
    Src.msg_eq S fs ne sameType a' b' = Src.msg_eq S fs ne sameType a b := by
  rw [msg_eq_eq S fs ne sameType a b hne ha hb, msg_eq_eq S fs ne sameType a' b' hne (by rw [hsa]; exact ha) (by rw [hsb]; exact hb),
    hsa, hsb]

/-! non-vacuity: the translated observers on closed inputs (class {a : int32 (oneof), b : string (oneof), o : optional int32}) -/
def SO : Schema := [{ fields := [{ name := "a", num := 1, ty := .int32, group := some 0 },
                                  { name := "b", num := 2, ty := .string, group := some 0 },
                                  { name := "o", num := 3, ty := .int32, optional := true }], nGroups := 1 }]
def stO : MState := { slots := [.int 0, .ph, .none], onWire := false, unknown := [], cur := [some 0] }
def stP : MState := { slots := [.ph, .ph, .int 0], onWire := true, unknown := [1], cur := [Option.none] }
example : Src.msg_bool SO (fieldsOf SO 0) stO = .ok false := by decide
example : Src.msg_bool SO (fieldsOf SO 0) stP = .ok true := by decide
example : Src.serialized_on_wire SO (fieldsOf SO 0) stO = .ok false := by decide
example : Src.is_set SO (fieldsOf SO 0) stO 0 = .ok true ∧ Src.is_set SO (fieldsOf SO 0) stO 2 = .ok false
    ∧ Src.is_set SO (fieldsOf SO 0) stP 2 = .ok true := by decide
example : Src.msg_eq SO (fieldsOf SO 0) (fun x y => !valEq SO x y) true stO stO = .ok (.bool true) := by decide
example : Src.msg_eq SO (fieldsOf SO 0) (fun x y => !valEq SO x y) true stO stP = .ok (.bool false) := by decide
example : Src.msg_eq SO (fieldsOf SO 0) (fun x y => !valEq SO x y) false stO stO = .ok .notImplemented := by decide

end Bp.C14
