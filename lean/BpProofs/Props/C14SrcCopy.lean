import BpProofs.SrcTieObjCopy
/-
  C14 (copy / deepcopy are faithful), tied to the SOURCE: `Message.__copy_state_to` — the whole
  body of `__copy__` / `__deepcopy__` after `self.__class__()` — is translated from the Python
  AST on every run (harness/extract_srcobj.py → BpProofs/Gen/SrcObjCopy.lean) and proved EQUAL
  to the model's `shallowCopy` / `deepCopy` (BpModel/Ops.lean), which `C14.copy_bytes_faithful`,
  `copy_is_original`, `copies_keep_presence` are about.  A body that replays the state through
  the constructor / `__setattr__`, drops `_unknown_fields` or `_serialized_on_wire`, or stores a
  reference to the original's `_group_current` no longer translates or no longer proves.

  Reading as in Props/C07Src.lean; `clone` is the fresh instance `self.__class__()`
  (`freshState`), `dup` is the identity for `copy.copy` and `copy.deepcopy` (the model's
  `deepCopy S`) for `copy.deepcopy`.
-/
namespace Bp.C14
open Bp Bp.Py Bp.SrcTieObjCopy

/-- **`copy.copy(m)` as written is the model's `shallowCopy`**: the clone receives every
    non-PLACEHOLDER raw slot (the same value), `_serialized_on_wire`, `_unknown_fields` and the
    entries of `_group_current` of the original, and nothing else.  Guard: one raw slot per field. -/
theorem src_copy (S : Schema) (c : Nat) (st : MState) (hl : st.slots.length = (fieldsOf S c).length) :
    ∃ st', Src.copy_state_to S (fieldsOf S c) st (freshState { fields := fieldsOf S c, nGroups := groupsOf S c }) id = .ok st'
      ∧ st'.toVal c = shallowCopy S (st.toVal c) :=
  ⟨_, copy_state_to_eq S _ st _ id hl (freshState_slots _), copyM_shallow S c st⟩

/-- **`copy.deepcopy(m)` as written is the model's `deepCopy`** (`dup` = the recursive copy) -/
theorem src_deepcopy (S : Schema) (c : Nat) (st : MState) (hl : st.slots.length = (fieldsOf S c).length) :
    ∃ st', Src.copy_state_to S (fieldsOf S c) st (freshState { fields := fieldsOf S c, nGroups := groupsOf S c }) (deepCopy S) = .ok st'
      ∧ st'.toVal c = deepCopy S (st.toVal c) :=
  ⟨_, copy_state_to_eq S _ st _ (deepCopy S) hl (freshState_slots _), copyM_deep S c st⟩

/-- **what a copy as written keeps verbatim**, whatever `dup` is: `_serialized_on_wire`,
    `_unknown_fields`, the oneof selection; and a slot of the copy is set exactly when the
    original's is -/
theorem src_copy_keeps (S : Schema) (fs : List FieldD) (st clone st' : MState) (dup : Val → Val)
    (hl : st.slots.length = fs.length) (hc : clone.slots = fs.map freshV)
    (h : Src.copy_state_to S fs st clone dup = .ok st') :
    st'.onWire = st.onWire ∧ st'.unknown = st.unknown ∧ st'.cur = st.cur ∧ st'.slots = copySlots dup fs st.slots := by
  rw [copy_state_to_eq S fs st clone dup hl hc] at h
  injection h with h; subst h
  exact ⟨rfl, rfl, rfl, rfl⟩

/-! non-vacuity -/
def SC : Schema := [{ fields := [{ name := "a", num := 1, ty := .int32, group := some 0 },
                                  { name := "o", num := 3, ty := .int32, optional := true }], nGroups := 1 }]
example : (match Src.copy_state_to SC (fieldsOf SC 0) { slots := [.int 0, .ph], onWire := true, unknown := [9], cur := [some 0] }
      (freshState { fields := fieldsOf SC 0, nGroups := 1 }) id with
    | .ok st => st.cur == [some 0] && st.onWire && st.unknown == [9] && isNone (rawGet st 1) && !isPlaceholder (rawGet st 0)
    | _ => false) = true := by decide

end Bp.C14
