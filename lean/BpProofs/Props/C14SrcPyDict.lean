import BpProofs.SrcTiePyDict
import BpProofs.SrcTieFromPyDict
import BpProofs.SrcTiePyDictRt
import BpProofs.JsonRtMain
import BpProofs.Props.C04
import BpProofs.Props.C04Src
/-
  C14 (touching C04), tied to the SOURCE: `Message.to_pydict`, `to_json`, `from_json`.

  The per-field step of `Message.to_pydict` — the `getattr` / AttributeError fallback to the default
  (the D05 repair), the key `casing(field_name).rstrip("_")`, the message branch (datetime / timedelta
  written as they are, wrapper, repeated sub-messages, None, the presence test
  `_serialized_on_wire or … or value != default` of fix D46), the map branch (`{**value}`: the
  conversion goes into a COPY — the D04 repair —, the loop over the keys), the scalar branch — is
  translated from the Python AST on every run (harness/extract_srcpydict.py →
  BpProofs/Gen/SrcPyDict.lean: `Src.to_pydict_field`) and proved EQUAL to the model's `toPyDictSlot`
  (BpModel/PyDict.lean), errors included.  So are the bodies of `to_json` (`json.dumps` of
  `self.to_dict(...)` with both parameters handed on, no option but `indent`) and `from_json`
  (`self.from_dict(json.loads(value))`), and the default values of the keyword parameters.

  PURITY, as far as the translation itself shows it: `Src.to_pydict_field` is a function of the
  outcome of `getattr`, of `_include_default_value_for_oneof` and of the output dict — the state of
  the instance is not an argument and not a result.  A statement of the loop body that writes to the
  message or to one of its containers (`value[k] = …` on the live dict, the D04 defect; `setattr`;
  `.append`) is outside the translated subset: the translation FAILS, this file does not build.
  What the reads themselves do to the instance (lazy defaults) is Props/C14PyDict.lean.

  Reading: `Src.to_pydict_field S enc cs incl f got sel output` is one iteration for the field
  described by `f`: `got = Py.getattrField S f hid v` is what `getattr(self, field_name)` yields for
  the raw slot `v`, `sel` is `_include_default_value_for_oneof`, `incl` is `include_default_values`,
  `enc` is `<sub-message>.to_pydict(casing, include_default_values)`, `output` the items of the
  output dict so far.  `putR output k r` raises `e` for `r = error e`, leaves `output` as it is for
  `r = ok none` and is `output[k] = j` for `r = ok (some j)`.

  GUARDS of the tie (as for `to_dict`, BpProofs/SrcTieJson.lean): `dynOkJ f v` (decidable; the value
  has a Python type the descriptor allows; implied by the slot typing `slotOk'` of C04), and for a
  slot that reads as the default of a plain sub-message field `DefaultOkP`: `include_default_values =
  False` (with True the source expands the defaults of the fresh sub-message recursively, which the
  model does not: `raw ph`) and a fresh instance has the empty pydict (implied by `fieldJsonOk`).
-/
namespace Bp.C14
open Bp Bp.Py Bp.SrcTieJson Bp.SrcTiePyDict Bp.SrcTieFromPyDict

/-- **the per-field step of `Message.to_pydict` as written is the model's `toPyDictSlot`**: for every
    field descriptor, both casings, every `include_default_values`, every oneof state (`hid`, `sel`),
    every raw slot value inside the guards and every output dict, one iteration of the field loop
    raises exactly when the model does (the same exception class), leaves the dict as it is when the
    model says `none`, and performs `output[jsonKey cs f.name] = j` when it says `some j` -/
theorem src_to_pydict_field (S : Schema) (cs : KeyCase) (incl : Bool) (f : FieldD) (hid sel : Bool) (v : Val)
    (output : JDict) (hok : readsDefault hid v = false → dynOkJ f v = true)
    (hd : readsDefault hid v = true → DefaultOkP S cs incl f) :
    Src.to_pydict_field S (toPyDict S cs incl) cs incl f (getattrField S f hid v) sel output
      = putR output (jsonKey cs f.name) (toPyDictSlot S cs incl f hid sel v) :=
  to_pydict_field_eq S cs incl f hid sel v output hok hd

/-- **the whole dict**: running the loop body as written once per field, in `meta_by_field_name`
    order, from the empty dict (`srcLoopP`: a hand-written fold whose body is the translated
    `Src.to_pydict_field`) returns exactly the model's `toPyDict m` — the same dict, items in the
    same order, or the same exception — for every message whose slots are inside the guards of the
    tie and whose fields have distinct keys (`C04.src_keys_distinct`) -/
theorem src_to_pydict_loop (S : Schema) (cs : KeyCase) (incl : Bool) (c : Nat) (sl : List Val) (ow : Bool)
    (unk : Bytes) (cur : List (Option Nat)) (hinj : KeysInj cs (fieldsOf S c))
    (hok : SlotsTieOkP S cs incl (fieldsOf S c) cur 0 sl) :
    (srcLoopP S cs incl (fieldsOf S c) cur 0 sl []).bind (fun kvs => .ok (mkObj kvs))
      = ofR (toPyDict S cs incl (.msg c sl ow unk cur)) :=
  srcLoopP_toPyDict S cs incl c sl ow unk cur hinj hok

/-- **`m.to_pydict(casing)` as written, on every typed message**: for a schema inside C04's `jsonOk`, a
    message whose slots are typed (`slotsOk'`, the judgement of `wellTyped'`) and whose dict slots have
    pairwise distinct keys, the field loop as written returns exactly the model's `toPyDict m` (all guards
    of the tie are discharged) -/
theorem src_to_pydict_of_typed (S : Schema) (E : Enums) (cs : KeyCase) (hS : jsonOk S E cs = true) (c : Nat)
    (sl : List Val) (ow : Bool) (unk : Bytes) (cur : List (Option Nat))
    (ht : slotsOk' S (fieldsOf S c) cur 0 sl = true) (hk : ∀ v ∈ sl, keysDistinct v = true) :
    (srcLoopP S cs false (fieldsOf S c) cur 0 sl []).bind (fun kvs => .ok (mkObj kvs))
      = ofR (toPyDict S cs false (.msg c sl ow unk cur)) := by
  have hn : namesOk cs (fieldsOf S c) = true := by
    unfold jsonOk at hS
    simp only [Bool.and_eq_true, List.all_eq_true] at hS
    unfold fieldsOf
    cases hc : S[c]? with
    | none => rfl
    | some d => exact (hS.1 d (List.mem_of_getElem? hc)).2
  exact src_to_pydict_loop S cs false c sl ow unk cur (C04.src_keys_distinct cs _ hn)
    (slotsTieOkP_of_typed S cs (schemaJsonOk_of_jsonOk S E cs hS) _ cur sl 0 ht hk)

/-- the default guard holds, without `include_default_values`, of every field of a schema inside `jsonOk` -/
theorem src_pydict_default_guard (S : Schema) (E : Enums) (cs : KeyCase) (hS : jsonOk S E cs = true) (f : FieldD) :
    DefaultOkP S cs false f :=
  defaultOkP_of_schema S cs f (schemaJsonOk_of_jsonOk S E cs hS)

/-- **the keyword defaults of `to_pydict` as written**: `casing=Casing.CAMEL`, `include_default_values=False`
    (what `m.to_pydict()` — the observer C14 names — means) -/
theorem src_to_pydict_defaults :
    Src.to_pydict.default_casing = KeyCase.camel ∧ Src.to_pydict.default_include_default_values = false := ⟨rfl, rfl⟩

/-- **D05, of the source as written: an unselected oneof member does not make `to_pydict` raise** —
    `getattr` raises AttributeError, the step goes on with the field default and writes nothing
    (singular member, inside `fieldJsonOk`), whatever the raw slot holds -/
theorem src_to_pydict_unselected_member (S : Schema) (E : Enums) (cs : KeyCase) (hS : jsonOk S E cs = true) (f : FieldD)
    (hf : fieldJsonOk f = true) (v : Val) (output : JDict) :
    Src.to_pydict_field S (toPyDict S cs false) cs false f (getattrField S f true v) false output = .ok output := by
  rw [to_pydict_field_eq S cs false f true false v output (by cases v <;> simp [readsDefault])
    (fun _ => src_pydict_default_guard S E cs hS f), toPyDictSlot_hid, toPyDictDefault_unsel S f hf]
  rfl

/-- **D04, of the source as written: the conversion of a map field goes into a new dict** — for a
    `map<K, Msg>` field the object stored in the output is built from the converted values, and the
    iteration has no other result: the attribute value `.dict ks vs` is an input only -/
theorem src_to_pydict_map_is_copied (S : Schema) (cs : KeyCase) (incl : Bool) (f : FieldD) (sel : Bool) (ks vs : List Val)
    (output : JDict) (hok : dynOkJ f (.dict ks vs) = true) :
    Src.to_pydict_field S (toPyDict S cs incl) cs incl f (.value (.dict ks vs)) sel output
      = (ofR (toPyDictMapVals S cs incl vs)).bind fun pvs =>
          .ok (if (!ks.isEmpty || incl) = true then setItem output (jsonKey cs f.name) (.obj (ks.map keyJ) pvs) else output) := by
  have hmap : (f.ty == PType.map) = true := by
    simp only [dynOkJ, Bool.and_eq_true] at hok; exact hok.1.1
  rw [field_dict S cs incl f sel ks vs output hok, toPyDictSlot]
  simp only [Bool.false_eq_true, if_false, hmap, if_true]
  cases toPyDictMapVals S cs incl vs with
  | error e => rfl
  | ok pvs =>
    simp only [Except.bind, bind, ofR_ok, res_bind_ok, putR_ok]
    split <;> rfl

/-! ### from_pydict -/

/-- **the per-key step of `Message.from_pydict` as written is the model's** (`keyStepP`: the lookup
    `meta_by_field_name.get(safe_snake_case(key))` — TypeError for a key that is not a str, `continue` for a
    key that names no field —, the skip of `None`, and `fromPyField`): for a message-typed field
    `getattr(self, name)` FIRST (AttributeError for a oneof member that is not the selected one; the
    default is stored in a PLACEHOLDER slot), then by what came back: a list — `cls().from_pydict(item)`
    appended per item, `cls()` being a TypeError for `datetime` / `timedelta` / `Optional[…]`; a datetime /
    timedelta / a wrapper field — the object under the key as it is; anything else —
    `v.from_pydict(value[key])` IN PLACE (AttributeError on None); for a `map<K, Message>` field the
    entries are converted into the dict `getattr` returned; every other field receives the object as it
    is; finally `setattr(self, name, v)` unless `v is None`.  Same state or same exception class. -/
theorem src_from_pydict_key (S : Schema) (c : Nat) (st : MState) (key : JKey) (p : PVal) (hok : StepOk S c st key p) :
    Src.from_pydict_key S c (decP S) st key p = ofR (keyStepP S c st key p) :=
  from_pydict_key_eq S c st key p hok

/-- **the whole method**: `self._serialized_on_wire = True`, the loop body as written once per key
    (`srcKeysLoop`), `return self` — is the model's `fromPyDictI` -/
theorem src_from_pydict (S : Schema) (c : Nat) (sl : List Val) (ow : Bool) (unk : Bytes) (cur : List (Option Nat))
    (ks : List JKey) (ps : List PVal)
    (hok : KeysTieOk S c { slots := sl, onWire := true, unknown := unk, cur := cur } ks ps) :
    (srcKeysLoop S c { slots := sl, onWire := true, unknown := unk, cur := cur } ks ps).bind (fun st => .ok (st.toVal c))
      = ofR (fromPyDictI S (.msg c sl ow unk cur) (.obj ks ps)) :=
  src_from_pydict_eq S c sl ow unk cur ks ps hok

/-- **a oneof member of message type cannot be loaded by `from_pydict` as written**: on an instance in
    which the member is not the selected one (a fresh instance: every member), the step for its key
    raises AttributeError — whatever the dict holds for it (`hidden`: `getattr` raises) -/
theorem src_from_pydict_unselected_message_member (S : Schema) (c : Nat) (st : MState) (bs : Bytes) (i : Nat) (f : FieldD)
    (p : PVal) (hfn : findName (fieldsOf S c) (Casing.safeSnake (bs.map Char.ofNat)) 0 = some (i, f))
    (hm : (f.ty == PType.message) = true) (hh : hidden f i st.cur = true) (hp : p ≠ .null)
    (hlen : ∀ ks ps, p = .obj ks ps → ks.length = ps.length) :
    Src.from_pydict_key S c (decP S) st (.str bs) p = .raise .attr := by
  have hfi : (fieldsOf S c)[i]? = some f := by
    have := Bp.SrcTieFromDict.findName_spec (fieldsOf S c) _ 0 i f hfn
    simpa using this.2.1
  have hg : getAttr S (fieldsOf S c) st i = .error .attr := by simp [getAttr, hfi, hh]
  rw [key_foundP S c st bs i f p hfn hlen (by
    intro hmm; simp only [Bool.and_eq_true, beq_iff_eq] at hmm hm; rw [hm] at hmm; cases hmm.1)]
  cases p <;> first
    | exact absurd rfl hp
    | (rw [fromPyField]
       · simp [hm, hg]
       all_goals (intros; contradiction))

/-- **the round trip with both top-level loops as written**: for every schema inside `pyDictOk` and every value
    inside the guards of `from_pydict_to_pydict` (Props/C14PyDictRt.lean) whose dict slots have distinct keys, the
    field loop of `to_pydict` as written (`srcLoopP`) returns a dict `kvs` without raising, and the key loop of
    `from_pydict` as written (`srcKeysLoop`), run on that dict and a fresh instance (`Cls()` with
    `_serialized_on_wire = True`), returns a message `m'` with `m ≈ m'` (`DEqv`) and the same bytes.  All guards of
    both ties are discharged along the run.  (The recursive calls inside the two loop bodies are the model's.) -/
theorem src_from_pydict_to_pydict (S : Schema) (cs : KeyCase) (c : Nat) (sl : List Val) (ow : Bool) (unk : Bytes)
    (cur : List (Option Nat)) (hok : pyDictOk S cs = true) (hgroups : groupsOk S = true)
    (hwt : wellTyped' S (.msg c sl ow unk cur) = true) (hsel : selOk S (.msg c sl ow unk cur) = true)
    (hkeys : dictKeysOk (.msg c sl ow unk cur) = true) (hkd : ∀ v ∈ sl, keysDistinct v = true) :
    ∃ kvs m', srcLoopP S cs false (fieldsOf S c) cur 0 sl [] = .ok kvs ∧
      (srcKeysLoop S c (freshOn S c) (kvs.map (·.1)) (kvs.map (·.2))).bind (fun st => .ok (st.toVal c)) = .ok m' ∧
      DEqv S (.msg c sl ow unk cur) m' ∧ dumpVal S m' = dumpVal S (.msg c sl ow unk cur) := by
  obtain ⟨kvs, h1, h2⟩ := src_loops_roundtrip S cs hok hgroups c sl ow unk cur hwt hsel hkeys hkd
  obtain ⟨_, b, d⟩ := roundtrip_class S [] cs ⟨(pyDictOk_schema S cs hok).1, hgroups⟩ c sl ow unk cur hwt hsel
  exact ⟨kvs, _, h1, h2, b, d⟩

/-! ### to_json / from_json -/

/-- **the body of `Message.to_json` as written**: `json.dumps(self.to_dict(casing=casing,
    include_default_values=include_default_values), indent=indent)` — both parameters are handed on
    as given and no option of `json.dumps` other than `indent` (layout) is used; it is the model's
    `toJson`, TypeError where `to_dict(m)` holds an object JSON cannot serialise -/
theorem src_to_json (S : Schema) (E : Enums) (m : Val) (indent : Indent) (incl : Bool) (cs : KeyCase) :
    Src.to_json (fun cs incl => toDict S E cs incl m) indent incl cs
      = (match toJson S E cs incl m with
         | some j => .ok ⟨j⟩
         | Option.none => .raise .type) :=
  to_json_eq S E m indent incl cs

/-- **the keyword defaults of `to_json` as written**: `indent=None`, `include_default_values=False`,
    `casing=Casing.CAMEL` -/
theorem src_to_json_defaults :
    Src.to_json.default_include_default_values = false ∧ Src.to_json.default_casing = KeyCase.camel := ⟨rfl, rfl⟩

/-- **the body of `Message.from_json` as written**: `self.from_dict(json.loads(value))`, the INSTANCE
    form of `from_dict` — the model's `fromJson` -/
theorem src_from_json (S : Schema) (E : Enums) (m : Val) (t : JsonText) :
    Src.from_json (fun j => ofR (fromDictI S E m j)) t = ofR (fromJson S E m t.parsed) :=
  from_json_eq S E m t

/-- **C04 through the JSON text, of the two wrappers as written**: for every schema inside the guards
    of `C04.roundtrip_all` and every well-typed value, `Cls().from_json(m.to_json(casing=cs))` — both
    bodies as written, the text produced by the one read by the other — returns a message `m'` that is
    equivalent to `m` (`DEqv`) and encodes to the same bytes -/
theorem src_json_roundtrip (S : Schema) (E : Enums) (cs : KeyCase) (c : Nat) (sl : List Val) (ow : Bool) (unk : Bytes)
    (cur : List (Option Nat)) (indent : Indent)
    (hjson : jsonOk S E cs = true) (hgroups : groupsOk S = true)
    (hwt : wellTyped' S (.msg c sl ow unk cur) = true) (hsel : selOk S (.msg c sl ow unk cur) = true) :
    ∃ m', (Src.to_json (fun cs incl => toDict S E cs incl (.msg c sl ow unk cur)) indent
              Src.to_json.default_include_default_values cs).bind
            (fun t => Src.from_json (fun j => ofR (fromDictI S E (fresh S c) j)) t) = .ok m' ∧
      DEqv S (.msg c sl ow unk cur) m' ∧ dumpVal S m' = dumpVal S (.msg c sl ow unk cur) := by
  obtain ⟨_, t2, m', _, hi, _, _, hq, hb⟩ := C04.roundtrip_all S E cs c sl ow unk cur hjson hgroups hwt hsel
  refine ⟨m', ?_, hq, hb⟩
  rw [src_to_json]
  show (match toJson S E cs false (.msg c sl ow unk cur) with
        | some j => (Res.ok ⟨j⟩ : Res JsonText)
        | Option.none => .raise .type).bind _ = _
  unfold toJson
  rw [t2]
  simp only [res_bind_ok]
  rw [src_from_json]
  unfold fromJson
  rw [hi]; rfl

/-! non-vacuity: the translated iteration run on closed inputs: an int64 stays an int (no decimal
    string), bytes stay bytes, a datetime stays a datetime; the default 0 of a plain field is left out,
    that of the selected oneof member is written; an unselected member is left out whatever its slot
    holds; a sub-message is converted; a repeated Timestamp raises AttributeError -/
def fI64 : FieldD := { name := "big", num := 1, ty := .int64 }
def fByt : FieldD := { name := "raw", num := 2, ty := .bytes }
def fTs : FieldD := { name := "at", num := 3, ty := .message, kind := .timestamp }
def fOne : FieldD := { name := "pick", num := 4, ty := .int32, group := some 0 }
def fSub : FieldD := { name := "sub", num := 5, ty := .message, kind := .user 0 }
def fTss : FieldD := { name := "ats", num := 6, ty := .message, kind := .timestamp, repeated := true }
def Ssub : Schema := [{ fields := [{ name := "x", num := 1, ty := .int32 }] }]
example : Src.to_pydict_field [] (toPyDict [] .camel false) .camel false fI64 (getattrField [] fI64 false (.int 5)) false []
    = .ok [(.str [98, 105, 103], .num 5)] := by rfl
example : Src.to_pydict_field [] (toPyDict [] .camel false) .camel false fByt (getattrField [] fByt false (.byt [1, 2])) false []
    = .ok [(.str [114, 97, 119], .raw (.byt [1, 2]))] := by rfl
example : Src.to_pydict_field [] (toPyDict [] .camel false) .camel false fTs (getattrField [] fTs false (.ts 7)) false []
    = .ok [(.str [97, 116], .raw (.ts 7))] := by rfl
example : Src.to_pydict_field [] (toPyDict [] .camel false) .camel false fI64 (getattrField [] fI64 false (.int 0)) false []
    = .ok [] := by rfl
example : Src.to_pydict_field [] (toPyDict [] .camel false) .camel false fOne (getattrField [] fOne false (.int 0)) true []
    = .ok [(.str [112, 105, 99, 107], .num 0)] := by rfl
example : Src.to_pydict_field [] (toPyDict [] .camel false) .camel false fOne (getattrField [] fOne true (.int 7)) false []
    = .ok [] := by rfl
example : Src.to_pydict_field Ssub (toPyDict Ssub .camel false) .camel false fSub
      (getattrField Ssub fSub false (.msg 0 [.int 1] false [] [])) false []
    = .ok [(.str [115, 117, 98], .obj [.str [120]] [.num 1])] := by rfl
example : Src.to_pydict_field [] (toPyDict [] .camel false) .camel false fTss (getattrField [] fTss false (.list [.ts 1])) false []
    = .raise .attr := by rfl

/-! non-vacuity of the `from_pydict` tie: the translated step run on closed inputs.  `Ssub2`: class 0 = `Top { Sub sub = 1;
    int32 n = 2; oneof g { Sub pick = 3; } }`, class 1 = `Sub { int32 x = 1; }`.  A scalar is stored; a sub-message is
    filled in place and stored; a key that names no field is skipped; the message-typed oneof member raises. -/
def Ssub2 : Schema := [
  { fields := [{ name := "sub", num := 1, ty := .message, kind := .user 1 }, { name := "n", num := 2, ty := .int32 },
               { name := "pick", num := 3, ty := .message, kind := .user 1, group := some 0 }], nGroups := 1 },
  { fields := [{ name := "x", num := 1, ty := .int32 }] }]
def st0 : MState := { slots := [.ph, .ph, .ph], onWire := true, unknown := [], cur := [Option.none] }
def isOkSlots (r : Res MState) (p : List Val → Bool) : Bool := match r with | .ok st => p st.slots | _ => false
example : isOkSlots (Src.from_pydict_key Ssub2 0 (decP Ssub2) st0 (.str [110]) (.num 7))
    (fun sl => match sl with | [.ph, .int 7, .ph] => true | _ => false) = true := by decide +kernel
example : isOkSlots (Src.from_pydict_key Ssub2 0 (decP Ssub2) st0 (.str [115, 117, 98]) (.obj [.str [120]] [.num 5]))
    (fun sl => match sl with | [.msg 1 [.int 5] true [] [], .ph, .ph] => true | _ => false) = true := by decide +kernel
example : isOkSlots (Src.from_pydict_key Ssub2 0 (decP Ssub2) st0 (.str [122]) (.num 7))
    (fun sl => match sl with | [.ph, .ph, .ph] => true | _ => false) = true := by decide +kernel
example : (match Src.from_pydict_key Ssub2 0 (decP Ssub2) st0 (.str [112, 105, 99, 107]) (.obj [.str [120]] [.num 5]) with
    | .raise .attr => true | _ => false) = true := by decide +kernel
/-- the guards of `src_from_pydict_key` are satisfiable: a key that names no field (nothing is asked of the state) -/
example : StepOk Ssub2 0 st0 (.str [122]) (.num 7) := by
  refine ⟨fun ks ps h => ?_, fun i f hk _ => ?_⟩
  · cases h
  · have hq : fieldOfJKey (fieldsOf Ssub2 0) (.str [122]) = .ok Option.none := by rfl
    rw [hq] at hk
    injection hk with hk
    cases hk

end Bp.C14
