import BpModel.All
import BpProofs.Varint
/-
  C15 — Timestamp/Duration <-> datetime/timedelta conversion is exact and normalised.
  A datetime is an `Int` count of microseconds since the epoch (aware datetimes of any
  time zone denote such an instant: `dt - DATETIME_ZERO` is time-zone independent), a
  timedelta an `Int` count of microseconds.  All theorems hold for EVERY integer; the
  Python ranges (years 1..9999, ±999999999 days) only bound what `datetime` can hold.
  Model of the code after the D02 / D03 repairs (integer arithmetic).
-/
namespace Bp.C15
open Bp

/-- **Timestamp nanos are normalised**: 0 ≤ nanos < 10^9, also before the epoch -/
theorem ts_norm (us : Int) : 0 ≤ (tsSplit us).2 ∧ (tsSplit us).2 < 1000000000 := by
  unfold tsSplit; simp only; omega

/-- **exact**: (seconds, nanos) denote exactly the instant, at nanosecond scale -/
theorem ts_exact (us : Int) : (tsSplit us).1 * 1000000000 + (tsSplit us).2 = us * 1000 := by
  unfold tsSplit; simp only; omega

/-- **the pair is the one the reference produces**: the unique (s, n) with
    s·10^9 + n = instant in ns and 0 ≤ n < 10^9 -/
theorem ts_unique (us s n : Int) (h : s * 1000000000 + n = us * 1000) (h0 : 0 ≤ n) (h1 : n < 1000000000) :
    (s, n) = tsSplit us := by
  unfold tsSplit; simp only [Prod.mk.injEq]; omega

/-- **decodes back to the identical value** -/
theorem ts_roundtrip (us : Int) : tsJoin (tsSplit us).1 (tsSplit us).2 = us := by
  unfold tsJoin tsSplit; simp only; omega

/-- a Timestamp written by anyone with nanosecond precision is truncated to the
    microsecond below (never rounded up into the next second) -/
theorem ts_join_floor (s n : Int) (h0 : 0 ≤ n) (h1 : n < 1000000000) :
    tsJoin s n * 1000 ≤ s * 1000000000 + n ∧ s * 1000000000 + n < tsJoin s n * 1000 + 1000 := by
  unfold tsJoin; omega

/-- **Duration seconds and nanos never have opposite signs**, |nanos| < 10^9 -/
theorem dur_sign (us : Int) :
    let (s, n) := durSplit us
    (0 ≤ s ∧ 0 ≤ n ∨ s ≤ 0 ∧ n ≤ 0) ∧ -1000000000 < n ∧ n < 1000000000 := by
  unfold durSplit; simp only
  split <;> omega

/-- **exact** -/
theorem dur_exact (us : Int) : (durSplit us).1 * 1000000000 + (durSplit us).2 = us * 1000 := by
  unfold durSplit; simp only
  split <;> simp only <;> omega

/-- **the pair is the one the reference produces**: the unique (s, n) denoting the span
    with |n| < 10^9 and no sign disagreement -/
theorem dur_unique (us s n : Int) (h : s * 1000000000 + n = us * 1000)
    (hs : 0 ≤ s ∧ 0 ≤ n ∨ s ≤ 0 ∧ n ≤ 0) (h1 : -1000000000 < n ∧ n < 1000000000) :
    (s, n) = durSplit us := by
  unfold durSplit; simp only
  split <;> simp only [Prod.mk.injEq] <;> omega

/-- **decodes back to the identical value** -/
theorem dur_roundtrip (us : Int) : durJoin (durSplit us).1 (durSplit us).2 = us := by
  unfold durJoin durSplit roundHalfEven1000; simp only
  split <;> simp only <;> (split <;> omega)

/-- JSON: the Timestamp fraction has 0, 3 or 6 digits and denotes the microseconds exactly -/
theorem ts_frac_exact (u : Nat) (h : u < 1000000) :
    (tsFrac u = none ∧ u = 0)
    ∨ (∃ nd d, tsFrac u = some (nd, d) ∧ (nd = 3 ∨ nd = 6) ∧ d < 10 ^ nd ∧ d * 10 ^ (6 - nd) = u ∧ u ≠ 0) := by
  unfold tsFrac
  by_cases h0 : u = 0
  · left; simp [h0]
  · right
    by_cases h1 : u % 1000 = 0
    · refine ⟨3, u / 1000, by simp [h0, h1], Or.inl rfl, ?_, ?_, h0⟩
      · simp only [show (10:Nat) ^ 3 = 1000 from rfl]; omega
      · simp only [show (10:Nat) ^ (6 - 3) = 1000 from rfl]; omega
    · refine ⟨6, u, by simp [h0, h1], Or.inr rfl, ?_, ?_, h0⟩
      · simp only [show (10:Nat) ^ 6 = 1000000 from rfl]; omega
      · simp

/-- JSON: the Duration string has 3 or 6 fractional digits, is exact, and reading it
    back gives the identical timedelta -/
theorem dur_json_roundtrip (us : Int) :
    ((durJson us).2.2.1 = 3 ∨ (durJson us).2.2.1 = 6)
    ∧ (durJson us).2.2.2 < 10 ^ (durJson us).2.2.1
    ∧ durFromJson (durJson us).1 (durJson us).2.1 (durJson us).2.2.1 (durJson us).2.2.2 = us := by
  unfold durJson durFromJson
  by_cases h : us.natAbs % 1000000 % 1000 = 0
  · simp only [h, if_true, decide_eq_true_eq]
    refine ⟨by simp, ?_, ?_⟩
    · simp only [show (10:Nat) ^ 3 = 1000 from rfl]; omega
    · have : (us.natAbs % 1000000 / 1000 * 1000000) / 10 ^ 3 = us.natAbs % 1000000 := by
        simp only [show (10:Nat) ^ 3 = 1000 from rfl]; omega
      rw [this]
      split <;> omega
  · simp only [h, if_false, decide_eq_true_eq]
    refine ⟨by simp, ?_, ?_⟩
    · simp only [show (10:Nat) ^ 6 = 1000000 from rfl]; omega
    · have : (us.natAbs % 1000000 * 1000000) / 10 ^ 6 = us.natAbs % 1000000 := by
        simp only [show (10:Nat) ^ 6 = 1000000 from rfl]; omega
      rw [this]
      split <;> omega

/-- on the wire: a Timestamp / Duration is the two-field message (int64 seconds #1,
    int32 nanos #2) of exactly that pair -/
theorem ts_wire (us : Int) : tsBytes us = secNanosBytes (tsSplit us).1 (tsSplit us).2 := rfl
theorem dur_wire (us : Int) : durBytes us = secNanosBytes (durSplit us).1 (durSplit us).2 := rfl

/-! non-vacuity: the repaired D02 witnesses -/
example : durSplit (-500000) = (0, -500000000) := by decide
example : durSplit (-1) = (0, -1000) := by decide
example : durSplit 315575999999999999 = (315575999999, 999999000) := by decide
example : tsSplit (-1) = (-1, 999999000) := by decide
example : durJson 1 = (false, 0, 6, 1) ∧ durJson (-1500000) = (true, 1, 3, 500) := by decide

end Bp.C15
