import BpProofs.SrcTieTime
import BpProofs.Props.C15
/-
  C15, tied to the SOURCE: the same statements about the functions `Bp.Src.duration_*` /
  `Bp.Src.timestamp_*`, which are regenerated from the Python AST of the methods of
  `_Duration` / `_Timestamp` in src/betterproto/__init__.py on every run
  (harness/extract_srctime.py → BpProofs/Gen/SrcTime.lean).  If the source of one of these
  methods changes what it computes, the corresponding theorem below stops checking.

  A datetime is an `Int` count of microseconds since the epoch, a timedelta an `Int` count
  of microseconds, a Timestamp / Duration message its pair (seconds, nanos).  The methods
  are loop-free, so there is no fuel; every theorem is for EVERY integer (the finite
  ranges of `datetime` / `timedelta` are not modelled, see BpProofs/PyPreludeTime.lean).
-/
namespace Bp.C15
open Bp Bp.Py

/-- `_Duration.from_timedelta` as written returns the message `durSplit` of the model —
    every timedelta -/
theorem src_duration_from_timedelta (us : Int) : Src.duration_from_timedelta us = .ok (durSplit us) :=
  SrcTie.duration_from_timedelta_eq us

/-- `_Duration.to_timedelta` as written is the model's `durJoin`.  The hypothesis is the
    int32 range of `nanos`: it is not needed by the proof, it is the range in which the
    float intrinsic `Py.timedeltaSecondsFloatMicros` (`timedelta(seconds=s,
    microseconds=n / 1e3)`) is justified to be faithful to CPython -/
theorem src_duration_to_timedelta (s n : Int) (_hn : -2147483648 ≤ n ∧ n < 2147483648) :
    Src.duration_to_timedelta s n = .ok (durJoin s n) :=
  SrcTie.duration_to_timedelta_eq s n

/-- `_Duration.delta_to_json` as written produces the text
    sign ++ seconds ++ "." ++ zero-padded digits ++ "s" whose four parameters are the
    model's `durJson` (sign flag, whole seconds of the magnitude, 3 or 6 digits, their value) -/
theorem src_duration_delta_to_json (us : Int) :
    Src.duration_delta_to_json us =
      .ok ((durJson us).1, ((durJson us).2.1 : Int), ((durJson us).2.2.1 : Int), ((durJson us).2.2.2 : Int)) :=
  SrcTie.duration_delta_to_json_eq us

/-- `_Timestamp.from_datetime` as written returns the message `tsSplit` of the model —
    every instant, also before the epoch -/
theorem src_timestamp_from_datetime (us : Int) : Src.timestamp_from_datetime us = .ok (tsSplit us) :=
  SrcTie.timestamp_from_datetime_eq us

/-- `_Timestamp.to_datetime` as written is the model's `tsJoin` -/
theorem src_timestamp_to_datetime (s n : Int) : Src.timestamp_to_datetime s n = .ok (tsJoin s n) :=
  SrcTie.timestamp_to_datetime_eq s n

/- (`timestamp_to_json`: the whole method is tied in Props/C15SrcJson.lean — `src_timestamp_to_json`,
   `src_timestamp_json_form`: 0 / 3 / 6 fractional digits denoting the microseconds exactly) -/

/-- **decodes back to the identical value, stated of the source as written**:
    `to_datetime` applied to the message `from_datetime` builds returns the datetime -/
theorem src_ts_roundtrip (us : Int) :
    (Src.timestamp_from_datetime us).bind (fun m => Src.timestamp_to_datetime m.1 m.2) = .ok us := by
  rw [src_timestamp_from_datetime]
  show Src.timestamp_to_datetime (tsSplit us).1 (tsSplit us).2 = .ok us
  rw [src_timestamp_to_datetime, ts_roundtrip]

/-- **Timestamp nanos are normalised and the message is exact, of the source as written**:
    `from_datetime` returns (s, n) with 0 ≤ n < 10^9 and s·10^9 + n = the instant in ns -/
theorem src_ts_norm_exact (us : Int) :
    ∃ s n, Src.timestamp_from_datetime us = .ok (s, n) ∧ 0 ≤ n ∧ n < 1000000000
      ∧ s * 1000000000 + n = us * 1000 :=
  ⟨(tsSplit us).1, (tsSplit us).2, src_timestamp_from_datetime us, (ts_norm us).1, (ts_norm us).2, ts_exact us⟩

/-- **Duration seconds and nanos never have opposite signs, |nanos| < 10^9, exact — of the
    source as written**: `from_timedelta` returns such a pair for every timedelta -/
theorem src_dur_sign (us : Int) :
    ∃ s n, Src.duration_from_timedelta us = .ok (s, n)
      ∧ (0 ≤ s ∧ 0 ≤ n ∨ s ≤ 0 ∧ n ≤ 0) ∧ -1000000000 < n ∧ n < 1000000000
      ∧ s * 1000000000 + n = us * 1000 := by
  have h := dur_sign us
  exact ⟨(durSplit us).1, (durSplit us).2, src_duration_from_timedelta us, h.1, h.2.1, h.2.2, dur_exact us⟩

/-- **decodes back to the identical value, of the source as written**: `to_timedelta`
    applied to the message `from_timedelta` builds returns the timedelta (its nanos are
    within the int32 range the float intrinsic is justified for) -/
theorem src_dur_roundtrip (us : Int) :
    (Src.duration_from_timedelta us).bind (fun m => Src.duration_to_timedelta m.1 m.2) = .ok us := by
  rw [src_duration_from_timedelta]
  show Src.duration_to_timedelta (durSplit us).1 (durSplit us).2 = .ok us
  have h := dur_sign us
  rw [src_duration_to_timedelta _ _ (by constructor <;> omega), dur_roundtrip]

/-- **JSON, of the source as written**: the text `delta_to_json` builds has 3 or 6 fractional
    digits that fit, and reading its parameters back (`durFromJson`, the model of
    `delta_from_json`, which parses a string and is not translated) gives the timedelta -/
theorem src_dur_json_roundtrip (us : Int) :
    ∃ (neg : Bool) (s nd d : Nat), Src.duration_delta_to_json us = .ok (neg, (s : Int), (nd : Int), (d : Int))
      ∧ (nd = 3 ∨ nd = 6) ∧ d < 10 ^ nd ∧ durFromJson neg s nd d = us :=
  ⟨_, _, _, _, src_duration_delta_to_json us, (dur_json_roundtrip us).1, (dur_json_roundtrip us).2.1,
    (dur_json_roundtrip us).2.2⟩

/-! non-vacuity: the translated source evaluated on the D02 / D03 witnesses -/
example : Src.duration_from_timedelta (-500000) = .ok (0, -500000000) := by decide
example : Src.timestamp_from_datetime (-1) = .ok (-1, 999999000) := by decide
example : Src.timestamp_to_datetime (-1) 999999999 = .ok (-1) := by decide
example : Src.duration_delta_to_json (-1500000) = .ok (true, 1, 3, 500) := by decide
example : Src.duration_delta_to_json 1 = .ok (false, 0, 6, 1) := by decide

end Bp.C15
