import BpProofs.SrcTieLeaf
import BpProofs.Props.C15Src
/-
  C15, the JSON forms, tied to the SOURCE: `_Duration.delta_from_json` and
  `_Timestamp.timestamp_to_json` (WHOLE) as regenerated from the Python AST of
  src/betterproto/__init__.py on every run (harness/extract_srcleaf.py →
  BpProofs/Gen/SrcLeaf.lean), together with `_Duration.delta_to_json` of Gen/SrcTime.lean.

  Texts: a Duration text is a `List Char` (`PyLeaf.renderSecs` renders the f-string parameters
  `delta_to_json` computes to characters; `Decimal(text)` is parsed from the characters, see
  BpProofs/PyPreludeLeaf.lean).  A Timestamp text is `PyLeaf.TsText`: the `isoformat()` text of
  the whole second — an abstract bijection with the second count, the calendar rendering is not
  modelled — followed by nothing / "." and 3 / 6 zero-padded digits, followed by "Z".
  A datetime is `PyLeaf.DT` (wall-clock microseconds and utcoffset, or naive).

  NOT tied: the reading side of Timestamp (`dateutil.parser.isoparse` in `_from_dict_init`)
  stays an abstract leaf (`Py.isoparse`, BpProofs/PyPreludeFromDict.lean: the inverse of the
  abstract `JVal.tsStr`); third-party code, validated by the oracles only.
-/
namespace Bp.C15
open Bp Bp.Py Bp.PyLeaf Bp.SrcTieLeaf

/-- **`_Duration.delta_from_json` as written is the model's `durFromJson`** on the text
    `sign s "." d (W digits) "s"`, for every W ≥ 1 (9-digit nanosecond texts included), every
    whole-second count and every fraction — provided the coefficient times 10^6 fits the 28
    digits of the default decimal context (beyond it `Decimal * int` rounds; see
    `delta_from_json_precision_witness`) -/
theorem src_delta_from_json (neg : Bool) (s nd d : Nat) (h0 : 0 < nd) (hd : d < 10 ^ nd)
    (hb : (10 ^ nd * s + d) * 1000000 < 10 ^ 28) :
    Src.duration_delta_from_json (renderSecs (neg, (s : Int), (nd : Int), (d : Int))) = .ok (durFromJson neg s nd d) :=
  delta_from_json_eq neg s nd d h0 hd hb

/-- … and on ANY decimal literal `[-]digits.digits`, `[-]digits.`, `[-].digits` followed by one
    character (`value[:-1]` does not look at it): the exact decimal value times 10^6 truncated
    toward zero, `Decimal` and `int()` as written -/
theorem src_delta_from_json_literal (neg : Bool) (ip fp : Text) (c : Char) (hi : allDigits ip = true)
    (hf : allDigits fp = true) (hne : ¬ (ip = [] ∧ fp = []))
    (hb : Nat.ofDigitChars 10 (ip ++ fp) 0 * 1000000 < 10 ^ 28) :
    Src.duration_delta_from_json ((if neg then ['-'] else []) ++ (ip ++ '.' :: fp) ++ [c])
      = .ok (let q : Int := ((Nat.ofDigitChars 10 (ip ++ fp) 0 * 1000000 / 10 ^ fp.length : Nat) : Int)
             if neg then -q else q) :=
  delta_from_json_literal neg ip fp c hi hf hne hb

/-- **the Duration JSON round trip, of the source as written**: `delta_from_json` applied to the
    characters of the text `delta_to_json` builds returns the timedelta, for every timedelta of
    magnitude below 10^21 µs (`timedelta.max` is 8.64·10^19 µs, the protobuf range 3.2·10^17) -/
theorem src_duration_json_roundtrip (us : Int) (hr : us.natAbs < 1000000000000000000000) :
    (Src.duration_delta_to_json us).bind (fun t => Src.duration_delta_from_json (renderSecs t)) = .ok us := by
  rw [src_duration_delta_to_json]
  show Src.duration_delta_from_json (renderSecs ((durJson us).1, ((durJson us).2.1 : Int),
    ((durJson us).2.2.1 : Int), ((durJson us).2.2.2 : Int))) = .ok us
  obtain ⟨h1, h2, h3⟩ := dur_json_roundtrip us
  have hb : (10 ^ (durJson us).2.2.1 * (durJson us).2.1 + (durJson us).2.2.2) * 1000000 < 10 ^ 28 := by
    have hs : (durJson us).2.1 = us.natAbs / 1000000 := by
      unfold durJson; simp only; split <;> rfl
    rw [hs]
    rcases h1 with h1 | h1 <;> rw [h1] at h2 ⊢ <;> simp only [Nat.reducePow] at h2 ⊢ <;> omega
  rw [src_delta_from_json _ _ _ _ (by rcases h1 with h1 | h1 <;> omega) h2 hb, h3]

/-- … in particular for every `timedelta` Python can hold -/
theorem src_duration_json_roundtrip_range (us : Int) (h0 : durMinUs ≤ us) (h1 : us ≤ durMaxUs) :
    (Src.duration_delta_to_json us).bind (fun t => Src.duration_delta_from_json (renderSecs t)) = .ok us :=
  src_duration_json_roundtrip us (by unfold durMinUs at h0; unfold durMaxUs at h1; omega)

/-- **what is read from a 9-digit (nanosecond) text**: the digits below a microsecond are
    DROPPED — truncation toward zero, for negative durations too (−1.000000999 s reads as
    −1.000000 s, not −1.000001 s) -/
theorem src_delta_from_json_truncates (neg : Bool) (s d : Nat) (hs : s < 1000000000000) (hd : d < 1000000000) :
    Src.duration_delta_from_json (renderSecs (neg, (s : Int), 9, (d : Int)))
      = .ok (if neg then -(((s * 1000000 + d / 1000 : Nat)) : Int) else ((s * 1000000 + d / 1000 : Nat) : Int)) := by
  have := src_delta_from_json neg s 9 d (by decide) (by simp only [Nat.reducePow]; exact hd)
    (by simp only [Nat.reducePow]; omega)
  rw [show ((9 : Nat) : Int) = 9 from rfl] at this
  rw [this]
  unfold durFromJson
  have : d * 1000000 / 10 ^ 9 = d / 1000 := by simp only [Nat.reducePow]; omega
  simp only [this]

/-- **the Duration JSON form is the spec's decimal-seconds string, of the source as written**:
    the characters are an optional "-", the decimal digits of the whole seconds, ".", exactly 3
    or 6 digits, "s" -/
theorem src_duration_json_form (us : Int) :
    ∃ (neg : Bool) (s nd d : Nat) (frac : Text),
      Src.duration_delta_to_json us = .ok (neg, (s : Int), (nd : Int), (d : Int))
      ∧ renderSecs (neg, (s : Int), (nd : Int), (d : Int))
          = (if neg then ['-'] else []) ++ (Nat.toDigits 10 s ++ '.' :: frac) ++ ['s']
      ∧ allDigits frac = true ∧ frac.length = nd ∧ (nd = 3 ∨ nd = 6) ∧ neg = decide (us < 0) := by
  obtain ⟨h1, h2, _⟩ := dur_json_roundtrip us
  refine ⟨_, _, _, _, _, src_duration_delta_to_json us, renderSecs_nat _ _ _ _, allDigits_pad _ _,
    (padded_value 0 _ _ (by rcases h1 with h | h <;> omega) h2).2, h1, ?_⟩
  unfold durJson; simp only; split <;> rfl

/-- beyond 28 significant digits the translation claims nothing (`Decimal * 10**6` rounds there;
    the real code returns 12345678901234567890123123460 µs for this text, not …123456) -/
theorem delta_from_json_precision_witness :
    Src.duration_delta_from_json "12345678901234567890123.1234567s".toList = .diverge := by decide

/-! ### `_Timestamp.timestamp_to_json`, whole -/

/-- **`timestamp_to_json` as written, WHOLE, is `tsJsonOf`** for every datetime — aware with any
    utcoffset, or naive (read as UTC): `astimezone(timezone.utc)`, `replace(microsecond=0,
    tzinfo=None)`, `isoformat()` and the float arithmetic `dt.microsecond * 1e3`, `nanos % 1e9`,
    `int(nanos // 1e6)` (exact: integer-valued doubles below 2^53) -/
theorem src_timestamp_to_json (d : DT) : Src.timestamp_to_json d = .ok (tsJsonOf d) :=
  timestamp_to_json_eq d

/-- **the last branch `f"{result}.{nanos:09d}"` — which would raise ValueError (`d` format of a
    float), and lacks the "Z" — is unreachable for EVERY datetime**: `dt.microsecond * 1e3` is
    always a multiple of 1e3 -/
theorem src_timestamp_to_json_last_branch_unreachable (d : DT) :
    Src.timestamp_to_json d ≠ .raise .value ∧ ∃ t, Src.timestamp_to_json d = .ok t := by
  rw [src_timestamp_to_json]
  exact ⟨(by intro h; cases h), _, rfl⟩

/-- **the Timestamp JSON form is the spec's RFC 3339 string, of the source as written**: for a
    naive datetime or an aware one whose utcoffset is a whole number of seconds, the text is the
    model's `tsJsonText` of the instant — the calendar second of the UTC-NORMALISED reading, no
    fraction / exactly 3 / exactly 6 digits, the suffix "Z" (part of the meaning of `TsText`) — and
    it spells the instant exactly -/
theorem src_timestamp_json_form (d : DT) (h : d.off.getD 0 % 1000000 = 0) :
    Src.timestamp_to_json d = .ok (tsJsonText d.instant)
    ∧ tsTextUs (tsJsonText d.instant) = d.instant
    ∧ ((tsJsonText d.instant).frac = none
        ∨ (∃ dg : Nat, (tsJsonText d.instant).frac = some (3, (dg : Int)) ∧ dg < 1000)
        ∨ (∃ dg : Nat, (tsJsonText d.instant).frac = some (6, (dg : Int)) ∧ dg < 1000000)) := by
  refine ⟨by rw [src_timestamp_to_json, tsJsonOf_whole_offset d h], tsTextUs_tsJsonText _, ?_⟩
  have hlt : (d.instant % 1000000).toNat < 1000000 := by omega
  unfold tsJsonText fracJ tsFrac
  simp only
  generalize (d.instant % 1000000).toNat = u at hlt ⊢
  by_cases h0 : u = 0
  · left; rw [if_pos h0]; rfl
  · rw [if_neg h0]
    by_cases h1 : u % 1000 = 0
    · right; left; rw [if_pos h1]; exact ⟨u / 1000, rfl, by omega⟩
    · right; right; rw [if_neg h1]; exact ⟨u, rfl, hlt⟩

/-- **UTC normalisation of aware datetimes, of the source as written**: two datetimes that denote the
    same instant — in whatever time zones with whole-second offsets, or naive (read as UTC) — get the
    SAME text, the one of the UTC reading -/
theorem src_timestamp_json_same_instant (d1 d2 : DT) (h1 : d1.off.getD 0 % 1000000 = 0)
    (h2 : d2.off.getD 0 % 1000000 = 0) (hi : d1.instant = d2.instant) :
    Src.timestamp_to_json d1 = Src.timestamp_to_json d2
    ∧ Src.timestamp_to_json d1 = Src.timestamp_to_json ⟨d1.instant, some 0⟩ := by
  rw [(src_timestamp_json_form d1 h1).1, (src_timestamp_json_form d2 h2).1, hi]
  refine ⟨rfl, ?_⟩
  rw [(src_timestamp_json_form ⟨d2.instant, some 0⟩ rfl).1]
  simp [DT.instant]

/-- the model text is injective: two instants with the same JSON text are equal (what makes the
    abstract constructor `JVal.tsStr` of BpModel/Json.lean a faithful stand-in for the text) -/
theorem ts_json_text_injective (a b : Int) (h : tsJsonText a = tsJsonText b) : a = b := by
  rw [← tsTextUs_tsJsonText a, ← tsTextUs_tsJsonText b, h]

/-- **D52 (sub-second UTC offsets), REPAIRED** (`fix:` commit in /repo; found by this tie: the first proof of
    `src_timestamp_to_json` forced the guard `off % 10^6 = 0`).  Before the repair `dt.microsecond` was read BEFORE the
    UTC normalisation, so for an aware datetime whose utcoffset is not a whole number of seconds the fraction was that
    of the local wall clock: 00:00:00.500000 at UTC+0.25 s is the instant 0.250 s, and the text said ".500".  The source
    as written now spells the instant, which is also what goes on the wire; the witness is replayed on the real code
    by the C15 check on every run. -/
theorem timestamp_to_json_subsecond_offset_witness :
    Src.timestamp_to_json ⟨500000, some 250000⟩ = .ok ⟨⟨0⟩, some (3, 250)⟩
    ∧ tsTextUs ⟨⟨0⟩, some (3, 250)⟩ = 250000 ∧ (⟨500000, some 250000⟩ : DT).instant = 250000
    ∧ Src.timestamp_from_datetime (⟨500000, some 250000⟩ : DT).instant = .ok (0, 250000000) := by decide

/-- since the repair the text spells the instant for EVERY datetime, whatever its utcoffset -/
theorem src_timestamp_to_json_instant (d : DT) : Src.timestamp_to_json d = .ok (tsJsonText d.instant) := by
  rw [src_timestamp_to_json]; rfl

/-! non-vacuity -/
example : Src.duration_delta_from_json "-1.500s".toList = .ok (-1500000) := by decide
example : Src.duration_delta_from_json "-1.000000999s".toList = .ok (-1000000) := by decide
example : Src.duration_delta_from_json "0.000001s".toList = .ok 1 := by decide
example : Src.duration_delta_from_json "+.5s".toList = .ok 500000 := by decide
example : renderSecs (true, 1, 3, 500) = "-1.500s".toList := by decide
example : (Src.duration_delta_to_json (-1500000)).bind (fun t => .ok (renderSecs t)) = .ok "-1.500s".toList := by decide
example : Src.timestamp_to_json ⟨1500000, some 3600000000⟩ = .ok ⟨⟨-3599⟩, some (3, 500)⟩ := by decide
example : Src.timestamp_to_json ⟨1000001, none⟩ = .ok ⟨⟨1⟩, some (6, 1)⟩ := by decide
example : (⟨1500000, some 3600000000⟩ : DT).off.getD 0 % 1000000 = 0 := by decide
/-- the hypotheses of `src_delta_from_json` / `src_delta_from_json_truncates` at a nanosecond text -/
example : (0 : Nat) < 9 ∧ 999 < 10 ^ 9 ∧ (10 ^ 9 * 1 + 999) * 1000000 < 10 ^ 28 := by decide
example : allDigits "007".toList = true ∧ allDigits "250".toList = true := by decide

end Bp.C15
