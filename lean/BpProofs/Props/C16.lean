import BpModel.All
import BpProofs.Varint
/-
  C16 — scalar codec primitives are total, canonical and mutually inverse.
  Only property statements live here; helper lemmas are in BpProofs/Varint.lean.
  All integers are unbounded `Int`/`Nat`; there is no size bound anywhere.
-/
namespace Bp.C16
open Bp Spec Gen

/-- the unsigned 64-bit value an integer in [-2^63, 2^64) denotes on the wire -/
def wire64 (v : Int) : Nat := (v % two64).toNat

theorem asU64_eq_wire64 (v : Int) (hlo : -two63 ≤ v) (hhi : v < two64) : asU64 v = wire64 v := by
  unfold asU64 wire64 two64 two63 at *
  split
  · have : v % 18446744073709551616 = v + 18446744073709551616 := by omega
    rw [this]
  · have : v % 18446744073709551616 = v := by omega
    rw [this]

theorem dumpVarint_eq (v : Int) (hlo : -two63 ≤ v) : dumpVarint v = .ok (encNat (asU64 v)) := by
  unfold dumpVarint asU64
  have : ¬ v < -two63 := by omega
  simp only [this, if_false]
  split <;> rfl

/-- **canonical minimal encoding**: for every integer in [-2^63, 2^64) `encode_varint`
    succeeds with a byte string that (a) consists of bytes, (b) has the base-128
    little-endian shape (continuation bit on all but the last byte), (c) is minimal,
    (d) denotes the two's-complement 64-bit value, (e) is at most 10 bytes long. -/
theorem dump_canonical (v : Int) (hlo : -two63 ≤ v) (hhi : v < two64) :
    ∃ bs, dumpVarint v = .ok bs ∧ WfBytes bs ∧ varintCanonical bs = true
      ∧ varintValue bs = wire64 v ∧ bs.length ≤ 10 := by
  refine ⟨encNat (asU64 v), dumpVarint_eq v hlo, encNat_wf _, encNat_canonical _, ?_, ?_⟩
  · rw [encNat_value, asU64_eq_wire64 v hlo hhi]
  · apply encNat_length_le10
    unfold asU64 two64 two63 at *
    split <;> omega

/-- negatives are 64-bit two's complement: exactly 10 bytes -/
theorem dump_negative_len (v : Int) (hlo : -two63 ≤ v) (hneg : v < 0) :
    ∃ bs, dumpVarint v = .ok bs ∧ bs.length = 10 := by
  refine ⟨encNat (asU64 v), dumpVarint_eq v hlo, ?_⟩
  apply encNat_length_10 <;> (unfold asU64 two64 two63 at *; simp only [hneg, if_true]; omega)

/-- integers below -2^63 are rejected by both `encode_varint` and `size_varint` -/
theorem reject_below (v : Int) (h : v < -two63) :
    dumpVarint v = .error .value ∧ sizeVarint v = .error .value := by
  simp [dumpVarint, sizeVarint, h]

/-- `size_varint` equals the encoded length — for **every** integer, including the
    rejected ones (both raise) and those ≥ 2^64 (both keep going) -/
theorem size_eq (v : Int) : sizeVarint v = (dumpVarint v).map List.length := by
  unfold sizeVarint dumpVarint
  by_cases h1 : v < -two63
  · simp [h1, Except.map]
  · simp only [h1, if_false]
    by_cases h2 : v < 0
    · simp only [h2, if_true]
      have : (encNat (v + two64).toNat).length = 10 := by
        apply encNat_length_10 <;> (unfold two64 two63 at *; omega)
      simp [Except.map, this]
    · simp only [h2, if_false]
      by_cases h3 : v = 0
      · subst h3; simp [Except.map]; rw [encNat_lt 0 (by omega)]; rfl
      · simp only [h3, if_false]
        simp only [Except.map]
        rw [size_encNat v.toNat (by omega)]

/-- `load_varint` inverts `encode_varint` and reports the exact number of bytes
    consumed, whatever follows in the stream -/
theorem load_dump (v : Int) (hlo : -two63 ≤ v) (hhi : v < two64) (rest : Bytes) :
    ∃ bs, dumpVarint v = .ok bs ∧ loadVarint (bs ++ rest) = .ok (wire64 v, bs.length) := by
  refine ⟨encNat (asU64 v), dumpVarint_eq v hlo, ?_⟩
  rw [loadVarint_encNat _ _ (by unfold asU64 two64 two63 at *; split <;> omega),
    asU64_eq_wire64 v hlo hhi]

/-- the same through `decode_varint(buffer, pos)`: new position = pos + encoded length -/
theorem decode_dump (v : Int) (hlo : -two63 ≤ v) (hhi : v < two64) (pre rest : Bytes) :
    ∃ bs, dumpVarint v = .ok bs
      ∧ decodeVarint (pre ++ bs ++ rest) pre.length = .ok (wire64 v, pre.length + bs.length) := by
  obtain ⟨bs, h1, h2⟩ := load_dump v hlo hhi rest
  refine ⟨bs, h1, ?_⟩
  unfold decodeVarint
  rw [List.append_assoc, List.drop_left, h2]

/-- signed readers get the original integer back (int32 / int64 / enum sign recovery) -/
theorem load_dump_int64 (v : Int) (hlo : -two63 ≤ v) (hhi : v < two63) :
    signRecover 64 (wire64 v) = v := by
  rw [← asU64_eq_wire64 v hlo (by unfold two64 two63 at *; omega)]
  exact signRecover64 v (by unfold two63 at hlo; omega) (by unfold two63 at hhi; omega)

theorem load_dump_int32 (v : Int) (hlo : -2147483648 ≤ v) (hhi : v < 2147483648) :
    signRecover 32 (wire64 v) = v := by
  rw [← asU64_eq_wire64 v (by unfold two63; omega) (by unfold two64; omega)]
  exact signRecover32 v hlo hhi

/-- non-minimal (padded) varints of at most 10 bytes decode to the value they denote -/
theorem load_padded (bs rest : Bytes) (hs : varintShape bs = true) (hlen : bs.length ≤ 10) :
    loadVarint (bs ++ rest) = .ok (varintValue bs % 2 ^ 64, bs.length) :=
  loadVarint_shape bs rest hs hlen

/-- **totality of the decoder**: on every byte string exactly one of three things
    happens — a value is returned after consuming 1..10 bytes that form a well-shaped
    varint; the input ended inside the varint (EOFError); or the first ten bytes all
    carry the continuation bit (ValueError: longer than 10 bytes). -/
theorem load_total (bs : Bytes) (hw : WfBytes bs) :
    (∃ m, loadVarint bs = .ok (varintValue (bs.take m) % 2 ^ 64, m)
        ∧ 1 ≤ m ∧ m ≤ 10 ∧ m ≤ bs.length ∧ varintShape (bs.take m) = true)
    ∨ (loadVarint bs = .error .eof ∧ bs.length < 10 ∧ ∀ b ∈ bs, 128 ≤ b)
    ∨ (loadVarint bs = .error .value ∧ 10 ≤ bs.length ∧ ∀ b ∈ bs.take 10, 128 ≤ b) := by
  unfold loadVarint
  rcases loadAux_total bs hw 0 0 0 (by omega) with ⟨m, h1, h2, h3, h4, h5⟩ | ⟨h1, h2, h3⟩ | ⟨h1, h2, h3⟩
  · left; refine ⟨m, ?_, h2, by omega, h4, h5⟩
    simp at h1; rw [h1]; simp
  · right; left; simp at h1; rw [h1]; exact ⟨rfl, by omega, h3⟩
  · right; right; simp at h1; rw [h1]; exact ⟨rfl, by omega, by simpa using h3⟩

/-- zig-zag is a bijection between Z and N … -/
theorem unzig_zig (v : Int) : unzig (zig v).toNat = v := Bp.unzig_zig v

/-- … that maps sint32 into 32 bits and sint64 into 64 bits -/
theorem zig_range32 (v : Int) (hlo : -2147483648 ≤ v) (hhi : v < 2147483648) :
    0 ≤ zig v ∧ zig v < 4294967296 := by
  unfold zig; split <;> omega

theorem zig_range64 (v : Int) (hlo : -two63 ≤ v) (hhi : v < two63) :
    0 ≤ zig v ∧ zig v < two64 := by
  unfold zig two63 two64 at *; split <;> omega

/-- sintN encode → varint → decode is the identity -/
theorem sint_roundtrip (v : Int) (hlo : -two63 ≤ v) (hhi : v < two63) (rest : Bytes) :
    ∃ bs, dumpVarint (zig v) = .ok bs ∧
      ∃ n, loadVarint (bs ++ rest) = .ok (n, bs.length) ∧ unzig n = v := by
  have hz := zig_range64 v hlo hhi
  obtain ⟨bs, h1, h2⟩ := load_dump (zig v) (by unfold two63; omega) hz.2 rest
  refine ⟨bs, h1, _, h2, ?_⟩
  have : wire64 (zig v) = (zig v).toNat := by
    unfold wire64; rw [Int.emod_eq_of_lt hz.1 hz.2]
  rw [this, unzig_zig]

/-- fixed-width little-endian packing is a bijection between in-range values and
    byte strings of the width -/
theorem fixed_unsigned_roundtrip (w : Nat) (v : Nat) (h : v < 256 ^ w) :
    unpackLE (packLE w v) = v ∧ (packLE w v).length = w ∧ WfBytes (packLE w v) :=
  ⟨unpackLE_packLE w v h, packLE_length w v, packLE_wf w v⟩

theorem fixed_bytes_roundtrip (bs : Bytes) (hw : WfBytes bs) :
    packLE bs.length (unpackLE bs) = bs := packLE_unpackLE bs hw

/-- fixed32/64, sfixed32/64, float, double through the model's `packFixed`/`postFixed` -/
theorem packFixed_postFixed_int (t : PType) (w : Nat) (signed : Bool)
    (hf : fmtOf t = some (w, signed, false)) (hw : 1 ≤ w) (i : Int)
    (hr : if signed then -(2 ^ (8 * w - 1) : Nat) ≤ i ∧ i < (2 ^ (8 * w - 1) : Nat)
          else 0 ≤ i ∧ i < (2 ^ (8 * w) : Nat)) :
    ∃ bs, packFixed t (.int i) = .ok bs ∧ bs.length = w ∧ postFixed t bs = .ok (.int i) := by
  have e256 : (256 : Nat) ^ w = 2 ^ (8 * w) := by rw [Nat.pow_mul]
  cases signed with
  | true =>
    simp only [if_true] at hr
    have hr' := hr
    push_cast at hr'
    refine ⟨packLE w (ofSigned (8 * w) i), ?_, packLE_length _ _, ?_⟩
    · simp [packFixed, hf, hr']
    · have hlt : ofSigned (8 * w) i < 256 ^ w := by
        rw [e256]; unfold ofSigned
        have : (0:Int) < ((2 ^ (8 * w) : Nat) : Int) := by
          have := Nat.two_pow_pos (8 * w)
          omega
        have h1 := Int.emod_lt_of_pos i this
        have h0 := Int.emod_nonneg i (Int.ne_of_gt this)
        omega
      simp [postFixed, hf, packLE_length, unpackLE_packLE w _ hlt]
      exact toSigned_ofSigned (8 * w) (by omega) i hr.1 hr.2
  | false =>
    simp only [Bool.false_eq_true, if_false] at hr
    have hr' := hr
    push_cast at hr'
    refine ⟨packLE w i.toNat, ?_, packLE_length _ _, ?_⟩
    · simp [packFixed, hf, hr']
    · have hlt : i.toNat < 256 ^ w := by rw [e256]; omega
      simp [postFixed, hf, packLE_length, unpackLE_packLE w _ hlt]
      omega

/-- the six `_pack_fmt` rows the codec uses, as regenerated from the source -/
theorem packFmt_rows :
    fmtOf .fixed32 = some (4, false, false) ∧ fmtOf .sfixed32 = some (4, true, false)
    ∧ fmtOf .fixed64 = some (8, false, false) ∧ fmtOf .sfixed64 = some (8, true, false)
    ∧ fmtOf .float = some (4, false, true) ∧ fmtOf .double = some (8, false, true) := by decide

theorem double_roundtrip (b : Nat) (h : b < 2 ^ 64) :
    ∃ bs, packFixed .double (.f64 b) = .ok bs ∧ bs.length = 8 ∧ postFixed .double bs = .ok (.f64 b) := by
  have hf : fmtOf .double = some (8, false, true) := by decide
  have h' : b < 18446744073709551616 := by simpa using h
  refine ⟨packLE 8 b, by simp [packFixed, hf, h'], packLE_length _ _, ?_⟩
  have : b < 256 ^ 8 := by
    have : (256:Nat) ^ 8 = 2 ^ 64 := by decide
    omega
  simp [postFixed, hf, packLE_length, unpackLE_packLE 8 b this]

/-- float32 patterns other than signalling NaNs survive (a signalling NaN comes back quiet) -/
theorem float_roundtrip (b : Nat) (h : b < 2 ^ 32) (hq : quiet32 b = b) :
    ∃ bs, packFixed .float (.f32 b) = .ok bs ∧ bs.length = 4 ∧ postFixed .float bs = .ok (.f32 b) := by
  have hf : fmtOf .float = some (4, false, true) := by decide
  have h' : b < 4294967296 := by simpa using h
  refine ⟨packLE 4 b, by simp [packFixed, hf, h'], packLE_length _ _, ?_⟩
  have : b < 256 ^ 4 := by
    have : (256:Nat) ^ 4 = 2 ^ 32 := by decide
    omega
  simp [postFixed, hf, packLE_length, unpackLE_packLE 4 b this, hq]

/-- bool: True ↦ 01, False ↦ 00, and back -/
theorem bool_roundtrip (b : Bool) :
    ∃ bs, prepPlain .bool (.bool b) = .ok bs ∧ bs = [if b then 1 else 0]
      ∧ ∃ n, loadVarint bs = .ok (n, 1) ∧ postVarint .bool n = .bool b := by
  cases b <;> (refine ⟨_, rfl, rfl, _, rfl, ?_⟩; simp [postVarint])

/-! non-vacuity: concrete instances meeting the hypotheses -/
example : dumpVarint 300 = .ok [0xAC, 0x02] := by decide
example : dumpVarint (-1) = .ok [255, 255, 255, 255, 255, 255, 255, 255, 255, 1] := by decide
example : loadVarint [0xAC, 0x02, 0x07] = .ok (300, 2) := by decide
example : loadVarint [0x80, 0x80, 0x00] = .ok (0, 3) := by decide   -- padded zero
example : loadVarint [0x80] = .error .eof := by decide
example : loadVarint [128,128,128,128,128,128,128,128,128,128,1] = .error .value := by decide
example : sizeVarint (-two63) = .ok 10 ∧ dumpVarint (-two63 - 1) = .error .value := by decide
example : zig (-1) = 1 ∧ zig 1 = 2 ∧ zig (-2147483648) = 4294967295 := by decide

end Bp.C16
