import BpProofs.SrcTie
import BpProofs.Props.C16
/-
  C16, tied to the SOURCE: the same statements about the functions `Bp.Src.*`, which are
  regenerated from the Python AST of src/betterproto/__init__.py on every run
  (harness/extract_src.py → BpProofs/Gen/SrcCodec.lean).  If the source of one of these
  functions changes what it computes, the corresponding theorem below stops checking.

  `fuel` bounds the iterations of the translated `while` / `for` loops; every theorem holds
  for every fuel above an explicit bound (running out of fuel is the outcome `.diverge`,
  which none of the right-hand sides is), so each says: the Python loop terminates and
  returns / raises exactly this.
-/
namespace Bp.C16
open Bp Bp.Py Spec

/-- `dump_varint` as written appends to the stream exactly what the model `dumpVarint`
    produces and raises exactly when it raises — every integer, every stream content -/
theorem src_dump_varint (v : Int) (s : Bytes) (fuel : Nat) (hf : v.natAbs + 2 ^ 64 < fuel) :
    Src.dump_varint fuel v s = (Py.ofR (dumpVarint v)).bind fun bs => .ok (s ++ bs) :=
  SrcTie.dump_varint_eq v s fuel hf

/-- `encode_varint` as written is the model's `dumpVarint` -/
theorem src_encode_varint (v : Int) (fuel : Nat) (hf : v.natAbs + 2 ^ 64 < fuel) :
    Src.encode_varint fuel v = Py.ofR (dumpVarint v) :=
  SrcTie.encode_varint_eq v fuel hf

/-- `size_varint` as written is the model's `sizeVarint` (no loop: any fuel) -/
theorem src_size_varint (v : Int) (fuel : Nat) :
    Src.size_varint fuel v = Py.ofR ((sizeVarint v).map fun (n : Nat) => (n : Int)) :=
  SrcTie.size_varint_eq v fuel

/-- `load_varint` as written is the model's `loadVarint` on every byte string: same value
    (64 meaningful bits), same raw bytes, same rest of the stream, same exception -/
theorem src_load_varint (bs : Bytes) (hw : WfBytes bs) (fuel : Nat) (hf : 10 < fuel) :
    Src.load_varint fuel bs [] =
      match loadVarint bs with
      | .ok (v, k) => .ok (((v : Int), bs.take k), bs.drop k)
      | .error e => .raise e :=
  SrcTie.load_varint_eq bs hw fuel hf

/-- … also when the caller has already taken the first byte (`load_fields`) -/
theorem src_load_varint_first (b0 : Nat) (bs : Bytes) (hw : WfBytes (b0 :: bs)) (fuel : Nat) (hf : 10 < fuel) :
    Src.load_varint fuel bs [b0] =
      match loadVarint (b0 :: bs) with
      | .ok (v, k) => .ok (((v : Int), (b0 :: bs).take k), (b0 :: bs).drop k)
      | .error e => .raise e :=
  SrcTie.load_varint_first_eq b0 bs hw fuel hf

/-- `decode_varint` as written is the model's `decodeVarint` -/
theorem src_decode_varint (buf : Bytes) (hw : WfBytes buf) (pos fuel : Nat) (hf : 10 < fuel) :
    Src.decode_varint fuel buf (pos : Int) =
      match decodeVarint buf pos with
      | .ok (v, p) => .ok ((v : Int), (p : Int))
      | .error e => .raise e :=
  SrcTie.decode_varint_eq buf hw pos fuel hf

/-- the zig-zag branch of `_preprocess_single` as written encodes `zig v` -/
theorem src_zigzag (v : Int) (fuel : Nat) (hf : (zig v).natAbs + 2 ^ 64 < fuel) :
    Src.preprocess_sint fuel v = Py.ofR (dumpVarint (zig v)) :=
  SrcTie.preprocess_sint_eq v fuel hf

/-- the zig-zag inverse of `_postprocess_single` as written is `unzig` -/
theorem src_unzigzag (n fuel : Nat) : Src.postprocess_sint fuel (n : Int) = .ok (unzig n) :=
  SrcTie.postprocess_sint_eq n fuel

/-- the int32 / int64 sign recovery of `_postprocess_single` as written is `signRecover` -/
theorem src_sign_recovery (n bits : Nat) (hb : 1 ≤ bits) (fuel : Nat) :
    Src.postprocess_int fuel (n : Int) (bits : Int) = .ok (signRecover bits n) :=
  SrcTie.postprocess_int_eq n bits hb fuel

/-- the enum sign recovery of `_postprocess_single` as written is `signRecover 32` -/
theorem src_enum_sign_recovery (n fuel : Nat) : Src.postprocess_enum fuel (n : Int) = .ok (signRecover 32 n) :=
  SrcTie.postprocess_enum_eq n fuel

/-- **the property, stated of the source as written**: for every integer in
    [-2^63, 2^64) `encode_varint` terminates with a canonical minimal encoding of at most
    10 bytes, and `load_varint` applied to those bytes followed by anything returns the
    64-bit value, exactly those bytes as `raw`, and leaves exactly the rest in the stream -/
theorem src_varint_roundtrip (v : Int) (hlo : -two63 ≤ v) (hhi : v < two64) (rest : Bytes) (hr : WfBytes rest)
    (fuel : Nat) (hf : v.natAbs + 2 ^ 64 < fuel) :
    ∃ bs, Src.encode_varint fuel v = .ok bs ∧ varintCanonical bs = true ∧ bs.length ≤ 10
      ∧ Src.load_varint fuel (bs ++ rest) [] = .ok ((((wire64 v : Nat) : Int), bs), rest) := by
  obtain ⟨bs, hd, hwf, hcan, _, hlen⟩ := dump_canonical v hlo hhi
  obtain ⟨bs', hd', hload⟩ := load_dump v hlo hhi rest
  have hbs : bs' = bs := by rw [hd] at hd'; cases hd'; rfl
  subst hbs
  refine ⟨bs', ?_, hcan, hlen, ?_⟩
  · rw [src_encode_varint v fuel hf, hd]; rfl
  · have hw : WfBytes (bs' ++ rest) := by
      intro x hx
      rcases List.mem_append.mp hx with h | h
      · exact hwf x h
      · exact hr x h
    rw [src_load_varint (bs' ++ rest) hw fuel (by omega), hload]
    simp

/-- integers below -2^63 are rejected by the source as written, by the encoder and the sizer -/
theorem src_reject_below (v : Int) (h : v < -two63) (fuel : Nat) (hf : v.natAbs + 2 ^ 64 < fuel) :
    Src.encode_varint fuel v = .raise .value ∧ Src.size_varint fuel v = .raise .value := by
  obtain ⟨h1, h2⟩ := reject_below v h
  rw [src_encode_varint v fuel hf, src_size_varint, h1, h2]
  exact ⟨rfl, rfl⟩

/-- `size_varint` as written equals the length of what `encode_varint` as written returns,
    for every integer (both raise together) -/
theorem src_size_eq_encoded_length (v : Int) (fuel : Nat) (hf : v.natAbs + 2 ^ 64 < fuel) :
    Src.size_varint fuel v = (Src.encode_varint fuel v).bind fun bs => .ok ((bs.length : Nat) : Int) := by
  rw [src_size_varint, src_encode_varint v fuel hf, size_eq]
  cases dumpVarint v <;> rfl

end Bp.C16
