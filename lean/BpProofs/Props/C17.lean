import BpModel.All
import BpProofs.Load
import BpProofs.Typed
/-
  C17 — malformed or truncated input is rejected or isolated, never mis-decoded.
  (Model of the decoder after the D09/D11/D21 repairs.)
-/
namespace Bp.C17
open Bp Gen

/-- **decoding terminates** on every byte string: `parse` is a total function by
    construction (structural recursion on explicit fuel); the framing loop never runs
    out of the fuel it is given (`bs.length + 1`): any larger fuel gives the same result -/
theorem framing_fuel_adequate (f g : Nat) (bs : Bytes) (hf : bs.length < f) (hg : bs.length < g) :
    loadFieldsFuel f bs = loadFieldsFuel g bs := loadFieldsFuel_fuel f g bs hf hg

/-- whatever the framing accepts is a sequence of well-formed records that covers the
    input exactly: positive field numbers, wire types 0/1/2/5 only, fixed payloads of
    exactly 8 / 4 bytes, length-delimited payloads of exactly the announced length -/
theorem accepted_is_wellformed (bs : Bytes) (pfs : List PField) (h : loadFields bs = .ok pfs) :
    joinRaw pfs = bs ∧ AllFieldsOk pfs := loadFields_raw bs pfs h

/-- **a proper prefix that cuts a field in the middle is rejected** (and a prefix that
    ends at a field boundary is the message consisting of the fields before it): for
    every accepted input and every cut point -/
theorem prefix_classification (bs : Bytes) (pfs : List PField) (h : loadFields bs = .ok pfs) (n : Nat)
    (hn : n ≤ bs.length) :
    (∃ j, n = (joinRaw (pfs.take j)).length ∧ loadFields (bs.take n) = .ok (pfs.take j))
    ∨ loadFields (bs.take n) = .error .eof := loadFields_trunc bs pfs h n hn

theorem midfield_prefix_rejected (S : Schema) (m : Val) (bs : Bytes) (pfs : List PField)
    (h : loadFields bs = .ok pfs) (n : Nat) (hn : n ≤ bs.length)
    (hmid : ∀ j, n ≠ (joinRaw (pfs.take j)).length) :
    ∃ e, parseInto S m (bs.take n) = .error e := by
  rcases loadFields_trunc bs pfs h n hn with ⟨j, hj, _⟩ | herr
  · exact absurd hj (hmid j)
  · exact parseInto_fields_err S m _ _ herr

/-- **field number 0 and wire types 3, 4, 6, 7 are rejected** wherever the tag stands -/
theorem invalid_tag_rejected (bs : Bytes) (nw k : Nat) (h : loadVarint bs = .ok (nw, k))
    (hbad : nw / 8 = 0 ∨ nw % 8 = 3 ∨ nw % 8 = 4 ∨ nw % 8 = 6 ∨ nw % 8 = 7) :
    loadField bs = .error .value := by
  unfold loadField
  rw [h]
  dsimp only
  by_cases h0 : nw / 8 = 0
  · simp [h0]
  · have hw : nw % 8 = 3 ∨ nw % 8 = 4 ∨ nw % 8 = 6 ∨ nw % 8 = 7 := by
      rcases hbad with h | h
      · exact absurd h h0
      · exact h
    have e0 : (nw / 8 == 0) = false := by simpa using h0
    simp only [e0, Bool.false_eq_true, if_false]
    have : loadPayload (nw % 8) (bs.drop k) = .error .value := by
      unfold loadPayload
      rcases hw with h | h | h | h <;> rw [h] <;> rfl
    rw [this]

theorem invalid_tag_rejected_anywhere (S : Schema) (m : Val) (pfs : List PField) (hp : ∀ pf ∈ pfs, Parsed pf)
    (bs : Bytes) (nw k : Nat) (h : loadVarint bs = .ok (nw, k))
    (hbad : nw / 8 = 0 ∨ nw % 8 = 3 ∨ nw % 8 = 4 ∨ nw % 8 = 6 ∨ nw % 8 = 7) :
    ∃ e, parseInto S m (joinRaw pfs ++ bs) = .error e := by
  have hne : bs ≠ [] := by
    intro hc; subst hc; exact loadVarint_nil_ne_ok _ _ h
  have hb := invalid_tag_rejected bs nw k h hbad
  have : loadFields (joinRaw pfs ++ bs) = .error .value := by
    induction pfs with
    | nil => exact loadFields_cons_err bs _ hne hb
    | cons pf pfs ih =>
      obtain ⟨bs0, rest0, hlf⟩ := hp pf (by simp)
      have ok := loadField_ok _ _ _ hlf
      have hloc := loadField_prefix bs0 pf rest0 hlf (joinRaw pfs ++ bs)
      have hne' : pf.raw ++ (joinRaw pfs ++ bs) ≠ [] := by
        intro hc; have := congrArg List.length hc
        simp only [List.length_append, List.length_nil] at this
        have := ok.raw_pos; omega
      simp only [joinRaw, List.append_assoc]
      rw [loadFields_cons _ pf _ hne' hloc, ih (fun x hx => hp x (by simp [hx]))]
      rfl
  exact parseInto_fields_err S m _ _ this

/-- **a known field number with a wire type that does not fit the declared type is kept
    as an unknown field**: the only effect of such a record on the message is that its
    raw bytes are appended to the unknown fields — no field value, no oneof selection,
    no presence flag changes (proto2 groups never get this far: wire types 3/4 are
    rejected by `invalid_tag_rejected`) -/
theorem mismatch_is_unknown (S : Schema) (rec : Loader) (d : MsgD) (st : MState) (pf : PField)
    (idx : Nat) (f : FieldD) (hidx : findField d.fields pf.num = some idx) (hf : d.fields[idx]? = some f)
    (hmis : wireFits f pf.wt = false) :
    applyField S rec d st pf = .ok { st with unknown := st.unknown ++ pf.raw } := by
  apply applyField_unknown
  unfold isUnknownField
  simp [hidx, hf, hmis]

/-- what "fits" means, row by row of the regenerated `WIRE_TYPE_BY_PROTO_TYPE` table:
    a type's own wire type, plus LEN for repeated packable scalars -/
theorem wireFits_table :
    ∀ t ∈ PType.all, ∀ rep : Bool, ∀ wt ∈ [0, 1, 2, 5],
      wireFits { num := 1, ty := t, repeated := rep } wt
        = (wireOf t == some wt || (wt == 2 && isPacked t && rep)) := by decide

/-! non-vacuity / the repaired D09 witnesses, evaluated on the model -/
def T : Schema := [{ fields := [{ name := "i", num := 2, ty := .int32 }, { name := "b", num := 5, ty := .bytes }] }]
example : (parse T 0 [0x2a, 0x05, 0x68, 0x65]).isOk = false := by decide            -- b'hello' cut after 'he'
example : (parse T 0 [0x00, 0x01]).isOk = false := by decide                        -- field number 0
example : (parse T 0 [0x13, 0x10, 0x05, 0x14]).isOk = false := by decide            -- a proto2 group
example : (parse T 0 [0x10, 0x05, 0x80]).isOk = false := by decide                  -- tag cut inside its varint
example : (parse T 0 [0x12, 0x02, 0x01, 0x02]).bind (dumpVal T) = .ok [0x12, 0x02, 0x01, 0x02] := by decide  -- LEN on a singular int32: kept as unknown
example : (parse T 0 [0x28, 0x07]).bind (dumpVal T) = .ok [0x28, 0x07] := by decide   -- varint on a bytes field: kept as unknown

/-! ### "… or returns a message in which every field holds a value of its declared Python
    type and which can be encoded again"

  Definitions (all Bool-valued, kernel-evaluable): BpModel/Typed.lean — `slotTypedB`,
  `msgTypedB`, `wfSchemaTB`.  `PyTyped S f v` / `MsgTyped S m` are the *Python type* reading
  (`int` for every integer and enum type whatever its magnitude, `bool`, `float`, valid-UTF-8
  `str`, `bytes`, `datetime`, `timedelta`, the wrapped scalar or `None` for wrapper fields,
  an instance of the declared class with typed slots, `list` / `dict` of these; PLACEHOLDER
  anywhere, `None` only where the dataclass default is `None`); `MsgEnc S m` adds that every
  leaf lies in the encoder's domain.  Proofs: BpProofs/Typed.lean (induction on the fuel of
  `loadInto` with the fold-state invariant `StTyped`; the encoder is total on `MsgEnc`).

  `WfSchemaT S` is a condition on the schema only (`wfFieldB`): a repeated field is not
  `optional`; a plain message field / message-valued map names an existing class; a
  wrapper wraps a scalar type; map keys are scalars and map values are not maps.  The
  plugin cannot emit anything else (proto3 `optional` is singular; `wraps` comes from the
  wrapper table; protoc restricts map key / value types; a dangling class reference does
  not import). -/

/-- **C17, "returns a message in which every field holds a value of its declared Python
    type"**: for every input — any list of numbers, bytes or not — whatever `parse` returns
    is a typed message: its class exists, it has one slot per field and one selection cell
    per oneof group, every slot is `PyTyped` (`msgTyped_iff`), recursively -/
theorem ok_welltyped (S : Schema) (hS : WfSchemaT S) (c : Nat) (bs : Bytes) (m : Val)
    (h : parse S c bs = .ok m) : MsgTyped S m := parse_msgTyped S hS c bs m h

/-- the same with every leaf in the encoder's domain, for an input made of bytes
    (`WfBytes bs`: every element < 256 — the model's `Bytes` are `List Nat`) -/
theorem ok_encodable (S : Schema) (hS : WfSchemaT S) (c : Nat) (bs : Bytes) (hb : WfBytes bs) (m : Val)
    (h : parse S c bs = .ok m) : MsgEnc S m := parse_msgEnc S hS c bs m hb h

/-- **C17, "and which can be encoded again"**: for every byte string, whatever `parse`
    returns is accepted by the encoder.  (The hypothesis `WfBytes bs` only excludes lists
    that are not byte strings; see `reencode_needs_bytes` below.) -/
theorem ok_reencodes (S : Schema) (hS : WfSchemaT S) (c : Nat) (bs : Bytes) (hb : WfBytes bs) (m : Val)
    (h : parse S c bs = .ok m) : ∃ bs', dumpVal S m = .ok bs' := parse_reencodes S hS c bs m hb h

/-- every typed message of the encoder's domain can be encoded, decoded or not -/
theorem encodable_dumps (S : Schema) (hS : WfSchemaT S) (m : Val) (h : MsgEnc S m) :
    ∃ bs', dumpVal S m = .ok bs' := dumpVal_total S hS m h

/-- the encoder's domain is part of the Python typing -/
theorem encodable_typed (S : Schema) (m : Val) (h : MsgEnc S m) : MsgTyped S m := msgTyped_weaken S m h

/-! non-vacuity: nested / repeated / map / oneof / wrapper / Timestamp / optional fields -/
def X : Schema := [
  { fields := [
      { name := "i", num := 1, ty := .int32 },
      { name := "sub", num := 2, ty := .message, kind := .user 1 },
      { name := "subs", num := 3, ty := .message, kind := .user 1, repeated := true },
      { name := "m", num := 4, ty := .map, mapK := .string, mapV := .message, mapVKind := .user 1 },
      { name := "a", num := 5, ty := .string, group := some 0 },
      { name := "b", num := 6, ty := .message, kind := .user 1, group := some 0 },
      { name := "w", num := 7, ty := .message, kind := .user 0, wraps := some .int32 },
      { name := "t", num := 8, ty := .message, kind := .timestamp },
      { name := "fl", num := 9, ty := .float, repeated := true },
      { name := "o", num := 10, ty := .uint32, optional := true } ], nGroups := 1 },
  { fields := [
      { name := "x", num := 1, ty := .sint64 },
      { name := "s", num := 2, ty := .string, repeated := true },
      { name := "self", num := 3, ty := .message, kind := .user 1, optional := true } ] } ]

example : WfSchemaT X := by decide

/-- i = 150; sub = {x = -2}; subs = [{}, {s = ["hi"]}]; m = {"k": {x = -1}}; b = {} (oneof);
    w = 7; t = 1 s past the epoch; fl = [1.0] (packed); o = 2^34 - 1 (a 34-bit varint on a
    `uint32` field: the decoder does not truncate, the Python type is still `int`) -/
def accepted : Bytes :=
  [0x08, 0x96, 0x01,  0x12, 0x02, 0x08, 0x03,  0x1a, 0x00,  0x1a, 0x04, 0x12, 0x02, 0x68, 0x69,
   0x22, 0x07, 0x0a, 0x01, 0x6b, 0x12, 0x02, 0x08, 0x01,  0x32, 0x00,  0x3a, 0x02, 0x08, 0x07,
   0x42, 0x02, 0x08, 0x01,  0x4a, 0x04, 0x00, 0x00, 0x80, 0x3f,  0x50, 0xff, 0xff, 0xff, 0xff, 0x3f]

example : WfBytes accepted := by decide
example : (parse X 0 accepted).isOk = true := by decide
example : ((parse X 0 accepted).bind fun m => .ok (msgTypedB false X m, msgTypedB true X m)) = .ok (true, true) := by
  decide
example : (parse X 0 accepted).bind (dumpVal X) = .ok accepted := by decide +kernel
/-- the `uint32` slot holds 34 bits -/
example : ((parse X 0 [0x50, 0xff, 0xff, 0xff, 0xff, 0x3f]).bind fun m =>
    match m with
    | .msg _ sl _ _ _ => (match sl.getD 9 .ph with | .int i => .ok i | _ => .error .type)
    | _ => .error .type) = .ok 17179869183 := by decide
/-- the typing is not trivial: a `str` in an `int32` slot, a bare element in a repeated
    slot, an instance of the wrong class are rejected -/
example : slotTypedB false X { num := 1, ty := .int32 } (.str []) = false := by decide
example : slotTypedB false X { num := 9, ty := .float, repeated := true } (.f32 0) = false := by decide
example : slotTypedB false X { num := 2, ty := .message, kind := .user 1 } (fresh X 0) = false := by decide
example : slotTypedB false X { num := 2, ty := .message, kind := .user 1 } (fresh X 1) = true := by decide

/-- why `ok_reencodes` asks for a *byte* string: a list with an element ≥ 256 is decoded
    to a float32 pattern of more than 32 bits, which `struct.pack` (the model's `packFixed`)
    rejects.  An artefact of modelling bytes as `List Nat`, not a behaviour of the code:
    no such input exists in Python.  The result is still `MsgTyped`. -/
theorem reencode_needs_bytes :
    (parse X 0 [0x4d, 4294967296, 0, 0, 0]).isOk = true
    ∧ (parse X 0 [0x4d, 4294967296, 0, 0, 0]).bind (dumpVal X) = .error .struct := by decide

end Bp.C17
