import BpModel.All
import BpProofs.Load
/-
  C17 — malformed or truncated input is rejected or isolated, never mis-decoded.
  (Model of the decoder after the D09/D11/D21 repairs.)
-/
namespace Bp.C17
open Bp Gen

/-- **decoding terminates** on every byte string: `parse` is a total function by
    construction (structural recursion on explicit fuel); the framing loop never runs
    out of the fuel it is given (`bs.length + 1`): any larger fuel gives the same result -/
theorem framing_fuel_adequate (f g : Nat) (bs : Bytes) (hf : bs.length < f) (hg : bs.length < g) :
    loadFieldsFuel f bs = loadFieldsFuel g bs := loadFieldsFuel_fuel f g bs hf hg

/-- whatever the framing accepts is a sequence of well-formed records that covers the
    input exactly: positive field numbers, wire types 0/1/2/5 only, fixed payloads of
    exactly 8 / 4 bytes, length-delimited payloads of exactly the announced length -/
theorem accepted_is_wellformed (bs : Bytes) (pfs : List PField) (h : loadFields bs = .ok pfs) :
    joinRaw pfs = bs ∧ AllFieldsOk pfs := loadFields_raw bs pfs h

/-- **a proper prefix that cuts a field in the middle is rejected** (and a prefix that
    ends at a field boundary is the message consisting of the fields before it): for
    every accepted input and every cut point -/
theorem prefix_classification (bs : Bytes) (pfs : List PField) (h : loadFields bs = .ok pfs) (n : Nat)
    (hn : n ≤ bs.length) :
    (∃ j, n = (joinRaw (pfs.take j)).length ∧ loadFields (bs.take n) = .ok (pfs.take j))
    ∨ loadFields (bs.take n) = .error .eof := loadFields_trunc bs pfs h n hn

theorem midfield_prefix_rejected (S : Schema) (m : Val) (bs : Bytes) (pfs : List PField)
    (h : loadFields bs = .ok pfs) (n : Nat) (hn : n ≤ bs.length)
    (hmid : ∀ j, n ≠ (joinRaw (pfs.take j)).length) :
    ∃ e, parseInto S m (bs.take n) = .error e := by
  rcases loadFields_trunc bs pfs h n hn with ⟨j, hj, _⟩ | herr
  · exact absurd hj (hmid j)
  · exact parseInto_fields_err S m _ _ herr

/-- **field number 0 and wire types 3, 4, 6, 7 are rejected** wherever the tag stands -/
theorem invalid_tag_rejected (bs : Bytes) (nw k : Nat) (h : loadVarint bs = .ok (nw, k))
    (hbad : nw / 8 = 0 ∨ nw % 8 = 3 ∨ nw % 8 = 4 ∨ nw % 8 = 6 ∨ nw % 8 = 7) :
    loadField bs = .error .value := by
  unfold loadField
  rw [h]
  dsimp only
  by_cases h0 : nw / 8 = 0
  · simp [h0]
  · have hw : nw % 8 = 3 ∨ nw % 8 = 4 ∨ nw % 8 = 6 ∨ nw % 8 = 7 := by
      rcases hbad with h | h
      · exact absurd h h0
      · exact h
    have e0 : (nw / 8 == 0) = false := by simpa using h0
    simp only [e0, Bool.false_eq_true, if_false]
    have : loadPayload (nw % 8) (bs.drop k) = .error .value := by
      unfold loadPayload
      rcases hw with h | h | h | h <;> rw [h] <;> rfl
    rw [this]

theorem invalid_tag_rejected_anywhere (S : Schema) (m : Val) (pfs : List PField) (hp : ∀ pf ∈ pfs, Parsed pf)
    (bs : Bytes) (nw k : Nat) (h : loadVarint bs = .ok (nw, k))
    (hbad : nw / 8 = 0 ∨ nw % 8 = 3 ∨ nw % 8 = 4 ∨ nw % 8 = 6 ∨ nw % 8 = 7) :
    ∃ e, parseInto S m (joinRaw pfs ++ bs) = .error e := by
  have hne : bs ≠ [] := by
    intro hc; subst hc; exact loadVarint_nil_ne_ok _ _ h
  have hb := invalid_tag_rejected bs nw k h hbad
  have : loadFields (joinRaw pfs ++ bs) = .error .value := by
    induction pfs with
    | nil => exact loadFields_cons_err bs _ hne hb
    | cons pf pfs ih =>
      obtain ⟨bs0, rest0, hlf⟩ := hp pf (by simp)
      have ok := loadField_ok _ _ _ hlf
      have hloc := loadField_prefix bs0 pf rest0 hlf (joinRaw pfs ++ bs)
      have hne' : pf.raw ++ (joinRaw pfs ++ bs) ≠ [] := by
        intro hc; have := congrArg List.length hc
        simp only [List.length_append, List.length_nil] at this
        have := ok.raw_pos; omega
      simp only [joinRaw, List.append_assoc]
      rw [loadFields_cons _ pf _ hne' hloc, ih (fun x hx => hp x (by simp [hx]))]
      rfl
  exact parseInto_fields_err S m _ _ this

/-- **a known field number with a wire type that does not fit the declared type is kept
    as an unknown field**: the only effect of such a record on the message is that its
    raw bytes are appended to the unknown fields — no field value, no oneof selection,
    no presence flag changes (proto2 groups never get this far: wire types 3/4 are
    rejected by `invalid_tag_rejected`) -/
theorem mismatch_is_unknown (S : Schema) (rec : Loader) (d : MsgD) (st : MState) (pf : PField)
    (idx : Nat) (f : FieldD) (hidx : findField d.fields pf.num = some idx) (hf : d.fields[idx]? = some f)
    (hmis : wireFits f pf.wt = false) :
    applyField S rec d st pf = .ok { st with unknown := st.unknown ++ pf.raw } := by
  apply applyField_unknown
  unfold isUnknownField
  simp [hidx, hf, hmis]

/-- what "fits" means, row by row of the regenerated `WIRE_TYPE_BY_PROTO_TYPE` table:
    a type's own wire type, plus LEN for repeated packable scalars -/
theorem wireFits_table :
    ∀ t ∈ PType.all, ∀ rep : Bool, ∀ wt ∈ [0, 1, 2, 5],
      wireFits { num := 1, ty := t, repeated := rep } wt
        = (wireOf t == some wt || (wt == 2 && isPacked t && rep)) := by decide

/-! non-vacuity / the repaired D09 witnesses, evaluated on the model -/
def T : Schema := [{ fields := [{ name := "i", num := 2, ty := .int32 }, { name := "b", num := 5, ty := .bytes }] }]
example : (parse T 0 [0x2a, 0x05, 0x68, 0x65]).isOk = false := by decide            -- b'hello' cut after 'he'
example : (parse T 0 [0x00, 0x01]).isOk = false := by decide                        -- field number 0
example : (parse T 0 [0x13, 0x10, 0x05, 0x14]).isOk = false := by decide            -- a proto2 group
example : (parse T 0 [0x10, 0x05, 0x80]).isOk = false := by decide                  -- tag cut inside its varint
example : (parse T 0 [0x12, 0x02, 0x01, 0x02]).bind (dumpVal T) = .ok [0x12, 0x02, 0x01, 0x02] := by decide  -- LEN on a singular int32: kept as unknown
example : (parse T 0 [0x28, 0x07]).bind (dumpVal T) = .ok [0x28, 0x07] := by decide   -- varint on a bytes field: kept as unknown

end Bp.C17
