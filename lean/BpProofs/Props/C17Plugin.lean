import BpProofs.Props.C03Plugin
import BpProofs.Props.C17
import BpProofs.Props.C01
/-
  C17 — the link `WfSchemaT` ↔ plugin output.

  `Props/C17.lean` proves "decoding … returns a message in which every field holds a value of its
  declared Python type and which can be encoded again" for every schema `S` with `WfSchemaT S`.
  Here: the runtime schema of the classes the plugin generates (`toSchema`, BpModel/PluginSchema.lean)
  from files all of whose messages are protoc-valid (outside the D30 / D31 regions) IS such a
  schema — so the C17 theorems, and the C01 round trip, apply to every class the plugin generates
  from a valid proto.  Lemmas: BpProofs/PluginSchemaWf.lean, PluginSchemaPkg.lean.
-/
namespace Bp.C17
open Bp Bp.Plugin

/-- **the generated schema is well formed**: no repeated field is `optional`, every message
    field and message-valued map names an existing class (or `datetime` / `timedelta`), every
    wrapper wraps a scalar type, every map has a scalar key and a non-map value -/
theorem plugin_schema_wellformed (nm : Naming) (pkg : Name) (files : List FileP) (cs : List Class) (S : Schema)
    (hv : validPackage files = true) (hc : compilePackage nm files = some cs)
    (hS : toSchema nm pkg cs = some S) : WfSchemaT S :=
  toSchema_wf nm pkg files cs S hv hc hS

/-- **`ok_welltyped` for generated classes**: for every class `c` the plugin generates from a
    valid proto and every input, whatever `parse` returns is a typed message -/
theorem plugin_ok_welltyped (nm : Naming) (pkg : Name) (files : List FileP) (cs : List Class) (S : Schema)
    (hv : validPackage files = true) (hc : compilePackage nm files = some cs)
    (hS : toSchema nm pkg cs = some S) (c : Nat) (bs : Bytes) (m : Val)
    (h : parse S c bs = .ok m) : MsgTyped S m :=
  ok_welltyped S (plugin_schema_wellformed nm pkg files cs S hv hc hS) c bs m h

/-- **`ok_reencodes` for generated classes**: … and it can be encoded again -/
theorem plugin_ok_reencodes (nm : Naming) (pkg : Name) (files : List FileP) (cs : List Class) (S : Schema)
    (hv : validPackage files = true) (hc : compilePackage nm files = some cs)
    (hS : toSchema nm pkg cs = some S) (c : Nat) (bs : Bytes) (hb : WfBytes bs) (m : Val)
    (h : parse S c bs = .ok m) : ∃ bs', dumpVal S m = .ok bs' :=
  ok_reencodes S (plugin_schema_wellformed nm pkg files cs S hv hc hS) c bs hb m h

/-- every typed message over a generated schema whose leaves are in the encoder's domain encodes -/
theorem plugin_encodable_dumps (nm : Naming) (pkg : Name) (files : List FileP) (cs : List Class) (S : Schema)
    (hv : validPackage files = true) (hc : compilePackage nm files = some cs)
    (hS : toSchema nm pkg cs = some S) (m : Val) (h : MsgEnc S m) : ∃ bs', dumpVal S m = .ok bs' :=
  encodable_dumps S (plugin_schema_wellformed nm pkg files cs S hv hc hS) m h

/-- **the C01 round trip over a generated schema** (C01's hypothesis `MsgOk S m` is on the value
    and carries its own per-field conditions; it is instantiated, not weakened): the encoding
    exists, and if shorter than 2^64 bytes it parses back to a message equal under `==` with the
    same encoding -/
theorem plugin_roundtrip (nm : Naming) (pkg : Name) (cs : List Class) (S : Schema)
    (_hS : toSchema nm pkg cs = some S)
    (c : Nat) (sl : List Val) (ow : Bool) (unk : Bytes) (cur : List (Option Nat))
    (hm : MsgOk S (.msg c sl ow unk cur)) :
    ∃ bs, dumpVal S (.msg c sl ow unk cur) = .ok bs ∧
      (bs.length < 2 ^ 64 → ∃ m', parse S c bs = .ok m' ∧ msgEq S (.msg c sl ow unk cur) m' = true
        ∧ msgEq S m' (.msg c sl ow unk cur) = true ∧ dumpVal S m' = .ok bs) :=
  Bp.C01.roundtrip_equal_total S c sl ow unk cur hm

/-! ### non-vacuity on the schema generated for `Props/C03Plugin.lean`'s `demoFile`
    (nested message, map, oneof, optional, wrapper, Timestamp, Duration, enum, self reference) -/

/-- `toSchema (compilePackage [demoFile])`, written out -/
def demoS : Schema := [
  { fields := [
      { name := "id", num := 1, ty := .int64 },
      { name := "tags", num := 2, ty := .string, repeated := true },
      { name := "opt", num := 3, ty := .uint32, optional := true },
      { name := "a", num := 4, ty := .bytes, group := some 0 },
      { name := "b", num := 5, ty := .message, kind := .timestamp, group := some 0 },
      { name := "w", num := 6, ty := .message, wraps := some .uint64 },
      { name := "d", num := 7, ty := .message, kind := .duration, repeated := true },
      { name := "e", num := 8, ty := .enum, enumRef := some 0 },
      { name := "m", num := 9, ty := .map, mapK := .sint32, mapV := .message, mapVKind := .user 0 },
      { name := "self", num := 10, ty := .message, kind := .user 0 },
      { name := "in", num := 11, ty := .message, kind := .user 1, repeated := true } ], nGroups := 1 },
  { fields := [
      { name := "up", num := 1, ty := .message, kind := .user 0 },
      { name := "k", num := 2, ty := .enum, enumRef := some 0 } ] } ]

example : ((compilePackage Bp.C03.idNaming [Bp.C03.demoFile]).bind (toSchema Bp.C03.idNaming (Bp.C03.ch "p"))).map
    (fun S => (Bp.C03.schemaKey S, S.map fun d => d.fields.map (·.name)))
    = some (Bp.C03.schemaKey demoS, demoS.map fun d => d.fields.map (·.name)) := by decide

example : WfSchemaT demoS := by decide

/-- id = 150; opt = 7 (proto3 optional); b = Timestamp 1 s (oneof `choice`); w = UInt64Value 7;
    m = {-1: Demo{}}; in = [Inner{}] -/
def demoBytes : Bytes :=
  [0x08, 0x96, 0x01,  0x18, 0x07,  0x2a, 0x02, 0x08, 0x01,  0x32, 0x02, 0x08, 0x07,
   0x4a, 0x02, 0x08, 0x01,  0x5a, 0x00]

example : WfBytes demoBytes := by decide
example : ((parse demoS 0 demoBytes).bind fun m => .ok (msgTypedB false demoS m, msgTypedB true demoS m))
    = .ok (true, true) := by decide
example : (parse demoS 0 demoBytes).bind (dumpVal demoS) = .ok demoBytes := by decide +kernel
/-- … and the parsed value meets C01's hypothesis, so `plugin_roundtrip` applies to it -/
example : ((parse demoS 0 demoBytes).bind fun m => .ok (msgOkB demoS m)) = .ok true := by decide +kernel

end Bp.C17
