import BpProofs.SrcTie
import BpProofs.SrcTieLoad
import BpProofs.Props.C17
/-
  C17, tied to the SOURCE: `load_fields` (the framing generator every decode path goes
  through) and `_read_exact` as regenerated from the Python AST of the working tree
  (harness/extract_src.py → BpProofs/Gen/SrcCodec.lean) are the model's `loadFields`.
  A generator is translated as the function that runs it to the end: it returns the list
  of values yielded and what is left of the stream, or raises.
  The per-record step of `Message.load` (harness/extract_srcload.py → BpProofs/Gen/SrcLoad.lean,
  `Src.load_record`, proved equal to the model's `applyField` in BpProofs/SrcTieLoad.lean; see
  Props/C02Src.lean for the reading) gives the source-level form of `mismatch_is_unknown`.
-/
namespace Bp.C17
open Bp Bp.Py Gen

/-- `_read_exact` as written: a short read raises EOFError, otherwise exactly `n` bytes -/
theorem src_read_exact (s : Bytes) (n fuel : Nat) :
    Src._read_exact fuel s (n : Int) = if s.length < n then .raise .eof else .ok (s.take n, s.drop n) :=
  SrcTie.read_exact_eq s n fuel

/-- **`load_fields` as written is the model's `loadFields`** on every byte string: with fuel for
    one loop round per byte (plus the varint loops) it terminates, yields exactly the model's
    records having consumed the whole input, or raises exactly the model's exception -/
theorem src_load_fields (bs : Bytes) (hw : WfBytes bs) (fuel : Nat) (hf : bs.length + 11 < fuel) :
    Src.load_fields fuel bs =
      match loadFields bs with
      | .ok pfs => .ok (pfs, [])
      | .error e => .raise e :=
  SrcTie.load_fields_eq bs hw fuel hf

/-- **the source as written terminates on every byte string** (never `.diverge`) -/
theorem src_framing_terminates (bs : Bytes) (hw : WfBytes bs) (fuel : Nat) (hf : bs.length + 11 < fuel) :
    Src.load_fields fuel bs ≠ .diverge := by
  rw [src_load_fields bs hw fuel hf]
  cases loadFields bs <;> simp

/-- **whatever the source as written accepts is a sequence of well-formed records covering the
    input exactly** (positive numbers, wire types 0/1/2/5, payloads of exactly the announced /
    fixed length) -/
theorem src_accepted_is_wellformed (bs : Bytes) (hw : WfBytes bs) (fuel : Nat) (hf : bs.length + 11 < fuel)
    (pfs : List PField) (rest : Bytes) (h : Src.load_fields fuel bs = .ok (pfs, rest)) :
    rest = [] ∧ joinRaw pfs = bs ∧ AllFieldsOk pfs := by
  rw [src_load_fields bs hw fuel hf] at h
  cases hl : loadFields bs with
  | error e => rw [hl] at h; cases h
  | ok pfs' =>
    rw [hl] at h
    simp only [Res.ok.injEq, Prod.mk.injEq] at h
    obtain ⟨h1, h2⟩ := h
    subst h1; subst h2
    exact ⟨rfl, accepted_is_wellformed bs pfs' hl⟩

/-- **a proper prefix that cuts a record in the middle is rejected by the source as written**:
    for every input it accepts and every cut point that is not a record boundary -/
theorem src_midfield_prefix_rejected (bs : Bytes) (hw : WfBytes bs) (fuel : Nat) (hf : bs.length + 11 < fuel)
    (pfs : List PField) (rest : Bytes) (h : Src.load_fields fuel bs = .ok (pfs, rest))
    (n : Nat) (hn : n ≤ bs.length) (hmid : ∀ j, n ≠ (joinRaw (pfs.take j)).length) :
    Src.load_fields fuel (bs.take n) = .raise .eof := by
  rw [src_load_fields bs hw fuel hf] at h
  cases hl : loadFields bs with
  | error e => rw [hl] at h; cases h
  | ok pfs' =>
    rw [hl] at h
    simp only [Res.ok.injEq, Prod.mk.injEq] at h
    obtain ⟨h1, _⟩ := h
    subst h1
    have hw' : WfBytes (bs.take n) := fun x hx => hw x (List.mem_of_mem_take hx)
    have hlen : (bs.take n).length ≤ bs.length := by rw [List.length_take]; omega
    rw [src_load_fields (bs.take n) hw' fuel (by omega)]
    rcases prefix_classification bs pfs' hl n hn with ⟨j, hj, _⟩ | herr
    · exact absurd hj (hmid j)
    · rw [herr]

/-- **field number 0 and wire types 3, 4, 6, 7 are rejected by the source as written** when they
    stand at the head of the input -/
theorem src_invalid_tag_rejected (bs : Bytes) (hw : WfBytes bs) (fuel : Nat) (hf : bs.length + 11 < fuel)
    (nw k : Nat) (h : loadVarint bs = .ok (nw, k))
    (hbad : nw / 8 = 0 ∨ nw % 8 = 3 ∨ nw % 8 = 4 ∨ nw % 8 = 6 ∨ nw % 8 = 7) :
    Src.load_fields fuel bs = .raise .value := by
  have hne : bs ≠ [] := by
    intro hc; subst hc; exact loadVarint_nil_ne_ok _ _ h
  rw [src_load_fields bs hw fuel hf, loadFields_cons_err bs .value hne (invalid_tag_rejected bs nw k h hbad)]

/-- **a known field number with a wire type that does not fit the declared type only appends its raw bytes
    to the unknown fields — in the source as written**: one iteration of the record loop of `Message.load`
    for such a record leaves every slot, the oneof selection and the presence flag as they were (no default
    is materialised, no member is selected, nothing is decoded) -/
theorem src_mismatch_is_unknown (S : Schema) (rec : Loader) (d : MsgD) (st : MState) (pf : PField)
    (idx : Nat) (f : FieldD) (hidx : findField d.fields pf.num = some idx) (hf : d.fields[idx]? = some f)
    (hmis : wireFits f pf.wt = false) (fuel : Nat) (hok : SrcTieLoad.RecOk fuel pf) :
    Src.load_record fuel S rec d st pf = .ok { st with unknown := st.unknown ++ pf.raw } := by
  rw [SrcTieLoad.load_record_eq S rec d st pf hok.1 fuel hok.2, mismatch_is_unknown S rec d st pf idx f hidx hf hmis]
  rfl

/-- … and a record whose wire type fits is never put there by the source as written: whenever the iteration
    succeeds, the unknown fields are what they were -/
theorem src_fitting_not_unknown (S : Schema) (rec : Loader) (d : MsgD) (st st' : MState) (pf : PField)
    (idx : Nat) (f : FieldD) (hidx : findField d.fields pf.num = some idx) (hf : d.fields[idx]? = some f)
    (hfit : wireFits f pf.wt = true) (fuel : Nat) (hok : SrcTieLoad.RecOk fuel pf)
    (h : Src.load_record fuel S rec d st pf = .ok st') : st'.unknown = st.unknown := by
  rw [SrcTieLoad.load_record_eq S rec d st pf hok.1 fuel hok.2] at h
  cases ha : applyField S rec d st pf with
  | error e => rw [ha] at h; cases h
  | ok s =>
    rw [ha] at h
    injection h with h
    subst h
    have hk : isUnknownField d pf = false := by simp [isUnknownField, hidx, hf, hfit]
    have := applyField_known S rec d st s pf hk ha st.unknown
    exact this.1

end Bp.C17
