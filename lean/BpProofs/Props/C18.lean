import BpModel.All
import BpModel.Typing
import BpModel.Gen.StubTable
import BpProofs.Typing
import BpProofs.TypingQuote
/-
  C18 — every supported plugin option (typing.direct / typing.root / typing.310 ×
  standard / pydantic dataclasses) yields importable, behaviourally identical code.

  What is proved here is the compile-time string algebra: what the three typing
  compilers write denotes the same types; every place where the templates put compiler
  output into source text is well quoted; the `betterproto.*_field(...)` call does not
  depend on the typing compiler; the pydantic variant only adds `optional=True` to oneof
  members and that flag does not change the bytes; the stub/base dispatch rendered
  through the real template is the same under all six option sets.
  "The package imports" and "bytes()/to_json() are equal" are runtime facts: observed by
  harness/props/c18.py on generated schemas, not proved (DESIGN.md §10).

  Only property statements live here; helper lemmas: BpProofs/Typing.lean, TypingQuote.lean.
-/
namespace Bp.C18
open Bp Bp.Typing

/-! ## 1. the compilers denote the same types -/

/-- **Every compiler renders every type expression to an annotation that denotes the
    type the expression stands for** — for all type expressions the plugin can build
    (arbitrary nesting of optional / list / dict / union / iterable / async_iterable /
    async_iterator over bare names and quoted forward references, arbitrary names). -/
theorem denote_render (c : Compiler) (e : Ty) (hv : e.valid = true) :
    denote (render c e) = some (shapeOf e) := by
  cases c with
  | direct => exact denote_direct e hv
  | root => exact denote_root e hv
  | c310 => exact denote_c310 e hv

/-- "defines the same … types as the default configuration": the annotation texts of
    any two compilers denote the same type. -/
theorem denote_agree (c₁ c₂ : Compiler) (e : Ty) (hv : e.valid = true) :
    denote (render c₁ e) = denote (render c₂ e) := by
  rw [denote_render c₁ e hv, denote_render c₂ e hv]

/-- the same, method by method: each of the seven methods, applied by two compilers to
    their own rendering of the same argument(s), denotes the same type -/
theorem method_agree (c₁ c₂ : Compiler) (e e' : Ty) (k n : Str) (hv : e.valid = true) (hv' : e'.valid = true)
    (hk : validName k = true) (hn : validName n = true) :
    denote (optional c₁ (render c₁ e)) = denote (optional c₂ (render c₂ e))
    ∧ denote (list c₁ (render c₁ e)) = denote (list c₂ (render c₂ e))
    ∧ denote (dict c₁ k (render c₁ e)) = denote (dict c₂ k (render c₂ e))
    ∧ denote (union c₁ [render c₁ e, render c₁ e']) = denote (union c₂ [render c₂ e, render c₂ e'])
    ∧ denote (iterable c₁ n) = denote (iterable c₂ n)
    ∧ denote (asyncIterable c₁ n) = denote (asyncIterable c₂ n)
    ∧ denote (asyncIterator c₁ n) = denote (asyncIterator c₂ n) := by
  refine ⟨denote_agree c₁ c₂ (.optional e) (by simpa [Ty.valid] using hv),
    denote_agree c₁ c₂ (.list e) (by simpa [Ty.valid] using hv),
    denote_agree c₁ c₂ (.dict k e) (by simp [Ty.valid, hk, hv]),
    denote_agree c₁ c₂ (.union e e') (by simp [Ty.valid, hv, hv']),
    denote_agree c₁ c₂ (.iterable n) (by simpa [Ty.valid] using hn),
    denote_agree c₁ c₂ (.asyncIterable n) (by simpa [Ty.valid] using hn),
    denote_agree c₁ c₂ (.asyncIterator n) (by simpa [Ty.valid] using hn)⟩

/-- typing.root writes exactly what typing.direct writes with `typing.` in front —
    for **all** argument strings, well formed or not -/
theorem root_is_prefixed_direct (t k : Str) (ts : List Str) :
    optional .root t = "typing.".toList ++ optional .direct t
    ∧ list .root t = "typing.".toList ++ list .direct t
    ∧ dict .root k t = "typing.".toList ++ dict .direct k t
    ∧ union .root ts = "typing.".toList ++ union .direct ts
    ∧ iterable .root t = "typing.".toList ++ iterable .direct t
    ∧ asyncIterable .root t = "typing.".toList ++ asyncIterable .direct t
    ∧ asyncIterator .root t = "typing.".toList ++ asyncIterator .direct t := by
  refine ⟨?_, ?_, ?_, ?_, ?_, ?_, ?_⟩
  · rw [optional_root, optional_direct]; simp
  · rw [list_root, list_direct]; simp
  · rw [dict_root, dict_direct]; simp
  · show "typing.".toList ++ "Union[".toList ++ joinSep ", ".toList ts ++ "]".toList
      = "typing.".toList ++ ([] ++ "Union[".toList ++ joinSep ", ".toList ts ++ "]".toList)
    simp
  · rw [iterable_root, iterable_direct]; simp
  · rw [asyncIterable_root, asyncIterable_direct]; simp
  · rw [asyncIterator_root, asyncIterator_direct]; simp

/-- non-vacuity: a repeated proto3-optional wrapper-like nesting over a cross-package
    reference — the three texts differ, the denoted type is one -/
example :
    render .direct (.dict "str".toList (.optional (.ref "a.Foo".toList))) = "Dict[str, Optional[\"a.Foo\"]]".toList
    ∧ render .c310 (.dict "str".toList (.optional (.ref "a.Foo".toList))) = "\"dict[str, a.Foo | None]\"".toList := by
  constructor <;> decide

/-! ## 2. every template site is well quoted -/

/-- **"the generated package imports without error" — the part that is string algebra:**
    at every annotation position of the service templates, under every typing compiler,
    for all message type names, the emitted text is a well-formed sequence of complete
    string literals and code (no `""X""`).  This is about the template *with* the D07
    repair (`.strip('"')` at the two streaming stub positions). -/
theorem annotation_wellquoted (c : Compiler) (s : Site) (tin tout : Str)
    (h1 : validName tin = true) (h2 : validName tout = true) :
    wellQuoted (siteText c tin tout s) = true :=
  wq_sites c s tin tout h1 h2

/-- the field positions (`name: <annotation> = betterproto.…`): whatever the field's
    type expression, every compiler's annotation is well quoted -/
theorem field_annotation_wellquoted (c : Compiler) (e : Ty) (hv : e.valid = true) :
    wellQuoted (render c e) = true :=
  wq_render c e hv

/-- D07 (the template before the repair): the full statement above was FALSE for
    typing.310 at the two streaming stub positions — `""AsyncIterator[Rep]""` and
    `""AsyncIterable[Req] | Iterable[Req]""`, a SyntaxError in the generated module. -/
theorem d07_prefix_not_wellquoted :
    wellQuoted (siteTextPre .c310 "Req".toList "Rep".toList .stubReturnStream) = false
    ∧ wellQuoted (siteTextPre .c310 "Req".toList "Rep".toList .stubIterParam) = false
    ∧ siteTextPre .c310 "Req".toList "Rep".toList .stubReturnStream = "\"\"AsyncIterator[Rep]\"\"".toList := by
  refine ⟨by decide, by decide, by decide⟩

/-- the repair changes nothing for typing.direct / typing.root (their output carries no
    quotes to strip), and nothing at the other eleven positions -/
theorem d07_fix_is_local (c : Compiler) (s : Site) (tin tout : Str)
    (h1 : validName tin = true) (h2 : validName tout = true)
    (h : c ≠ .c310 ∨ (s ≠ .stubIterParam ∧ s ≠ .stubReturnStream)) :
    siteTextPre c tin tout s = siteText c tin tout s := by
  have q1 := noQ_of_valid tin h1
  have q2 := noQ_of_valid tout h2
  cases s <;> try rfl
  · -- stubIterParam
    cases c with
    | c310 => rcases h with h | h <;> simp at h
    | direct =>
      show quoted _ = quoted (stripQ _)
      rw [asyncIterable_direct, iterable_direct, union2_direct, stripQ_noQ]
      simp only [noQ_append, q1, Bool.and_true, Bool.and_eq_true]; decide
    | root =>
      show quoted _ = quoted (stripQ _)
      rw [asyncIterable_root, iterable_root, union2_root, stripQ_noQ]
      simp only [noQ_append, q1, Bool.and_true, Bool.and_eq_true]; decide
  · -- stubReturnStream
    cases c with
    | c310 => rcases h with h | h <;> simp at h
    | direct =>
      show quoted _ = quoted (stripQ _)
      rw [asyncIterator_direct, stripQ_noQ]
      exact noQ_wrap _ _ _ (by decide) q2 (by decide)
    | root =>
      show quoted _ = quoted (stripQ _)
      rw [asyncIterator_root, stripQ_noQ]
      exact noQ_wrap _ _ _ (by decide) q2 (by decide)

/-! ## 3. field metadata does not depend on the configuration -/

/-- `get_field_string` = name, annotation, and a `betterproto.<type>_field(<number>, …)`
    call; the call (constructor, number, wraps, optional, group, map key/value types)
    is the same text under every typing compiler -/
theorem metadata_config_independent (c₁ c₂ : Compiler) (pydantic : Bool) (fd : FieldDesc) :
    ∃ call : Str,
      fieldString c₁ pydantic fd = fd.pyName ++ ": ".toList ++ annotation c₁ pydantic fd ++ " = ".toList ++ call
      ∧ fieldString c₂ pydantic fd = fd.pyName ++ ": ".toList ++ annotation c₂ pydantic fd ++ " = ".toList ++ call
      ∧ call = fieldCall pydantic fd :=
  ⟨fieldCall pydantic fd, rfl, rfl, rfl⟩

/-- … and the annotations of any two compilers denote the same type (so the resolved
    type hints agree) -/
theorem annotation_agree (c₁ c₂ : Compiler) (pydantic : Bool) (fd : FieldDesc)
    (hv : (annotationTy pydantic fd).valid = true) :
    denote (annotation c₁ pydantic fd) = denote (annotation c₂ pydantic fd) :=
  denote_agree c₁ c₂ _ hv


/-- the pydantic variant passes the same arguments as the standard one except for
    `optional=True`: same wraps, same group, same map key/value types, same order -/
theorem pydantic_only_adds_optional (fd : FieldDesc) :
    (fieldArgs true fd).filter (· != argOptional) = (fieldArgs false fd).filter (· != argOptional) := by
  unfold fieldArgs
  by_cases hm : fd.isMap = true
  · simp [hm]
  · simp only [hm, if_false, Bool.false_eq_true]
    simp only [List.filter_append]
    congr 1
    congr 1
    by_cases h1 : effOptional true fd = true <;> by_cases h2 : effOptional false fd = true <;>
      simp [h1, h2]

/-- … and it adds it only to members of a real oneof; every other field gets the same
    arguments and the same type expression -/
theorem pydantic_same_outside_oneof (fd : FieldDesc) (h : fd.group = none) :
    fieldArgs true fd = fieldArgs false fd ∧ annotationTy true fd = annotationTy false fd := by
  simp [fieldArgs, annotationTy, effOptional, h]

/-- the number and the field constructor never change -/
theorem pydantic_same_number_and_type (fd : FieldDesc) :
    ∃ args₁ args₂ : List Str,
      fieldCall true fd = "betterproto.".toList ++ (if fd.isMap then "map".toList else fd.fieldType) ++ "_field(".toList
          ++ joinSep ", ".toList (natStr fd.number :: args₁) ++ ")".toList
      ∧ fieldCall false fd = "betterproto.".toList ++ (if fd.isMap then "map".toList else fd.fieldType) ++ "_field(".toList
          ++ joinSep ", ".toList (natStr fd.number :: args₂) ++ ")".toList :=
  ⟨_, _, rfl, rfl⟩

/-! ## 4. `optional=True` on a oneof member does not change the bytes -/

/-- the field description the pydantic variant produces for a oneof member -/
def markOptional (f : FieldD) : FieldD := { f with optional := true }

/-- **"for identical field values the classes encode to identical bytes"** — the wire
    model's per-field encoder gives the same bytes for a oneof member whether or not it
    is additionally marked optional, for every value a member can hold (scalars, enums,
    strings, bytes, messages, Timestamp/Duration, wrappers, `None`) -/
theorem dump_invariant_under_optional_members (S : Schema) (f : FieldD) (hid sel : Bool) (v : Val)
    (hg : f.group.isSome = true) (hv : v ≠ .ph)
    (hl : ∀ xs, v ≠ .list xs) (hd : ∀ ks vs, v ≠ .dict ks vs) :
    dumpSlot S (markOptional f) hid sel v = dumpSlot S f hid sel v := by
  cases v with
  | ph => exact absurd rfl hv
  | list xs => exact absurd rfl (hl xs)
  | dict ks vs => exact absurd rfl (hd ks vs)
  | none => simp [dumpSlot]
  | msg c sl ow unk cur => simp [dumpSlot, markOptional, hg]
  | _ => simp [dumpSlot, markOptional, hg]

/-- an unselected member contributes no bytes in either variant (standard: PLACEHOLDER,
    attribute hidden; pydantic: `None`) -/
theorem unset_member_no_bytes (S : Schema) (f : FieldD) (hid sel : Bool) :
    dumpSlot S f true sel .ph = .ok [] ∧ dumpSlot S (markOptional f) hid sel .none = .ok [] := by
  constructor <;> simp [dumpSlot]

/-! ## 5. the dispatch rendered through the real template is option independent -/

def eraseOpt (r : Gen.StubRow) : Gen.StubRow := { r with opt := "" }

def rowsOf (o : String) : List Gen.StubRow := (Gen.stubTable.filter (·.opt == o)).map eraseOpt

/-- `Gen/StubTable.lean` (regenerated from the working tree on every run): under each of
    the six option sets the plugin output parses, and the stub / base / `__rpc_*` /
    `__mapping__` rows of the probe service are identical to those of the default
    configuration -/
theorem dispatch_independent_of_options :
    Gen.stubOptionSets.all (fun o => rowsOf o == rowsOf "direct" && (rowsOf o).length == 4) = true
    ∧ Gen.stubTable.all (·.ok) = true := by
  constructor <;> decide

end Bp.C18
