import BpProofs.PluginSchemaPyd
import BpProofs.Props.C18
import BpProofs.Props.C03Plugin
import BpModel.Json
/-
  C18 — "… defines the same classes with the same field numbers, types, groups … as the default
  configuration.  For identical field values the classes generated under any configuration encode
  to identical bytes and identical JSON" — at the level of the RUNTIME schema (`toSchema`,
  BpModel/PluginSchema.lean), the object `dumpVal` (bytes) and `toDict` (JSON) are functions of.

  * typing.direct / typing.root / typing.310: `toSchema` has no typing-compiler parameter at all — a
    `CField` carries the *denotation* of its annotation (`Ann`), and `Props/C18.lean`
    (`annotation_agree`, `metadata_config_independent`) proves that the texts all three compilers
    write denote that same type and that the `betterproto.<x>_field(…)` call is the same text.
    Hence the three typing variants have literally the same `Schema`, the same `dumpVal`, the same `toDict`.
  * pydantic: `PydanticOneOfFieldCompiler` gives oneof members `optional=True` and an `Optional[…]`
    annotation.  Proved below: this is the ONLY difference in the runtime schema
    (`pydantic_schema`: every `FieldD` equal, except `optional := true` on oneof members), and the
    per-field encoder `dumpSlot` / `toDictSlot` of a SET member does not look at that flag.
    Whole-value equality of `dumpVal` / `toDict` between the two schemas is NOT proved (it needs an
    induction through nested values whose fresh defaults differ: `None` vs PLACEHOLDER); concrete
    instances are decided below.
  * FINDING (replayed on the real code, docs/p29-notes.md): with `include_default_values=True` the
    JSON is NOT identical: an unselected oneof member is written as its type default (`"a": 0`) by
    the standard classes and as `null` by the pydantic classes (`pydantic_json_differs_with_defaults`).
-/
namespace Bp.C18
open Bp Bp.Plugin

/-- **one field**: the `FieldD` the runtime derives from the line the pydantic variant writes is
    the standard one with `optional` set iff the field is a oneof member -/
theorem pydantic_field_schema {nm : Naming} {m : MsgP} {f : FieldP} {c : CField} (env : Env) (gs : List Name)
    (h : compileField nm m f = some c) :
    cfieldD env gs (pydanticField c) = (cfieldD env gs c).map markOptionalMember :=
  cfieldD_pydantic env gs h

/-- **the package**: for EVERY descriptor set on which the plugin does not raise (no validity
    hypothesis), the runtime schema of the pydantic variant's classes is the standard schema with
    the oneof members marked optional: same classes, same field numbers, types, cardinalities,
    map types, groups, wrappers, class references -/
theorem pydantic_schema (nm : Naming) (pkg : Name) (files : List FileP) (cs : List Class)
    (hc : compilePackage nm files = some cs) :
    toSchema nm pkg (cs.map pydanticClass) = (toSchema nm pkg cs).map (List.map markMsg) :=
  toSchema_pydantic nm pkg cs (compilePackage_okOpt nm files cs hc)

/-- … in particular one is defined iff the other is, and they have the same number of classes -/
theorem pydantic_schema_defined (nm : Naming) (pkg : Name) (files : List FileP) (cs : List Class)
    (hc : compilePackage nm files = some cs) :
    (toSchema nm pkg (cs.map pydanticClass)).isSome = (toSchema nm pkg cs).isSome := by
  rw [pydantic_schema nm pkg files cs hc]; cases toSchema nm pkg cs <;> rfl

/-- what `markOptionalMember` preserves: everything but `optional` -/
theorem markOptionalMember_same (f : FieldD) :
    (markOptionalMember f).num = f.num ∧ (markOptionalMember f).ty = f.ty ∧ (markOptionalMember f).repeated = f.repeated
    ∧ (markOptionalMember f).group = f.group ∧ (markOptionalMember f).wraps = f.wraps ∧ (markOptionalMember f).kind = f.kind
    ∧ (markOptionalMember f).mapK = f.mapK ∧ (markOptionalMember f).mapV = f.mapV
    ∧ (markOptionalMember f).mapVKind = f.mapVKind ∧ (markOptionalMember f).enumRef = f.enumRef
    ∧ (markOptionalMember f).name = f.name ∧ (f.group = none → markOptionalMember f = f) := by
  unfold markOptionalMember
  cases hg : f.group <;> simp [hg]

/-- **bytes, one field**: for every field (oneof member or not) and every value a set field can
    hold, the per-field encoder gives the same bytes in both variants -/
theorem pydantic_slot_bytes (S : Schema) (f : FieldD) (hid sel : Bool) (v : Val)
    (hv : v ≠ .ph) (hl : ∀ xs, v ≠ .list xs) (hd : ∀ ks vs, v ≠ .dict ks vs) :
    dumpSlot S (markOptionalMember f) hid sel v = dumpSlot S f hid sel v := by
  cases hg : f.group with
  | none => rw [(markOptionalMember_same f).2.2.2.2.2.2.2.2.2.2.2 hg]
  | some g =>
    have : markOptionalMember f = markOptional f := by simp [markOptionalMember, markOptional, hg]
    rw [this]
    exact dump_invariant_under_optional_members S f hid sel v (by rw [hg]; rfl) hv hl hd

/-- **JSON, one field**: a SET oneof member (`hid = false`, `sel = true`) or any non-member:
    `to_dict`'s per-field step gives the same JSON in both variants, for every value but the
    PLACEHOLDER (which a pydantic-variant member never holds: its default is `None`) -/
theorem pydantic_slot_json (S : Schema) (E : Enums) (cs : KeyCase) (incl : Bool) (f : FieldD) (v : Val)
    (hv : v ≠ .ph) :
    toDictSlot S E cs incl (markOptionalMember f) false (f.group.isSome) v
      = toDictSlot S E cs incl f false (f.group.isSome) v := by
  cases hg : f.group with
  | none => rw [(markOptionalMember_same f).2.2.2.2.2.2.2.2.2.2.2 hg]
  | some g =>
    cases v with
    | ph => exact absurd rfl hv
    | _ => simp [toDictSlot, toDictPlain, markOptionalMember, hg, FieldD.defKind, enumOf, encScalar]

/-! ### decided instances and the finding -/

/-- `message A { oneof g { int32 a = 1; string b = 2; } }`: standard and pydantic schema -/
def S0 : Schema := [{ fields := [{ name := "a", num := 1, ty := .int32, group := some 0 },
                                 { name := "b", num := 2, ty := .string, group := some 0 }], nGroups := 1 }]
def S1 : Schema := S0.map markMsg

def isNullJ : JVal → Bool | .null => true | _ => false
def isZeroJ : JVal → Bool | .num 0 => true | _ => false
def valsJ : JVal → List JVal | .obj _ vs => vs | _ => []

/-- `A(b="x")`: the unselected member is PLACEHOLDER (standard) / `None` (pydantic) -/
def a0 : Val := .msg 0 [.ph, .str [120]] false [] [some 1]
def a1 : Val := .msg 0 [.none, .str [120]] false [] [some 1]

/-- identical bytes -/
theorem pydantic_bytes_instance : dumpVal S0 a0 = .ok [18, 1, 120] ∧ dumpVal S1 a1 = .ok [18, 1, 120] := by decide

/-- identical JSON without `include_default_values` -/
theorem pydantic_json_instance :
    ((valsJ (toDict S0 [] .camel false a0)).length, (valsJ (toDict S1 [] .camel false a1)).length) = (1, 1) := by decide

/-- **finding**: with `include_default_values=True` the unselected member `a` is `0` in the
    standard variant and `null` in the pydantic variant — replayed on the real code:
    `A(b="x").to_json(include_default_values=True)` = `{"a": 0, "b": "x"}` vs `{"a": null, "b": "x"}` -/
theorem pydantic_json_differs_with_defaults :
    (valsJ (toDict S0 [] .camel true a0)).map isZeroJ = [true, false]
    ∧ (valsJ (toDict S1 [] .camel true a1)).map isNullJ = [true, false] := by decide

/-- the one model state on which the per-field ENCODER looks at the flag: a selected member still
    holding the PLACEHOLDER.  Not reachable through the constructor / `__setattr__` of the real
    classes (a pydantic-variant member defaults to `None`, and selecting a member stores a value) -/
theorem ph_member_is_the_only_sensitivity :
    dumpSlot S0 { num := 1, ty := .int32, group := some 0 } false true .ph = .ok [8, 0]
    ∧ dumpSlot S0 (markOptionalMember { num := 1, ty := .int32, group := some 0 }) false true .ph = .ok [] := by decide

/-- non-vacuity of `pydantic_schema` on the nested demo schema of `Props/C03Plugin.lean` (map,
    oneof, optional, wrapper, Timestamp): the pydantic variant's schema is defined and differs from
    the standard one exactly in the `optional` flag of the two members of `choice` -/
example :
    ((compilePackage Bp.C03.idNaming [Bp.C03.demoFile]).bind fun cs =>
      toSchema Bp.C03.idNaming (Bp.C03.ch "p") (cs.map pydanticClass)).map
        (fun S => S.map fun d => d.fields.map (·.optional))
    = some [[false, false, true, true, true, false, false, false, false, false, false], [false, false]] := by decide

end Bp.C18
