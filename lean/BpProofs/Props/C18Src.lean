import BpProofs.SrcTieTyping
import BpProofs.Props.C18
/-
  C18, tied to the SOURCE: the methods of the three typing compilers of
  src/betterproto/plugin/typing_compiler.py (`DirectImportTypingCompiler` = typing.direct,
  `TypingImportTypingCompiler` = typing.root, `NoTyping310TypingCompiler` = typing.310), as regenerated
  from the Python AST of the working tree on every run (harness/extract_srctyping.py →
  BpProofs/Gen/SrcTyping.lean), ARE the functions of BpModel/Typing.lean the C18 theorems are about:
  same returned annotation text for ALL argument strings, never an exception, and the import each
  method requests (`self._imports[module].add(name)` / `self._imported = True`).

  A translated instance method takes the state of the object (`self._imports`: the list of the
  (module, name) pairs added so far; `self._imported`: a Bool) and returns `Py.Res (text × state afterwards)`.
  `requested c m` (BpProofs/SrcTieTyping.lean; the model has no such function) is the pair method `m` of
  compiler `c` adds.  `srcDirect / srcRoot / src310 fuel` are the three classes as written, seen as objects
  with seven methods; `Impl.render` builds an annotation by calling them as `FieldCompiler.annotation` does,
  `Impl.site` writes an annotation position of template.py.j2 by calling them as the template does.

  Not translated: `imports()` of the Direct / 310 compilers (a dict comprehension over the defaultdict) and
  `TypingCompiler.import_lines`; that FieldCompiler / the template call the methods in the way `Impl.render` /
  `Impl.site` say is validated by the correspondence run of harness/props/c18.py, not proved.
  Trusted: BpProofs/PyPrelude.lean, PyPreludeStr.lean, PyPreludeTyping.lean (meaning of the Python primitives).
-/
namespace Bp.C18
open Bp Bp.Py Bp.Typing Bp.SrcTieTyping

/-! ## the tie: each method as written is the model's -/

/-- **typing.direct.**  Every method of `DirectImportTypingCompiler` as written returns, for ALL argument
    strings and any prior `_imports`, the text of the model's `.direct` compiler and adds exactly the
    `typing` name it wrote (`requested .direct m = [("typing", m.typingName)]`) -/
theorem src_direct_is_model (fuel : Nat) (imports : List (Str × Str)) (t k : Str) (ts : List Str) :
    Src.DirectImportTypingCompiler.optional fuel imports t
        = .ok (optional .direct t, imports ++ [("typing".toList, "Optional".toList)])
    ∧ Src.DirectImportTypingCompiler.list fuel imports t
        = .ok (list .direct t, imports ++ [("typing".toList, "List".toList)])
    ∧ Src.DirectImportTypingCompiler.dict fuel imports k t
        = .ok (dict .direct k t, imports ++ [("typing".toList, "Dict".toList)])
    ∧ Src.DirectImportTypingCompiler.union fuel imports ts
        = .ok (union .direct ts, imports ++ [("typing".toList, "Union".toList)])
    ∧ Src.DirectImportTypingCompiler.iterable fuel imports t
        = .ok (iterable .direct t, imports ++ [("typing".toList, "Iterable".toList)])
    ∧ Src.DirectImportTypingCompiler.async_iterable fuel imports t
        = .ok (asyncIterable .direct t, imports ++ [("typing".toList, "AsyncIterable".toList)])
    ∧ Src.DirectImportTypingCompiler.async_iterator fuel imports t
        = .ok (asyncIterator .direct t, imports ++ [("typing".toList, "AsyncIterator".toList)]) :=
  ⟨direct_optional_eq fuel imports t, direct_list_eq fuel imports t, direct_dict_eq fuel imports k t,
   direct_union_eq fuel imports ts, direct_iterable_eq fuel imports t, direct_async_iterable_eq fuel imports t,
   direct_async_iterator_eq fuel imports t⟩

/-- **typing.root.**  Every method of `TypingImportTypingCompiler` as written returns the text of the model's
    `.root` compiler and leaves `_imported` True, whatever it was -/
theorem src_root_is_model (fuel : Nat) (imported : Bool) (t k : Str) (ts : List Str) :
    Src.TypingImportTypingCompiler.optional fuel imported t = .ok (optional .root t, true)
    ∧ Src.TypingImportTypingCompiler.list fuel imported t = .ok (list .root t, true)
    ∧ Src.TypingImportTypingCompiler.dict fuel imported k t = .ok (dict .root k t, true)
    ∧ Src.TypingImportTypingCompiler.union fuel imported ts = .ok (union .root ts, true)
    ∧ Src.TypingImportTypingCompiler.iterable fuel imported t = .ok (iterable .root t, true)
    ∧ Src.TypingImportTypingCompiler.async_iterable fuel imported t = .ok (asyncIterable .root t, true)
    ∧ Src.TypingImportTypingCompiler.async_iterator fuel imported t = .ok (asyncIterator .root t, true) :=
  ⟨root_optional_eq fuel imported t, root_list_eq fuel imported t, root_dict_eq fuel imported k t,
   root_union_eq fuel imported ts, root_iterable_eq fuel imported t, root_async_iterable_eq fuel imported t,
   root_async_iterator_eq fuel imported t⟩

/-- … and its `imports()` as written is `{"typing": None}` exactly when a method has run (`_imported`), else `{}`;
    it does not change the object -/
theorem src_root_imports (fuel : Nat) (imported : Bool) :
    Src.TypingImportTypingCompiler.imports fuel imported
      = .ok (if imported then [("typing".toList, none)] else [], imported) :=
  root_imports_eq fuel imported

/-- `NoTyping310TypingCompiler._fmt` as written is the model's `fmt`, for ALL strings (the empty string and the
    one-character string `"` included: Python's `type[1:-1]` is then empty) -/
theorem src_fmt_is_model (fuel : Nat) (t : Str) : Src.NoTyping310TypingCompiler._fmt fuel t = .ok (fmt t) :=
  fmt_eq fuel t

/-- **typing.310.**  Every method of `NoTyping310TypingCompiler` as written returns, for ALL argument strings,
    the (quoted) text of the model's `.c310` compiler; `optional / list / dict / union` leave `_imports`
    untouched, the three iterable methods add their ABC of `collections.abc` -/
theorem src_c310_is_model (fuel : Nat) (imports : List (Str × Str)) (t k : Str) (ts : List Str) :
    Src.NoTyping310TypingCompiler.optional fuel imports t = .ok (optional .c310 t, imports)
    ∧ Src.NoTyping310TypingCompiler.list fuel imports t = .ok (list .c310 t, imports)
    ∧ Src.NoTyping310TypingCompiler.dict fuel imports k t = .ok (dict .c310 k t, imports)
    ∧ Src.NoTyping310TypingCompiler.union fuel imports ts = .ok (union .c310 ts, imports)
    ∧ Src.NoTyping310TypingCompiler.iterable fuel imports t
        = .ok (iterable .c310 t, imports ++ [("collections.abc".toList, "Iterable".toList)])
    ∧ Src.NoTyping310TypingCompiler.async_iterable fuel imports t
        = .ok (asyncIterable .c310 t, imports ++ [("collections.abc".toList, "AsyncIterable".toList)])
    ∧ Src.NoTyping310TypingCompiler.async_iterator fuel imports t
        = .ok (asyncIterator .c310 t, imports ++ [("collections.abc".toList, "AsyncIterator".toList)]) := by
  refine ⟨?_, ?_, ?_, ?_, c310_iterable_eq fuel imports t, c310_async_iterable_eq fuel imports t,
    c310_async_iterator_eq fuel imports t⟩
  · rw [c310_optional_eq]; simp only [rq_c310_optional, List.append_nil]
  · rw [c310_list_eq]; simp only [rq_c310_list, List.append_nil]
  · rw [c310_dict_eq]; simp only [rq_c310_dict, List.append_nil]
  · rw [c310_union_eq]; simp only [rq_c310_union, List.append_nil]

/-- the three classes as written, as objects: each behaves as the model's compiler (text, no exception,
    requested import), uniformly in the method -/
theorem src_objects_are_model (fuel : Nat) :
    (srcDirect fuel).IsModel .direct (fun s m => s ++ requested .direct m)
    ∧ (srcRoot fuel).IsModel .root (fun _ _ => true)
    ∧ (src310 fuel).IsModel .c310 (fun s m => s ++ requested .c310 m) :=
  ⟨srcDirect_isModel fuel, srcRoot_isModel fuel, src310_isModel fuel⟩

/-! ## C18 of the source as written -/

/-- **An annotation built by calling the compilers as written is the model's rendering**, for every type
    expression the plugin can build (arbitrary nesting): the text is `render c e`, no call raises, and
    `_imports` grows by what the called methods request, in call order (`_imported`: True as soon as any
    method ran) -/
theorem src_render_is_model (fuel : Nat) (e : Ty) (s₁ s₃ : List (Str × Str)) (b : Bool) :
    (srcDirect fuel).render e s₁ = .ok (render .direct e, s₁ ++ (methodsOf e).flatMap (requested .direct))
    ∧ (srcRoot fuel).render e b = .ok (render .root e, b || !(methodsOf e).isEmpty)
    ∧ (src310 fuel).render e s₃ = .ok (render .c310 e, s₃ ++ (methodsOf e).flatMap (requested .c310)) := by
  refine ⟨?_, ?_, ?_⟩
  · rw [Impl.render_eq (srcDirect_isModel fuel), foldl_addRequested]
  · rw [Impl.render_eq (srcRoot_isModel fuel), foldl_true]
  · rw [Impl.render_eq (src310_isModel fuel), foldl_addRequested]

/-- **"defines the same … types as the default configuration", of the source as written** (`denote_render`
    through the tie): for every valid type expression, the three compilers as written — each called on its own
    rendering of the arguments — succeed, and the three annotation texts denote one and the same type,
    `shapeOf e` -/
theorem src_same_denotation (fuel : Nat) (e : Ty) (hv : e.valid = true) (s₁ s₃ : List (Str × Str)) (b : Bool) :
    ∃ (a₁ a₂ a₃ : Str) (s₁' s₃' : List (Str × Str)) (b' : Bool),
      (srcDirect fuel).render e s₁ = .ok (a₁, s₁') ∧ (srcRoot fuel).render e b = .ok (a₂, b')
      ∧ (src310 fuel).render e s₃ = .ok (a₃, s₃')
      ∧ denote a₁ = some (shapeOf e) ∧ denote a₂ = some (shapeOf e) ∧ denote a₃ = some (shapeOf e) := by
  obtain ⟨h1, h2, h3⟩ := src_render_is_model fuel e s₁ s₃ b
  exact ⟨_, _, _, _, _, _, h1, h2, h3, denote_render .direct e hv, denote_render .root e hv, denote_render .c310 e hv⟩

/-- the same method by method (`method_agree` through the tie): each of the seven methods AS WRITTEN, applied by
    the three classes to their own rendering of the same argument(s), returns texts with one denotation -/
theorem src_methods_same_denotation (fuel : Nat) (e e' : Ty) (k n : Str) (hv : e.valid = true) (hv' : e'.valid = true)
    (hk : validName k = true) (hn : validName n = true) (s₁ s₃ : List (Str × Str)) (b : Bool) :
    let D (r : Py.Res (Str × List (Str × Str))) : Option Shape :=
      match r with | .ok (a, _) => denote a | _ => none
    let B (r : Py.Res (Str × Bool)) : Option Shape := match r with | .ok (a, _) => denote a | _ => none
    (D (Src.DirectImportTypingCompiler.optional fuel s₁ (render .direct e)) = some (shapeOf (.optional e))
      ∧ B (Src.TypingImportTypingCompiler.optional fuel b (render .root e)) = some (shapeOf (.optional e))
      ∧ D (Src.NoTyping310TypingCompiler.optional fuel s₃ (render .c310 e)) = some (shapeOf (.optional e)))
    ∧ (D (Src.DirectImportTypingCompiler.list fuel s₁ (render .direct e)) = some (shapeOf (.list e))
      ∧ B (Src.TypingImportTypingCompiler.list fuel b (render .root e)) = some (shapeOf (.list e))
      ∧ D (Src.NoTyping310TypingCompiler.list fuel s₃ (render .c310 e)) = some (shapeOf (.list e)))
    ∧ (D (Src.DirectImportTypingCompiler.dict fuel s₁ k (render .direct e)) = some (shapeOf (.dict k e))
      ∧ B (Src.TypingImportTypingCompiler.dict fuel b k (render .root e)) = some (shapeOf (.dict k e))
      ∧ D (Src.NoTyping310TypingCompiler.dict fuel s₃ k (render .c310 e)) = some (shapeOf (.dict k e)))
    ∧ (D (Src.DirectImportTypingCompiler.union fuel s₁ [render .direct e, render .direct e']) = some (shapeOf (.union e e'))
      ∧ B (Src.TypingImportTypingCompiler.union fuel b [render .root e, render .root e']) = some (shapeOf (.union e e'))
      ∧ D (Src.NoTyping310TypingCompiler.union fuel s₃ [render .c310 e, render .c310 e']) = some (shapeOf (.union e e')))
    ∧ (D (Src.DirectImportTypingCompiler.iterable fuel s₁ n) = some (shapeOf (.iterable n))
      ∧ B (Src.TypingImportTypingCompiler.iterable fuel b n) = some (shapeOf (.iterable n))
      ∧ D (Src.NoTyping310TypingCompiler.iterable fuel s₃ n) = some (shapeOf (.iterable n)))
    ∧ (D (Src.DirectImportTypingCompiler.async_iterable fuel s₁ n) = some (shapeOf (.asyncIterable n))
      ∧ B (Src.TypingImportTypingCompiler.async_iterable fuel b n) = some (shapeOf (.asyncIterable n))
      ∧ D (Src.NoTyping310TypingCompiler.async_iterable fuel s₃ n) = some (shapeOf (.asyncIterable n)))
    ∧ (D (Src.DirectImportTypingCompiler.async_iterator fuel s₁ n) = some (shapeOf (.asyncIterator n))
      ∧ B (Src.TypingImportTypingCompiler.async_iterator fuel b n) = some (shapeOf (.asyncIterator n))
      ∧ D (Src.NoTyping310TypingCompiler.async_iterator fuel s₃ n) = some (shapeOf (.asyncIterator n))) := by
  intro D B
  have ho : (Ty.optional e).valid = true := by simpa [Ty.valid] using hv
  have hl : (Ty.list e).valid = true := by simpa [Ty.valid] using hv
  have hd : (Ty.dict k e).valid = true := by simp [Ty.valid, hk, hv]
  have hu : (Ty.union e e').valid = true := by simp [Ty.valid, hv, hv']
  have hi : (Ty.iterable n).valid = true := by simpa [Ty.valid] using hn
  have hai : (Ty.asyncIterable n).valid = true := by simpa [Ty.valid] using hn
  have hat : (Ty.asyncIterator n).valid = true := by simpa [Ty.valid] using hn
  refine ⟨⟨?_, ?_, ?_⟩, ⟨?_, ?_, ?_⟩, ⟨?_, ?_, ?_⟩, ⟨?_, ?_, ?_⟩, ⟨?_, ?_, ?_⟩, ⟨?_, ?_, ?_⟩, ⟨?_, ?_, ?_⟩⟩
  · rw [direct_optional_eq]; exact denote_render .direct (.optional e) ho
  · rw [root_optional_eq]; exact denote_render .root (.optional e) ho
  · rw [c310_optional_eq]; exact denote_render .c310 (.optional e) ho
  · rw [direct_list_eq]; exact denote_render .direct (.list e) hl
  · rw [root_list_eq]; exact denote_render .root (.list e) hl
  · rw [c310_list_eq]; exact denote_render .c310 (.list e) hl
  · rw [direct_dict_eq]; exact denote_render .direct (.dict k e) hd
  · rw [root_dict_eq]; exact denote_render .root (.dict k e) hd
  · rw [c310_dict_eq]; exact denote_render .c310 (.dict k e) hd
  · rw [direct_union_eq]; exact denote_render .direct (.union e e') hu
  · rw [root_union_eq]; exact denote_render .root (.union e e') hu
  · rw [c310_union_eq]; exact denote_render .c310 (.union e e') hu
  · rw [direct_iterable_eq]; exact denote_render .direct (.iterable n) hi
  · rw [root_iterable_eq]; exact denote_render .root (.iterable n) hi
  · rw [c310_iterable_eq]; exact denote_render .c310 (.iterable n) hi
  · rw [direct_async_iterable_eq]; exact denote_render .direct (.asyncIterable n) hai
  · rw [root_async_iterable_eq]; exact denote_render .root (.asyncIterable n) hai
  · rw [c310_async_iterable_eq]; exact denote_render .c310 (.asyncIterable n) hai
  · rw [direct_async_iterator_eq]; exact denote_render .direct (.asyncIterator n) hat
  · rw [root_async_iterator_eq]; exact denote_render .root (.asyncIterator n) hat
  · rw [c310_async_iterator_eq]; exact denote_render .c310 (.asyncIterator n) hat

/-- **what the compilers as written return is well quoted** (`field_annotation_wellquoted` through the tie): the
    annotation each class builds for a valid type expression — in particular the text the typing.310 compiler
    as written returns, with its own quotes and `_fmt` stripping those of its arguments — is a sequence of
    complete, non-adjacent string literals and quote-free code -/
theorem src_render_wellquoted (fuel : Nat) (e : Ty) (hv : e.valid = true) (s : List (Str × Str)) (b : Bool) :
    (∃ a s', (srcDirect fuel).render e s = .ok (a, s') ∧ wellQuoted a = true)
    ∧ (∃ a b', (srcRoot fuel).render e b = .ok (a, b') ∧ wellQuoted a = true)
    ∧ (∃ a s', (src310 fuel).render e s = .ok (a, s') ∧ wellQuoted a = true) := by
  obtain ⟨h1, h2, h3⟩ := src_render_is_model fuel e s s b
  exact ⟨⟨_, _, h1, field_annotation_wellquoted .direct e hv⟩, ⟨_, _, h2, field_annotation_wellquoted .root e hv⟩,
    ⟨_, _, h3, field_annotation_wellquoted .c310 e hv⟩⟩

/-- **every template site, written with the compilers as written, is well quoted** (`annotation_wellquoted`
    through the tie): at each of the thirteen annotation positions of the (repaired) service template, calling
    the methods of any of the three classes as written the way the template does succeeds and gives exactly the
    model's `siteText`, which is well quoted — for all message type names -/
theorem src_sites_wellquoted (fuel : Nat) (st : Site) (tin tout : Str) (h1 : validName tin = true)
    (h2 : validName tout = true) (s : List (Str × Str)) (b : Bool) :
    (∃ s', (srcDirect fuel).site tin tout st s = .ok (siteText .direct tin tout st, s'))
    ∧ (∃ b', (srcRoot fuel).site tin tout st b = .ok (siteText .root tin tout st, b'))
    ∧ (∃ s', (src310 fuel).site tin tout st s = .ok (siteText .c310 tin tout st, s'))
    ∧ ∀ c, wellQuoted (siteText c tin tout st) = true :=
  ⟨Impl.site_eq (srcDirect_isModel fuel) tin tout st s, Impl.site_eq (srcRoot_isModel fuel) tin tout st b,
   Impl.site_eq (src310_isModel fuel) tin tout st s, fun c => annotation_wellquoted c st tin tout h1 h2⟩

/-- `root_is_prefixed_direct`, of the source as written: what `TypingImportTypingCompiler` returns is what
    `DirectImportTypingCompiler` returns with `typing.` in front — for ALL argument strings -/
theorem src_root_is_prefixed_direct (fuel : Nat) (t : Str) (ts : List Str) (s : List (Str × Str)) (b : Bool) :
    ∃ a u : Str, ∃ s' s'' : List (Str × Str),
      Src.DirectImportTypingCompiler.optional fuel s t = .ok (a, s')
      ∧ Src.TypingImportTypingCompiler.optional fuel b t = .ok ("typing.".toList ++ a, true)
      ∧ Src.DirectImportTypingCompiler.union fuel s ts = .ok (u, s'')
      ∧ Src.TypingImportTypingCompiler.union fuel b ts = .ok ("typing.".toList ++ u, true) := by
  obtain ⟨h1, _, _, h4, _⟩ := root_is_prefixed_direct t t ts
  exact ⟨_, _, _, _, direct_optional_eq fuel s t, by rw [root_optional_eq, h1], direct_union_eq fuel s ts,
    by rw [root_union_eq, h4]⟩

/-! non-vacuity: the translated source run on concrete arguments (the verbatim strings) -/
example : Src.DirectImportTypingCompiler.optional 0 [] "int".toList
    = .ok ("Optional[int]".toList, [("typing".toList, "Optional".toList)]) := by decide
example : Src.TypingImportTypingCompiler.dict 0 false "str".toList "\"Foo\"".toList
    = .ok ("typing.Dict[str, \"Foo\"]".toList, true) := by decide
example : Src.NoTyping310TypingCompiler.optional 0 [] "\"a.Foo\"".toList = .ok ("\"a.Foo | None\"".toList, []) := by decide
example : Src.NoTyping310TypingCompiler.union 0 [] ["\"AsyncIterable[Req]\"".toList, "\"Iterable[Req]\"".toList]
    = .ok ("\"AsyncIterable[Req] | Iterable[Req]\"".toList, []) := by decide
example : Src.NoTyping310TypingCompiler.async_iterator 0 [("collections.abc".toList, "Iterable".toList)] "Rep".toList
    = .ok ("\"AsyncIterator[Rep]\"".toList,
           [("collections.abc".toList, "Iterable".toList), ("collections.abc".toList, "AsyncIterator".toList)]) := by decide
example : Src.NoTyping310TypingCompiler._fmt 0 "\"".toList = .ok [] := by decide
example : (src310 0).render (.dict "str".toList (.optional (.ref "a.Foo".toList))) []
    = .ok ("\"dict[str, a.Foo | None]\"".toList, []) := by decide
example : (srcDirect 0).render (.dict "str".toList (.optional (.ref "a.Foo".toList))) []
    = .ok ("Dict[str, Optional[\"a.Foo\"]]".toList,
           [("typing".toList, "Optional".toList), ("typing".toList, "Dict".toList)]) := by decide

#print axioms src_direct_is_model
#print axioms src_root_is_model
#print axioms src_root_imports
#print axioms src_fmt_is_model
#print axioms src_c310_is_model
#print axioms src_objects_are_model
#print axioms src_render_is_model
#print axioms src_same_denotation
#print axioms src_methods_same_denotation
#print axioms src_render_wellquoted
#print axioms src_sites_wellquoted
#print axioms src_root_is_prefixed_direct

end Bp.C18
