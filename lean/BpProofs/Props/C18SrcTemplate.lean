import BpProofs.SrcTieTemplate
import BpModel.Typing
/-
  C18 ("for every supported combination of plugin options (typing.direct, typing.root, typing.310; standard or pydantic
  dataclasses) the generated package … defines the same classes …"), the part the TEMPLATES decide, tied to the source
  of src/betterproto/templates/template.py.j2 / header.py.j2 as regenerated on every run (harness/extract_srctemplate.py
  → BpProofs/Gen/SrcTemplate.lean; `Tpl.template_eq` / `Tpl.header_eq`: the templates as written ARE the named parts
  of BpProofs/TemplateModel.lean, by `rfl`).

  The option flags reach the templates through two attributes of the context only: `output_file.pydantic_dataclasses`
  and `output_file.typing_compiler`.  For ALL contexts:
    * the typing compiler is used by the Stub and Base classes only, at the annotation sites listed by
      `Bp.Typing.Site` (BpModel/Typing.lean) and NOWHERE else: every method / class text is assembled from the site
      parts and parts that do not take the compiler (`src_stub_method_sites`, `src_base_method_sites`,
      `src_base_class_sites`, `src_typing_compiler_only_in_services`);
    * at each site the text the template writes is `Typing.siteText` — the function `Props/C18.lean`'s
      `annotation_wellquoted` is about — when the context's compiler is one of the three real ones (`ofCompiler`):
      `src_site_*`.  This replaces "the list of sites was read off a rendered probe" by "the list of sites IS the
      template";
    * `pydantic_dataclasses` changes exactly: the `dataclass` import of the header, the decorator line of every
      message class, the `check_oneof` validator of messages with oneof fields, the `__get_pydantic_core_schema__`
      method of enums — and nothing else (`src_message_class_options`, `src_enum_class_options`,
      `src_dataclass_decorator`, `src_dataclass_import`).
  Trusted: BpProofs/PyPreludeTemplate.lean, Jinja's lexer / parser, the translator.
-/
namespace Bp.C18
open Bp Bp.Tpl

/-- the context's typing compiler when the plugin option selects compiler `k` (its methods: BpModel/Typing.lean, tied to
    typing_compiler.py by SrcTieTyping.lean; `union(a, b)` is the call with two types); `imports()` / `import_lines()`
    are whatever the calls made so far have accumulated -/
def ofCompiler (k : Typing.Compiler) (imports : PyDict) (lines : List Str) : TypingCompiler :=
  { optional := Typing.optional k, dict := Typing.dict k, union := fun a b => Typing.union k [a, b],
    iterable := Typing.iterable k, async_iterable := Typing.asyncIterable k,
    async_iterator := Typing.asyncIterator k, imports := imports, import_lines := lines }

/-! ## the typing compiler: used at the sites, and only there -/

/-- only the services' classes take the typing compiler: enums and messages are rendered without it … -/
theorem src_typing_compiler_only_in_services (c : OutputFile) (tc : TypingCompiler) :
    Src.render_template { c with typing_compiler := tc }
      = enumsBlock c ++ messagesBlock c ++ c.services.flatMap (stubClass tc) ++ [Piece.lit "\n"]
        ++ importsEndLines c.imports_end ++ [Piece.lit "\n"] ++ c.services.flatMap (baseClass tc) := by
  rw [template_eq]
  simp only [template, nl, List.append_eq, List.append_assoc]
  rfl

/-- … a stub method is: its name, the request parameter site, the keyword-only parameter sites, the return site
    (the template writes the quotes around it), and a remainder that does not take the compiler -/
theorem src_stub_method_sites (tc : TypingCompiler) (svc : Str) (m : Method) :
    stubMethod tc svc m
      = [Piece.lit "    async def ", Piece.expr "output_file.services[].methods[].py_name" m.py_name, Piece.lit "(self"]
        ++ stubParam tc m ++ stubKwargs tc ++ stubReturn tc m
        ++ ([Piece.lit "\":\n"] ++ optComment "output_file.services[].methods[].comment" m.comment ++ stubDeprecation svc m ++ stubBody m
            ++ [Piece.lit "\n"]) := by
  simp only [stubMethod, nl, List.append_eq, List.append_assoc]

/-- a default server method likewise: parameter site, return site, compiler-free rest -/
theorem src_base_method_sites (tc : TypingCompiler) (m : Method) :
    baseMethod tc m
      = [Piece.lit "    async def ", Piece.expr "output_file.services[].methods[].py_name" m.py_name, Piece.lit "(self"]
        ++ baseParam tc m ++ [Piece.lit ") -> "] ++ baseReturn tc m
        ++ ([Piece.lit ":\n"] ++ optComment "output_file.services[].methods[].comment" m.comment ++ raiseUnimplemented ++ unreachableYield m
            ++ [Piece.lit "\n"]) := by
  simp only [baseMethod, nl, List.append_eq, List.append_assoc]

/-- a Base class: the default methods, the `__rpc_*` adapters (no compiler), the `__mapping__` head (one site), the
    rows (no compiler) -/
theorem src_base_class_sites (tc : TypingCompiler) (s : Service) :
    baseClass tc s
      = [Piece.lit "class ", Piece.expr "output_file.services[].py_name" s.py_name, Piece.lit "Base(ServiceBase):\n"]
        ++ optComment "output_file.services[].comment" s.comment ++ [Piece.lit "\n"]
        ++ s.methods.flatMap (baseMethod tc) ++ [Piece.lit "\n"]
        ++ s.methods.flatMap rpcMethod ++ mappingHead tc ++ s.methods.flatMap mappingRow
        ++ [Piece.lit "        }\n\n"] := by
  simp only [baseClass, nl, List.append_eq, List.append_assoc]

/-! ## each site writes `Typing.siteText` -/

section sites
variable (k : Typing.Compiler) (imports : PyDict) (lines : List Str) (m : Method)
local notation "tcK" => ofCompiler k imports lines

/-- `stubUnaryParam` / `stubIterParam` -/
theorem src_site_stub_param :
    text (stubParam tcK m) =
      if m.client_streaming then
        "            , ".toList ++ m.py_input_message_param ++ "_iterator: ".toList
          ++ Typing.siteText k m.py_input_message_type m.py_output_message_type .stubIterParam
      else ", ".toList ++ m.py_input_message_param ++ ": ".toList ++ Typing.siteText k m.py_input_message_type m.py_output_message_type .stubUnaryParam := by
  unfold stubParam
  cases m.client_streaming <;>
    simp [text, Piece.text, ofCompiler, Typing.siteText, Typing.quoted, Typing.dq, strip_eq]

/-- `stubTimeout`, `stubDeadline`, `stubMetadata` (and the opening quote of the return annotation) -/
theorem src_site_stub_kwargs :
    text (stubKwargs tcK) =
      ",\n            *\n            , timeout: ".toList ++ Typing.siteText k m.py_input_message_type m.py_output_message_type .stubTimeout
      ++ " = None\n            , deadline: ".toList ++ Typing.siteText k m.py_input_message_type m.py_output_message_type .stubDeadline
      ++ " = None\n            , metadata: ".toList ++ Typing.siteText k m.py_input_message_type m.py_output_message_type .stubMetadata
      ++ " = None\n            ) -> \"".toList := by
  simp [stubKwargs, text, Piece.text, ofCompiler, Typing.siteText]

/-- `stubReturnUnary` / `stubReturnStream`: the quotes are the template's -/
theorem src_site_stub_return :
    '"' :: (text (stubReturn tcK m) ++ ['"']) =
      Typing.siteText k m.py_input_message_type m.py_output_message_type (if m.server_streaming then .stubReturnStream else .stubReturnUnary) := by
  unfold stubReturn
  cases m.server_streaming <;>
    simp [text, Piece.text, ofCompiler, Typing.siteText, Typing.quoted, Typing.dq, strip_eq]

/-- `baseUnaryParam` / `baseIterParam` -/
theorem src_site_base_param :
    text (baseParam tcK m) =
      if m.client_streaming then
        "            , ".toList ++ m.py_input_message_param ++ "_iterator: ".toList
          ++ Typing.siteText k m.py_input_message_type m.py_output_message_type .baseIterParam
      else ", ".toList ++ m.py_input_message_param ++ ": ".toList ++ Typing.siteText k m.py_input_message_type m.py_output_message_type .baseUnaryParam := by
  unfold baseParam
  cases m.client_streaming <;>
    simp [text, Piece.text, ofCompiler, Typing.siteText, Typing.quoted, Typing.dq]

/-- `baseReturnUnary` / `baseReturnStream` -/
theorem src_site_base_return :
    text (baseReturn tcK m) =
      Typing.siteText k m.py_input_message_type m.py_output_message_type (if m.server_streaming then .baseReturnStream else .baseReturnUnary) := by
  unfold baseReturn
  cases m.server_streaming <;>
    simp [text, Piece.text, ofCompiler, Typing.siteText, Typing.quoted, Typing.dq]

/-- `rpcStream`: the head line of an `__rpc_*` adapter (no compiler call) -/
theorem src_site_rpc_stream :
    text ((rpcMethod m).take 7) =
      "    async def __rpc_".toList ++ m.py_name ++ "(self, stream: ".toList
        ++ Typing.siteText k m.py_input_message_type m.py_output_message_type .rpcStream ++ ") -> None:\n".toList := by
  simp [rpcMethod, text, Piece.text, Typing.siteText, Typing.quoted, Typing.dq]

/-- `mappingReturn` -/
theorem src_site_mapping_return :
    text (mappingHead tcK) =
      "\n    def __mapping__(self) -> ".toList ++ Typing.siteText k m.py_input_message_type m.py_output_message_type .mappingReturn
        ++ ":\n        return {\n".toList := by
  simp [mappingHead, text, Piece.text, ofCompiler, Typing.siteText]

end sites

/-- the sites tied above are all of `Typing.Site` -/
theorem src_sites_complete : Typing.Site.all =
    [.stubUnaryParam, .stubIterParam, .stubTimeout, .stubDeadline, .stubMetadata, .stubReturnUnary,
     .stubReturnStream, .baseUnaryParam, .baseIterParam, .baseReturnUnary, .baseReturnStream, .rpcStream,
     .mappingReturn] ∧ ∀ s : Typing.Site, s ∈ Typing.Site.all := by
  refine ⟨rfl, ?_⟩
  intro s
  cases s <;> decide

/-! ## `pydantic_dataclasses` -/

/-- **the decorator line of a message class, per option** -/
theorem src_dataclass_decorator :
    dataclassDecorator false = [Piece.lit "@dataclass(eq=False, repr=False)\n"] ∧
    dataclassDecorator true = [Piece.lit "@dataclass(eq=False, repr=False, config={\"extra\": \"forbid\"})\n"] :=
  ⟨rfl, rfl⟩

/-- the `dataclass` the decorator names is imported by the header, per option -/
theorem src_dataclass_import (c : OutputFile) :
    dataclassImport c.pydantic_dataclasses ∈ [[Piece.lit "from dataclasses import dataclass\n"],
      [Piece.lit "from pydantic.dataclasses import dataclass"]] ∧
    dataclassImport false = [Piece.lit "from dataclasses import dataclass\n"] ∧
    dataclassImport true = [Piece.lit "from pydantic.dataclasses import dataclass"] := by
  refine ⟨?_, rfl, rfl⟩
  cases c.pydantic_dataclasses <;> simp [dataclassImport]

/-- **a message class under the two dataclass options**: the same class statement, comment, field lines (each
    `field.get_field_string()`), `pass`, `__post_init__`; the options change the decorator and add the `check_oneof`
    validator when the message has oneof fields — nothing else -/
theorem src_message_class_options (m : Message) :
    ∃ core : List Piece, ∀ pydantic : Bool,
      messageClass pydantic m = dataclassDecorator pydantic ++ core ++ oneofValidator pydantic m ++ [Piece.lit "\n"] ∧
      oneofValidator false m = [] ∧ (m.has_oneof_fields = false → oneofValidator pydantic m = []) := by
  refine ⟨[Piece.lit "class ", Piece.expr "output_file.messages[].py_name" m.py_name, Piece.lit "(betterproto.Message):\n"]
      ++ optComment "output_file.messages[].comment" m.comment ++ m.fields.flatMap fieldLine ++ passIfEmpty m.fields
      ++ [Piece.lit "\n"] ++ postInit m ++ [Piece.lit "\n"], ?_⟩
  intro p
  refine ⟨?_, rfl, ?_⟩
  · simp only [messageClass, nl, List.append_eq, List.append_assoc]
  · intro h
    simp [oneofValidator, h]

/-- an enum class under the two options: the same entries; pydantic adds `__get_pydantic_core_schema__` -/
theorem src_enum_class_options (e : EnumDef) :
    ∃ core : List Piece, ∀ pydantic : Bool,
      enumClass pydantic e = core ++ enumPydanticSchema pydantic ++ [Piece.lit "\n"] ∧
      enumPydanticSchema false = [] := by
  refine ⟨[Piece.lit "class ", Piece.expr "output_file.enums[].py_name" e.py_name, Piece.lit "(betterproto.Enum):\n"]
      ++ optComment "output_file.enums[].comment" e.comment ++ e.entries.flatMap enumEntry ++ [Piece.lit "\n"], ?_⟩
  intro p
  refine ⟨?_, rfl⟩
  simp only [enumClass, nl, List.append_eq, List.append_assoc]

/-- the Stub / Base classes do not read `pydantic_dataclasses` at all -/
theorem src_services_ignore_pydantic (c : OutputFile) (p : Bool) :
    stubsBlock { c with pydantic_dataclasses := p } = stubsBlock c ∧
    basesBlock { c with pydantic_dataclasses := p } = basesBlock c := ⟨rfl, rfl⟩

/-- non-vacuity: the stub-iterator site under typing.310 -/
example :
    let m : Method := {
      py_name := "m".toList, comment := [], route := "/p.S/M".toList, client_streaming := true,
      server_streaming := true, py_input_message_param := "req".toList, py_input_message_type := "In".toList,
      py_output_message_type := "Out".toList, proto_obj := { options := { deprecated := false } } }
    String.ofList (text (stubParam (ofCompiler .c310 [] []) m))
      = "            , req_iterator: \"AsyncIterable[In] | Iterable[In]\"" := by
  decide

end Bp.C18
