import BpModel.Casing
import BpModel.Naming
import BpProofs.Casing
import BpProofs.CasingClass
/-
  C19 — Name mapping is total and safe, and JSON keys map back to their fields.

  Only property statements live here; the lemmas are in BpProofs/Casing*.lean.
  Strings are `List Char`; every theorem is quantified over ALL strings (no length bound,
  not even restricted to identifiers unless said so).  `kw` is `keyword.kwlist`
  regenerated from the interpreter on every run (BpModel/Gen/Keywords.lean).

  Predicates used in the statements (defined in BpModel/Casing.lean, BpProofs/Casing.lean):
    pyIdent s            `s.isidentifier()` for ASCII strings: `[A-Za-z_][A-Za-z0-9_]*`
    LDWord w             w is non-empty and of the form `[a-z]*[0-9]*`
    allWordsAlpha2 s     every word the case functions find in `s` begins with two letters
    firstAlnumIsLetter s the first letter-or-digit of `s` is a letter
-/
namespace Bp.C19
open Bp.Casing Bp.Naming

/-- a string literal as the model sees it -/
abbrev str (s : String) : List Char := s.toList

/-! ## "Every legal proto identifier maps to a Python field, method … name that is a valid
       identifier and not a keyword" -/

/-- `pythonize_field_name` (= `safe_snake_case`) returns a valid identifier that is not a
    keyword — for every input string, in particular for every proto identifier. -/
theorem field_name_valid (s : List Char) :
    pyIdent (pythonizeFieldName s) = true ∧ pythonizeFieldName s ∉ kw :=
  safeSnake_valid s

/-- the same for `pythonize_method_name`. -/
theorem method_name_valid (s : List Char) :
    pyIdent (pythonizeMethodName s) = true ∧ pythonizeMethodName s ∉ kw :=
  safeSnake_valid s

/-- `pythonize_enum_member_name(name, enum_name)` returns a valid identifier that is not a
    keyword, for every member name made of identifier characters and every enum name. -/
theorem enum_member_name_valid (name enumName : List Char) (h : ∀ c ∈ name, identChar c = true) :
    pyIdent (pythonizeEnumMemberName name enumName) = true ∧ pythonizeEnumMemberName name enumName ∉ kw :=
  enumMember_valid name enumName h

/-! ## "… and the mapping is idempotent" -/

/-- field / method names: `safe_snake_case` is idempotent on every string. -/
theorem field_name_idem (s : List Char) : pythonizeFieldName (pythonizeFieldName s) = pythonizeFieldName s :=
  safeSnake_idem s

/-- `snake_case` is idempotent on every string. -/
theorem snake_case_idem (s : List Char) : snake (snake s) = snake s := snake_idem s

/-- normal form: `snake_case` output is a `_`-join of non-empty words `[a-z]*[0-9]*`
    (so: only `[a-z0-9_]`, no leading / trailing / doubled underscore), and these words are
    exactly what the case functions find in it again. -/
theorem snake_normal_form (s : List Char) :
    ∃ ws, snake s = joinU ws ∧ (∀ w ∈ ws, LDWord w) ∧ tokens (snake s) = ws :=
  ⟨(tokens s).map lowerW, rfl, snake_words_ld s, tokens_snake s⟩

/-! ## class names

  FULL STATEMENT (false of the code, D18):
    ∀ s, protoIdent s → pyIdent (pythonizeClassName s) ∧ pythonizeClassName s ∉ kw
                         ∧ pythonizeClassName (pythonizeClassName s) = pythonizeClassName s
  What is proved: validity whenever the first letter-or-digit is a letter and the result is not
  one of the capitalised keywords; idempotence whenever every word begins with two letters. -/

/-- class names are valid identifiers and not keywords when the proto name's first
    letter-or-digit is a letter and the result is not a capitalised keyword
    (`False`, `None`, `True`). -/
theorem class_name_valid_partial (s : List Char) (h : classNameGuard s = true) :
    pyIdent (pythonizeClassName s) = true ∧ pythonizeClassName s ∉ kw := by
  simp only [classNameGuard, Bool.and_eq_true, Bool.not_eq_true', List.contains_eq_mem,
    decide_eq_false_iff_not] at h
  exact ⟨pascal_ident h.1, fun hk => h.2 (pascal_kw_cap h.1 hk)⟩

/-- `pascal_case` is idempotent when every word begins with two letters. -/
theorem class_name_idem_partial (s : List Char) (h : allWordsAlpha2 s = true) :
    pythonizeClassName (pythonizeClassName s) = pythonizeClassName s :=
  pascal_idem_of_alpha2 h

/-- D18 witnesses (replayed on the real code by the harness): a message called `None`
    becomes `class None`; `_` becomes the empty class name; `_1` becomes `1`;
    `aB ↦ AB ↦ Ab` is not idempotent. -/
theorem class_name_keyword_witness :
    protoIdent (str "None") = true ∧ pythonizeClassName (str "None") ∈ kw := by decide
theorem class_name_empty_witness :
    protoIdent (str "_") = true ∧ pyIdent (pythonizeClassName (str "_")) = false := by decide
theorem class_name_digit_witness :
    protoIdent (str "_1") = true ∧ pyIdent (pythonizeClassName (str "_1")) = false := by decide
theorem class_name_not_idem_witness :
    protoIdent (str "aB") = true ∧
      pythonizeClassName (pythonizeClassName (str "aB")) ≠ pythonizeClassName (str "aB") := by decide

/-! ## "the key to_dict emits for that field (in either casing), as well as the original proto
       field name, is mapped by from_dict back to the same field"

  For the proto field name `p` the generated Python field is `f = pythonize_field_name p`;
  `to_dict` emits `casing(f).rstrip("_")` (`keyCamel` / `keySnake`), `from_dict` stores a
  key `k` into the field `safe_snake_case(k)` (`fieldOfKey`).

  FULL STATEMENT (false of the code for the camelCase half, D15):
    ∀ p, protoIdent p → fieldOfKey (keyCamel f) = f ∧ fieldOfKey (keySnake f) = f ∧ fieldOfKey p = f -/

/-- snake_case keys always map back — every string, no guard. -/
theorem key_roundtrip_snake (p : List Char) :
    fieldOfKey (keySnake (pythonizeFieldName p)) = pythonizeFieldName p := by
  show sanitize (snake (rstripU (snake (safeSnake p)))) = safeSnake p
  rw [snake_rstripU, snake_idem, snake_safeSnake]
  rfl

/-- camelCase keys (the default) map back when every word of the name begins with two letters. -/
theorem key_roundtrip_camel_partial (p : List Char) (h : allWordsAlpha2 p = true) :
    fieldOfKey (keyCamel (pythonizeFieldName p)) = pythonizeFieldName p := by
  show sanitize (snake (rstripU (camel (safeSnake p)))) = safeSnake p
  rw [snake_rstripU, snake_camel (allWordsAlpha2_safeSnake h), snake_safeSnake]
  rfl

/-- the original proto field name used as a key maps to the field (by construction: the
    plugin and `from_dict` call the same function), and so does the Python field name. -/
theorem orig_name_maps_back (p : List Char) :
    fieldOfKey p = pythonizeFieldName p ∧ fieldOfKey (pythonizeFieldName p) = pythonizeFieldName p :=
  ⟨rfl, safeSnake_idem p⟩

/-- D15 witnesses (replayed on the real code): the default camelCase key of the fields
    `address_line_1` and `x_y_z` is mapped by `from_dict` to a *different* field name, so
    the value is silently dropped. -/
theorem key_roundtrip_digit_witness :
    protoIdent (str "address_line_1") = true ∧
    pythonizeFieldName (str "address_line_1") = str "address_line_1" ∧
    keyCamel (str "address_line_1") = str "addressLine1" ∧
    fieldOfKey (str "addressLine1") = str "address_line1" := by decide
theorem key_roundtrip_single_letter_witness :
    protoIdent (str "x_y_z") = true ∧
    pythonizeFieldName (str "x_y_z") = str "x_y_z" ∧
    keyCamel (str "x_y_z") = str "xYZ" ∧
    fieldOfKey (str "xYZ") = str "x_yz" := by decide

/-! ## non-vacuity: the guards are met by ordinary names, and the functions do what the
       pinned tests say on a few of them -/

example : allWordsAlpha2 (str "foo_bar_baz") = true := by decide
example : allWordsAlpha2 (str "HTTPStatus") = true := by decide
example : allWordsAlpha2 (str "ipv4_address") = true := by decide
example : allWordsAlpha2 (str "address_line_1") = false := by decide
example : classNameGuard (str "my_message") = true := by decide
example : classNameGuard (str "None") = false := by decide
example : pythonizeFieldName (str "class") = str "class_" := by decide
example : pythonizeFieldName (str "HTTPStatus") = str "http_status" := by decide
example : pythonizeFieldName (str "_1") = str "_1" := by decide
example : keyCamel (str "class_") = str "class" ∧ fieldOfKey (str "class") = str "class_" := by decide
example : pythonizeClassName (str "FOO1BAR2") = str "Foo1Bar2" := by decide
example : pythonizeEnumMemberName (str "COLOR_1") (str "Color") = str "_1" := by decide

end Bp.C19
