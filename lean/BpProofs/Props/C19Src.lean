import BpProofs.SrcTieFromDict
import BpProofs.Props.C19
/-
  C19 ("JSON keys map back to their fields"), tied to the SOURCE: the body of the loop

      for key, value in mapping.items():

  of `Message._from_dict_init` — `safe_snake_case(key)`, the `meta_by_field_name` lookup that skips
  unknown keys, the `value is None` skip, the per-kind conversions, `init_kwargs[field_name] = value`
  — is translated from the Python AST on every run (harness/extract_srcfromdict.py →
  BpProofs/Gen/SrcFromDict.lean, `Src.from_dict_key`) and proved equal to the model's per-pair action
  of `fromDictKV` (BpProofs/SrcTieFromDict.lean).  The corollaries restate C19's key theorems of the
  source as written.  If the loop body changes which field a key is stored under (a memo shared
  between classes, a folded-key table, …), `src_from_dict_key` stops checking or the translator
  reports the construct as unsupported.

  Reading: `Src.from_dict_key S E c dec key value init` is one iteration for the class `c` of the
  schema `S` (enum classes `E`), `dec c' j` is `<class c'>.from_dict(j)`, `init` is `init_kwargs` so
  far (field NAME ↦ value, in insertion order), the result is `init_kwargs` after the iteration.
  `finish fs r` views the outcome by field INDEX (`resolveKw`), as the model's keyword lists are;
  `forget` forgets which exception was raised.  What the dynamic Python operations mean on
  `JKey` / `JVal` / `Val` / `FieldD` is fixed in BpProofs/PyPreludeFromDict.lean (trusted).
-/
namespace Bp.C19
open Bp Bp.Py Bp.Casing Bp.Naming Bp.SrcTieFromDict

/-- **the per-key step of `_from_dict_init` as written is the model's per-pair action** (with
    Python's dict store, `kvStepSet`): for every schema, class, key, JSON value and `init_kwargs`, one
    iteration leaves exactly the keyword list the model's step gives — the key is resolved by
    `fieldOfJKey` (`meta_by_field_name[safe_snake_case(key)]`), an unknown key and a `None` value
    change nothing, any other value goes through the model's `decodeField` of that field and is stored
    under it — and raises exactly when the model raises.  Guard: `objWf value` (a dict value has as
    many keys as values; representation invariant). -/
theorem src_from_dict_key (S : Schema) (E : Enums) (c : Nat) (key : JKey) (value : JVal) (init : Kwargs)
    (hwf : objWf value = true) :
    forget (finish (fieldsOf S c) (Src.from_dict_key S E c (fromDictC S E) key value init))
      = forget (ofR (kvStepSet S E c key value (resolveKw (fieldsOf S c) init))) :=
  from_dict_key_eq S E c key value init hwf

/-- the model's step appends where Python's dict store replaces: the two coincide whenever the field
    the pair stores into (`hitOf`) is not yet in the keyword list — in particular on every mapping in
    which no two keys denote the same field (`C04.src_from_dict_init`) -/
theorem src_step_is_model_step (S : Schema) (E : Enums) (c : Nat) (k : JKey) (j : JVal) (kw : List (Nat × Val))
    (h : ∀ i, hitOf (fieldsOf S c) k j = some i → ∀ p ∈ kw, p.1 ≠ i) :
    kvStepSet S E c k j kw = kvStep S E c k j kw :=
  kvStepSet_eq_kvStep S E c k j kw h

/-- … and the model's loop `fromDictKV` is the left-to-right fold of that per-pair action from `{}` -/
theorem model_loop_is_fold (S : Schema) (E : Enums) (c : Nat) (ks : List JKey) (js : List JVal) :
    fromDictKV S E c ks js = foldKV (kvStep S E c) ks js [] :=
  fromDictKV_eq_fold S E c ks js

/-- **an unknown key changes nothing** (source as written, any reader `dec`, any value): when no field of
    the class is called `safe_snake_case(key)`, the iteration returns `init_kwargs` as it is -/
theorem src_unknown_key_ignored (S : Schema) (E : Enums) (c : Nat) (dec : Nat → JVal → R Val) (bs : Bytes)
    (value : JVal) (init : Kwargs)
    (h : findName (fieldsOf S c) (fieldOfKey (bs.map Char.ofNat)) 0 = Option.none) :
    Src.from_dict_key S E c dec (.str bs) value init = .ok init :=
  from_dict_key_unknown S E c dec bs value init h

/-- **a `None` value changes nothing** (JSON null: the field keeps its default) -/
theorem src_none_value_ignored (S : Schema) (E : Enums) (c : Nat) (dec : Nat → JVal → R Val) (bs : Bytes)
    (init : Kwargs) :
    Src.from_dict_key S E c dec (.str bs) .null init = .ok init :=
  from_dict_key_none S E c dec bs init

/-! ## "the key to_dict emits for that field (in either casing), as well as the original proto field
       name, is mapped by from_dict back to the same field" — of the source as written

  `p` is the proto field name, `pythonizeFieldName p` the generated Python field; the class `c` has
  that field at index `i` (`findName`); `j` is any value the model's `decodeField` of the field
  accepts.  Conclusion: the iteration as written stores the decoded value under field `i`. -/

/-- snake_case key (`Casing.SNAKE`): every proto name, no guard -/
theorem src_snake_key_maps_back (S : Schema) (E : Enums) (c : Nat) (p : List Char) (i : Nat) (fd : FieldD)
    (hfn : findName (fieldsOf S c) (pythonizeFieldName p) 0 = some (i, fd))
    (j : JVal) (v : Val) (init : Kwargs) (hnn : j ≠ .null) (hdec : decodeField S E fd j = .ok v)
    (hwf : objWf j = true) :
    finish (fieldsOf S c) (Src.from_dict_key S E c (fromDictC S E)
        (.str ((keySnake (pythonizeFieldName p)).map Char.toNat)) j init)
      = .ok (kwSet (resolveKw (fieldsOf S c) init) i v) :=
  key_to_field S E c _ _ i fd (key_roundtrip_snake p) hfn j v init hnn hdec hwf

/-- camelCase key (the default casing): when every word of the name begins with two letters (the D15
    guard of `key_roundtrip_camel_partial`; outside it the key names ANOTHER field name and, by
    `src_unknown_key_ignored`, the value is dropped) -/
theorem src_camel_key_maps_back_partial (S : Schema) (E : Enums) (c : Nat) (p : List Char)
    (h : allWordsAlpha2 p = true) (i : Nat) (fd : FieldD)
    (hfn : findName (fieldsOf S c) (pythonizeFieldName p) 0 = some (i, fd))
    (j : JVal) (v : Val) (init : Kwargs) (hnn : j ≠ .null) (hdec : decodeField S E fd j = .ok v)
    (hwf : objWf j = true) :
    finish (fieldsOf S c) (Src.from_dict_key S E c (fromDictC S E)
        (.str ((keyCamel (pythonizeFieldName p)).map Char.toNat)) j init)
      = .ok (kwSet (resolveKw (fieldsOf S c) init) i v) :=
  key_to_field S E c _ _ i fd (key_roundtrip_camel_partial p h) hfn j v init hnn hdec hwf

/-- the original proto field name used as the key -/
theorem src_orig_name_maps_back (S : Schema) (E : Enums) (c : Nat) (p : List Char) (i : Nat) (fd : FieldD)
    (hfn : findName (fieldsOf S c) (pythonizeFieldName p) 0 = some (i, fd))
    (j : JVal) (v : Val) (init : Kwargs) (hnn : j ≠ .null) (hdec : decodeField S E fd j = .ok v)
    (hwf : objWf j = true) :
    finish (fieldsOf S c) (Src.from_dict_key S E c (fromDictC S E) (.str (p.map Char.toNat)) j init)
      = .ok (kwSet (resolveKw (fieldsOf S c) init) i v) :=
  key_to_field S E c _ _ i fd (orig_name_maps_back p).1 hfn j v init hnn hdec hwf

/-- D15 on the source as written: the default camelCase key `addressLine1` of the field
    `address_line_1` is resolved to the name `address_line1`, which is no field of the class: the
    iteration drops the value -/
def Sd15 : Schema := [{ fields := [{ name := "address_line_1", num := 1, ty := .int32 }] }]
theorem src_d15_key_dropped_witness :
    Src.from_dict_key Sd15 [] 0 (fromDictC Sd15 []) (.str ("addressLine1".toList.map Char.toNat)) (.num 5) [] = .ok [] ∧
    Src.from_dict_key Sd15 [] 0 (fromDictC Sd15 []) (.str ("address_line_1".toList.map Char.toNat)) (.num 5) []
      = .ok [("address_line_1".toList, .int 5)] := ⟨by rfl, by rfl⟩

/-! non-vacuity: the translated iteration run on closed inputs.  `message M { int32 foo_bar = 1;
    repeated int64 xs = 2; }`: the camelCase key, the snake_case key, an unknown key, a None value, a
    second key for the same field (the entry is REPLACED, not repeated), `int(str)` on list items -/
def S0 : Schema := [{ fields := [{ name := "foo_bar", num := 1, ty := .int32 }, { name := "xs", num := 2, ty := .int64, repeated := true }] }]
def k (s : String) : JKey := .str (s.toList.map Char.toNat)
example : Src.from_dict_key S0 [] 0 (fromDictC S0 []) (k "fooBar") (.num 7) [] = .ok [("foo_bar".toList, .int 7)] := by rfl
example : Src.from_dict_key S0 [] 0 (fromDictC S0 []) (k "foo_bar") (.num 7) [] = .ok [("foo_bar".toList, .int 7)] := by rfl
example : Src.from_dict_key S0 [] 0 (fromDictC S0 []) (k "foobar") (.num 7) [] = .ok [] := by rfl
example : Src.from_dict_key S0 [] 0 (fromDictC S0 []) (k "fooBar") .null [] = .ok [] := by rfl
example : Src.from_dict_key S0 [] 0 (fromDictC S0 []) (k "foo_bar") (.num 8) [("foo_bar".toList, .int 7)]
    = .ok [("foo_bar".toList, .int 8)] := by rfl
example : Src.from_dict_key S0 [] 0 (fromDictC S0 []) (k "xs") (.arr [.decStr 5, .num 6]) [("foo_bar".toList, .int 7)]
    = .ok [("foo_bar".toList, .int 7), ("xs".toList, .list [.int 5, .int 6])] := by rfl
example : Src.from_dict_key S0 [] 0 (fromDictC S0 []) (.int 3) (.num 7) [] = .raise .type := by rfl

end Bp.C19
