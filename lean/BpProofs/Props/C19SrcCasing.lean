import BpProofs.SrcTieCasing
import BpProofs.Props.C19
/-
  C19, tied to the SOURCE, regular expressions included.  src/betterproto/casing.py as regenerated on every run
  (harness/extract_srccasing.py → BpProofs/Gen/SrcCasing.lean): the regex STRINGS of the two `re.sub` calls are
  evaluated from the module constants SYMBOLS / WORD / WORD_UPPER and parsed into the regex AST of
  BpProofs/PyRegex.lean, the `substitute_word` closures, `camel_case`, `lowercase_first`, `sanitize_name`,
  `safe_snake_case` are translated statement by statement (at strict = True, the only mode any call site uses).
  Under the semantics of CPython's `re` stated in BpProofs/PyRegex.lean (backtracking matcher, `re.sub` with the
  empty-match rule of CPython ≥ 3.7; validated against the real module by harness/tests/check_regex.py) the
  translated functions ARE the model functions of BpModel/Casing.lean the C19 (and, through `safeSnake`, the C13)
  theorems are about — for ALL strings, no length bound.  The hand-written tokenizer `go` is thereby no longer an
  assumption validated by the correspondence run: it is proved equal to what `re.sub` does.

  Trusted: BpProofs/PyRegex.lean (meaning of the regex syntax and of `re.sub`), BpProofs/PyPreludeCasing.lean
  (`str.lower` / `capitalize` / `isidentifier` on ASCII, `keyword.iskeyword` = the regenerated keyword list),
  BpProofs/PyPreludeStr.lean (`str * int`, slices), and the translator.
-/
namespace Bp.C19
open Bp Bp.Casing Bp.Naming Bp.PyRe Bp.SrcTieCasing

/-! ## the regular expressions as written are the tokenizer -/

/-- **one match of the pattern as written = one step of the tokenizer.**  On every non-empty input the pattern of
    `pascal_case`, as parsed from the source, matches at once (nothing is skipped, whatever `must_advance` says), the
    match is non-empty and consists of the symbols `sy` (group 1) and the word `w` (group 2), and `w` is the
    tokenizer's next word (`emit` drops it when it is empty, which happens only when the symbols reach the end). -/
theorem src_match_is_token (s : List Char) (hs : s ≠ []) :
    ∃ sy w rest, s = sy ++ (w ++ rest) ∧ sy.length + w.length ≠ 0 ∧ tokens s = emit w (tokens rest) ∧ (w = [] → rest = []) ∧
      ∀ (adv : Bool) (pos : Nat), matchAt Src.pascal_case.pattern adv pos s
        = some ⟨pos + (sy.length + w.length), rest, [(2, w), (1, sy)]⟩ := by
  obtain ⟨sy, w, rest, h1, h2, h3, h4, h5⟩ := body_sim s
  exact ⟨sy, w, rest, h1, h4 hs, h2, h3, fun adv pos => by rw [pascal_pattern_eq]; exact matchAt_pascal (h4 hs) h5 adv pos⟩

/-- `snake_case` as written (`re.sub` of `(^)?(SYMBOLS)(WORD_UPPER|WORD)` with its `substitute_word`) is the model's
    `snake`: the tokenizer's words, lower-cased, joined by `_` — for every string -/
theorem src_snake_case (s : List Char) : Src.snake_case s = snake s := snake_case_eq s

/-- `pascal_case` as written (`re.sub` of `(SYMBOLS)(WORD_UPPER|WORD)`) is the model's `pascal` — for every string -/
theorem src_pascal_case (s : List Char) : Src.pascal_case s = pascal s := pascal_case_eq s

/-- `camel_case` as written (`lowercase_first(pascal_case(value))`) is the model's `camel` — for every string -/
theorem src_camel_case (s : List Char) : Src.camel_case s = camel s := camel_case_eq s

/-- `sanitize_name` as written is the model's `sanitize` -/
theorem src_sanitize_name (v : List Char) : Src.sanitize_name v = sanitize v := sanitize_name_eq v

/-- `safe_snake_case` as written is the model's `safeSnake` (= `pythonize_field_name`, `pythonize_method_name`,
    `from_dict`'s key → field map, and the alias function of C13's `reference_absolute` / `reference_cousin`) -/
theorem src_safe_snake_case (s : List Char) : Src.safe_snake_case s = safeSnake s := safe_snake_case_eq s

/-! ## the sentences of C19, of the source as written -/

/-- "maps to a Python name that is a valid identifier and not a keyword": the result of `safe_snake_case` as
    written, for EVERY input string -/
theorem src_field_name_valid (s : List Char) :
    pyIdent (Src.safe_snake_case s) = true ∧ Src.safe_snake_case s ∉ kw := by
  rw [src_safe_snake_case]; exact field_name_valid s

/-- "the mapping is idempotent": `safe_snake_case` and `snake_case` as written, on every string -/
theorem src_field_name_idem (s : List Char) :
    Src.safe_snake_case (Src.safe_snake_case s) = Src.safe_snake_case s ∧
    Src.snake_case (Src.snake_case s) = Src.snake_case s := by
  simp only [src_safe_snake_case, src_snake_case]
  exact ⟨safeSnake_idem s, snake_idem s⟩

/-- "the key to_dict emits (snake_case casing) is mapped by from_dict back to the same field": with the functions
    as written, for every proto name `p` (field `f = safe_snake_case(p)`, key `snake_case(f).rstrip("_")`) -/
theorem src_key_roundtrip_snake (p : List Char) :
    Src.safe_snake_case (rstripU (Src.snake_case (Src.safe_snake_case p))) = Src.safe_snake_case p := by
  simp only [src_safe_snake_case, src_snake_case]
  exact key_roundtrip_snake p

/-- the same for the default camelCase key, when every word of the name begins with two letters (D15 otherwise) -/
theorem src_key_roundtrip_camel_partial (p : List Char) (h : allWordsAlpha2 p = true) :
    Src.safe_snake_case (rstripU (Src.camel_case (Src.safe_snake_case p))) = Src.safe_snake_case p := by
  simp only [src_safe_snake_case, src_camel_case]
  exact key_roundtrip_camel_partial p h

/-- D15 on the source as written: the camelCase key of `address_line_1` is mapped to another field -/
theorem src_key_roundtrip_digit_witness :
    Src.safe_snake_case (str "address_line_1") = str "address_line_1" ∧
    rstripU (Src.camel_case (str "address_line_1")) = str "addressLine1" ∧
    Src.safe_snake_case (str "addressLine1") = str "address_line1" := by
  simp only [src_safe_snake_case, src_camel_case]
  decide

/-! non-vacuity: the regex semantics EVALUATED on the patterns parsed from the source (no model involved) -/
example : Src.snake_case (str "HTTPStatus_codeXYz9a__") = str "http_status_code_x_yz9_a" := by decide +kernel
example : Src.pascal_case (str "HTTPStatus_codeXYz9a__") = str "HttpStatusCodeXYz9A" := by decide +kernel
example : Src.camel_case (str "foo_bar1Baz") = str "fooBar1Baz" := by decide +kernel
example : Src.safe_snake_case (str "class") = str "class_" := by decide +kernel
example : Src.safe_snake_case (str "1a") = str "_1_a" := by decide +kernel
example : Src.snake_case (str "") = str "" ∧ Src.snake_case (str "__") = str "" := by decide +kernel
/-- the empty-match rule of `re.sub`, CPython ≥ 3.7: `re.sub('x*', '-', 'abxd') == '-a-b--d-'` -/
example : sub (.star ⟨false, [('x', 'x')]⟩) (fun _ => str "-") (str "abxd") = str "-a-b--d-" := by decide +kernel

#print axioms src_match_is_token
#print axioms src_snake_case
#print axioms src_pascal_case
#print axioms src_camel_case
#print axioms src_safe_snake_case
#print axioms src_field_name_valid
#print axioms src_key_roundtrip_snake

end Bp.C19
