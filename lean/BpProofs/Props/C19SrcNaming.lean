import BpProofs.SrcTieNaming
import BpProofs.Props.C19SrcCasing
/-
  C19 ("every legal proto identifier maps to a Python class, field, method or enum-member name that is a valid
  identifier and not a keyword, and the mapping is idempotent"), tied to the SOURCE of the functions the plugin
  calls: src/betterproto/compile/naming.py as regenerated on every run (harness/extract_srcnaming.py →
  BpProofs/Gen/SrcNaming.lean).  The four `pythonize_*` functions are translated statement by statement;
  `casing.X(...)` is the call of the translated `Src.X` of casing.py (BpProofs/Gen/SrcCasing.lean, regular
  expressions parsed from the source), `.upper()`, `.find(sub)`, `.strip("_")`, `len`, the slice `name[i:]`, `+`
  and `!=` on int have the meaning written in BpProofs/PyPreludeNaming.lean / PyPreludeStr.lean.  The translated
  functions ARE the model functions of BpModel/Naming.lean the C19 theorems (and C03's naming parameters, C13's
  `pythonize_class_name`) are about — for ALL strings.

  Trusted: BpProofs/PyPreludeNaming.lean (`str.upper` on ASCII — applied by naming.py only to the `[a-z0-9_]` output
  of `snake_case` —, `str.find`, `str.strip`), PyPreludeStr.lean (`len`, slices), what C19SrcCasing.lean trusts
  for casing.py, and the translator.
-/
namespace Bp.C19
open Bp Bp.Casing Bp.Naming Bp.SrcTieNaming

/-! ## the functions as written are the model's -/

/-- `pythonize_class_name` as written (`casing.pascal_case(name)`) is the model's `pythonizeClassName` -/
theorem src_pythonize_class_name (s : List Char) : Src.pythonize_class_name s = pythonizeClassName s :=
  pythonize_class_name_eq s

/-- `pythonize_field_name` as written (`casing.safe_snake_case(name)`) is the model's `pythonizeFieldName` -/
theorem src_pythonize_field_name (s : List Char) : Src.pythonize_field_name s = pythonizeFieldName s :=
  pythonize_field_name_eq s

/-- `pythonize_method_name` as written (`casing.safe_snake_case(name)`) is the model's `pythonizeMethodName` -/
theorem src_pythonize_method_name (s : List Char) : Src.pythonize_method_name s = pythonizeMethodName s :=
  pythonize_method_name_eq s

/-- `pythonize_enum_member_name` as written — `enum_name = casing.snake_case(enum_name).upper()`,
    `find = name.find(enum_name)`, `name[find + len(enum_name):].strip("_")` when `find != -1`,
    `casing.sanitize_name` — is the model's `pythonizeEnumMemberName` (`afterFirst`, `stripU`, `sanitize`), for every
    member name and every enum name -/
theorem src_pythonize_enum_member_name (name enumName : List Char) :
    Src.pythonize_enum_member_name name enumName = pythonizeEnumMemberName name enumName :=
  pythonize_enum_member_name_eq name enumName

/-! ## "maps to a Python … name that is a valid identifier and not a keyword", of the source as written -/

/-- field names: `pythonize_field_name` as written returns a valid non-keyword identifier, for EVERY string -/
theorem src_pythonize_field_name_valid (s : List Char) :
    pyIdent (Src.pythonize_field_name s) = true ∧ Src.pythonize_field_name s ∉ kw := by
  rw [src_pythonize_field_name]; exact field_name_valid s

/-- method names: the same for `pythonize_method_name` as written -/
theorem src_pythonize_method_name_valid (s : List Char) :
    pyIdent (Src.pythonize_method_name s) = true ∧ Src.pythonize_method_name s ∉ kw := by
  rw [src_pythonize_method_name]; exact method_name_valid s

/-- enum member names: `pythonize_enum_member_name` as written returns a valid non-keyword identifier for every
    member name made of identifier characters (the model theorem's guard) and EVERY enum name -/
theorem src_pythonize_enum_member_name_valid (name enumName : List Char) (h : ∀ c ∈ name, identChar c = true) :
    pyIdent (Src.pythonize_enum_member_name name enumName) = true ∧
      Src.pythonize_enum_member_name name enumName ∉ kw := by
  rw [src_pythonize_enum_member_name]; exact enum_member_name_valid name enumName h

/-- class names (full statement false of the code, D18): `pythonize_class_name` as written returns a valid
    non-keyword identifier under the model theorem's guard `classNameGuard` -/
theorem src_pythonize_class_name_valid_partial (s : List Char) (h : classNameGuard s = true) :
    pyIdent (Src.pythonize_class_name s) = true ∧ Src.pythonize_class_name s ∉ kw := by
  rw [src_pythonize_class_name]; exact class_name_valid_partial s h

/-! ## "… and the mapping is idempotent", of the source as written -/

/-- field and method names: idempotent on every string -/
theorem src_pythonize_field_name_idem (s : List Char) :
    Src.pythonize_field_name (Src.pythonize_field_name s) = Src.pythonize_field_name s ∧
    Src.pythonize_method_name (Src.pythonize_method_name s) = Src.pythonize_method_name s := by
  simp only [src_pythonize_field_name, src_pythonize_method_name]
  exact ⟨field_name_idem s, field_name_idem s⟩

/-- class names: idempotent when every word begins with two letters (the model theorem's guard; D18 otherwise) -/
theorem src_pythonize_class_name_idem_partial (s : List Char) (h : allWordsAlpha2 s = true) :
    Src.pythonize_class_name (Src.pythonize_class_name s) = Src.pythonize_class_name s := by
  simp only [src_pythonize_class_name]; exact class_name_idem_partial s h

/-- D18 on the source as written: `None` stays the keyword `None`, `_` becomes the empty name, `_1` becomes `1`,
    `aB ↦ AB ↦ Ab` is not idempotent -/
theorem src_pythonize_class_name_witnesses :
    Src.pythonize_class_name (str "None") ∈ kw ∧
    pyIdent (Src.pythonize_class_name (str "_")) = false ∧
    pyIdent (Src.pythonize_class_name (str "_1")) = false ∧
    Src.pythonize_class_name (Src.pythonize_class_name (str "aB")) ≠ Src.pythonize_class_name (str "aB") := by
  simp only [src_pythonize_class_name]
  exact ⟨class_name_keyword_witness.2, class_name_empty_witness.2, class_name_digit_witness.2,
    class_name_not_idem_witness.2⟩

/-- "the key to_dict emits … is mapped by from_dict back to the same field", with the generated field name computed
    by `pythonize_field_name` as written and the casing functions as written (snake_case casing; every proto name) -/
theorem src_pythonize_field_key_roundtrip_snake (p : List Char) :
    Src.safe_snake_case (rstripU (Src.snake_case (Src.pythonize_field_name p))) = Src.pythonize_field_name p := by
  simp only [src_pythonize_field_name, src_safe_snake_case, src_snake_case]
  exact key_roundtrip_snake p

/-! non-vacuity: the translated functions EVALUATED (regex semantics on the parsed patterns, `find`, slice, `strip`;
    no model involved) -/
example : Src.pythonize_enum_member_name (str "COLOR_1") (str "Color") = str "_1" := by decide +kernel
example : Src.pythonize_enum_member_name (str "MY_ENUM_FOO_BAR") (str "MyEnum") = str "FOO_BAR" := by decide +kernel
example : Src.pythonize_enum_member_name (str "X_MY_ENUM__MY_ENUM_None_") (str "MyEnum") = str "MY_ENUM_None" := by
  decide +kernel
example : Src.pythonize_enum_member_name (str "None") (str "MyEnum") = str "None_" := by decide +kernel
example : Src.pythonize_enum_member_name (str "FOO") (str "") = str "FOO" := by decide +kernel
example : Src.pythonize_class_name (str "FOO1BAR2") = str "Foo1Bar2" := by decide +kernel
example : Src.pythonize_field_name (str "HTTPStatus") = str "http_status" := by decide +kernel
example : Src.pythonize_method_name (str "class") = str "class_" := by decide +kernel
example : Py.strFind (str "abcabc") (str "ca") = 2 ∧ Py.strFind (str "abc") (str "cb") = -1 ∧
    Py.strFind (str "abc") (str "") = 0 ∧ Py.strFind (str "") (str "") = 0 := by decide
example : Py.strStrip (str "__a_b__") (str "_") = str "a_b" ∧ Py.strStrip (str "___") (str "_") = str "" := by decide

#print axioms src_pythonize_class_name
#print axioms src_pythonize_field_name
#print axioms src_pythonize_method_name
#print axioms src_pythonize_enum_member_name
#print axioms src_pythonize_enum_member_name_valid
#print axioms src_pythonize_field_name_idem

end Bp.C19
