import BpModel.All
import BpModel.EnumM
import BpProofs.EnumM
import BpProofs.Props.C16
/-
  C20 — enums are open, canonical and immutable.

  Only property statements live here; helper lemmas are in BpProofs/EnumM.lean (class
  construction) and BpProofs/Varint.lean / Props/C16.lean (wire codec).

  Every theorem quantifies over **all** definitions `d : List (name × number)` — any
  length, any `Int` numbers (negative, gaps, aliases), any name type with decidable
  equality — with the one hypothesis the Python code itself guarantees: the names of a
  definition are the keys of a dict, hence pairwise distinct (`NamesNodup`, decidable).
  `Reach d c` says that `c` is the class built from `d` after an arbitrary history of
  operations (`reach_run`); lookups are stated for every such state.

  PARTIAL (by design, DESIGN.md §7 C20 / §10): object identity under `copy` / `deepcopy`
  / `pickle` and the attribute protection of classes and members are behaviour of the
  Python object model (`__copy__`, `__deepcopy__`, `__getnewargs_ex__`, `__setattr__`,
  `__delattr__`, `MappingProxyType`).  They are *modelled* — `step` returns the same
  object for a copy, a new object for an unpickle, an error for a mutation attempt — and
  the theorems `copy_identity`, `pickle_preserves`, `immutable` say what follows from
  that model; that the real classes behave as `step` says is checked by the lock-step
  correspondence and by the identity / immutability oracles of harness/props/c20.py,
  not derived from first principles.  The same holds for "accepted wherever a member
  is" (message fields in singular / repeated / map-value / oneof / optional position):
  the codec theorem below is about the enum scalar; the field positions are exercised on
  real messages by the oracle.
-/
namespace Bp.C20
open Bp Bp.EnumM
set_option linter.unusedSectionVars false

variable {ν : Type} [DecidableEq ν]

/-- `c` is a state of the class defined by `d`: same `_value_map_` and `_member_map_`
    as right after the class statement, at least as many objects allocated -/
def Reach (d : Decl ν) (c : Cls ν) : Prop :=
  c.valueMap = (mk d).valueMap ∧ c.memberMap = (mk d).memberMap ∧ (mk d).next ≤ c.next

/-- a history of operations: final state and everything the caller saw -/
def run (c : Cls ν) : List (EnumM.Op ν) → Cls ν × List (Out ν)
  | [] => (c, [])
  | op :: ops => let (c1, o) := step c op; let (c2, os) := run c1 ops; (c2, o :: os)

theorem reach_mk (d : Decl ν) : Reach d (mk d) := ⟨rfl, rfl, Nat.le_refl _⟩

/-- **immutability, class level (sentence 3)**: no operation of the API — lookups, open
    values, iteration, membership tests, copies, pickling, and all five kinds of mutation
    attempt — changes `_value_map_` or `_member_map_` -/
theorem reach_step (d : Decl ν) (c : Cls ν) (op : EnumM.Op ν) (h : Reach d c) : Reach d (step c op).1 := by
  obtain ⟨h1, h2, h3⟩ := h
  have tv : ∀ v, Reach d (tryValue c v).1 := by
    intro v
    refine ⟨by rw [(tryValue_maps c v).1, h1], by rw [(tryValue_maps c v).2, h2], ?_⟩
    unfold tryValue; split <;> simp <;> omega
  cases op <;> try exact ⟨h1, h2, h3⟩
  all_goals try exact tv _
  -- pickle: one more allocation
  next v =>
    obtain ⟨t1, t2, t3⟩ := tv v
    exact ⟨t1, t2, by simp only [step]; omega⟩

theorem reach_run (d : Decl ν) (ops : List (EnumM.Op ν)) (c : Cls ν) (h : Reach d c) : Reach d (run c ops).1 := by
  induction ops generalizing c with
  | nil => exact h
  | cons op ops ih => exact ih _ (reach_step d c op h)

theorem reach_inv (d : Decl ν) (c : Cls ν) (h : Reach d c) : Inv c := by
  obtain ⟨h1, h2, h3⟩ := h
  have i := mk_inv d
  refine ⟨?_, ?_, ?_, ?_, ?_⟩
  · intro v m hm; rw [h1] at hm; exact i.num v m hm
  · intro v m hm; rw [h1] at hm; exact i.named v m hm
  · intro v m hm; rw [h1] at hm; have := i.lt v m hm; omega
  · intro v1 v2 m1 m2 a b; rw [h1] at a b; exact i.inj v1 v2 m1 m2 a b
  · intro n m hm; rw [h2] at hm; rw [h1]; exact i.mem n m hm

/-- **sentence 1 — lookup by number or by name returns the one canonical member object,
    whose name and number are those declared.**  For every declaration `(n, v)` of every
    definition, in every reachable state: `cls[n]`, `getattr(cls, n)`, `cls.from_string(n)`
    and `cls(v)` return the *same object* `m` (same `oid`); its number is `v`; its name is
    the first name declared with number `v` (so `n` itself unless `n` is an alias). -/
theorem lookup_canonical (d : Decl ν) (hnd : NamesNodup d = true) (c : Cls ν) (hr : Reach d c)
    (n : ν) (v : Int) (hmem : (n, v) ∈ d) :
    ∃ m n0, getitem c n = .ok m ∧ getattr c n = .ok m ∧ fromString c n = .ok m ∧ call c v = .ok m
      ∧ m.number = v ∧ m.name = some n0 ∧ FirstName d v n0 ∧ isCanonical c m = true := by
  obtain ⟨h1, h2, _⟩ := hr
  obtain ⟨m, hm1, hm2⟩ := mk_memberMap_decl d n v hnd hmem
  obtain ⟨n0, hf⟩ := defined_firstName d v ⟨n, hmem⟩
  obtain ⟨oid, ho⟩ := mk_valueMap_first d v n0 hf
  have e : m = { name := some n0, number := v, oid := oid } := by
    rw [hm2] at ho; exact Option.some.inj ho
  refine ⟨m, n0, ?_, ?_, ?_, ?_, ?_, ?_, hf, ?_⟩
  · simp [getitem, h2, hm1]
  · simp [getattr, h2, hm1]
  · simp [fromString, h2, hm1]
  · simp [call, h1, hm2]
  · rw [e]
  · rw [e]
  · have hn : m.number = v := by rw [e]
    simp [isCanonical, call, h1, hn, hm2, Member.same]

/-- the canonical objects of different numbers are different objects (so "the same
    object" in `lookup_canonical` is not vacuous) -/
theorem canonical_distinct (d : Decl ν) (c : Cls ν) (hr : Reach d c) (v1 v2 : Int) (m1 m2 : Member ν)
    (h1 : call c v1 = .ok m1) (h2 : call c v2 = .ok m2) (hs : m1.same m2 = true) : v1 = v2 := by
  have i := reach_inv d c hr
  unfold call at h1 h2
  cases ha : assoc v1 c.valueMap with
  | none => rw [ha] at h1; simp at h1
  | some a =>
    cases hb : assoc v2 c.valueMap with
    | none => rw [hb] at h2; simp at h2
    | some b =>
      rw [ha] at h1; rw [hb] at h2
      simp only [Except.ok.injEq] at h1 h2
      subst h1; subst h2
      exact i.inj v1 v2 a b ha hb (by simpa [Member.same] using hs)

/-- names and numbers that are not declared are not found: `cls(v)` and
    `from_string(n)` raise ValueError, `cls[n]` KeyError, `getattr` AttributeError -/
theorem lookup_undeclared (d : Decl ν) (c : Cls ν) (hr : Reach d c) :
    (∀ v, ¬ Defined d v → call c v = .error .value)
    ∧ (∀ n, (∀ p ∈ d, p.1 ≠ n) →
        getitem c n = .error .key ∧ fromString c n = .error .value ∧ getattr c n = .error .attr) := by
  obtain ⟨h1, h2, _⟩ := hr
  constructor
  · intro v hv; simp [call, h1, mk_valueMap_none d v hv]
  · intro n hn
    simp [getitem, fromString, getattr, h2, mk_memberMap_none d n hn]

/-- `from_string`, `__getitem__` and attribute access agree on every name (they differ
    only in the exception class) -/
theorem from_string_getitem_agree (c : Cls ν) (n : ν) :
    (fromString c n).toOption = (getitem c n).toOption
      ∧ (getattr c n).toOption = (getitem c n).toOption := by
  unfold fromString getitem getattr
  cases assoc n c.memberMap <;> simp [Except.toOption]

/-- **`try_value` on a defined number is the canonical member** (and allocates nothing) -/
theorem try_value_defined_is_canonical (d : Decl ν) (c : Cls ν) (hr : Reach d c) (v : Int)
    (hdef : Defined d v) :
    ∃ m, tryValue c v = (c, m) ∧ call c v = .ok m ∧ m.number = v ∧ isCanonical c m = true := by
  obtain ⟨h1, _, _⟩ := hr
  obtain ⟨n0, hf⟩ := defined_firstName d v hdef
  obtain ⟨oid, ho⟩ := mk_valueMap_first d v n0 hf
  refine ⟨{ name := some n0, number := v, oid := oid }, ?_, ?_, rfl, ?_⟩
  · simp [tryValue, h1, ho]
  · simp [call, h1, ho]
  · simp [isCanonical, call, h1, ho, Member.same]

/-- **sentence 2, openness — a number the enum does not define is accepted**: `try_value`
    returns a member-like value whose number is that integer, whose name is None, which
    compares equal to exactly that integer; it is a new object, not a member
    (`in` is False, `cls(v)` still raises) and the class is unchanged. -/
theorem try_value_open (d : Decl ν) (c : Cls ν) (hr : Reach d c) (v : Int) (hun : ¬ Defined d v) :
    ∃ c' m, tryValue c v = (c', m) ∧ m.number = v ∧ m.name = none
      ∧ (∀ i : Int, m.eqInt i = true ↔ i = v)
      ∧ Reach d c' ∧ contains c' m = false ∧ isCanonical c' m = false
      ∧ call c' v = .error .value := by
  have hr' := reach_step d c (.tryValue v) hr
  obtain ⟨h1, _, _⟩ := hr
  have hn := mk_valueMap_none d v hun
  have e : tryValue c v = ({ c with next := c.next + 1 }, { name := none, number := v, oid := c.next }) := by
    simp [tryValue, h1, hn]
  refine ⟨_, _, e, rfl, rfl, ?_, ?_, rfl, ?_, ?_⟩
  · intro i; simp [Member.eqInt]; exact eq_comm
  · simpa [step, e] using hr'
  · simp [isCanonical, call, h1, hn]
  · simp [call, h1, hn]

/-- the number survives `try_value` for **every** integer, defined or not -/
theorem try_value_number (d : Decl ν) (c : Cls ν) (hr : Reach d c) (v : Int) :
    (tryValue c v).2.number = v ∧ (tryValue c v).2.eqInt v = true := by
  have := tryValue_number c v (reach_inv d c hr)
  exact ⟨this, by simp [Member.eqInt, this]⟩

/-- **iteration** yields, for each declaration in declaration order, the canonical member
    of its number — which is also what looking its name up returns; `len` counts the
    declarations (aliases included) and `__members__` lists the declared names in order -/
theorem iter_canonical (d : Decl ν) (hnd : NamesNodup d = true) (c : Cls ν) (hr : Reach d c) :
    (iter c).map some = d.map (fun p => (call c p.2).toOption)
      ∧ (iter c).map some = d.map (fun p => (getitem c p.1).toOption)
      ∧ reversed c = (iter c).reverse
      ∧ len c = d.length ∧ memberNames c = d.map (·.1) := by
  have hr0 := hr
  obtain ⟨h1, h2, _⟩ := hr
  have hi : (iter c).map some = d.map (fun p => (call c p.2).toOption) := by
    have := mk_iter d
    unfold iter at this ⊢
    rw [h2, this]
    apply List.map_congr_left
    intro p _
    unfold call
    rw [h1]
    cases assoc p.2 (mk d).valueMap <;> simp [Except.toOption]
  refine ⟨hi, ?_, rfl, ?_, ?_⟩
  · rw [hi]
    apply List.map_congr_left
    intro p hp
    obtain ⟨m, _, hg, _, _, hc, _⟩ := lookup_canonical d hnd c hr0 p.1 p.2 hp
    rw [hg, hc]
  · have := congrArg List.length (mk_names d)
    simp only [memberNames, List.length_map] at this
    simp [len, h2, this]
  · have := mk_names d
    unfold memberNames at this ⊢
    rw [h2, this]

/-- `m in cls` holds for the value `try_value(v)` exactly when `v` is defined -/
theorem contains_iff_defined (d : Decl ν) (hnd : NamesNodup d = true) (c : Cls ν) (hr : Reach d c)
    (v : Int) : contains (tryValue c v).1 (tryValue c v).2 = true ↔ Defined d v := by
  constructor
  · intro h
    apply Classical.byContradiction
    intro hun
    obtain ⟨c', m, e, _, _, _, _, hc, _⟩ := try_value_open d c hr v hun
    rw [e] at h; simp [hc] at h
  · intro hdef
    obtain ⟨m, e, hc, _, _⟩ := try_value_defined_is_canonical d c hr v hdef
    obtain ⟨n, hn⟩ := hdef
    obtain ⟨m', n0, _, _, _, hc', _, hname, hf, _⟩ := lookup_canonical d hnd c hr n v hn
    rw [hc] at hc'
    have : m = m' := by simpa using hc'
    subst this
    obtain ⟨m2, _, _, _, hfs, _⟩ := lookup_canonical d hnd c hr n0 v (firstName_mem d v n0 hf)
    rw [e]
    simp only [contains, hname]
    unfold fromString at hfs
    split at hfs <;> simp_all

/-- **sentence 3 — enum classes and members cannot be mutated**: each of the five kinds
    of mutation attempt (`setattr` / `delattr` on the class, assignment through
    `__members__`, `setattr` / `delattr` on a member or open value) raises, and afterwards
    every lookup — by number, by name, by attribute, `from_string`, iteration, `len`,
    `__members__`, and the name / number of `try_value(v)` for every `v` — gives what it
    gave before.  (PARTIAL: that the real classes raise is the modelled part.) -/
theorem immutable (c : Cls ν) (op : EnumM.Op ν) (hm : op.isMutation = true) :
    (∃ e, (step c op).2 = .err e)
    ∧ (∀ v, call (step c op).1 v = call c v)
    ∧ (∀ n, getitem (step c op).1 n = getitem c n ∧ getattr (step c op).1 n = getattr c n
          ∧ fromString (step c op).1 n = fromString c n)
    ∧ iter (step c op).1 = iter c ∧ len (step c op).1 = len c
    ∧ memberNames (step c op).1 = memberNames c
    ∧ (∀ v, (tryValue (step c op).1 v).2.name = (tryValue c v).2.name
          ∧ (tryValue (step c op).1 v).2.number = (tryValue c v).2.number) := by
  have key : ∀ c' : Cls ν, c'.valueMap = c.valueMap → c'.memberMap = c.memberMap →
      (∀ v, call c' v = call c v)
      ∧ (∀ n, getitem c' n = getitem c n ∧ getattr c' n = getattr c n ∧ fromString c' n = fromString c n)
      ∧ iter c' = iter c ∧ len c' = len c ∧ memberNames c' = memberNames c
      ∧ (∀ v, (tryValue c' v).2.name = (tryValue c v).2.name
            ∧ (tryValue c' v).2.number = (tryValue c v).2.number) := by
    intro c' e1 e2
    refine ⟨?_, ?_, ?_, ?_, ?_, ?_⟩
    · intro v; simp [call, e1]
    · intro n; simp [getitem, getattr, fromString, e2]
    · simp [iter, e2]
    · simp [len, e2]
    · simp [memberNames, e2]
    · intro v
      unfold tryValue
      rw [e1]
      cases assoc v c.valueMap <;> simp
  cases op <;> simp [Op.isMutation] at hm
  · exact ⟨⟨_, rfl⟩, key c rfl rfl⟩
  · exact ⟨⟨_, rfl⟩, key c rfl rfl⟩
  · exact ⟨⟨_, rfl⟩, key c rfl rfl⟩
  · next v a x => exact ⟨⟨_, rfl⟩, key _ (tryValue_maps c v).1 (tryValue_maps c v).2⟩
  · next v a => exact ⟨⟨_, rfl⟩, key _ (tryValue_maps c v).1 (tryValue_maps c v).2⟩

/-- **sentence 1, identity under copy / deepcopy** (modelled): both return the very
    object they were given, for members and for open values -/
theorem copy_identity (c : Cls ν) (v : Int) :
    ∃ c' m, step c (.copy v) = (c', .copied m m) ∧ step c (.deepcopy v) = (c', .copied m m)
      ∧ m = (tryValue c v).2 ∧ m.same m = true := by
  refine ⟨(tryValue c v).1, (tryValue c v).2, rfl, rfl, rfl, ?_⟩
  simp [Member.same]

/-- **sentence 1, name and number under pickling** (modelled): the unpickled object has
    the name and the number of the pickled one — for members, aliases (canonical name)
    and open values (name None) — and is a new object -/
theorem pickle_preserves (d : Decl ν) (c : Cls ν) (hr : Reach d c) (v : Int) :
    ∃ c' m' m, step c (.pickle v) = (c', .copied m' m) ∧ m = (tryValue c v).2
      ∧ m'.name = m.name ∧ m'.number = m.number ∧ m'.number = v ∧ m'.same m = false := by
  refine ⟨_, _, _, rfl, rfl, rfl, rfl, (try_value_number d c hr v).1, ?_⟩
  have i := reach_inv d c hr
  simp only [Member.same, beq_eq_false_iff_ne, ne_eq]
  split
  · next m hm => have := i.lt v m hm; simp; omega
  · simp

/-- **sentence 2, binary round trip — an enum number keeps its value through the wire
    codec, for every int32 number, defined or not, negative or not**: `_preprocess_single`
    for an enum scalar writes the varint of the (sign-extended) number; `load_varint`
    reads it back consuming exactly those bytes, whatever follows; `_postprocess_single`
    recovers the sign (int32) and hands the number to `try_value`. -/
theorem enum_wire_roundtrip (n : Int) (hlo : -2147483648 ≤ n) (hhi : n < 2147483648) (rest : Bytes) :
    ∃ bs, prepPlain .enum (.int n) = .ok bs
      ∧ ∃ k, loadVarint (bs ++ rest) = .ok (k, bs.length) ∧ postVarint .enum k = .int n := by
  obtain ⟨bs, h1, h2⟩ := C16.load_dump n (by unfold two63; omega) (by unfold two64; omega) rest
  refine ⟨bs, ?_, C16.wire64 n, h2, ?_⟩
  · simp [prepPlain, asInt, Except.bind, h1]
  · simp [postVarint, C16.load_dump_int32 n hlo hhi]

/-- … and the decoded field value `try_value(number)` of **any** enum class has that
    number and compares equal to it (a member if defined, an open value otherwise) -/
theorem enum_wire_roundtrip_open (d : Decl ν) (c : Cls ν) (hr : Reach d c)
    (n : Int) (hlo : -2147483648 ≤ n) (hhi : n < 2147483648) (rest : Bytes) :
    ∃ bs k, prepPlain .enum (.int n) = .ok bs ∧ loadVarint (bs ++ rest) = .ok (k, bs.length)
      ∧ ∃ n', postVarint .enum k = .int n' ∧ (tryValue c n').2.number = n
        ∧ (tryValue c n').2.eqInt n = true
        ∧ (Defined d n → call c n = .ok (tryValue c n').2) := by
  obtain ⟨bs, h1, k, h2, h3⟩ := enum_wire_roundtrip n hlo hhi rest
  refine ⟨bs, k, h1, h2, n, h3, (try_value_number d c hr n).1, (try_value_number d c hr n).2, ?_⟩
  intro hdef
  obtain ⟨m, e, hc, _⟩ := try_value_defined_is_canonical d c hr n hdef
  rw [e]; exact hc

/-- **sentence 2, JSON round trip** (D14 repaired: `to_dict` writes a number without a
    member as a number): for **every** integer `v`, `_dump_enum` produces a JSON value —
    the canonical name if `v` is defined, the number itself if not, never null — and
    `_parse_enum` of it is a value with number `v`: the canonical member if defined, an
    open value otherwise. -/
theorem enum_json_roundtrip (d : Decl ν) (hnd : NamesNodup d = true) (c : Cls ν) (hr : Reach d c)
    (v : Int) :
    ∃ j c' m, dumpEnum c v = some j ∧ parseEnum c j = (c', .ok m) ∧ m.number = v ∧ Reach d c'
      ∧ (Defined d v → (∃ n0, j = .name n0 ∧ FirstName d v n0) ∧ call c v = .ok m)
      ∧ (¬ Defined d v → j = .num v ∧ m.name = none) := by
  by_cases hdef : Defined d v
  · obtain ⟨n, hn⟩ := hdef
    obtain ⟨m, n0, _, _, _, hc, hnum, hname, hf, _⟩ := lookup_canonical d hnd c hr n v hn
    obtain ⟨m2, _, _, _, hfs, hc2, _⟩ := lookup_canonical d hnd c hr n0 v (firstName_mem d v n0 hf)
    have : m2 = m := by rw [hc] at hc2; simpa using hc2.symm
    subst this
    refine ⟨.name n0, c, m2, ?_, ?_, hnum, hr, fun _ => ⟨⟨n0, rfl, hf⟩, hc⟩, fun h => absurd ⟨n, hn⟩ h⟩
    · simp [dumpEnum, hc, hname]
    · simp [parseEnum, hfs]
  · obtain ⟨c', m, e, hnum, hname, _, hr', _⟩ := try_value_open d c hr v hdef
    refine ⟨.num v, c', m, ?_, ?_, hnum, hr', fun h => absurd h hdef, fun _ => ⟨rfl, hname⟩⟩
    · simp [dumpEnum, (lookup_undeclared d c hr).1 v hdef]
    · simp [parseEnum, e]

/-! ### non-vacuity: a definition with a negative number, a gap, an alias and int32 extremes -/

/-- `class E(Enum): A = 1; NEG = -5; ALIAS = 1; ZERO = 0; MIN = -2**31` (names as numbers 0..4) -/
def exD : Decl Nat := [(0, 1), (1, -5), (2, 1), (3, 0), (4, -2147483648)]

example : NamesNodup exD = true := by decide
example : getitem (mk exD) 2 = .ok ⟨some 0, 1, 0⟩ ∧ call (mk exD) 1 = .ok ⟨some 0, 1, 0⟩ := by decide
example : call (mk exD) (-5) = .ok ⟨some 1, -5, 1⟩ ∧ call (mk exD) 7 = .error .value := by decide
example : (iter (mk exD)).map (·.name) = [some 0, some 1, some 0, some 3, some 4] := by decide
example : (tryValue (mk exD) 7).2 = ⟨none, 7, 4⟩ ∧ (tryValue (mk exD) 7).2.eqInt 7 = true := by decide
example : dumpEnum (mk exD) 1 = some (.name 0) ∧ dumpEnum (mk exD) 7 = some (.num 7) := by decide
example : (step (mk exD) (.pickle 1)).2 = .copied ⟨some 0, 1, 4⟩ ⟨some 0, 1, 0⟩ := by decide
example : prepPlain .enum (.int (-5)) = .ok [251, 255, 255, 255, 255, 255, 255, 255, 255, 1] := by decide
example : postVarint .enum 18446744073709551611 = .int (signRecover 32 18446744073709551611)
    ∧ signRecover 32 18446744073709551611 = -5 := ⟨rfl, by decide⟩
example : Reach exD (run (mk exD) [.setattrCls 0 9, .tryValue 7, .pickle 1, .delattrMem 1 .name]).1 :=
  reach_run exD _ _ (reach_mk exD)

end Bp.C20
