import BpProofs.SrcTieEnum
import BpProofs.Props.C20
/-
  C20, tied to the SOURCE: the member loop of `EnumType.__new__` and the methods `__call__`,
  `__getitem__`, `__iter__`, `__reversed__`, `__len__`, `__contains__`, `__setattr__`, `__delattr__` of
  `EnumType` and `try_value`, `from_string`, `__copy__`, `__deepcopy__`, `__getnewargs_ex__`,
  `__setattr__`, `__delattr__` of `Enum` (src/betterproto/enum.py), as regenerated from the Python AST
  of the working tree on every run (harness/extract_srcenum.py → BpProofs/Gen/SrcEnum.lean), ARE the
  model functions of BpModel/EnumM.lean the C20 theorems are about — for ALL declaration lists, class
  states and arguments — and the C20 theorems therefore hold of the source as written.

  A class object `PyEnum.ClsObj ν` is the model's class state `st` (`_value_map_`, `_member_map_`,
  allocation count) plus `vars`, the attributes the loop binds on the per-enum metaclass.  A translated
  method returns `Py.Res result`; one that allocates an object or stores into a dict of the class returns
  `Py.Res (result × class object afterwards)` — so that `__call__`, `__getitem__`, `from_string`,
  `__iter__`, `__len__`, `__contains__` and the four `__setattr__` / `__delattr__` do not change the class
  is already their TYPE; a method annotated `-> Never` returns `Py.Res Empty`.  `obj c` is the class
  object of the model state `c`.

  Not translated (still validated by the correspondence run / the oracles only): which entries of the
  class namespace become `members` (the dict comprehension over `namespace.items()`), `Enum.__new__`
  (`int.__new__` + two `object.__setattr__`; parameter list checked), `__members__` (`MappingProxyType`),
  `__repr__` / `__str__`, exception messages; TypeError for an unhashable argument is outside the model.
  Trusted: BpProofs/PyPrelude.lean (`Py.Res`), BpProofs/PyPreludeEnum.lean (dicts as association lists,
  `cls.__new__` as allocation of a fresh object, `try` / `except`, `isinstance`, unpickling through
  `__getnewargs_ex__`).
-/
namespace Bp.C20
open Bp Bp.Py Bp.EnumM Bp.PyEnum Bp.SrcTieEnum
set_option linter.unusedSectionVars false

variable {ν : Type} [DecidableEq ν]

/-! ### the class statement -/

/-- **one turn of the member loop as written is the model's `declare`**: the canonical member of an
    already declared number is reused (an alias — of number 0 too — gets no object of its own), a new
    number gets a new object entered under it; for every class state in which `name` is not yet a key
    of `_member_map_` (always so in the loop: `members` is a dict) -/
theorem src_declare (c : Cls ν) (n : ν) (v : Int) (h : assoc n c.memberMap = none) :
    Src.EnumType.new_step (obj c) n v = .ok (obj (declare c n v)) :=
  new_step_eq c n v h

/-- … and for EVERY class state, a repeated name included: `_value_map_` and the allocation count after
    the turn are `declare`'s, the store `value_map[value] = member` is never a replace (the member found
    under `value` afterwards is the one `declare` appends to `_member_map_`), and `member_map[name] =
    member` is the dict store where the model appends (the two differ only when `name` is a key already) -/
theorem src_declare_general (cls : ClsObj ν) (n : ν) (v : Int) :
    ∃ cls' m, Src.EnumType.new_step cls n v = .ok cls'
      ∧ cls'.st.valueMap = (declare cls.st n v).valueMap ∧ cls'.st.next = (declare cls.st n v).next
      ∧ assoc v cls'.st.valueMap = some m
      ∧ (declare cls.st n v).memberMap = cls.st.memberMap ++ [(n, m)]
      ∧ cls'.st.memberMap = dictSet cls.st.memberMap n m ∧ cls'.vars = dictSet cls.vars n m :=
  new_step_general cls n v

/-- **the member loop as written is the model's `build`** on every declaration list with distinct names
    that are not keys of `_member_map_` yet, from every class state -/
theorem src_new_loop (d : Decl ν) (c : Cls ν) (hnd : NamesNodup d = true)
    (hfresh : ∀ p ∈ d, assoc p.1 c.memberMap = none) :
    Src.EnumType.new_loop (obj c) d = .ok (obj (build c d)) :=
  new_loop_eq d c hnd hfresh

/-- **`EnumType.__new__` as written builds the model's class `mk d`** (and binds each declared name as
    a class attribute to the member `_member_map_` holds for it), for every definition -/
theorem src_new (d : Decl ν) (hnd : NamesNodup d = true) :
    Src.EnumType.new d = .ok (obj (mk d)) ∧ Reach d (obj (mk d)).st ∧ (obj (mk d)).vars = (mk d).memberMap :=
  ⟨new_eq d hnd, reach_mk d, rfl⟩

/-! ### lookups -/

/-- `cls(value)` (`EnumType.__call__`) as written is the model's `call`: the member `_value_map_` holds,
    ValueError otherwise -/
theorem src_call (cls : ClsObj ν) (v : Int) : Src.EnumType.call cls v = ofR (call cls.st v) :=
  call_eq cls v

/-- `cls[name]` (`EnumType.__getitem__`) as written is the model's `getitem`: KeyError otherwise -/
theorem src_getitem (cls : ClsObj ν) (n : ν) : Src.EnumType.getitem cls n = ofR (getitem cls.st n) :=
  getitem_eq cls n

/-- `cls.from_string(name)` as written is the model's `fromString`: ValueError otherwise -/
theorem src_from_string (cls : ClsObj ν) (n : ν) : Src.Enum.from_string cls n = ofR (fromString cls.st n) :=
  from_string_eq cls n

/-- `cls.try_value(value)` as written is the model's `tryValue`: result and class state afterwards;
    it never raises -/
theorem src_try_value (cls : ClsObj ν) (v : Int) :
    Src.Enum.try_value cls v = .ok ((tryValue cls.st v).2, { cls with st := (tryValue cls.st v).1 }) :=
  try_value_eq cls v

/-- `list(cls)`, `list(reversed(cls))`, `len(cls)` as written are the model's `iter`, `reversed`, `len` -/
theorem src_iter_len (cls : ClsObj ν) :
    Src.EnumType.iter cls = .ok (iter cls.st) ∧ Src.EnumType.reversed cls = .ok (reversed cls.st)
      ∧ Src.EnumType.len cls = .ok ((len cls.st : Nat) : Int) :=
  ⟨rfl, rfl, rfl⟩

/-- `x in cls` as written is the model's `contains` for an object of the class and `containsInt`
    (False) for a plain int; it never raises -/
theorem src_contains (cls : ClsObj ν) (m : Member ν) (i : Int) :
    Src.EnumType.contains cls (.member m) = .ok (contains cls.st m)
      ∧ Src.EnumType.contains cls (.int i) = .ok (containsInt cls.st i) :=
  ⟨contains_member_eq cls m, contains_int_eq cls i⟩

/-! ### mutation attempts, copies, pickling -/

/-- **`EnumType.__setattr__` / `__delattr__` and `Enum.__setattr__` / `__delattr__` as written always
    raise AttributeError**: for every class, member (open values included), attribute name — a member
    name or not — and value; none of them can return and none has access to a way of changing the class
    (their translations do not even thread it) -/
theorem src_setattr_raises (cls : ClsObj ν) (m : Member ν) (n : ν) (x : AnyVal) :
    Src.EnumType.setattr cls n x = .raise .attr ∧ Src.EnumType.delattr cls n = .raise .attr
      ∧ Src.Enum.setattr m n x = .raise .attr ∧ Src.Enum.delattr m x = .raise .attr :=
  ⟨rfl, rfl, rfl, rfl⟩

/-- `__copy__` / `__deepcopy__` as written return the object they were given -/
theorem src_copy (m : Member ν) (memo : AnyVal) :
    Src.Enum.copy m = .ok m ∧ Src.Enum.deepcopy m memo = .ok m :=
  ⟨rfl, rfl⟩

/-- `__getnewargs_ex__` as written hands pickle the name and the number of the member — not a request
    to look the number up (an open value could not be unpickled through `cls(value)`) -/
theorem src_getnewargs (m : Member ν) :
    Src.Enum.getnewargs_ex m = .ok { name := m.name, value := m.number } :=
  rfl

/-- **every operation of a lock-step run, carried out with the methods as written, gives the class
    state and the result of the model's `step`** (all operations except assignment through
    `__members__`, which no code of enum.py handles) -/
theorem src_step (attr : Attr → ν) (cls : ClsObj ν) (op : EnumM.Op ν) (hv : cls.vars = cls.st.memberMap)
    (r : Res (ClsObj ν × Out ν)) (h : srcStep attr cls op = some r) :
    r = .ok ({ cls with st := (step cls.st op).1 }, (step cls.st op).2) :=
  srcStep_eq attr cls op hv r h

/-! ### the property, of the source as written -/

/-- **sentence 1 of the source as written — looking a member up by number or by name returns the one
    canonical member object.**  For every definition `d`, the class `EnumType.__new__` as written
    builds from it and every later state of that class, and every declaration `(n, v)` of `d`:
    `cls[n]`, `getattr(cls, n)`, `cls.from_string(n)`, `cls(v)` and `cls.try_value(v)` — all as
    written — return the SAME object; its number is `v`, its name the first name declared with `v`;
    `try_value` leaves the class as it is. -/
theorem src_lookup_canonical (d : Decl ν) (hnd : NamesNodup d = true) (cls : ClsObj ν)
    (hr : Reach d cls.st) (hv : cls.vars = cls.st.memberMap) (n : ν) (v : Int) (hmem : (n, v) ∈ d) :
    ∃ m n0, Src.EnumType.getitem cls n = .ok m ∧ classVar cls n = .ok m
      ∧ Src.Enum.from_string cls n = .ok m ∧ Src.EnumType.call cls v = .ok m
      ∧ Src.Enum.try_value cls v = .ok (m, cls)
      ∧ m.number = v ∧ m.name = some n0 ∧ FirstName d v n0 := by
  obtain ⟨m, n0, h1, h2, h3, h4, h5, h6, h7, _⟩ := lookup_canonical d hnd cls.st hr n v hmem
  obtain ⟨m', e, hc, _⟩ := try_value_defined_is_canonical d cls.st hr v ⟨n, hmem⟩
  have hm : m' = m := by rw [h4] at hc; simpa using hc.symm
  subst hm
  have hobj : cls = obj cls.st := by cases cls; simp only [obj] at *; simp_all
  refine ⟨m', n0, ?_, ?_, ?_, ?_, ?_, h5, h6, h7⟩
  · rw [src_getitem, h1]; rfl
  · rw [hobj, classVar_eq, h2]; rfl
  · rw [src_from_string, h3]; rfl
  · rw [src_call, h4]; rfl
  · rw [src_try_value, e]

/-- … and that class exists: `EnumType.__new__` as written returns a class object in a state
    `Reach d`, with the declared names bound as attributes -/
theorem src_new_reach (d : Decl ν) (hnd : NamesNodup d = true) :
    ∃ cls, Src.EnumType.new d = .ok cls ∧ Reach d cls.st ∧ cls.vars = cls.st.memberMap :=
  ⟨obj (mk d), (src_new d hnd).1, reach_mk d, rfl⟩

/-- **sentence 2 of the source as written — `try_value` of a number the enum does not define returns a
    nameless member equal to that integer and does not change the class**: the returned value has that
    number, name None, equals exactly that integer; `_value_map_` and `_member_map_` afterwards are what
    they were (nothing is memoised: the state is still `Reach d`), `cls(v)` as written still raises
    ValueError and `value in cls` as written is False. -/
theorem src_try_value_open (d : Decl ν) (cls : ClsObj ν) (hr : Reach d cls.st) (v : Int)
    (hun : ¬ Defined d v) :
    ∃ m cls', Src.Enum.try_value cls v = .ok (m, cls') ∧ m.number = v ∧ m.name = none
      ∧ (∀ i : Int, m.eqInt i = true ↔ i = v)
      ∧ cls'.st.valueMap = cls.st.valueMap ∧ cls'.st.memberMap = cls.st.memberMap ∧ cls'.vars = cls.vars
      ∧ Reach d cls'.st
      ∧ Src.EnumType.call cls' v = .raise .value
      ∧ Src.EnumType.contains cls' (.member m) = .ok false := by
  obtain ⟨c', m, e, h1, h2, h3, h4, h5, _, h7⟩ := try_value_open d cls.st hr v hun
  refine ⟨m, { cls with st := c' }, ?_, h1, h2, h3, ?_, ?_, rfl, h4, ?_, ?_⟩
  · rw [src_try_value, e]
  · have := (tryValue_maps cls.st v).1; rw [e] at this; exact this
  · have := (tryValue_maps cls.st v).2; rw [e] at this; exact this
  · rw [src_call]; simp only; rw [h7]; rfl
  · rw [(src_contains _ m 0).1]; simp only; rw [h5]

/-- **sentence 3 of the source as written — every mutation attempt raises** and changes nothing: each
    of the four kinds of mutation attempt enum.py handles (`setattr` / `delattr` on the class,
    `setattr` / `delattr` on a member or open value), carried out with the methods as written, ends in
    an exception, and afterwards every lookup as written — by number, by name, `from_string`,
    iteration, `len` — gives what it gave before. -/
theorem src_immutable (attr : Attr → ν) (cls : ClsObj ν) (hv : cls.vars = cls.st.memberMap)
    (op : EnumM.Op ν) (hm : op.isMutation = true) (r : Res (ClsObj ν × Out ν))
    (h : srcStep attr cls op = some r) :
    ∃ cls' e, r = .ok (cls', .err e)
      ∧ (∀ v, Src.EnumType.call cls' v = Src.EnumType.call cls v)
      ∧ (∀ n, Src.EnumType.getitem cls' n = Src.EnumType.getitem cls n
            ∧ Src.Enum.from_string cls' n = Src.Enum.from_string cls n)
      ∧ Src.EnumType.iter cls' = Src.EnumType.iter cls ∧ Src.EnumType.len cls' = Src.EnumType.len cls := by
  have hs := src_step attr cls op hv r h
  obtain ⟨⟨e, he⟩, i1, i2, i3, i4, _⟩ := immutable cls.st op hm
  refine ⟨_, e, by rw [hs, he], ?_, ?_, ?_, ?_⟩
  · intro v; rw [src_call, src_call]; simp only; rw [i1 v]
  · intro n
    rw [src_getitem, src_getitem, src_from_string, src_from_string]; simp only
    rw [(i2 n).1, (i2 n).2.2]; exact ⟨rfl, rfl⟩
  · rw [(src_iter_len _).1, (src_iter_len _).1]; simp only; rw [i3]
  · rw [(src_iter_len _).2.2, (src_iter_len _).2.2]; simp only; rw [i4]

/-- pickling with the methods as written (`try_value`, `__getnewargs_ex__`, `cls.__new__(cls, **kwargs)`)
    gives a new object with the name and the number of the pickled one, for members, aliases and open
    values (`pickle_preserves`) -/
theorem src_pickle_preserves (attr : Attr → ν) (d : Decl ν) (cls : ClsObj ν) (hr : Reach d cls.st)
    (hv : cls.vars = cls.st.memberMap) (v : Int) (r : Res (ClsObj ν × Out ν))
    (h : srcStep attr cls (.pickle v) = some r) :
    ∃ cls' m' m, r = .ok (cls', .copied m' m) ∧ m'.name = m.name ∧ m'.number = m.number ∧ m'.number = v
      ∧ m'.same m = false ∧ Reach d cls'.st := by
  have hs := src_step attr cls (.pickle v) hv r h
  obtain ⟨c', m', m, e, _, h1, h2, h3, h4⟩ := pickle_preserves d cls.st hr v
  refine ⟨_, m', m, by rw [hs, e], h1, h2, h3, h4, ?_⟩
  have := reach_step d cls.st (.pickle v) hr
  rw [e] at this; exact this

/-! ### non-vacuity: the translated methods run on the definition `exD` of Props/C20.lean
    (`A = 1; NEG = -5; ALIAS = 1; ZERO = 0; MIN = -2**31`) -/

/-- the class `EnumType.__new__` as written builds from `exD` -/
def exCls : ClsObj Nat := obj (mk exD)

example : (Src.EnumType.new exD).bind (fun c => .ok (c.st.valueMap, c.st.memberMap, c.st.next))
    = .ok ((mk exD).valueMap, (mk exD).memberMap, 4) := by decide
example : Src.EnumType.getitem exCls 2 = .ok ⟨some 0, 1, 0⟩ ∧ Src.EnumType.call exCls 1 = .ok ⟨some 0, 1, 0⟩ := by decide
example : Src.EnumType.call exCls 7 = .raise .value ∧ Src.EnumType.getitem exCls 9 = .raise .key
    ∧ Src.Enum.from_string exCls 9 = .raise .value := by decide
example : (Src.Enum.try_value exCls 7).bind (fun p => .ok (p.1, p.2.st.valueMap.length, p.2.st.next))
    = .ok (⟨none, 7, 4⟩, 4, 5) := by decide
example : Src.EnumType.contains exCls (.member ⟨none, 7, 4⟩) = .ok false
    ∧ Src.EnumType.contains exCls (.member ⟨some 0, 1, 0⟩) = .ok true
    ∧ Src.EnumType.contains exCls (.int 1) = .ok false := by decide
example : Src.EnumType.len exCls = .ok 5 := by decide
/-- a repeated name (impossible for a dict) is where the dict store and the model's append differ -/
example : (Src.EnumType.new_loop (obj {}) [(0, 1), (0, 2)]).bind (fun c => .ok c.st.memberMap.length) = .ok 1
    ∧ (build {} [((0 : Nat), (1 : Int)), (0, 2)]).memberMap.length = 2 := by decide

end Bp.C20
