import BpModel.All
import BpModel.PyDict
import BpProofs.Presence
import BpProofs.Len
import BpProofs.JsonEqv
import BpProofs.EqSound
/-
  C14, the reads of an observer at EVERY nesting level.

  `getattr` on a PLACEHOLDER slot stores the field's default in the slot (`object.__setattr__`: no
  flag is touched).  `to_pydict` (and `to_dict`, `bytes`, …) does that to the message it is called
  on and, through its recursive calls, to sub-messages, to the items of repeated message fields, to
  the message values of map fields — and to the default sub-message it has just stored, when that one
  is written (selected oneof member / `include_default_values`).

  `MatV S v v'`: `v'` is `v` with SOME PLACEHOLDER slots of visible fields replaced by their defaults,
  at any depth, also inside the defaults that were stored.  This file proves that such a change is
  invisible (`WfSchemaOpt`: proto3-optional fields are singular non-map fields):
      `matV_dumpSlot` / `matV_dumpVal`   the bytes of every slot / of the message are the same,
      `matV_eqDefault`                   so is `value == default` (which `dump`, `to_dict`, `__bool__` test),
  and that the reads of `to_pydict` are such a change: `pyReads_mat`.
-/
namespace Bp
open Gen EqS

mutual
/-- a slot value / a message before and after reads -/
inductive MatV (S : Schema) : Val → Val → Prop
  | same (v : Val) : MatV S v v
  | list (xs ys : List Val) : MatL S xs ys → MatV S (.list xs) (.list ys)
  | dict (ks vs vs' : List Val) : MatL S vs vs' → MatV S (.dict ks vs) (.dict ks vs')
  | msg (c : Nat) (sl sl' : List Val) (ow : Bool) (unk : Bytes) (cur : List (Option Nat)) :
      MatSlots S (fieldsOf S c) cur 0 sl sl' → MatV S (.msg c sl ow unk cur) (.msg c sl' ow unk cur)
/-- the items of a list / the values of a dict: each one untouched, or a message that was read -/
inductive MatL (S : Schema) : List Val → List Val → Prop
  | nil : MatL S [] []
  | same (x : Val) (xs ys : List Val) : MatL S xs ys → MatL S (x :: xs) (x :: ys)
  | msg (c : Nat) (sl sl' : List Val) (ow : Bool) (unk : Bytes) (cur : List (Option Nat)) (xs ys : List Val) :
      MatSlots S (fieldsOf S c) cur 0 sl sl' → MatL S xs ys →
      MatL S (.msg c sl ow unk cur :: xs) (.msg c sl' ow unk cur :: ys)
/-- the raw slots from index `i` on: a slot keeps its value (itself possibly read), or a PLACEHOLDER
    slot of a field that is not a hidden oneof member receives the field's default (possibly read) -/
inductive MatSlots (S : Schema) : List FieldD → List (Option Nat) → Nat → List Val → List Val → Prop
  | nil (fs : List FieldD) (cur : List (Option Nat)) (i : Nat) : MatSlots S fs cur i [] []
  | keep (fs : List FieldD) (cur : List (Option Nat)) (i : Nat) (v v' : Val) (vs vs' : List Val) :
      MatV S v v' → MatSlots S fs cur (i + 1) vs vs' → MatSlots S fs cur i (v :: vs) (v' :: vs')
  | fill (fs : List FieldD) (cur : List (Option Nat)) (i : Nat) (f : FieldD) (d : Val) (vs vs' : List Val) :
      fs[i]? = some f → hidden f i cur = false → MatV S (defaultOf S f) d →
      MatSlots S fs cur (i + 1) vs vs' → MatSlots S fs cur i (.ph :: vs) (d :: vs')
end

/-! ### small facts -/

theorem matL_length (S : Schema) : ∀ (ys xs : List Val), MatL S xs ys → xs.length = ys.length
  | [], xs, h => by cases h; rfl
  | y :: ys, xs, h => by
    cases h with
    | same _ xs' _ hl => simp [matL_length S ys xs' hl]
    | msg _ _ _ _ _ _ xs' _ _ hl => simp [matL_length S ys xs' hl]

theorem matL_refl (S : Schema) : ∀ xs : List Val, MatL S xs xs
  | [] => MatL.nil
  | x :: xs => MatL.same x xs xs (matL_refl S xs)

theorem matSlots_refl (S : Schema) (fs : List FieldD) (cur : List (Option Nat)) : ∀ (vs : List Val) (i : Nat), MatSlots S fs cur i vs vs
  | [], i => MatSlots.nil fs cur i
  | v :: vs, i => MatSlots.keep fs cur i v v vs vs (MatV.same v) (matSlots_refl S fs cur vs (i + 1))

/-- a read never turns a value into PLACEHOLDER or PLACEHOLDER into a value (except by `fill`) -/
theorem matV_ph (S : Schema) (v v' : Val) (h : MatV S v v') : (v = .ph ↔ v' = .ph) := by
  cases h <;> simp

theorem matV_of_ph (S : Schema) (v' : Val) (h : MatV S .ph v') : v' = .ph := by cases h; rfl
theorem matV_of_none (S : Schema) (v' : Val) (h : MatV S .none v') : v' = .none := by cases h; rfl

theorem drop_cases (fs : List FieldD) (i : Nat) :
    (fs[i]? = Option.none ∧ fs.drop i = []) ∨ (∃ f, fs[i]? = some f ∧ fs.drop i = f :: fs.drop (i + 1)) := by
  by_cases h : i < fs.length
  · right
    exact ⟨fs[i], List.getElem?_eq_getElem h, List.drop_eq_getElem_cons h⟩
  · left
    exact ⟨List.getElem?_eq_none (by omega), List.drop_eq_nil_of_le (by omega)⟩

theorem slotsEqFresh_nil_fields (S : Schema) (vs : List Val) : slotsEqFresh S [] vs = true := by
  rw [slotsEqFresh]; intros; contradiction

theorem slotsEqFresh_nil_slots (S : Schema) (fs : List FieldD) : slotsEqFresh S fs [] = true := by
  rw [slotsEqFresh]; intros; contradiction

/-- `value == default` for one raw slot against that of a fresh instance -/
def eqFreshSlot (S : Schema) (f : FieldD) : Val → Bool
  | .ph => true
  | v => eqDefault S f.defKind v

theorem slotsEqFresh_cons (S : Schema) (f : FieldD) (fs : List FieldD) (v : Val) (vs : List Val) :
    slotsEqFresh S (f :: fs) (v :: vs) = (eqFreshSlot S f v && slotsEqFresh S fs vs) := by
  cases v <;> simp [slotsEqFresh, eqFreshSlot]

/-- the default a read stores compares equal to the default -/
theorem eqDefault_default (S : Schema) (hw : WfSchemaOpt S) (f : FieldD) : eqDefault S f.defKind (defaultOf S f) = true := by
  unfold defaultOf
  cases hk : f.defKind with
  | msg c => exact eqDefault_fresh S c hw
  | _ => simp [defaultOfKind, eqDefault, f32IsZero, f64IsZero]

theorem defaultOf_ne_ph (S : Schema) (f : FieldD) : defaultOf S f ≠ .ph := by
  unfold defaultOf
  cases f.defKind <;> simp [defaultOfKind, fresh]

/-! ### `value == default` does not see the reads -/

mutual
theorem matV_eqDefault (S : Schema) (hw : WfSchemaOpt S) : ∀ (v' v : Val), MatV S v v' → ∀ k, eqDefault S k v' = eqDefault S k v
  | .list ys, v, h, k => by
    cases h with
    | same => rfl
    | list xs _ hl =>
      have := matL_length S ys xs hl
      rw [eqDefault, eqDefault]
      cases xs <;> cases ys <;> simp_all
  | .dict ks vs', v, h, k => by
    cases h with
    | same => rfl
    | dict _ vs _ hl => rw [eqDefault, eqDefault]
  | .msg c sl' ow unk cur, v, h, k => by
    cases h with
    | same => rfl
    | msg _ sl _ _ _ _ hs =>
      have := matSlots_eqFresh S hw sl' (fieldsOf S c) cur 0 sl hs
      rw [List.drop_zero] at this
      cases k <;> simp [eqDefault, this]
  | .ph, v, h, k | .none, v, h, k | .int _, v, h, k | .bool _, v, h, k | .f32 _, v, h, k | .f64 _, v, h, k
  | .str _, v, h, k | .byt _, v, h, k | .ts _, v, h, k | .dur _, v, h, k => by cases h; rfl

theorem matSlots_eqFresh (S : Schema) (hw : WfSchemaOpt S) : ∀ (sl' : List Val) (fs : List FieldD) (cur : List (Option Nat))
    (i : Nat) (sl : List Val), MatSlots S fs cur i sl sl' →
    slotsEqFresh S (fs.drop i) sl' = slotsEqFresh S (fs.drop i) sl
  | [], fs, cur, i, sl, h => by cases h; rfl
  | v' :: vs', fs, cur, i, sl, h => by
    cases h with
    | keep _ _ _ v _ vs _ hv hs =>
      have ih := matSlots_eqFresh S hw vs' fs cur (i + 1) vs hs
      have hv' := matV_eqDefault S hw v' v hv
      rcases drop_cases fs i with ⟨_, hd⟩ | ⟨f, _, hd⟩
      · rw [hd, slotsEqFresh_nil_fields, slotsEqFresh_nil_fields]
      · rw [hd, slotsEqFresh_cons, slotsEqFresh_cons, ih]
        congr 1
        have hp := matV_ph S v v' hv
        by_cases hph : v = .ph
        · rw [hph, hp.mp hph]
        · have hph' : v' ≠ .ph := fun e => hph (hp.mpr e)
          have e1 : eqFreshSlot S f v' = eqDefault S f.defKind v' := by cases v' <;> first | rfl | exact absurd rfl hph'
          have e2 : eqFreshSlot S f v = eqDefault S f.defKind v := by cases v <;> first | rfl | exact absurd rfl hph
          rw [e1, e2, hv']
    | fill _ _ _ f _ vs _ hf hh hd' hs =>
      have ih := matSlots_eqFresh S hw vs' fs cur (i + 1) vs hs
      have hv' := matV_eqDefault S hw v' (defaultOf S f) hd'
      rcases drop_cases fs i with ⟨hn, _⟩ | ⟨f', hf', hd⟩
      · rw [hn] at hf; cases hf
      · rw [hf] at hf'; injection hf' with hf'; subst hf'
        rw [hd, slotsEqFresh_cons, slotsEqFresh_cons, ih]
        congr 1
        have hne : v' ≠ .ph := by
          intro e
          have := (matV_ph S _ _ hd').mpr e
          exact defaultOf_ne_ph S f this
        have e1 : eqFreshSlot S f v' = eqDefault S f.defKind v' := by cases v' <;> first | rfl | exact absurd rfl hne
        rw [e1, hv', eqDefault_default S hw f]; rfl
end

/-! ### the encoder does not see the reads -/

theorem dumpSlots_nil (S : Schema) (fs : List FieldD) (cur : List (Option Nat)) (i : Nat) : dumpSlots S fs cur i [] = .ok [] := by
  rw [dumpSlots]

theorem dumpSlots_cons (S : Schema) (fs : List FieldD) (cur : List (Option Nat)) (i : Nat) (v : Val) (vs : List Val) :
    dumpSlots S fs cur i (v :: vs) =
      (match fs[i]? with
       | Option.none => .ok []
       | some f =>
         (dumpSlot S f (hidden f i cur) (selectedInGroup f i cur) v).bind fun a =>
         (dumpSlots S fs cur (i + 1) vs).bind fun b => .ok (a ++ b)) := by
  rw [dumpSlots]
  cases fs[i]? <;> rfl

mutual
theorem matV_dumpSlot (S : Schema) (hw : WfSchemaOpt S) : ∀ (v' v : Val), MatV S v v' →
    ∀ (f : FieldD) (hid sel : Bool), dumpSlot S f hid sel v' = dumpSlot S f hid sel v
  | .list ys, v, h, f, hid, sel => by
    cases h with
    | same => rfl
    | list xs _ hl =>
      have he := matV_eqDefault S hw (.list ys) (.list xs) (MatV.list xs ys hl) f.defKind
      have hp := matL_prepPacked S hw ys xs hl f.ty
      have hi := matL_dumpItems S hw ys xs hl f
      rw [dumpSlot, dumpSlot, he, hp, hi]
  | .dict ks vs', v, h, f, hid, sel => by
    cases h with
    | same => rfl
    | dict _ vs _ hl =>
      have he := matV_eqDefault S hw (.dict ks vs') (.dict ks vs) (MatV.dict ks vs vs' hl) f.defKind
      have hi := matL_dumpEntries S hw vs' vs hl f ks
      rw [dumpSlot, dumpSlot, he, hi]
  | .msg c sl' ow unk cur, v, h, f, hid, sel => by
    cases h with
    | same => rfl
    | msg _ sl _ _ _ _ hs =>
      have he := matV_eqDefault S hw (.msg c sl' ow unk cur) (.msg c sl ow unk cur) (MatV.msg c sl sl' ow unk cur hs) f.defKind
      have hd := matSlots_dumpSlots S hw sl' (fieldsOf S c) cur 0 sl hs
      rw [dumpSlot, dumpSlot, he, hd]
  | .ph, v, h, f, hid, sel | .none, v, h, f, hid, sel | .int _, v, h, f, hid, sel | .bool _, v, h, f, hid, sel
  | .f32 _, v, h, f, hid, sel | .f64 _, v, h, f, hid, sel | .str _, v, h, f, hid, sel | .byt _, v, h, f, hid, sel
  | .ts _, v, h, f, hid, sel | .dur _, v, h, f, hid, sel => by cases h; rfl

theorem matL_prepPacked (S : Schema) (hw : WfSchemaOpt S) : ∀ (ys xs : List Val), MatL S xs ys →
    ∀ t, prepPacked S t ys = prepPacked S t xs
  | [], xs, h, t => by cases h; rfl
  | .msg c sl' ow unk cur :: ys, xs, h, t => by
    cases h with
    | same _ xs' _ hl => rw [prepPacked, prepPacked, matL_prepPacked S hw ys xs' hl t]
    | msg _ sl _ _ _ _ xs' _ hs hl =>
      rw [prepPacked, prepPacked, matL_prepPacked S hw ys xs' hl t, prepScalar_msg S t c sl' ow unk cur c sl ow unk cur]
  | .ph :: ys, xs, h, t | .none :: ys, xs, h, t | .int _ :: ys, xs, h, t | .bool _ :: ys, xs, h, t
  | .f32 _ :: ys, xs, h, t | .f64 _ :: ys, xs, h, t | .str _ :: ys, xs, h, t | .byt _ :: ys, xs, h, t
  | .ts _ :: ys, xs, h, t | .dur _ :: ys, xs, h, t | .list _ :: ys, xs, h, t | .dict _ _ :: ys, xs, h, t => by
    cases h with
    | same _ xs' _ hl =>
      rw [prepPacked, prepPacked, matL_prepPacked S hw ys xs' hl t]
      all_goals (intros; contradiction)

theorem matL_dumpItems (S : Schema) (hw : WfSchemaOpt S) : ∀ (ys xs : List Val), MatL S xs ys →
    ∀ f, dumpItems S f ys = dumpItems S f xs
  | [], xs, h, f => by cases h; rfl
  | .msg c sl' ow unk cur :: ys, xs, h, f => by
    cases h with
    | same _ xs' _ hl => rw [dumpItems, dumpItems, matL_dumpItems S hw ys xs' hl f]
    | msg _ sl _ _ _ _ xs' _ hs hl =>
      rw [dumpItems, dumpItems, matL_dumpItems S hw ys xs' hl f, matSlots_dumpSlots S hw sl' (fieldsOf S c) cur 0 sl hs]
  | .ph :: ys, xs, h, f | .none :: ys, xs, h, f | .int _ :: ys, xs, h, f | .bool _ :: ys, xs, h, f
  | .f32 _ :: ys, xs, h, f | .f64 _ :: ys, xs, h, f | .str _ :: ys, xs, h, f | .byt _ :: ys, xs, h, f
  | .ts _ :: ys, xs, h, f | .dur _ :: ys, xs, h, f | .list _ :: ys, xs, h, f | .dict _ _ :: ys, xs, h, f => by
    cases h with
    | same _ xs' _ hl =>
      rw [dumpItems, dumpItems, matL_dumpItems S hw ys xs' hl f]
      all_goals (intros; contradiction)

theorem matL_dumpEntries (S : Schema) (hw : WfSchemaOpt S) : ∀ (ys xs : List Val), MatL S xs ys →
    ∀ f ks, dumpEntries S f ks ys = dumpEntries S f ks xs
  | [], xs, h, f, ks => by cases h; rfl
  | .msg c sl' ow unk cur :: ys, xs, h, f, ks => by
    cases h with
    | same _ xs' _ hl =>
      cases ks with
      | nil => rw [dumpEntries, dumpEntries] <;> (intros; contradiction)
      | cons k ks => rw [dumpEntries, dumpEntries, matL_dumpEntries S hw ys xs' hl f ks]
    | msg _ sl _ _ _ _ xs' _ hs hl =>
      cases ks with
      | nil => rw [dumpEntries, dumpEntries] <;> (intros; contradiction)
      | cons k ks =>
        rw [dumpEntries, dumpEntries, matL_dumpEntries S hw ys xs' hl f ks,
          matSlots_dumpSlots S hw sl' (fieldsOf S c) cur 0 sl hs]
  | .ph :: ys, xs, h, f, ks | .none :: ys, xs, h, f, ks | .int _ :: ys, xs, h, f, ks | .bool _ :: ys, xs, h, f, ks
  | .f32 _ :: ys, xs, h, f, ks | .f64 _ :: ys, xs, h, f, ks | .str _ :: ys, xs, h, f, ks | .byt _ :: ys, xs, h, f, ks
  | .ts _ :: ys, xs, h, f, ks | .dur _ :: ys, xs, h, f, ks | .list _ :: ys, xs, h, f, ks | .dict _ _ :: ys, xs, h, f, ks => by
    cases h with
    | same _ xs' _ hl =>
      cases ks with
      | nil => rw [dumpEntries, dumpEntries] <;> (intros; contradiction)
      | cons k ks =>
        rw [dumpEntries, dumpEntries, matL_dumpEntries S hw ys xs' hl f ks]
        all_goals (intros; contradiction)

theorem matSlots_dumpSlots (S : Schema) (hw : WfSchemaOpt S) : ∀ (sl' : List Val) (fs : List FieldD) (cur : List (Option Nat))
    (i : Nat) (sl : List Val), MatSlots S fs cur i sl sl' → dumpSlots S fs cur i sl' = dumpSlots S fs cur i sl
  | [], fs, cur, i, sl, h => by cases h; rfl
  | v' :: vs', fs, cur, i, sl, h => by
    cases h with
    | keep _ _ _ v _ vs _ hv hs =>
      rw [dumpSlots_cons, dumpSlots_cons, matSlots_dumpSlots S hw vs' fs cur (i + 1) vs hs]
      cases fs[i]? with
      | none => rfl
      | some f => simp only [matV_dumpSlot S hw v' v hv f]
    | fill _ _ _ f _ vs _ hf hh hd hs =>
      rw [dumpSlots_cons, dumpSlots_cons, matSlots_dumpSlots S hw vs' fs cur (i + 1) vs hs, hf]
      simp only [hh, matV_dumpSlot S hw v' (defaultOf S f) hd f, dumpSlot_default S hw f]
      rw [dumpSlot]
      simp
end

/-- **the bytes of a message do not change by reads at any depth** -/
theorem matV_dumpVal (S : Schema) (hw : WfSchemaOpt S) (v v' : Val) (h : MatV S v v') : dumpVal S v' = dumpVal S v := by
  cases h with
  | same => rfl
  | list xs ys hl => rw [dumpVal, dumpVal] <;> (intros; contradiction)
  | dict ks vs vs' hl => rw [dumpVal, dumpVal] <;> (intros; contradiction)
  | msg c sl sl' ow unk cur hs =>
    rw [dumpVal_msg, dumpVal_msg, matSlots_dumpSlots S hw sl' (fieldsOf S c) cur 0 sl hs]

/-- … nor does `len(m)` -/
theorem matV_lenVal (S : Schema) (hw : WfSchemaOpt S) (v v' : Val) (h : MatV S v v') : lenVal S v' = lenVal S v := by
  rw [lenVal_eq, lenVal_eq, matV_dumpVal S hw v v' h]

/-! ### the reads of `to_pydict` are such a change -/

theorem freshRead_slots (S : Schema) (cur : List (Option Nat)) (fs : List FieldD) :
    ∀ (suf pre : List FieldD), fs = pre ++ suf →
      MatSlots S fs cur pre.length
        (suf.map fun f => if f.optional then Val.none else Val.ph)
        (suf.map fun f => if f.optional then Val.none else if f.group.isSome then Val.ph else defaultOf S f)
  | [], pre, _ => MatSlots.nil fs cur pre.length
  | f :: suf, pre, h => by
    have ih := freshRead_slots S cur fs suf (pre ++ [f]) (by rw [h]; simp)
    simp only [List.length_append, List.length_cons, List.length_nil, Nat.zero_add] at ih
    have hf : fs[pre.length]? = some f := by rw [h]; simp
    rw [List.map_cons, List.map_cons]
    by_cases ho : f.optional = true
    · simp only [ho, if_true]
      exact MatSlots.keep fs cur pre.length _ _ _ _ (MatV.same _) ih
    · simp only [ho, Bool.false_eq_true, if_false]
      by_cases hg : f.group.isSome = true
      · simp only [hg, if_true]
        exact MatSlots.keep fs cur pre.length _ _ _ _ (MatV.same _) ih
      · simp only [hg, Bool.false_eq_true, if_false]
        have hh : hidden f pre.length cur = false := by
          unfold hidden
          cases hgg : f.group with
          | none => rfl
          | some g => rw [hgg] at hg; simp at hg
        exact MatSlots.fill fs cur pre.length f _ _ _ hf hh (MatV.same _) ih

/-- a fresh instance and the same after its own `to_pydict()` -/
theorem freshRead_mat (S : Schema) (c : Nat) : MatV S (fresh S c) (freshRead S c) := by
  unfold fresh freshRead
  exact MatV.msg c _ _ false [] _ (freshRead_slots S _ (fieldsOf S c) (fieldsOf S c) [] rfl)

/-- what a read stores in a PLACEHOLDER slot is the default, possibly read itself -/
theorem pyReadsSlot_ph_mat (S : Schema) (f : FieldD) (sel : Bool) : MatV S (defaultOf S f) (pyReadsSlot S f sel .ph) := by
  rw [pyReadsSlot]
  unfold defaultOf
  cases hk : f.defKind with
  | msg c =>
    simp only [defaultOfKind]
    split
    · exact freshRead_mat S c
    · exact MatV.same _
  | _ => exact MatV.same _

mutual
theorem pyReads_mat (S : Schema) : ∀ v : Val, MatV S v (pyReads S v)
  | .msg c sl ow unk cur => by
    rw [pyReads]
    exact MatV.msg c sl _ ow unk cur (pyReadsSlots_mat S (fieldsOf S c) cur sl 0)
  | .ph | .none | .int _ | .bool _ | .f32 _ | .f64 _ | .str _ | .byt _ | .ts _ | .dur _ | .list _ | .dict _ _ => by
    rw [pyReads]
    · exact MatV.same _
    all_goals (intros; contradiction)

theorem pyReadsSlots_mat (S : Schema) (fs : List FieldD) (cur : List (Option Nat)) : ∀ (vs : List Val) (i : Nat),
    MatSlots S fs cur i vs (pyReadsSlots S fs cur i vs)
  | [], i => by rw [pyReadsSlots]; exact MatSlots.nil fs cur i
  | v :: vs, i => by
    rw [pyReadsSlots]
    have ih := pyReadsSlots_mat S fs cur vs (i + 1)
    cases hf : fs[i]? with
    | none => exact MatSlots.keep fs cur i v v _ _ (MatV.same v) ih
    | some f =>
      simp only
      by_cases hh : hidden f i cur = true
      · rw [if_pos hh]; exact MatSlots.keep fs cur i v v _ _ (MatV.same v) ih
      · rw [if_neg hh]
        have hh' : hidden f i cur = false := by simpa using hh
        by_cases hp : v = .ph
        · subst hp
          exact MatSlots.fill fs cur i f _ _ _ hf hh' (pyReadsSlot_ph_mat S f _) ih
        · exact MatSlots.keep fs cur i v _ _ _ (pyReadsSlot_mat S f _ v hp) ih

theorem pyReadsSlot_mat (S : Schema) (f : FieldD) (sel : Bool) : ∀ v : Val, v ≠ .ph → MatV S v (pyReadsSlot S f sel v)
  | .ph, h => absurd rfl h
  | .list xs, _ => by rw [pyReadsSlot]; exact MatV.list xs _ (pyReadsList_mat S xs)
  | .dict ks vs, _ => by rw [pyReadsSlot]; exact MatV.dict ks vs _ (pyReadsList_mat S vs)
  | .msg c sl ow unk cur, _ => by
    rw [pyReadsSlot]
    split
    · exact MatV.msg c sl _ ow unk cur (pyReadsSlots_mat S (fieldsOf S c) cur sl 0)
    · exact MatV.same _
  | .none, _ | .int _, _ | .bool _, _ | .f32 _, _ | .f64 _, _ | .str _, _ | .byt _, _ | .ts _, _ | .dur _, _ => by
    rw [pyReadsSlot]
    · exact MatV.same _
    all_goals (intros; contradiction)

theorem pyReadsList_mat (S : Schema) : ∀ xs : List Val, MatL S xs (pyReadsList S xs)
  | [] => by rw [pyReadsList]; exact MatL.nil
  | .msg c sl ow unk cur :: xs => by
    rw [pyReadsList]
    exact MatL.msg c sl _ ow unk cur xs _ (pyReadsSlots_mat S (fieldsOf S c) cur sl 0) (pyReadsList_mat S xs)
  | .ph :: xs | .none :: xs | .int _ :: xs | .bool _ :: xs | .f32 _ :: xs | .f64 _ :: xs | .str _ :: xs | .byt _ :: xs
  | .ts _ :: xs | .dur _ :: xs | .list _ :: xs | .dict _ _ :: xs => by
    rw [pyReadsList]
    · exact MatL.same _ xs _ (pyReadsList_mat S xs)
    all_goals (intros; contradiction)
end

/-! ### `==` does not see the reads -/

theorem matV_none (S : Schema) (v v' : Val) (h : MatV S v v') : (v = .none ↔ v' = .none) := by
  cases h <;> simp

theorem slotsDef_fresh (S : Schema) : ∀ fs : List FieldD, slotsDef S fs (fs.map freshVal) = true
  | [] => slotsDef_nil S []
  | f :: fs => by
    rw [List.map_cons, slotsDef_cons, slotsDef_fresh S fs]
    unfold slotDefB freshVal
    cases f.optional <;> simp

/-- the default compares equal to the default -/
theorem defEq_default (S : Schema) (k : DefKind) : defEq S k (defaultOfKind S k) = true := by
  cases k with
  | msg c =>
    simp only [defaultOfKind]
    rw [fresh_slots, defEq]
    simp [slotsDef_fresh]
  | list => simp only [defaultOfKind]; rw [defEq]; rfl
  | dict => simp only [defaultOfKind]; rw [defEq]; rfl
  | none | int | bool | f32 | f64 | str | byt | ts | dur =>
    simp only [defaultOfKind]; rw [defEq]; rfl

theorem defaultOfKind_none (S : Schema) (k : DefKind) (h : defaultOfKind S k = .none) : k = .none := by
  cases k <;> simp [defaultOfKind, fresh] at h ⊢

mutual
theorem matV_defEq (S : Schema) (hw : WfSchemaOpt S) : ∀ (v' v : Val), MatV S v v' → ∀ k, defEq S k v' = defEq S k v
  | .list ys, v, h, k => by
    cases h with
    | same => rfl
    | list xs _ hl =>
      have := matL_length S ys xs hl
      rw [defEq, defEq]
      cases xs <;> cases ys <;> simp_all
  | .dict ks vs', v, h, k => by
    cases h with
    | same => rfl
    | dict _ vs _ hl => rw [defEq, defEq]
  | .msg c sl' ow unk cur, v, h, k => by
    cases h with
    | same => rfl
    | msg _ sl _ _ _ _ hs =>
      have := matSlots_slotsDef S hw sl' (fieldsOf S c) cur 0 sl (hw c) hs
      rw [List.drop_zero] at this
      cases k <;> simp [defEq, this]
  | .ph, v, h, k | .none, v, h, k | .int _, v, h, k | .bool _, v, h, k | .f32 _, v, h, k | .f64 _, v, h, k
  | .str _, v, h, k | .byt _, v, h, k | .ts _, v, h, k | .dur _, v, h, k => by cases h; rfl

theorem matSlots_slotsDef (S : Schema) (hw : WfSchemaOpt S) : ∀ (sl' : List Val) (fs : List FieldD) (cur : List (Option Nat))
    (i : Nat) (sl : List Val), WfOptional fs → MatSlots S fs cur i sl sl' →
    slotsDef S (fs.drop i) sl' = slotsDef S (fs.drop i) sl
  | [], fs, cur, i, sl, _, h => by cases h; rfl
  | v' :: vs', fs, cur, i, sl, hwo, h => by
    cases h with
    | keep _ _ _ v _ vs _ hv hs =>
      have ih := matSlots_slotsDef S hw vs' fs cur (i + 1) vs hwo hs
      have hv' := matV_defEq S hw v' v hv
      rcases drop_cases fs i with ⟨_, hd⟩ | ⟨f, _, hd⟩
      · rw [hd, slotsDef_nil_fields, slotsDef_nil_fields]
      · rw [hd, slotsDef_cons, slotsDef_cons, ih]
        congr 1
        have hp := matV_ph S v v' hv
        have hn := matV_none S v v' hv
        by_cases hph : v = .ph
        · rw [hph, hp.mp hph]
        · by_cases hnn : v = .none
          · rw [hnn, hn.mp hnn]
          · have hph' : v' ≠ .ph := fun e => hph (hp.mpr e)
            have hnn' : v' ≠ .none := fun e => hnn (hn.mpr e)
            have e1 : slotDefB S f v' = if f.optional then false else defEq S f.defKind v' := by
              cases v' <;> first | rfl | exact absurd rfl hph' | exact absurd rfl hnn'
            have e2 : slotDefB S f v = if f.optional then false else defEq S f.defKind v := by
              cases v <;> first | rfl | exact absurd rfl hph | exact absurd rfl hnn
            rw [e1, e2, hv']
    | fill _ _ _ f _ vs _ hf hh hd' hs =>
      have ih := matSlots_slotsDef S hw vs' fs cur (i + 1) vs hwo hs
      have hv' := matV_defEq S hw v' (defaultOf S f) hd'
      rcases drop_cases fs i with ⟨hn, _⟩ | ⟨f', hf', hd⟩
      · rw [hn] at hf; cases hf
      · rw [hf] at hf'; injection hf' with hf'; subst hf'
        rw [hd, slotsDef_cons, slotsDef_cons, ih]
        congr 1
        have hfm : f ∈ fs := List.mem_of_getElem? hf
        have hne : v' ≠ .ph := fun e => defaultOf_ne_ph S f ((matV_ph S _ _ hd').mpr e)
        by_cases ho : f.optional = true
        · -- an optional field: the default is None, and stays None
          have hk : f.defKind = .none := by
            have := hwo f hfm ho
            unfold FieldD.defKind; simp [ho, this.1, this.2]
          have hdn : defaultOf S f = .none := by unfold defaultOf; rw [hk]; rfl
          rw [hdn] at hd'
          have := matV_of_none S v' hd'
          subst this
          simp [slotDefB, ho, hk, atomDefEq, defAtom, atomEq]
        · have ho' : f.optional = false := by simpa using ho
          by_cases hnn : v' = .none
          · subst hnn
            have hdn : defaultOf S f = .none := (matV_none S _ _ hd').mpr rfl
            have hk : f.defKind = .none := defaultOfKind_none S _ hdn
            simp [slotDefB, ho', hk, atomDefEq, defAtom, atomEq]
          · have e1 : slotDefB S f v' = if f.optional then false else defEq S f.defKind v' := by
              cases v' <;> first | rfl | exact absurd rfl hne | exact absurd rfl hnn
            rw [e1, hv']
            unfold defaultOf
            rw [defEq_default]
            simp [slotDefB, ho']
end

/-- what a read stores compares equal to the default, however far it was read itself -/
theorem matV_default_defEq (S : Schema) (hw : WfSchemaOpt S) (f : FieldD) (d : Val) (h : MatV S (defaultOf S f) d) :
    defEq S f.defKind d = true := by
  rw [matV_defEq S hw d (defaultOf S f) h]
  unfold defaultOf
  exact defEq_default S f.defKind

theorem slotsOk_drop (S : Schema) (fs : List FieldD) (i : Nat) (v : Val) (vs : List Val) (h : SlotsOk S (fs.drop i) (v :: vs)) :
    ∃ f, fs[i]? = some f ∧ fs.drop i = f :: fs.drop (i + 1) ∧ SlotOk S f v ∧ SlotsOk S (fs.drop (i + 1)) vs := by
  rcases drop_cases fs i with ⟨_, hd⟩ | ⟨f, hf, hd⟩
  · rw [hd] at h; cases h
  · rw [hd] at h
    cases h with
    | cons _ _ _ _ h1 h2 => exact ⟨f, hf, hd, h1, h2⟩

mutual
theorem matV_valEq (S : Schema) (hw : WfSchemaOpt S) : ∀ (v' v : Val), MatV S v v' → DeepOk S v →
    valEq S v v' = true ∧ valEq S v' v = true
  | .list ys, v, h, hd => by
    cases h with
    | same => exact ⟨valEq_refl S _ hd, valEq_refl S _ hd⟩
    | list xs _ hl =>
      rw [DeepOk] at hd
      rw [valEq_list_list, valEq_list_list]
      exact matL_listEq S hw ys xs hl hd
  | .dict ks vs', v, h, hd => by
    cases h with
    | same => exact ⟨valEq_refl S _ hd, valEq_refl S _ hd⟩
    | dict _ vs _ hl =>
      rw [DeepOk] at hd
      obtain ⟨h1, h2, h3, h4⟩ := hd
      have hle := matL_length S vs' vs hl
      have := matL_listEq S hw vs' vs hl h4
      exact ⟨valEq_dict_same_keys S ks vs vs' h1 h2 h3 this.1,
             valEq_dict_same_keys S ks vs' vs (by omega) h2 h3 this.2⟩
  | .msg c sl' ow unk cur, v, h, hd => by
    cases h with
    | same => exact ⟨valEq_refl S _ hd, valEq_refl S _ hd⟩
    | msg _ sl _ _ _ _ hs =>
      rw [DeepOk] at hd
      cases hd with
      | mk _ d _ _ _ _ hdd _ _ _ _ _ _ _ hsl _ =>
        have hfs := fieldsOf_eq S c d hdd
        rw [← hfs] at hsl
        have := matSlots_slotsEq S hw sl' (fieldsOf S c) cur 0 sl hs (by rw [List.drop_zero]; exact hsl)
        rw [List.drop_zero] at this
        rw [valEq_msg_msg, valEq_msg_msg]
        simp [this.1, this.2]
  | .ph, v, h, hd | .none, v, h, hd | .int _, v, h, hd | .bool _, v, h, hd | .f32 _, v, h, hd | .f64 _, v, h, hd
  | .str _, v, h, hd | .byt _, v, h, hd | .ts _, v, h, hd | .dur _, v, h, hd => by
    cases h; exact ⟨valEq_refl S _ hd, valEq_refl S _ hd⟩

theorem matL_listEq (S : Schema) (hw : WfSchemaOpt S) : ∀ (ys xs : List Val), MatL S xs ys → DeepOkL S xs →
    listEq S xs ys = true ∧ listEq S ys xs = true
  | [], xs, h, _ => by cases h; exact ⟨by rw [listEq], by rw [listEq]⟩
  | .msg c sl' ow unk cur :: ys, xs, h, hd => by
    cases h with
    | same _ xs' _ hl =>
      rw [DeepOkL] at hd
      have ih := matL_listEq S hw ys xs' hl hd.2
      rw [listEq_cons, listEq_cons, valEq_refl S _ hd.1, ih.1, ih.2]; exact ⟨rfl, rfl⟩
    | msg _ sl _ _ _ _ xs' _ hs hl =>
      rw [DeepOkL] at hd
      have ih := matL_listEq S hw ys xs' hl hd.2
      have hm := hd.1
      rw [DeepOk] at hm
      cases hm with
      | mk _ d _ _ _ _ hdd _ _ _ _ _ _ _ hsl _ =>
        have hfs := fieldsOf_eq S c d hdd
        rw [← hfs] at hsl
        have := matSlots_slotsEq S hw sl' (fieldsOf S c) cur 0 sl hs (by rw [List.drop_zero]; exact hsl)
        rw [List.drop_zero] at this
        rw [listEq_cons, listEq_cons, valEq_msg_msg, valEq_msg_msg, ih.1, ih.2]
        simp [this.1, this.2]
  | .ph :: ys, xs, h, hd | .none :: ys, xs, h, hd | .int _ :: ys, xs, h, hd | .bool _ :: ys, xs, h, hd
  | .f32 _ :: ys, xs, h, hd | .f64 _ :: ys, xs, h, hd | .str _ :: ys, xs, h, hd | .byt _ :: ys, xs, h, hd
  | .ts _ :: ys, xs, h, hd | .dur _ :: ys, xs, h, hd | .list _ :: ys, xs, h, hd | .dict _ _ :: ys, xs, h, hd => by
    cases h with
    | same _ xs' _ hl =>
      rw [DeepOkL] at hd
      have ih := matL_listEq S hw ys xs' hl hd.2
      rw [listEq_cons, listEq_cons, valEq_refl S _ hd.1, ih.1, ih.2]; exact ⟨rfl, rfl⟩

theorem matSlots_slotsEq (S : Schema) (hw : WfSchemaOpt S) : ∀ (sl' : List Val) (fs : List FieldD) (cur : List (Option Nat))
    (i : Nat) (sl : List Val), MatSlots S fs cur i sl sl' → SlotsOk S (fs.drop i) sl →
    slotsEq S (fs.drop i) sl sl' = true ∧ slotsEq S (fs.drop i) sl' sl = true
  | [], fs, cur, i, sl, h, _ => by cases h; exact ⟨slotsEq_nil_left S _ _, slotsEq_nil_left S _ _⟩
  | v' :: vs', fs, cur, i, sl, h, hok => by
    cases h with
    | keep _ _ _ v _ vs _ hv hs =>
      obtain ⟨f, hf, hd, h1, h2⟩ := slotsOk_drop S fs i v vs hok
      have ih := matSlots_slotsEq S hw vs' fs cur (i + 1) vs hs h2
      rw [hd, slotsEq_cons, slotsEq_cons, ih.1, ih.2]
      have hp := matV_ph S v v' hv
      by_cases hph : v = .ph
      · rw [hph, hp.mp hph]; exact ⟨rfl, rfl⟩
      · have hph' : v' ≠ .ph := fun e => hph (hp.mpr e)
        have hve := matV_valEq S hw v' v hv (slotOk_deepOk S f v h1)
        rw [slotEqB_set S f v v' hph hph', slotEqB_set S f v' v hph' hph, hve.1, hve.2]; exact ⟨rfl, rfl⟩
    | fill _ _ _ f _ vs _ hf hh hd' hs =>
      obtain ⟨f', hf', hd, h1, h2⟩ := slotsOk_drop S fs i .ph vs hok
      rw [hf] at hf'; injection hf' with hf'; subst hf'
      have ih := matSlots_slotsEq S hw vs' fs cur (i + 1) vs hs h2
      have hne : v' ≠ .ph := fun e => defaultOf_ne_ph S f ((matV_ph S _ _ hd').mpr e)
      rw [hd, slotsEq_cons, slotsEq_cons, ih.1, ih.2, slotEqB_ph_left S f v' hne, slotEqB_ph_right S f v' hne,
        matV_default_defEq S hw f v' hd']
      exact ⟨rfl, rfl⟩
end

/-- **`m == m'` and `m' == m` hold for a well-typed reachable message and the same after reads** -/
theorem matV_msgEq (S : Schema) (hw : WfSchemaOpt S) (m m' : Val) (h : MatV S m m') (hm : MsgOk S m) :
    msgEq S m m' = true ∧ msgEq S m' m = true := by
  cases hm with
  | mk c d sl ow unk cur hd h1 h2 h3 h4 h5 h6 h7 hsl hunk =>
    have hmo : MsgOk S (.msg c sl ow unk cur) := MsgOk.mk c d sl ow unk cur hd h1 h2 h3 h4 h5 h6 h7 hsl hunk
    have hdo : DeepOk S (.msg c sl ow unk cur) := by rw [DeepOk]; exact hmo
    have hv := matV_valEq S hw m' _ h hdo
    cases h with
    | same => simp [msgEq, isMsgVal, hv.1]
    | msg _ _ sl' _ _ _ hs => simp [msgEq, isMsgVal, hv.1, hv.2]

/-- the top-level reads of `bytes` / `len` / `to_dict` (`Op.readAll`, BpModel/Ops.lean) are such a change too -/
theorem materializeAll_mat (S : Schema) (fs : List FieldD) (cur : List (Option Nat)) : ∀ (vs : List Val) (i : Nat),
    MatSlots S fs cur i vs (materializeAll S fs cur i vs)
  | [], i => by rw [materializeAll]; exact MatSlots.nil fs cur i
  | v :: vs, i => by
    rw [materializeAll]
    have ih := materializeAll_mat S fs cur vs (i + 1)
    cases hf : fs[i]? with
    | none => exact MatSlots.keep fs cur i v v _ _ (MatV.same v) ih
    | some f =>
      simp only
      by_cases hh : hidden f i cur = true
      · rw [if_pos hh]; exact MatSlots.keep fs cur i v v _ _ (MatV.same v) ih
      · rw [if_neg hh]
        have hh' : hidden f i cur = false := by simpa using hh
        cases v with
        | ph => exact MatSlots.fill fs cur i f _ _ _ hf hh' (MatV.same _) ih
        | _ => exact MatSlots.keep fs cur i _ _ _ _ (MatV.same _) ih

/-- the decidable form of `WfSchemaOpt` -/
def wfSchemaOptB (S : Schema) : Bool :=
  S.all fun d => d.fields.all fun f => !f.optional || (!f.repeated && f.ty != .map)

theorem wfSchemaOpt_of_B (S : Schema) (h : wfSchemaOptB S = true) : WfSchemaOpt S := by
  intro c f hf ho
  unfold fieldsOf at hf
  cases hc : S[c]? with
  | none => simp [hc] at hf
  | some d =>
    simp only [hc] at hf
    unfold wfSchemaOptB at h
    simp only [List.all_eq_true] at h
    have := h d (List.mem_of_getElem? hc) f hf
    simp [ho] at this
    exact ⟨this.1, this.2⟩

/-! ### presence does not see the reads, at any depth -/

/-- the `i`-th raw slot of a message / item of a list / value of a dict -/
def childAt : Val → Nat → Option Val
  | .msg _ sl _ _ _, i => sl[i]?
  | .list xs, i => xs[i]?
  | .dict _ vs, i => vs[i]?
  | _, _ => Option.none

/-- the value reached by descending along a path of such indices -/
def subAt : Val → List Nat → Option Val
  | v, [] => some v
  | v, i :: p => (childAt v i).bind fun w => subAt w p

theorem matSlots_length (S : Schema) : ∀ (sl' : List Val) (fs : List FieldD) (cur : List (Option Nat)) (i : Nat) (sl : List Val),
    MatSlots S fs cur i sl sl' → sl'.length = sl.length
  | [], _, _, _, _, h => by cases h; rfl
  | v' :: vs', fs, cur, i, sl, h => by
    cases h with
    | keep _ _ _ v _ vs _ _ hs => simp [matSlots_length S vs' fs cur (i + 1) vs hs]
    | fill _ _ _ f _ vs _ _ _ _ hs => simp [matSlots_length S vs' fs cur (i + 1) vs hs]

/-- a slot that held a value still holds it (itself possibly read) -/
theorem matSlots_get (S : Schema) : ∀ (sl' : List Val) (fs : List FieldD) (cur : List (Option Nat)) (i : Nat) (sl : List Val),
    MatSlots S fs cur i sl sl' → ∀ (k : Nat) (v : Val), sl[k]? = some v → v ≠ .ph → ∃ v', sl'[k]? = some v' ∧ MatV S v v'
  | [], _, _, _, _, h, k, v, hk, _ => by cases h; simp at hk
  | v' :: vs', fs, cur, i, sl, h, k, v, hk, hne => by
    cases h with
    | keep _ _ _ v0 _ vs _ hv hs =>
      cases k with
      | zero => simp at hk; subst hk; exact ⟨v', by simp, hv⟩
      | succ k =>
        have := matSlots_get S vs' fs cur (i + 1) vs hs k v (by simpa using hk) hne
        simpa using this
    | fill _ _ _ f _ vs _ _ _ _ hs =>
      cases k with
      | zero => simp at hk; exact absurd hk.symm hne
      | succ k =>
        have := matSlots_get S vs' fs cur (i + 1) vs hs k v (by simpa using hk) hne
        simpa using this

/-- a slot that was PLACEHOLDER is PLACEHOLDER or holds the (possibly read) default of its field -/
theorem matSlots_get_ph (S : Schema) : ∀ (sl' : List Val) (fs : List FieldD) (cur : List (Option Nat)) (i : Nat) (sl : List Val),
    MatSlots S fs cur i sl sl' → ∀ (k : Nat), sl[k]? = some .ph →
      sl'[k]? = some .ph ∨ ∃ f d, fs[i + k]? = some f ∧ hidden f (i + k) cur = false ∧ sl'[k]? = some d ∧ MatV S (defaultOf S f) d
  | [], _, _, _, _, h, k, hk => by cases h; simp at hk
  | v' :: vs', fs, cur, i, sl, h, k, hk => by
    cases h with
    | keep _ _ _ v0 _ vs _ hv hs =>
      cases k with
      | zero =>
        simp at hk; subst hk
        left; simp [matV_of_ph S v' hv]
      | succ k =>
        have := matSlots_get_ph S vs' fs cur (i + 1) vs hs k (by simpa using hk)
        have e : i + 1 + k = i + (k + 1) := by omega
        rw [e] at this
        simpa using this
    | fill _ _ _ f _ vs _ hf hh hd hs =>
      cases k with
      | zero => right; exact ⟨f, v', by simpa using hf, by simpa using hh, by simp, hd⟩
      | succ k =>
        have := matSlots_get_ph S vs' fs cur (i + 1) vs hs k (by simpa using hk)
        have e : i + 1 + k = i + (k + 1) := by omega
        rw [e] at this
        simpa using this

theorem matL_get (S : Schema) : ∀ (ys xs : List Val), MatL S xs ys → ∀ (k : Nat) (x : Val), xs[k]? = some x →
    ∃ y, ys[k]? = some y ∧ MatV S x y
  | [], xs, h, k, x, hk => by cases h; simp at hk
  | y :: ys, xs, h, k, x, hk => by
    cases h with
    | same _ xs' _ hl =>
      cases k with
      | zero => simp at hk; subst hk; exact ⟨_, by simp, MatV.same _⟩
      | succ k => simpa using matL_get S ys xs' hl k x (by simpa using hk)
    | msg c sl sl' ow unk cur xs' _ hs hl =>
      cases k with
      | zero => simp at hk; subst hk; exact ⟨_, by simp, MatV.msg c sl sl' ow unk cur hs⟩
      | succ k => simpa using matL_get S ys xs' hl k x (by simpa using hk)

/-- the child at an index that held a value still holds it (itself possibly read) -/
theorem matV_child (S : Schema) (v v' : Val) (h : MatV S v v') (i : Nat) (w : Val) (hc : childAt v i = some w) (hne : w ≠ .ph) :
    ∃ w', childAt v' i = some w' ∧ MatV S w w' := by
  cases h with
  | same => exact ⟨w, hc, MatV.same w⟩
  | list xs ys hl => exact matL_get S ys xs hl i w hc
  | dict ks vs vs' hl => exact matL_get S vs' vs hl i w hc
  | msg c sl sl' ow unk cur hs => exact matSlots_get S sl' _ cur 0 sl hs i w hc hne

/-- **at every nesting level**: a message instance reachable inside the original (through slots,
    list items, dict values) is still there after the reads, with the same class, the same
    `_serialized_on_wire`, the same `_unknown_fields` and the same `_group_current` — only its own
    PLACEHOLDER slots may have received their defaults (`MatSlots`) -/
theorem matV_subAt (S : Schema) : ∀ (p : List Nat) (v v' : Val), MatV S v v' →
    ∀ (c : Nat) (sl : List Val) (ow : Bool) (unk : Bytes) (cur : List (Option Nat)),
      subAt v p = some (.msg c sl ow unk cur) →
      ∃ sl', subAt v' p = some (.msg c sl' ow unk cur) ∧ MatSlots S (fieldsOf S c) cur 0 sl sl'
  | [], v, v', h, c, sl, ow, unk, cur, hs => by
    simp only [subAt, Option.some.injEq] at hs
    subst hs
    cases h with
    | same => exact ⟨sl, rfl, matSlots_refl S _ cur sl 0⟩
    | msg _ _ sl' _ _ _ hm => exact ⟨sl', rfl, hm⟩
  | i :: p, v, v', h, c, sl, ow, unk, cur, hs => by
    simp only [subAt] at hs ⊢
    cases hc : childAt v i with
    | none => rw [hc] at hs; simp at hs
    | some w =>
      rw [hc] at hs
      simp only [Option.bind_some] at hs
      have hne : w ≠ .ph := by
        intro e; subst e
        cases p <;> simp [subAt, childAt] at hs
      obtain ⟨w', hc', hw'⟩ := matV_child S v v' h i w hc hne
      rw [hc']
      simp only [Option.bind_some]
      exact matV_subAt S p w w' hw' c sl ow unk cur hs

end Bp
