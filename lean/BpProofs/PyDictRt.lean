import BpModel.PyDict
import BpProofs.JsonRtInst
/-
  C14 / C04: `Cls().from_pydict(m.to_pydict(casing))` rebuilds `jrt m`, the very message
  `from_dict(to_dict(m))` rebuilds (BpProofs/JsonRt.lean), for every schema inside `pyDictOk`
  (BpModel/PyDict.lean) and every value inside the guards of C04's `roundtrip_all` whose dicts have
  pairwise distinct keys (`dictKeysOk`: what a Python dict is).  So the relation to `m` (`DEqv`) and
  the equality of the bytes are those of C04.

  How: slot by slot (`SlotRTP`), `to_pydict` writes a field exactly when `to_dict` does, and
  `from_pydict`'s step for the written object is `setattr(self, name, jrt v)` — on an instance whose
  slot for that field is still the dataclass default (`FreshAbove`): that is where `getattr` returns
  the default list / dict / sub-message the step then fills.  The loop over the keys is then the
  `setattr` sequence of the instance form of `from_dict` (`applyKw … emitted2`), whose result
  BpProofs/JsonRtInst.lean computes.  Mutual structural recursion over `Val` / `List Val`.
-/
set_option linter.unusedSimpArgs false
set_option linter.unusedVariables false
namespace Bp
open Gen

/-! ### guards -/

/-- what `fieldPyOk` gives beyond `fieldJsonOk`, in usable form -/
structure FP (f : FieldD) : Prop where
  fj : FJ f
  msg_grp : (f.ty == PType.message) = true → f.group = Option.none
  msg_opt : (f.ty == PType.message) = true → f.wraps = Option.none → f.optional = false
  msg_rep : (f.ty == PType.message) = true → f.wraps = Option.none → f.repeated = true → ∃ c, f.kind = .user c

theorem fp_of (f : FieldD) (h : fieldPyOk f = true) : FP f := by
  unfold fieldPyOk at h
  simp only [Bool.and_eq_true] at h
  obtain ⟨hj, h2⟩ := h
  refine ⟨fj_of f hj, ?_, ?_, ?_⟩
  · intro hm
    rw [if_pos hm] at h2
    simp only [Bool.and_eq_true, Option.isNone_iff_eq_none] at h2
    exact h2.1
  · intro hm hw
    rw [if_pos hm] at h2
    simp only [Bool.and_eq_true, Bool.or_eq_true, hw, Option.isSome_none, Bool.false_eq_true, false_or,
      Bool.not_eq_true'] at h2
    exact h2.2.1
  · intro hm hw hr
    rw [if_pos hm] at h2
    simp only [Bool.and_eq_true, Bool.or_eq_true, hw, Option.isSome_none, Bool.false_eq_true, false_or,
      Bool.not_eq_true', hr, Bool.true_and, Bool.not_eq_false'] at h2
    cases hk : f.kind with
    | user c => exact ⟨c, rfl⟩
    | timestamp => rw [hk] at h2; simp [isUserK] at h2
    | duration => rw [hk] at h2; simp [isUserK] at h2

theorem pyDictOk_schema (S : Schema) (cs : KeyCase) (h : pyDictOk S cs = true) :
    jsonOk S [] cs = true ∧ ∀ c, ∀ f ∈ fieldsOf S c, fieldPyOk f = true := by
  unfold pyDictOk at h
  simp only [Bool.and_eq_true, List.all_eq_true] at h
  refine ⟨h.1, fun c f hf => ?_⟩
  obtain ⟨d, hd, _, hfd⟩ := fieldsOf_mem S c f hf
  exact h.2 d hd f hfd

mutual
/-- every dict, at every level, has pairwise distinct keys (what a Python dict is; the typing
    judgement `wellTyped'` does not say it) -/
def dictKeysOk : Val → Bool
  | .msg _ sl _ _ _ => dictKeysOkL sl
  | .list xs => dictKeysOkL xs
  | .dict ks vs => decide ((ks.map keyJ).Nodup) && dictKeysOkL vs
  | _ => true
def dictKeysOkL : List Val → Bool
  | [] => true
  | x :: xs => dictKeysOk x && dictKeysOkL xs
end

theorem dictKeysOk_msg (c : Nat) (sl : List Val) (ow : Bool) (unk : Bytes) (cur : List (Option Nat)) :
    dictKeysOk (.msg c sl ow unk cur) = dictKeysOkL sl := by rw [dictKeysOk]
theorem dictKeysOk_list (xs : List Val) : dictKeysOk (.list xs) = dictKeysOkL xs := by rw [dictKeysOk]
theorem dictKeysOk_dict (ks vs : List Val) :
    dictKeysOk (.dict ks vs) = (decide ((ks.map keyJ).Nodup) && dictKeysOkL vs) := by rw [dictKeysOk]

/-! ### leaves stored as they are -/

theorem unRaw_rawJ_leaf (v : Val) (hl : isLeafVal v = true) (hn : v ≠ .none) : unRaw (rawJ v) = .ok v := by
  cases v <;> first | (simp [isLeafVal] at hl; done) | exact absurd rfl hn | simp [rawJ, unRaw]

theorem unRawList_rawJList_leaf : ∀ (xs : List Val), (∀ x ∈ xs, isLeafVal x = true ∧ x ≠ .none) →
    unRawList (rawJList xs) = .ok xs
  | [], _ => by simp [rawJList, unRawList]
  | x :: xs, h => by
    simp only [rawJList, unRawList]
    rw [unRaw_rawJ_leaf x (h x (by simp)).1 (h x (by simp)).2,
      unRawList_rawJList_leaf xs (fun y hy => h y (by simp [hy]))]
    rfl

theorem rawJ_list (xs : List Val) : rawJ (.list xs) = .arr (rawJList xs) := by rw [rawJ]

/-! ### the dict a `map<string, Msg>` field is rebuilt into -/

theorem dictInsert_new (ks0 vs0 : List Val) (k v : Val) (hl : ks0.length = vs0.length)
    (hk : ∀ k0 ∈ ks0, keyEq k0 k = false) : dictInsert ks0 vs0 k v = (ks0 ++ [k], vs0 ++ [v]) := by
  induction ks0 generalizing vs0 with
  | nil => cases vs0 with
    | nil => simp [dictInsert]
    | cons _ _ => simp at hl
  | cons k0 ks0 ih =>
    cases vs0 with
    | nil => simp at hl
    | cons v0 vs0 =>
      have h0 := hk k0 (by simp)
      rw [dictInsert]
      simp only [h0, Bool.false_eq_true, if_false]
      rw [ih vs0 (by simpa using hl) (fun x hx => hk x (by simp [hx]))]
      rfl

theorem dictInsertAll_new : ∀ (ks ys ks0 vs0 : List Val), ks0.length = vs0.length → ks.length = ys.length →
    (∀ k ∈ ks, ∀ k0 ∈ ks0, keyEq k0 k = false) → (ks.Pairwise fun a b => keyEq a b = false) →
    dictInsertAll ks0 vs0 ks ys = (ks0 ++ ks, vs0 ++ ys)
  | [], [], ks0, vs0, _, _, _, _ => by simp [dictInsertAll]
  | [], _ :: _, _, _, _, h, _, _ => by simp at h
  | _ :: _, [], _, _, _, h, _, _ => by simp at h
  | k :: ks, y :: ys, ks0, vs0, h0, h1, h2, h3 => by
    rw [dictInsertAll]
    simp only [dictInsert_new ks0 vs0 k y h0 (h2 k (by simp))]
    rw [List.pairwise_cons] at h3
    rw [dictInsertAll_new ks ys (ks0 ++ [k]) (vs0 ++ [y]) (by simp [h0]) (by simpa using h1) ?_ h3.2]
    · simp
    · intro k' hk' k0 hk0
      simp only [List.mem_append, List.mem_singleton] at hk0
      rcases hk0 with hk0 | hk0
      · exact h2 k' (by simp [hk']) k0 hk0
      · subst hk0; exact h3.1 k' hk'

theorem keyV_keyJ_str (ks : List Val) (h : ∀ k ∈ ks, ∃ s, k = Val.str s) : (ks.map keyJ).map keyV = ks := by
  induction ks with
  | nil => rfl
  | cons k ks ih =>
    obtain ⟨s, rfl⟩ := h k (by simp)
    simp only [List.map_cons, keyJ, keyV, List.cons.injEq, true_and]
    exact ih (fun x hx => h x (by simp [hx]))

theorem str_keys_pairwise (ks : List Val) (h : ∀ k ∈ ks, ∃ s, k = Val.str s) (hn : (ks.map keyJ).Nodup) :
    ks.Pairwise fun a b => keyEq a b = false := by
  induction ks with
  | nil => exact List.Pairwise.nil
  | cons k ks ih =>
    rw [List.map_cons, List.nodup_cons] at hn
    refine List.Pairwise.cons ?_ (ih (fun x hx => h x (by simp [hx])) hn.2)
    intro b hb
    obtain ⟨s, rfl⟩ := h k (by simp)
    obtain ⟨t, rfl⟩ := h b (by simp [hb])
    simp only [keyEq, beq_eq_false_iff_ne, ne_eq]
    intro e; subst e
    exact hn.1 (List.mem_map.mpr ⟨_, hb, rfl⟩)

/-! ### the instance while the keys are processed in field order -/

/-- the slots from `idx` on still hold the dataclass default -/
def FreshAbove (fs : List FieldD) (idx : Nat) (st : MState) : Prop :=
  ∀ i f, idx ≤ i → fs[i]? = some f → st.slots.getD i .ph = freshVal f

theorem freshAbove_mono (fs : List FieldD) (idx : Nat) (st : MState) (h : FreshAbove fs idx st) : FreshAbove fs (idx + 1) st :=
  fun i f hi hf => h i f (by omega) hf

/-- `setattr` of field `idx` leaves the later slots at their dataclass defaults: it writes slot
    `idx` and resets the other members of its group to PLACEHOLDER, which IS their default
    (a oneof member is not proto3-optional) -/
theorem freshAbove_setAttr (S : Schema) (fs : List FieldD) (idx : Nat) (st : MState) (w : Val)
    (hopt : ∀ f ∈ fs, f.group.isSome = true → f.optional = false)
    (h : FreshAbove fs idx st) : FreshAbove fs (idx + 1) (setAttr S fs st idx w) := by
  intro i f hi hf
  have hne : idx ≠ i := by omega
  have hold := h i f (by omega) hf
  unfold setAttr
  cases hfi : fs[idx]? with
  | none => exact hold
  | some fi =>
    simp only
    cases hg : fi.group with
    | none => simp only; rw [getD_setAt_ne _ _ _ _ hne]; exact hold
    | some g =>
      simp only
      rw [getD_setAt_ne _ _ _ _ hne]
      by_cases hfg : f.group = some g
      · rw [resetGroup_same g idx fs st.slots 0 i f hf hfg (by omega)]
        have : f.optional = false := hopt f (List.mem_of_getElem? hf) (by simp [hfg])
        simp [freshVal, this]
      · rw [resetGroup_other g idx fs st.slots 0 i f hf hfg]; exact hold

theorem freshAbove_fresh (S : Schema) (c : Nat) :
    FreshAbove (fieldsOf S c) 0
      { slots := (fieldsOf S c).map fun f => if f.optional then Val.none else Val.ph, onWire := true, unknown := [],
        cur := List.replicate (groupsOf S c) Option.none } := by
  intro i f _ hf
  simp only [List.getD_eq_getElem?_getD, List.getElem?_map, hf, Option.map_some, Option.getD_some, freshVal]

/-! ### `setattr` overwrites the slot (as BpProofs/SrcTieFromPyDict.lean, model level) -/

theorem resetGroup_set' (g idx : Nat) (a v : Val) : ∀ (fs' : List FieldD) (ss : List Val) (j k : Nat), j + k = idx →
    (resetGroup g idx fs' (ss.set k a) j).set k v = (resetGroup g idx fs' ss j).set k v
  | [], ss, j, k, _ => by simp [resetGroup]
  | fj :: fs'', [], j, k, _ => by simp [resetGroup]
  | fj :: fs'', s :: ss', j, 0, h => by
    have hj : j = idx := by omega
    subst hj
    simp [resetGroup]
  | fj :: fs'', s :: ss', j, k' + 1, h => by
    simp only [List.set_cons_succ, resetGroup, List.cons.injEq, true_and]
    exact resetGroup_set' g idx a v fs'' ss' (j + 1) k' (by omega)

theorem setAttr_over (S : Schema) (fs : List FieldD) (st : MState) (i : Nat) (f : FieldD) (hf : fs[i]? = some f)
    (a v : Val) : setAttr S fs { st with slots := setAt st.slots i a } i v = setAttr S fs st i v := by
  unfold setAttr
  simp only [hf]
  cases hg : f.group with
  | none => simp [setAt]
  | some g =>
    simp only [setAt]
    rw [resetGroup_set' g i a (markEmpty S v) fs st.slots 0 i (by omega)]

theorem setAttrNN_ne (S : Schema) (fs : List FieldD) (st : MState) (i : Nat) (v : Val) (hv : v ≠ .none) :
    setAttrNN S fs st i v = setAttr S fs st i v := by
  cases v <;> first | exact absurd rfl hv | rfl

/-- `getattr` on a visible field whose slot still holds the dataclass default of a non-optional field:
    the default is returned and stored -/
theorem getAttr_fresh (S : Schema) (fs : List FieldD) (st : MState) (i : Nat) (f : FieldD) (hf : fs[i]? = some f)
    (hg : f.group = Option.none) (ho : f.optional = false) (hs : st.slots.getD i .ph = freshVal f) :
    getAttr S fs st i = .ok (defaultOf S f, { st with slots := setAt st.slots i (defaultOf S f) }) := by
  unfold getAttr
  simp only [hf]
  have hh : hidden f i st.cur = false := by unfold hidden; rw [hg]
  have hs' : st.slots.getD i .ph = .ph := by rw [hs]; simp [freshVal, ho]
  simp only [hh, Bool.false_eq_true, if_false, hs', materialize]

/-! ### a slot: `to_pydict` writes it exactly when `to_dict` does, and `from_pydict` stores `jrt v` -/

def freshOn (S : Schema) (c : Nat) : MState :=
  { slots := (fieldsOf S c).map fun f => if f.optional then Val.none else Val.ph, onWire := true, unknown := [],
    cur := List.replicate (groupsOf S c) Option.none }

/-- the round trip of one message body, on a fresh instance -/
def MsgRTP (S : Schema) (cs : KeyCase) (c : Nat) (sl : List Val) (cur : List (Option Nat)) : Prop :=
  ∃ kvs, toPyDictKVs S cs false (fieldsOf S c) cur 0 sl = .ok kvs ∧
    fromPyKeys S c (freshOn S c) (kvs.map (·.1)) (kvs.map (·.2))
      = .ok { slots := jrtSlots S [] cs (fieldsOf S c) cur 0 sl, onWire := true, unknown := [], cur := cur }

/-- a dict written by `to_pydict` has as many keys as values (the representation keeps them in two lists) -/
def objLen (p : PVal) : Prop := ∀ ks ps, p = JVal.obj ks ps → ks.length = ps.length

theorem objLen_rawJ_leaf (v : Val) (hl : isLeafVal v = true) : objLen (rawJ v) := by
  intro ks ps h
  cases v <;> first | (simp [isLeafVal] at hl; done) | (simp [rawJ] at h)

theorem objLen_arr (xs : List PVal) : objLen (.arr xs) := by intro ks ps h; cases h
theorem objLen_raw (v : Val) : objLen (.raw v) := by intro ks ps h; cases h
theorem objLen_mkObj (kvs : List (JKey × PVal)) : objLen (mkObj kvs) := by
  intro ks ps h
  unfold mkObj at h
  injection h with h1 h2
  rw [← h1, ← h2]; simp

theorem rawJList_length : ∀ xs : List Val, (rawJList xs).length = xs.length
  | [] => by rw [rawJList]; rfl
  | x :: xs => by rw [rawJList]; simp [rawJList_length xs]

/-- the per-slot statement -/
def SlotRTP (S : Schema) (cs : KeyCase) (fs : List FieldD) (idx : Nat) (f : FieldD) (hid sel : Bool) (v : Val) : Prop :=
  (toDictSlot S [] cs false f hid sel v = Option.none → toPyDictSlot S cs false f hid sel v = .ok Option.none) ∧
  (∀ j, toDictSlot S [] cs false f hid sel v = some j →
    ∃ p, toPyDictSlot S cs false f hid sel v = .ok (some p) ∧ objLen p ∧
      ∀ st : MState, fs[idx]? = some f → st.slots.getD idx .ph = freshVal f →
        fromPyField S fs st idx f p = .ok (setAttr S fs st idx (jrt S [] cs v)))

theorem toPyDictSlot_leaf' (S : Schema) (cs : KeyCase) (incl : Bool) (f : FieldD) (hid sel : Bool) (v : Val)
    (h : isLeafVal v = true) :
    toPyDictSlot S cs incl f hid sel v
      = if hid then toPyDictDefault S f sel incl else toPyDictPlain S f sel incl v := by
  cases v <;> first | (simp [isLeafVal] at h; done) | (rw [toPyDictSlot]; all_goals (intros; contradiction))

theorem toPyDictDefault_none (S : Schema) (f : FieldD) (hj : FJ f) : toPyDictDefault S f false false = .ok Option.none := by
  unfold toPyDictDefault
  by_cases hr : f.repeated = true
  · rw [defKind_rep f hr]
    simp only
    by_cases hm : (f.ty == PType.message) = true
    · have hw : f.wraps.isSome = false := by
        cases hw : f.wraps with
        | none => rfl
        | some w => have := hj.wr_rep (by simp [hw]); rw [hr] at this; cases this
      simp [hm, hw]
    · have hmap : (f.ty == PType.map) = false := by
        cases hmap : (f.ty == PType.map) with
        | false => rfl
        | true => have := hj.map_rep hmap; rw [hr] at this; cases this
      simp [hm, hmap]
  · have hr' : f.repeated = false := by simpa using hr
    by_cases hmap : (f.ty == PType.map) = true
    · rw [defKind_map f hr' hmap]; simp [hmap]
    · have hmap' : (f.ty == PType.map) = false := by simpa using hmap
      by_cases ho : (f.optional || f.wraps.isSome) = true
      · rw [defKind_none f hr' hmap' ho]
        simp only [toPyDictPlain, defaultOfKind, hmap', hr']
        by_cases hm : (f.ty == PType.message) = true
        · simp only [hm, if_true, Bool.false_eq_true, if_false]
          split <;> rfl
        · simp [hm, eqDefault, defKind_none f hr' hmap' ho]
      · have ho' : (f.optional || f.wraps.isSome) = false := by simpa using ho
        have hw : f.wraps.isSome = false := by cases h : f.wraps.isSome <;> simp_all
        by_cases hm : (f.ty == PType.message) = true
        · rw [defKind_msg f hr' hmap' ho' hm]
          cases hk : f.kind <;> simp [msgKindDef, toPyDictPlain, defaultOfKind, hm, hw]
        · have hm' : (f.ty == PType.message) = false := by simpa using hm
          rw [defKind_scalar f hr' hmap' ho' hm']
          have := eqDefault_scalarDef S f.ty
          have hk : f.defKind = scalarDef f.ty := defKind_scalar f hr' hmap' ho' hm'
          cases hsd : scalarDef f.ty <;> simp_all [toPyDictPlain, defaultOfKind] <;>
            (cases hty : f.ty <;> simp_all [scalarDef])

theorem rtp_ph (S : Schema) (cs : KeyCase) (fs : List FieldD) (idx : Nat) (f : FieldD) (hid sel : Bool) (hp : FP f)
    (h : slotOk' S f hid sel .ph = true) : SlotRTP S cs fs idx f hid sel .ph := by
  rw [slotOk_ph] at h
  simp only [Bool.and_eq_true, Bool.not_eq_true'] at h
  obtain ⟨hs, ho⟩ := h
  subst hs
  have hn : toDictSlot S [] cs false f hid false .ph = Option.none := by
    rw [toDictSlot_ph, toDictDefault_none S [] f hp.fj]
  refine ⟨fun _ => ?_, fun j hjj => (by rw [hn] at hjj; cases hjj)⟩
  rw [toPyDictSlot, toPyDictDefault_none S f hp.fj]

theorem rtp_none (S : Schema) (cs : KeyCase) (fs : List FieldD) (idx : Nat) (f : FieldD) (hid sel : Bool) (hp : FP f)
    (hs : HS f hid sel) (h : slotOk' S f hid sel .none = true) : SlotRTP S cs fs idx f hid sel .none := by
  have h0 := h
  rw [slotOk_none] at h
  simp only [Bool.and_eq_true, Bool.not_eq_true', bne_iff_ne, ne_eq, Option.isNone_iff_eq_none] at h
  obtain ⟨⟨⟨hg, ho⟩, hr⟩, hmap⟩ := h
  obtain ⟨hh, hsel⟩ := hs.1 hg
  subst hh; subst hsel
  have hmap' : (f.ty == PType.map) = false := by simpa using hmap
  have hdk := defKind_none f hr hmap' ho
  have hrt := rt_none S [] cs f false false hs h0
  have hn : toDictSlot S [] cs false f false false .none = Option.none := by
    cases hq : toDictSlot S [] cs false f false false .none with
    | none => rfl
    | some j =>
      obtain ⟨_, _, _, _, hsent, _⟩ := hrt.1 j hq
      -- `jrt none = none` is the dataclass default of an optional field; of a wrapper field it is not,
      -- but then `to_dict` writes nothing for None
      exfalso
      rw [toDictSlot_leaf _ _ _ _ _ _ _ _ rfl] at hq
      simp only [Bool.false_eq_true, if_false, toDictPlain] at hq
      by_cases hm : (f.ty == PType.message) = true
      · simp only [hm, if_true, hr, Bool.false_eq_true, if_false] at hq
        split at hq <;> cases hq
      · simp only [hm, hmap', Bool.false_eq_true, if_false, hdk] at hq
        simp [eqDefault] at hq
  refine ⟨fun _ => ?_, fun j hjj => (by rw [hn] at hjj; cases hjj)⟩
  rw [toPyDictSlot_leaf' _ _ _ _ _ _ _ rfl]
  simp only [Bool.false_eq_true, if_false, toPyDictPlain]
  by_cases hm : (f.ty == PType.message) = true
  · simp only [hm, if_true, hr, Bool.false_eq_true, if_false]
    split <;> rfl
  · simp only [hm, hmap', Bool.false_eq_true, if_false, hdk]
    simp [eqDefault]

/-- how `SlotRTP` is established: a common emission condition `c`, the object `p` that `to_pydict` writes, and
    the step of `from_pydict` for it -/
theorem slotRTP_mk (S : Schema) (cs : KeyCase) (fs : List FieldD) (idx : Nat) (f : FieldD) (hid sel : Bool) (v : Val)
    (c : Bool) (p : PVal)
    (hd : (toDictSlot S [] cs false f hid sel v).isSome = c)
    (hpy : toPyDictSlot S cs false f hid sel v = .ok (if c then some p else Option.none))
    (hol : objLen p)
    (hdec : c = true → ∀ st : MState, fs[idx]? = some f → st.slots.getD idx .ph = freshVal f →
      fromPyField S fs st idx f p = .ok (setAttr S fs st idx (jrt S [] cs v))) :
    SlotRTP S cs fs idx f hid sel v := by
  constructor
  · intro hn
    rw [hn] at hd
    have : c = false := by simpa using hd.symm
    rw [hpy, this]; rfl
  · intro j hj
    rw [hj] at hd
    have : c = true := by simpa using hd.symm
    exact ⟨p, by rw [hpy, this]; rfl, hol, hdec this⟩

theorem encScalar_isSome (f : FieldD) (v : Val) (hn : v ≠ .none) : (encScalar [] f false v).isSome = true := by
  unfold encScalar
  cases v <;> first | exact absurd rfl hn | (simp only []; repeat' split) <;> rfl

/-- storing a leaf in a scalar field -/
theorem fromPyField_scalar (S : Schema) (fs : List FieldD) (st : MState) (idx : Nat) (f : FieldD) (v : Val)
    (hl : isLeafVal v = true) (hn : v ≠ .none) (hm : (f.ty == PType.message) = false) (hmap : (f.ty == PType.map) = false) :
    fromPyField S fs st idx f (rawJ v) = .ok (setAttr S fs st idx v) := by
  have hu := unRaw_rawJ_leaf v hl hn
  cases v <;> first
    | (simp [isLeafVal] at hl; done)
    | exact absurd rfl hn
    | (simp only [rawJ] at hu ⊢
       rw [fromPyField]
       · simp only [hm, hmap, Bool.false_and, Bool.false_eq_true, if_false, hu, Except.bind, bind]
         rfl
       all_goals (intros; contradiction))

/-- storing a leaf in a message-typed field (Timestamp / Duration / wrapper) whose slot is still the default -/
theorem fromPyField_msgleaf (S : Schema) (fs : List FieldD) (st : MState) (idx : Nat) (f : FieldD) (v : Val)
    (hf : fs[idx]? = some f) (hs : st.slots.getD idx .ph = freshVal f)
    (hl : isLeafVal v = true) (hn : v ≠ .none) (hm : (f.ty == PType.message) = true)
    (hg : f.group = Option.none) (ho : f.optional = false) (hr : f.repeated = false)
    (hk : f.wraps.isSome = true ∨ (∃ us, defaultOf S f = .ts us) ∨ (∃ us, defaultOf S f = .dur us))
    (hnl : ∀ xs, defaultOf S f ≠ .list xs) :
    fromPyField S fs st idx f (rawJ v) = .ok (setAttr S fs st idx v) := by
  have hu := unRaw_rawJ_leaf v hl hn
  have hga := getAttr_fresh S fs st idx f hf hg ho hs
  have hfin : setAttrNN S fs { st with slots := setAt st.slots idx (defaultOf S f) } idx v = setAttr S fs st idx v := by
    rw [setAttrNN_ne S fs _ idx v hn, setAttr_over S fs st idx f hf]
  cases v <;> first
    | (simp [isLeafVal] at hl; done)
    | exact absurd rfl hn
    | (simp only [rawJ] at hu ⊢
       rw [fromPyField]
       · simp only [hm, if_true, hga, Except.bind, bind]
         rcases hk with hw | ⟨us, hd⟩ | ⟨us, hd⟩
         · cases hd : defaultOf S f <;> first
             | exact absurd hd (hnl _)
             | simp only [hw, if_true, hu, hfin, Except.bind, bind, hd ▸ hfin]
         · simp only [hd, hu, Except.bind, bind]; rw [← hd, hfin]
         · simp only [hd, hu, Except.bind, bind]; rw [← hd, hfin]
       all_goals (intros; contradiction))

theorem rtp_leaf (S : Schema) (cs : KeyCase) (fs : List FieldD) (idx : Nat) (f : FieldD) (hid sel : Bool) (v : Val)
    (hp : FP f) (hl : isLeafVal v = true) (hn : v ≠ .none) (h : slotOk' S f hid sel v = true) :
    SlotRTP S cs fs idx f hid sel v := by
  rw [slotOk_leaf S f hid sel v hl hn] at h
  simp only [Bool.and_eq_true, Bool.not_eq_true'] at h
  obtain ⟨⟨hh, hr⟩, hok⟩ := h
  subst hh
  have hjrt := jrt_atom S [] cs v (leaf_facts S f v hl hn sel).1
  rw [SlotRTP, hjrt, toDictSlot_leaf _ _ _ _ _ _ _ _ hl, toPyDictSlot_leaf' _ _ _ _ _ _ _ hl]
  simp only [Bool.false_eq_true, if_false]
  unfold leafOk at hok
  by_cases hm : (f.ty == PType.message) = true
  · -- Timestamp / Duration / wrapper
    have hg := hp.msg_grp hm
    simp only [hm, if_true] at hok
    cases hw : f.wraps with
    | some w =>
      rw [hw] at hok
      have hw' : f.wraps.isSome = true := by simp [hw]
      have ho := hp.fj.wr_opt hw'
      have hdk : f.defKind = .none := defKind_none f hr (by rw [(by simpa using hm : f.ty = PType.message)]; rfl) (by simp [hw'])
      have hvt : ∀ us, v ≠ .ts us ∧ v ≠ .dur us := by
        intro us; constructor <;> (intro e; subst e; simp [valOfType] at hok)
      have e1 : toDictPlain S [] f sel false v = some (rawJ v) := by
        unfold toDictPlain
        cases v with
        | ts us => exact absurd rfl (hvt us).1
        | dur us => exact absurd rfl (hvt us).2
        | none => exact absurd rfl hn
        | ph => simp [isLeafVal] at hl
        | list _ => simp [isLeafVal] at hl
        | dict _ _ => simp [isLeafVal] at hl
        | msg _ _ _ _ _ => simp [isLeafVal] at hl
        | _ => simp [hm, hw']
      have e2 : toPyDictPlain S f sel false v = .ok (some (rawJ v)) := by
        unfold toPyDictPlain
        cases v with
        | ts us => exact absurd rfl (hvt us).1
        | dur us => exact absurd rfl (hvt us).2
        | none => exact absurd rfl hn
        | ph => simp [isLeafVal] at hl
        | list _ => simp [isLeafVal] at hl
        | dict _ _ => simp [isLeafVal] at hl
        | msg _ _ _ _ _ => simp [isLeafVal] at hl
        | _ => simp [hm, hw']
      rw [e1, e2]
      refine ⟨fun hq => ?_, fun j _ => ⟨rawJ v, rfl, objLen_rawJ_leaf v hl, fun st hf hs => ?_⟩⟩
      · cases hq
      · exact fromPyField_msgleaf S fs st idx f v hf hs hl hn hm hg ho hr (Or.inl hw')
          (by intro xs; unfold defaultOf; rw [hdk]; simp [defaultOfKind])
    | none =>
      rw [hw] at hok
      have ho := hp.msg_opt hm hw
      have hmap' : (f.ty == PType.map) = false := by rw [(by simpa using hm : f.ty = PType.message)]; rfl
      have hdk := defKind_msg f hr hmap' (by simp [ho, hw]) hm
      cases hk : f.kind with
      | user c => rw [hk] at hok; cases v <;> simp at hok
      | timestamp =>
        rw [hk] at hok
        cases v <;> simp at hok
        rename_i us
        simp only [toDictPlain, toPyDictPlain, hm, if_true, ho, Bool.or_false, Bool.false_or]
        have hd : defaultOf S f = .ts 0 := by unfold defaultOf; rw [hdk, hk]; rfl
        by_cases hc : (us != 0 || sel) = true
        · simp only [hc, if_true]
          refine ⟨fun hq => ?_, fun j _ => ⟨.raw (.ts us), rfl, objLen_raw _, fun st hf hs => ?_⟩⟩
          · cases hq
          · exact fromPyField_msgleaf S fs st idx f (.ts us) hf hs rfl (by simp) hm hg ho hr (Or.inr (Or.inl ⟨0, hd⟩))
              (by intro xs; rw [hd]; simp)
        · simp only [hc, Bool.false_eq_true, if_false]
          refine ⟨?_, ?_⟩
          · simp
          · intro j hq; cases hq
      | duration =>
        rw [hk] at hok
        cases v <;> simp at hok
        rename_i us
        simp only [toDictPlain, toPyDictPlain, hm, if_true, ho, Bool.or_false, Bool.false_or]
        have hd : defaultOf S f = .dur 0 := by unfold defaultOf; rw [hdk, hk]; rfl
        by_cases hc : (us != 0 || sel) = true
        · simp only [hc, if_true]
          refine ⟨fun hq => ?_, fun j _ => ⟨.raw (.dur us), rfl, objLen_raw _, fun st hf hs => ?_⟩⟩
          · cases hq
          · exact fromPyField_msgleaf S fs st idx f (.dur us) hf hs rfl (by simp) hm hg ho hr (Or.inr (Or.inr ⟨0, hd⟩))
              (by intro xs; rw [hd]; simp)
        · simp only [hc, Bool.false_eq_true, if_false]
          refine ⟨?_, ?_⟩
          · simp
          · intro j hq; cases hq
  · -- a scalar field
    have hm' : (f.ty == PType.message) = false := by simpa using hm
    simp only [hm', Bool.false_eq_true, if_false, Bool.and_eq_true, bne_iff_ne, ne_eq] at hok
    have hmap' : (f.ty == PType.map) = false := by simpa using hok.1
    simp only [toDictPlain, toPyDictPlain, hm', hmap', Bool.false_eq_true, if_false, Bool.or_false]
    by_cases hc : (!eqDefault S f.defKind v || sel) = true
    · simp only [hc, if_true]
      have := encScalar_isSome f v hn
      cases he : encScalar [] f false v with
      | none => rw [he] at this; cases this
      | some j0 =>
        refine ⟨fun hq => ?_, fun j _ => ⟨rawJ v, rfl, objLen_rawJ_leaf v hl, fun st hf hs => ?_⟩⟩
        · cases hq
        · exact fromPyField_scalar S fs st idx f v hl hn hm' hmap'
    · simp only [hc, Bool.false_eq_true, if_false]
      refine ⟨?_, ?_⟩
      · simp
      · intro j hq; cases hq

/-! ### lists and dicts of leaves -/

theorem toPyDictMapVals_raw (S : Schema) (cs : KeyCase) (incl : Bool) : ∀ (vs : List Val), (∀ x ∈ vs, isMsgVal x = false) →
    toPyDictMapVals S cs incl vs = .ok (rawJList vs)
  | [], _ => by rw [toPyDictMapVals, rawJList]
  | x :: xs, h => by
    have hx := h x (by simp)
    have ih := toPyDictMapVals_raw S cs incl xs (fun y hy => h y (by simp [hy]))
    rw [rawJList]
    cases x <;> first
      | (simp [isMsgVal] at hx; done)
      | (rw [toPyDictMapVals, ih]; · rfl
         all_goals (intros; contradiction))

/-- repeated scalars -/
theorem rtp_list_flat (S : Schema) (cs : KeyCase) (fs : List FieldD) (idx : Nat) (f : FieldD) (hid sel : Bool) (xs : List Val)
    (hp : FP f) (hs : HS f hid sel)
    (hnu : ¬ ((f.ty == PType.message) = true ∧ f.wraps = Option.none ∧ ∃ c, f.kind = .user c))
    (h : slotOk' S f hid sel (.list xs) = true) : SlotRTP S cs fs idx f hid sel (.list xs) := by
  obtain ⟨hh, hsel, hr, hmap, ho, hw, hit⟩ := list_common S f hid sel xs hp.fj hs h
  subst hh; subst hsel
  have hm : (f.ty == PType.message) = false := by
    cases hm : (f.ty == PType.message) with
    | false => rfl
    | true => exact absurd ⟨hm, hw, hp.msg_rep hm hw hr⟩ hnu
  have hleaf := itemsOk_leaf S f xs hnu hit
  have hl2 : ∀ x ∈ xs, isLeafVal x = true ∧ x ≠ .none := fun x hx => leafOk_leaf f x (hleaf x hx)
  have hatoms : ∀ x ∈ xs, dAtom x = true := fun x hx => isLeafVal_dAtom x (hl2 x hx).1
  have hjrt : jrt S [] cs (.list xs) = .list xs := by rw [jrt_list, jrtList_atoms S [] cs xs hatoms]
  apply slotRTP_mk S cs fs idx f false false (.list xs) (!xs.isEmpty) (rawJ (.list xs))
  · rw [toDictSlot]
    simp only [Bool.false_eq_true, if_false, hm, hmap, hr, if_true, Bool.or_false, Bool.not_true, defKind_rep f hr,
      eqDefault_list]
    cases xs with
    | nil => rfl
    | cons x xs => simp only [List.isEmpty_cons, Bool.not_false, if_true]; (repeat' split) <;> rfl
  · rw [toPyDictSlot]
    simp only [Bool.false_eq_true, if_false, hm, hmap, Bool.or_false, defKind_rep f hr, eqDefault_list]
  · rw [rawJ_list]; exact objLen_arr _
  · intro _ st hf hst
    rw [hjrt, rawJ_list, fromPyField]
    simp only [hm, hmap, Bool.false_and, Bool.false_eq_true, if_false, unRaw, unRawList_rawJList_leaf xs hl2,
      Except.bind, bind]
    rfl

/-- `map<string, scalar>` -/
theorem rtp_dict_flat (S : Schema) (cs : KeyCase) (fs : List FieldD) (idx : Nat) (f : FieldD) (hid sel : Bool) (ks vs : List Val)
    (hp : FP f) (hs : HS f hid sel) (hv : (f.mapV == PType.message) = false)
    (h : slotOk' S f hid sel (.dict ks vs) = true) : SlotRTP S cs fs idx f hid sel (.dict ks vs) := by
  obtain ⟨hh, hsel, hty, hks, hvs⟩ := dict_common S f hid sel ks vs hp.fj hs h
  subst hh; subst hsel
  have hmap : (f.ty == PType.map) = true := by simp [hty]
  have hm : (f.ty == PType.message) = false := by rw [hty]; rfl
  have hraw : ∀ x ∈ vs, rawOk x = true := fun x hx =>
    valOfType_rawOk _ x (mapValsOk_scalar S f vs hv hvs x hx) (hp.fj.map_vb hmap)
  have hl2 : ∀ x ∈ vs, isLeafVal x = true ∧ x ≠ .none := fun x hx => by
    have := hraw x hx
    cases x <;> simp [rawOk] at this <;> exact ⟨rfl, by intro e; cases e⟩
  have hnm : ∀ x ∈ vs, isMsgVal x = false := fun x hx => by
    have := hraw x hx
    cases x <;> simp [rawOk] at this <;> rfl
  have hatoms : ∀ x ∈ vs, dAtom x = true := fun x hx => isLeafVal_dAtom x (hl2 x hx).1
  have hjrt : jrt S [] cs (.dict ks vs) = .dict ks vs := by rw [jrt_dict, jrtList_atoms S [] cs vs hatoms]
  apply slotRTP_mk S cs fs idx f false false (.dict ks vs) (!ks.isEmpty) (.obj (ks.map keyJ) (rawJList vs))
  · rw [toDictSlot]
    simp only [Bool.false_eq_true, if_false, hmap, if_true, Bool.or_false]
    split <;> simp_all
  · rw [toPyDictSlot]
    simp only [Bool.false_eq_true, if_false, hmap, if_true, Bool.or_false, toPyDictMapVals_raw S cs false vs hnm,
      Except.bind, bind]
  · intro ks' ps' he
    injection he with h1 h2
    have hkl : ks.length = vs.length := by
      have h0' := h
      rw [slotOk_dict] at h0'
      simp only [Bool.and_eq_true, beq_iff_eq] at h0'
      exact h0'.1.1.2
    rw [← h1, ← h2]; simp [rawJList_length, hkl]
  · intro _ st hf hst
    rw [hjrt, fromPyField]
    simp only [hm, hmap, hv, Bool.and_false, Bool.false_eq_true, if_false, unRaw, unRawList_rawJList_leaf vs hl2,
      Except.bind, bind, keyV_keyJ ks hks]
    rfl

/-! ### repeated / map / singular sub-messages, given the round trip of the nested bodies -/

theorem toPyDictList_length (S : Schema) (cs : KeyCase) (incl : Bool) : ∀ (xs : List Val) (items : List PVal),
    toPyDictList S cs incl xs = .ok items → items.length = xs.length
  | [], items, h => by rw [toPyDictList] at h; injection h with h; subst h; rfl
  | x :: xs, items, h => by
    cases x <;> first
      | (rw [toPyDictList] at h
         · cases hk : toPyDictKVs S cs incl _ _ 0 _ with
           | error e => rw [hk] at h; cases h
           | ok kvs =>
             rw [hk] at h
             simp only [Except.bind, bind] at h
             cases hr : toPyDictList S cs incl xs with
             | error e => rw [hr] at h; cases h
             | ok js =>
               rw [hr] at h
               injection h with h; subst h
               simp [toPyDictList_length S cs incl xs js hr])
      | (rw [toPyDictList] at h
         · cases h
         all_goals (intros; contradiction))

/-- repeated user messages -/
theorem rtp_list_user (S : Schema) (cs : KeyCase) (fs : List FieldD) (idx : Nat) (f : FieldD) (hid sel : Bool) (xs : List Val)
    (c : Nat) (hp : FP f) (hs : HS f hid sel) (hm : (f.ty == PType.message) = true) (hk : f.kind = .user c)
    (h : slotOk' S f hid sel (.list xs) = true) (items : List PVal)
    (hitems : toPyDictList S cs false xs = .ok items)
    (hdec : fromPyItems S c items = .ok (jrtList S [] cs xs)) : SlotRTP S cs fs idx f hid sel (.list xs) := by
  obtain ⟨hh, hsel, hr, hmap, ho, hw, hit⟩ := list_common S f hid sel xs hp.fj hs h
  subst hh; subst hsel
  have hlen := toPyDictList_length S cs false xs items hitems
  have hemp : items.isEmpty = xs.isEmpty := by cases xs <;> cases items <;> simp_all
  have hg := hp.msg_grp hm
  apply slotRTP_mk S cs fs idx f false false (.list xs) (!xs.isEmpty) (.arr items)
  · rw [toDictSlot]
    simp only [Bool.false_eq_true, if_false, hm, if_true, hw, Option.isSome_none, hr, hk, Bool.or_false,
      toDictList_isEmpty]
    split <;> simp_all
  · rw [toPyDictSlot]
    simp only [Bool.false_eq_true, if_false, hm, if_true, hw, Option.isSome_none, hr, hitems, Except.bind, bind,
      Bool.or_false, hemp]
  · exact objLen_arr _
  · intro _ st hf hst
    have hd : defaultOf S f = .list [] := by unfold defaultOf; rw [defKind_rep f hr]; rfl
    rw [jrt_list, fromPyField]
    simp only [hm, if_true, getAttr_fresh S fs st idx f hf hg ho hst, hd, Except.bind, bind, hw, Option.isSome_none,
      Bool.false_eq_true, if_false, hk, hdec, List.nil_append]
    rw [← hd, setAttr_over S fs st idx f hf]

/-- `map<string, Msg>` -/
theorem rtp_dict_user (S : Schema) (cs : KeyCase) (fs : List FieldD) (idx : Nat) (f : FieldD) (hid sel : Bool) (ks vs : List Val)
    (c : Nat) (hp : FP f) (hs : HS f hid sel) (hv : (f.mapV == PType.message) = true) (hk : f.mapVKind = .user c)
    (h : slotOk' S f hid sel (.dict ks vs) = true) (hkeys : (ks.map keyJ).Nodup) (items : List PVal)
    (hitems : toPyDictMapVals S cs false vs = .ok items) (hil : items.length = vs.length)
    (hdec : fromPyItems S c items = .ok (jrtList S [] cs vs))
    (hjl : (jrtList S [] cs vs).length = vs.length) : SlotRTP S cs fs idx f hid sel (.dict ks vs) := by
  have h0 := h
  obtain ⟨hh, hsel, hty, hks, hvs⟩ := dict_common S f hid sel ks vs hp.fj hs h
  subst hh; subst hsel
  have hmap : (f.ty == PType.map) = true := by simp [hty]
  have hm : (f.ty == PType.message) = false := by rw [hty]; rfl
  have hg := hp.fj.map_grp hmap
  have ho := hp.fj.map_opt hmap
  have hr := hp.fj.map_rep hmap
  have hkl : ks.length = vs.length := by
    rw [slotOk_dict] at h0
    simp only [Bool.and_eq_true, beq_iff_eq] at h0
    exact h0.1.1.2
  apply slotRTP_mk S cs fs idx f false false (.dict ks vs) (!ks.isEmpty) (.obj (ks.map keyJ) items)
  · rw [toDictSlot]
    simp only [Bool.false_eq_true, if_false, hmap, if_true, Bool.or_false]
    split <;> simp_all
  · rw [toPyDictSlot]
    simp only [Bool.false_eq_true, if_false, hmap, if_true, Bool.or_false, hitems, Except.bind, bind]
  · intro ks' ps' he
    injection he with h1 h2
    rw [← h1, ← h2]; simp [hil, hkl]
  · intro _ st hf hst
    have hd : defaultOf S f = .dict [] [] := by unfold defaultOf; rw [defKind_map f hr hmap]; rfl
    have hins := dictInsertAll_new ks (jrtList S [] cs vs) [] [] rfl (by rw [hjl, hkl]) (by intro k _ k0 hk0; cases hk0)
      (str_keys_pairwise ks hks hkeys)
    rw [jrt_dict, fromPyField]
    simp only [hm, hmap, hv, Bool.and_self, Bool.false_eq_true, if_false, if_true,
      getAttr_fresh S fs st idx f hf hg ho hst, hd, Except.bind, bind, hk, hdec, keyV_keyJ ks hks, hins, List.nil_append]
    rw [← hd, setAttr_over S fs st idx f hf]

/-- a singular sub-message -/
theorem rtp_msg_slot (S : Schema) (cs : KeyCase) (fs : List FieldD) (idx : Nat) (f : FieldD) (hid sel : Bool) (c : Nat)
    (sl : List Val) (ow : Bool) (unk : Bytes) (cur : List (Option Nat)) (hp : FP f) (hs : HS f hid sel)
    (h : slotOk' S f hid sel (.msg c sl ow unk cur) = true) (hrt : MsgRTP S cs c sl cur) :
    SlotRTP S cs fs idx f hid sel (.msg c sl ow unk cur) := by
  rw [slotOk_msg] at h
  simp only [Bool.and_eq_true, Bool.not_eq_true', beq_iff_eq, Option.isNone_iff_eq_none] at h
  obtain ⟨⟨⟨⟨⟨hh, hty⟩, hw⟩, hr⟩, hk⟩, hbody⟩ := h
  obtain ⟨hunk, _, _, _⟩ := bodyOk_spec S c sl unk cur hbody
  subst hh; subst hunk
  have hm : (f.ty == PType.message) = true := by simp [hty]
  have hg := hp.msg_grp hm
  have ho := hp.msg_opt hm hw
  have hsel : sel = false := (hs.1 hg).2
  subst hsel
  obtain ⟨kvs, hkvs, hfrom⟩ := hrt
  have hmap : (f.ty == PType.map) = false := by rw [hty]; rfl
  have hdk : f.defKind = .msg c := by rw [defKind_msg f hr hmap (by simp [ho, hw]) hm, hk]; rfl
  apply slotRTP_mk S cs fs idx f false false (.msg c sl ow [] cur)
    (ow || !eqDefault S f.defKind (.msg c sl ow [] cur)) (mkObj kvs)
  · rw [toDictSlot]
    simp only [Bool.false_eq_true, if_false, hm, hw, hr, Option.isNone_none, Bool.not_false, Bool.and_self, if_true,
      Bool.or_false, ho]
    cases ow <;> (split <;> simp_all)
  · rw [toPyDictSlot]
    simp only [Bool.false_eq_true, if_false, hm, hw, hr, Option.isNone_none, Bool.not_false, Bool.and_self, if_true,
      Bool.or_false, hkvs, Except.bind, bind]
    cases ow <;> (split <;> simp_all)
  · exact objLen_mkObj kvs
  · intro _ st hf hst
    have hd : defaultOf S f = fresh S c := by unfold defaultOf; rw [hdk]; rfl
    rw [jrt_msg, mkObj, fromPyField]
    simp only [hm, if_true, getAttr_fresh S fs st idx f hf hg ho hst, hd, fresh, Except.bind, bind, hw, Option.isSome_none,
      Bool.false_eq_true, if_false]
    have hfrom' := hfrom
    unfold freshOn at hfrom'
    rw [hfrom']
    simp only [MState.toVal]
    have := setAttr_over S fs st idx f hf (fresh S c) (.msg c (jrtSlots S [] cs (fieldsOf S c) cur 0 sl) true [] cur)
    unfold fresh at this
    rw [this]

/-! ### the loop over the keys, and a whole message body -/

theorem keys_loop (S : Schema) (cs : KeyCase) (c : Nat) (cur : List (Option Nat))
    (hn : namesOk cs (fieldsOf S c) = true)
    (hopt : ∀ f ∈ fieldsOf S c, f.group.isSome = true → f.optional = false) :
    ∀ (vs : List Val) (idx : Nat) (st : MState), FreshAbove (fieldsOf S c) idx st →
      (∀ k v f, vs[k]? = some v → (fieldsOf S c)[idx + k]? = some f →
        SlotRTP S cs (fieldsOf S c) (idx + k) f (hidden f (idx + k) cur) (selectedInGroup f (idx + k) cur) v) →
      ∃ kvs, toPyDictKVs S cs false (fieldsOf S c) cur idx vs = .ok kvs ∧
        fromPyKeys S c st (kvs.map (·.1)) (kvs.map (·.2))
          = .ok (applyKw S (fieldsOf S c) st (emitted2 S [] cs (fieldsOf S c) cur idx vs))
  | [], idx, st, _, _ => by
    refine ⟨[], by rw [toPyDictKVs], ?_⟩
    rw [emitted2]; simp [fromPyKeys, applyKw]
  | v :: vs, idx, st, hfr, hrt => by
    rw [toPyDictKVs, emitted2]
    have hrt' : ∀ k v' f, vs[k]? = some v' → (fieldsOf S c)[idx + 1 + k]? = some f →
        SlotRTP S cs (fieldsOf S c) (idx + 1 + k) f (hidden f (idx + 1 + k) cur) (selectedInGroup f (idx + 1 + k) cur) v' := by
      intro k v' f' hv hf'
      have e : idx + (k + 1) = idx + 1 + k := by omega
      have := hrt (k + 1) v' f' (by simpa using hv) (by rw [e]; exact hf')
      rw [e] at this; exact this
    cases hf : (fieldsOf S c)[idx]? with
    | none => exact ⟨[], rfl, by simp [fromPyKeys, applyKw]⟩
    | some f =>
      simp only
      have h0 := hrt 0 v f (by simp) (by simpa using hf)
      simp only [Nat.add_zero] at h0
      cases hs : toDictSlot S [] cs false f (hidden f idx cur) (selectedInGroup f idx cur) v with
      | none =>
        obtain ⟨kvs, hk1, hk2⟩ := keys_loop S cs c cur hn hopt vs (idx + 1) st (freshAbove_mono _ idx st hfr) hrt'
        refine ⟨kvs, ?_, hk2⟩
        rw [h0.1 hs, hk1]; rfl
      | some j =>
        obtain ⟨p, hp1, _, hp2⟩ := h0.2 j hs
        have hdec := hp2 st hf (hfr idx f (Nat.le_refl _) hf)
        obtain ⟨kvs, hk1, hk2⟩ := keys_loop S cs c cur hn hopt vs (idx + 1)
          (setAttr S (fieldsOf S c) st idx (jrt S [] cs v)) (freshAbove_setAttr S _ idx st _ hopt hfr) hrt'
        refine ⟨(jsonKey cs f.name, p) :: kvs, ?_, ?_⟩
        · rw [hp1, hk1]; rfl
        · simp only [List.map_cons]
          rw [fromPyKeys, namesOk_lookup cs _ hn idx f hf]
          simp only [hdec, Except.bind, bind]
          rw [hk2]; rfl

/-- the `setattr` sequence of the written fields on a fresh instance ends in the state of `jrt` -/
theorem applyKw_fresh_jrt (S : Schema) (cs : KeyCase) (hS : SchemaOk S [] cs) (c : Nat) (sl : List Val) (unk : Bytes)
    (cur : List (Option Nat)) (hbody : bodyOk S c sl unk cur = true) (hcp : curPoints (fieldsOf S c) cur = true)
    (hrt : ∀ k v f, sl[k]? = some v → (fieldsOf S c)[k]? = some f →
      SlotRT2 S [] cs f (hidden f k cur) (selectedInGroup f k cur) v) :
    applyKw S (fieldsOf S c) (freshOn S c) (emitted2 S [] cs (fieldsOf S c) cur 0 sl)
      = { slots := jrtSlots S [] cs (fieldsOf S c) cur 0 sl, onWire := true, unknown := [], cur := cur } := by
  obtain ⟨_, hlen, hcl, _⟩ := bodyOk_spec S c sl unk cur hbody
  have hfin := instInv_step S [] cs (fieldsOf S c) (groupsOf S c) sl cur (schema_groups S [] cs hS c)
    (fun f hf hg => fieldJsonOk_group_nonopt f (schema_field S [] cs hS c f hf) hg) hlen hcp hrt
    sl 0 _ (instInv_fresh S [] cs (fieldsOf S c) (groupsOf S c) sl cur)
    (fun k v hk => by simpa using hk) (by simpa using hlen)
  obtain ⟨e1, e2, e3, e4⟩ := instInv_final S [] cs (fieldsOf S c) (groupsOf S c) sl cur _ hlen hcl hcp hfin
  unfold freshOn
  cases hq : applyKw S (fieldsOf S c) _ (emitted2 S [] cs (fieldsOf S c) cur 0 sl) with
  | mk a b c' d =>
    rw [hq] at e1 e2 e3 e4
    simp only at e1 e2 e3 e4
    rw [e1, e2, e3, e4]

theorem msgRTP_of_slots (S : Schema) (cs : KeyCase) (hS : SchemaOk S [] cs) (c : Nat) (sl : List Val) (unk : Bytes)
    (cur : List (Option Nat)) (hbody : bodyOk S c sl unk cur = true) (hcp : curPoints (fieldsOf S c) cur = true)
    (hrt2 : ∀ k v f, sl[k]? = some v → (fieldsOf S c)[k]? = some f →
      SlotRT2 S [] cs f (hidden f k cur) (selectedInGroup f k cur) v)
    (hrtp : ∀ k v f, sl[k]? = some v → (fieldsOf S c)[0 + k]? = some f →
      SlotRTP S cs (fieldsOf S c) (0 + k) f (hidden f (0 + k) cur) (selectedInGroup f (0 + k) cur) v) :
    MsgRTP S cs c sl cur := by
  obtain ⟨kvs, h1, h2⟩ := keys_loop S cs c cur (schema_names S [] cs hS c)
    (fun f hf hg => fieldJsonOk_group_nonopt f (schema_field S [] cs hS c f hf) hg) sl 0 (freshOn S c)
    (freshAbove_fresh S c) hrtp
  exact ⟨kvs, h1, by rw [h2, applyKw_fresh_jrt S cs hS c sl unk cur hbody hcp hrt2]⟩

/-! ### the induction over nested messages -/

theorem dictKeysOkL_cons (x : Val) (xs : List Val) : dictKeysOkL (x :: xs) = (dictKeysOk x && dictKeysOkL xs) := by
  rw [dictKeysOkL]

theorem jrtList_length (S : Schema) (E : Enums) (cs : KeyCase) : ∀ xs : List Val, (jrtList S E cs xs).length = xs.length
  | [] => by rw [jrtList]
  | x :: xs => by rw [jrtList]; simp [jrtList_length S E cs xs]

mutual
theorem rtp_slots (S : Schema) (cs : KeyCase) (hS : SchemaOk S [] cs) (hP : ∀ c, ∀ f ∈ fieldsOf S c, fieldPyOk f = true)
    (fs : List FieldD) (cur : List (Option Nat)) (hfs : ∀ f ∈ fs, fieldPyOk f = true) :
    ∀ (vs : List Val) (idx : Nat), slotsOk' S fs cur idx vs = true → selOkList S vs = true → dictKeysOkL vs = true →
      ∀ k v f, vs[k]? = some v → fs[idx + k]? = some f →
        SlotRTP S cs fs (idx + k) f (hidden f (idx + k) cur) (selectedInGroup f (idx + k) cur) v
  | [], _, _, _, _ => by intro k v f hv; simp at hv
  | a :: as, idx, h, hs, hd => by
    rw [slotsOk'] at h
    rw [selOkList] at hs
    rw [dictKeysOkL_cons] at hd
    simp only [Bool.and_eq_true] at h hs hd
    intro k v f hv hf
    cases k with
    | zero =>
      simp only [List.getElem?_cons_zero, Option.some.injEq] at hv
      simp only [Nat.add_zero] at hf ⊢
      rw [hf] at h
      rw [← hv]
      exact rtp_slot S cs hS hP fs idx f _ _ (fp_of f (hfs f (List.mem_of_getElem? hf))) (hs_slot f idx cur) a h.1 hs.1 hd.1
    | succ k =>
      have := rtp_slots S cs hS hP fs cur hfs as (idx + 1) h.2 hs.2 hd.2 k v f (by simpa using hv)
        (by rw [← hf]; congr 1; omega)
      have e : idx + (k + 1) = idx + 1 + k := by omega
      rw [e]; exact this
termination_by structural vs => vs

theorem rtp_slot (S : Schema) (cs : KeyCase) (hS : SchemaOk S [] cs) (hP : ∀ c, ∀ f ∈ fieldsOf S c, fieldPyOk f = true)
    (fs : List FieldD) (idx : Nat) (f : FieldD) (hid sel : Bool) (hp : FP f) (hs : HS f hid sel) :
    ∀ (v : Val), slotOk' S f hid sel v = true → selOk S v = true → dictKeysOk v = true → SlotRTP S cs fs idx f hid sel v
  | .ph, h, _, _ => rtp_ph S cs fs idx f hid sel hp h
  | .none, h, _, _ => rtp_none S cs fs idx f hid sel hp hs h
  | .int i, h, _, _ => rtp_leaf S cs fs idx f hid sel (.int i) hp rfl (by intro e; cases e) h
  | .bool b, h, _, _ => rtp_leaf S cs fs idx f hid sel (.bool b) hp rfl (by intro e; cases e) h
  | .f32 b, h, _, _ => rtp_leaf S cs fs idx f hid sel (.f32 b) hp rfl (by intro e; cases e) h
  | .f64 b, h, _, _ => rtp_leaf S cs fs idx f hid sel (.f64 b) hp rfl (by intro e; cases e) h
  | .str s, h, _, _ => rtp_leaf S cs fs idx f hid sel (.str s) hp rfl (by intro e; cases e) h
  | .byt s, h, _, _ => rtp_leaf S cs fs idx f hid sel (.byt s) hp rfl (by intro e; cases e) h
  | .ts us, h, _, _ => rtp_leaf S cs fs idx f hid sel (.ts us) hp rfl (by intro e; cases e) h
  | .dur us, h, _, _ => rtp_leaf S cs fs idx f hid sel (.dur us) hp rfl (by intro e; cases e) h
  | .list xs, h, hsel, hdk => by
    by_cases hu : (f.ty == PType.message) = true ∧ f.wraps = Option.none ∧ ∃ c, f.kind = .user c
    · obtain ⟨hm, hw, c, hk⟩ := hu
      obtain ⟨_, _, _, _, _, _, hit⟩ := list_common S f hid sel xs hp.fj hs h
      rw [selOk_list] at hsel
      rw [dictKeysOk_list] at hdk
      obtain ⟨items, h1, _, h3, _⟩ := rtp_msgs S cs hS hP c xs (itemsOk_user S f c xs hm hw hk hit) hsel hdk
      exact rtp_list_user S cs fs idx f hid sel xs c hp hs hm hk h items h1 h3
    · exact rtp_list_flat S cs fs idx f hid sel xs hp hs hu h
  | .dict ks vs, h, hsel, hdk => by
    rw [dictKeysOk_dict] at hdk
    simp only [Bool.and_eq_true, decide_eq_true_eq] at hdk
    by_cases hv : (f.mapV == PType.message) = true
    · obtain ⟨_, _, hty, _, hvs⟩ := dict_common S f hid sel ks vs hp.fj hs h
      obtain ⟨c, hk⟩ := hp.fj.map_vk (by simp [hty]) hv
      rw [selOk_dict] at hsel
      obtain ⟨items, _, h2, h3, h4⟩ := rtp_msgs S cs hS hP c vs (mapValsOk_user S f c vs hv hk hvs) hsel hdk.2
      exact rtp_dict_user S cs fs idx f hid sel ks vs c hp hs hv hk h hdk.1 items h2 h4 h3 (jrtList_length S [] cs vs)
    · exact rtp_dict_flat S cs fs idx f hid sel ks vs hp hs (by simpa using hv) h
  | .msg c sl ow unk cur, h, hsel, hdk => by
    have hbody : bodyOk S c sl unk cur = true := by
      rw [slotOk_msg] at h
      simp only [Bool.and_eq_true] at h
      exact h.2
    rw [selOk_msg] at hsel
    rw [dictKeysOk_msg] at hdk
    simp only [Bool.and_eq_true] at hsel
    obtain ⟨_, _, _, hsl⟩ := bodyOk_spec S c sl unk cur hbody
    have hrt2 := rt_slots S [] cs hS (fieldsOf S c) cur (fun f hf => schema_field S [] cs hS c f hf) sl 0 hsl hsel.2
    have hrtp := rtp_slots S cs hS hP (fieldsOf S c) cur (hP c) sl 0 hsl hsel.2 hdk
    exact rtp_msg_slot S cs fs idx f hid sel c sl ow unk cur hp hs h
      (msgRTP_of_slots S cs hS c sl unk cur hbody hsel.1 (fun k v f hv hf => by
        have := hrt2 k v f hv (by simpa using hf)
        simpa using this) hrtp)
termination_by structural v => v

/-- a list of messages of class `c` (the items of a repeated field, the values of a map) -/
theorem rtp_msgs (S : Schema) (cs : KeyCase) (hS : SchemaOk S [] cs) (hP : ∀ c, ∀ f ∈ fieldsOf S c, fieldPyOk f = true)
    (c : Nat) :
    ∀ (xs : List Val), (∀ x ∈ xs, ∃ sl ow unk cur, x = Val.msg c sl ow unk cur ∧ bodyOk S c sl unk cur = true) →
      selOkList S xs = true → dictKeysOkL xs = true →
      ∃ items, toPyDictList S cs false xs = .ok items ∧ toPyDictMapVals S cs false xs = .ok items ∧
        fromPyItems S c items = .ok (jrtList S [] cs xs) ∧ items.length = xs.length
  | [], _, _, _ => by
    refine ⟨[], by rw [toPyDictList], by rw [toPyDictMapVals], ?_, rfl⟩
    rw [jrtList, fromPyItems]
  | .msg c' sl ow unk cur :: xs, h, hsel, hdk => by
    obtain ⟨sl0, ow0, unk0, cur0, e, hbody0⟩ := h _ (List.mem_cons_self)
    have ec : c' = c := by injection e
    have hbody : bodyOk S c' sl unk cur = true := by
      injection e with e1 e2 e3 e4 e5
      rw [e1, e2, e4, e5]; exact hbody0
    rw [selOkList, selOk_msg] at hsel
    rw [dictKeysOkL_cons, dictKeysOk_msg] at hdk
    simp only [Bool.and_eq_true] at hsel hdk
    obtain ⟨hunk, _, _, hsl⟩ := bodyOk_spec S c' sl unk cur hbody
    have hrt2 := rt_slots S [] cs hS (fieldsOf S c') cur (fun f hf => schema_field S [] cs hS c' f hf) sl 0 hsl hsel.1.2
    have hrtp := rtp_slots S cs hS hP (fieldsOf S c') cur (hP c') sl 0 hsl hsel.1.2 hdk.1
    obtain ⟨kvs, a1, a2⟩ := msgRTP_of_slots S cs hS c' sl unk cur hbody hsel.1.1 (fun k v f hv hf => by
        have := hrt2 k v f hv (by simpa using hf)
        simpa using this) hrtp
    obtain ⟨items, b1, b2, b3, b4⟩ := rtp_msgs S cs hS hP c xs (fun x hx => h x (List.mem_cons_of_mem _ hx)) hsel.2 hdk.2
    subst hunk
    refine ⟨mkObj kvs :: items, ?_, ?_, ?_, by simp [b4]⟩
    · rw [toPyDictList, a1, b1]; rfl
    · rw [toPyDictMapVals, a1, b2]; rfl
    · rw [jrtList, jrt_msg, mkObj, fromPyItems]
      unfold freshOn at a2
      rw [← ec, a2]
      rw [← ec] at b3
      simp only [Except.bind, bind, b3, MState.toVal]
  | .ph :: _, h, _, _ | .none :: _, h, _, _ | .int _ :: _, h, _, _ | .bool _ :: _, h, _, _ | .f32 _ :: _, h, _, _
  | .f64 _ :: _, h, _, _ | .str _ :: _, h, _, _ | .byt _ :: _, h, _, _ | .ts _ :: _, h, _, _ | .dur _ :: _, h, _, _
  | .list _ :: _, h, _, _ | .dict _ _ :: _, h, _, _ => by
    obtain ⟨_, _, _, _, e, _⟩ := h _ (List.mem_cons_self)
    cases e
termination_by structural xs => xs
end

/-- **`Cls().from_pydict(m.to_pydict(casing))` returns `jrt m`** -/
theorem pydict_roundtrip (S : Schema) (cs : KeyCase) (hok : pyDictOk S cs = true) (hgroups : groupsOk S = true)
    (c : Nat) (sl : List Val) (ow : Bool) (unk : Bytes) (cur : List (Option Nat))
    (hwt : wellTyped' S (.msg c sl ow unk cur) = true) (hsel : selOk S (.msg c sl ow unk cur) = true)
    (hkeys : dictKeysOk (.msg c sl ow unk cur) = true) :
    ∃ p, toPyDict S cs false (.msg c sl ow unk cur) = .ok p ∧
      fromPyDict S c p = .ok (jrt S [] cs (.msg c sl ow unk cur)) := by
  obtain ⟨hjson, hP⟩ := pyDictOk_schema S cs hok
  have hS : SchemaOk S [] cs := ⟨hjson, hgroups⟩
  have hbody : bodyOk S c sl unk cur = true := by rw [wellTyped_msg] at hwt; exact hwt
  rw [selOk_msg] at hsel
  rw [dictKeysOk_msg] at hkeys
  simp only [Bool.and_eq_true] at hsel
  obtain ⟨hunk, _, _, hsl⟩ := bodyOk_spec S c sl unk cur hbody
  have hrt2 := rt_slots S [] cs hS (fieldsOf S c) cur (fun f hf => schema_field S [] cs hS c f hf) sl 0 hsl hsel.2
  have hrtp := rtp_slots S cs hS hP (fieldsOf S c) cur (hP c) sl 0 hsl hsel.2 hkeys
  obtain ⟨kvs, a1, a2⟩ := msgRTP_of_slots S cs hS c sl unk cur hbody hsel.1 (fun k v f hv hf => by
      have := hrt2 k v f hv (by simpa using hf)
      simpa using this) hrtp
  subst hunk
  refine ⟨mkObj kvs, by rw [toPyDict, a1]; rfl, ?_⟩
  unfold fromPyDict fromPyDictI fresh
  unfold freshOn at a2
  simp only [mkObj, a2, Except.bind, bind, jrt_msg, MState.toVal]

end Bp
