import Mathlib.Data.Int.Bitwise
import BpModel.Varint
/-
  Semantic prelude of the SOURCE TRANSLATOR (harness/extract_src.py).

  The translator reads the Python AST of a whitelisted set of functions of
  /repo/src/betterproto/__init__.py on every run and writes them out as Lean
  definitions (BpProofs/Gen/SrcCodec.lean) over the vocabulary below.  What is
  ASSUMED (trusted, not proved) is exactly this file: that Python's unbounded `int`
  operators, `bytes` concatenation / slicing, `BytesIO.read / write / seek`,
  `int.to_bytes(1, "little")`, `int.from_bytes(…, "little")`, `int.bit_length()` and
  `math.ceil(a / b)` (for the operand sizes that occur: bit lengths below 2^53) mean
  what is written here, and that the translator maps syntax to these functions
  faithfully.  BpProofs/SrcTie.lean proves that the translated functions equal the
  hand-written model (BpModel/Varint.lean …) the property theorems are about.
-/
namespace Bp.Py

/-- outcome of running translated code: a value, a raised exception, or "the fuel ran
    out" (the Python loop had not finished after `fuel` iterations) -/
inductive Res (α : Type) where
  | ok (a : α)
  | raise (e : PyErr)
  | diverge
  deriving Repr, DecidableEq

def Res.bind {α β : Type} (r : Res α) (f : α → Res β) : Res β :=
  match r with
  | .ok a => f a
  | .raise e => .raise e
  | .diverge => .diverge

/-- what a loop hands back: the enclosing function returned (`ret`), or the loop ended
    and execution goes on with the loop-carried variables (`next`) -/
inductive Ctl (ρ σ : Type) where
  | ret (r : ρ)
  | next (s : σ)

/-- the model's `R` seen as a `Res` -/
def ofR {α : Type} : R α → Res α
  | .ok a => .ok a
  | .error e => .raise e

/-- Python `a & b`, `a | b`, `a ^ b`, `~a` on unbounded ints (two's complement) -/
def and (a b : Int) : Int := Int.land a b
def or (a b : Int) : Int := Int.lor a b
def xor (a b : Int) : Int := Int.xor a b
def inv (a : Int) : Int := -a - 1
/-- `a << b`, `a >> b` for a non-negative shift count (all counts in the translated
    code are literals or a counter that starts at 0 and grows) -/
def shl (a b : Int) : Int := a * 2 ^ b.toNat
def shr (a b : Int) : Int := a / 2 ^ b.toNat

/-- `x.to_bytes(1, "little")`: OverflowError outside 0..255 -/
def toBytes1 (x : Int) : Res Bytes :=
  if 0 ≤ x ∧ x < 256 then .ok [x.toNat] else .raise .overflow
/-- `int.from_bytes(b, byteorder="little")` -/
def fromBytesLE (b : Bytes) : Int := (unpackLE b : Nat)
/-- `stream.read(n)` on a BytesIO for n ≥ 0: the bytes handed out / the bytes left -/
def take (s : Bytes) (n : Int) : Bytes := s.take n.toNat
def drop (s : Bytes) (n : Int) : Bytes := s.drop n.toNat
/-- `len(b)` -/
def len (b : Bytes) : Int := (b.length : Nat)
/-- `x.bit_length()` -/
def bitLength (x : Int) : Int := (bitLen x.natAbs : Nat)
/-- `math.ceil(a / b)` for ints `a ≥ 0`, `b > 0` (float division; exact enough for
    every bit length a Python int can have: the quotient is below 2^53) -/
def ceilDiv (a b : Int) : Int := (a + b - 1) / b

end Bp.Py
