import BpProofs.PyRegex
import BpModel.Casing
/-
  Semantic prelude of the SOURCE TRANSLATOR for src/betterproto/casing.py
  (harness/extract_srccasing.py → BpProofs/Gen/SrcCasing.lean), next to BpProofs/PyRegex.lean (`re.sub`)
  and BpProofs/PyPreludeStr.lean (`str * int`, slices, `+`, f-strings, truth value).

  What is ASSUMED (trusted, not proved):
    * `x.lower()`, `x.capitalize()` are the model's `Casing.lowerW`, `Casing.capitalize` (used as they are):
      the ASCII letters are mapped through the explicit 26-entry tables, every other character is unchanged.
      That is Python's behaviour on ASCII strings; casing.py applies them to the `word` group of a match —
      ASCII letters and digits by the character sets of the patterns — and to the first character of the
      result of `pascal_case`, which is made of such words only (`Bp.Casing.pascal_not_sym`).
    * `x.isidentifier()` is the model's `Casing.pyIdent` (`[A-Za-z_][A-Za-z0-9_]*`): Python's notion on ASCII
      strings; `sanitize_name` is applied to the result of `snake_case`, which is ASCII (`snake_identChars`).
    * `keyword.iskeyword(x)` is membership in `keyword.kwlist` of the interpreter, regenerated on every run
      (BpModel/Gen/Keywords.lean).
    * `match[i]` used as a `str` (`Match.str`): the translator has checked on the parsed pattern that group i
      lies on every path, so it is never `None`.
-/
namespace Bp.Py
open Bp.Importing (Str)

/-- `x.lower()` -/
def lower (x : Str) : Str := Casing.lowerW x
/-- `x.capitalize()` -/
def capitalize (x : Str) : Str := Casing.capitalize x
/-- `x.isidentifier()` -/
def isidentifier (x : Str) : Bool := Casing.pyIdent x
/-- `keyword.iskeyword(x)` -/
def iskeyword (x : Str) : Bool := decide (x ∈ Bp.Gen.keywords.map String.toList)

end Bp.Py

namespace Bp.PyRe
/-- `match[i]` for a group that takes part in every match -/
def Match.str (mt : Match) (i : Nat) : Bp.Importing.Str := (mt.group i).getD []
end Bp.PyRe
