import BpModel.Chan
/-
  Semantic prelude of the SOURCE TRANSLATOR for src/betterproto/grpc/util/async_channel.py
  (harness/extract_srcchan.py → BpProofs/Gen/SrcChan.lean).

  A method of `AsyncChannel` is translated into a RESUMPTION PROGRAM `Co`: a tree of commands, one per access to
  the channel's attributes / call on `self._queue`, each holding its continuation.  An `async def` ends in the leaves
  `ret v` / `raise e`; a synchronous method (`done`, `closed`, `close`, `__init__`, `__aiter__`) is translated in
  continuation-passing form (`k : Val → Co` receives the returned value) so that a call of it is inlined.
  `try: B finally: F` is translated by running `F` on EVERY exit of `B`: its normal end, each `return`, each `raise`, and
  the exception continuation `h` of every command of `B` that can raise (`await get()`, `await put()`, `task_done()`).

  What is ASSUMED (trusted, not proved) is the meaning of the commands, written below against the hand-written model
  of CPython 3.12's `asyncio.Queue` of BpModel/Chan.lean (`popQ` = the wake-up of `get_nowait`, `putNowait`, `wake` =
  `_wakeup_next`, `Sys.full`), which stays hand-modelled (asyncio is an external; its fidelity is what the lock-step
  correspondence of harness/props/c12.py validates):
    * `self._closed`, `self._flushed`, `self._waiting_receivers` are the fields `closed`, `flushed`, `waiting` of `Sys`;
      Python ints are `Int` in the translated text, the field `waiting` is a `Nat`: a store writes `n.toNat`
      (that no store is ever negative on a reachable state is `Bp.C12.src_waiting_positive_inside_get`);
    * `self._queue.qsize()` is `queue.length`; `asyncio.Queue(n)` is an empty queue with `maxsize = n` (`n ≤ 0`: unbounded);
    * `self._queue.task_done()` raises ValueError when `_unfinished_tasks` is 0, else decrements it
      (`join()` / `_finished` are not used by the channel and not modelled);
    * `asyncio.ensure_future(self._flush_queue())` appends a not yet started task whose coroutine is `_flush_queue()`;
    * `x is self.__flush`: the sentinel is the item `Item.flush`, distinct from every data item (`__flush = object()`);
    * `max(a, b)`, `range(n)` (only its number of elements: the translator refuses a loop body that reads the variable),
      `a and b` on bools, `<=`, `+`, `-` on ints; a `for` loop evaluates its head (`iter`) before every iteration and
      once more to leave;
    * `await self._queue.get()` / `put(x)`: `tryGet` / `tryPut` are one pass through `while self.empty():` /
      `while self.full():` — `none` means the coroutine suspends on a new waiter future (`suspendOn`); when
      CancelledError is thrown into the coroutine at that await, `cancelWaiter` is the `except:` clause of
      `Queue.get` / `Queue.put`, after which the exception continuation `h` of the command runs.
  The ghost fields of `Sys` (`putLog`, `preClose`) are written where the model writes them (`putNowait`; the store
  `self._closed = True`).
-/
namespace Bp.PyChan
open Bp.Chan

/-- the exceptions the channel code raises or lets through -/
inductive Exc where
  | stopAsyncIteration | channelClosed | channelDone | cancelledError | valueError
deriving DecidableEq, Repr

/-- the values the methods return -/
inductive Val where
  | none
  | self
  | bool (b : Bool)
  | item (i : Item)
deriving DecidableEq, Repr

/-- `if v:` on a returned value -/
def truthy : Val → Bool
  | .bool b => b
  | .none => false
  | _ => true

/-- resumption programs -/
inductive Co where
  | ret (v : Val)
  | raise (e : Exc)
  | getClosed (k : Bool → Co)
  | setClosed (b : Bool) (k : Co)
  | getFlushed (k : Bool → Co)
  | setFlushed (b : Bool) (k : Co)
  | getWaiting (k : Int → Co)
  | setWaiting (n : Int) (k : Co)
  | newQueue (maxsize : Int) (k : Co)
  | qsize (k : Int → Co)
  | taskDone (k : Co) (h : Exc → Co)
  | ensureFlush (k : Co)
  | awaitGet (k : Item → Co) (h : Exc → Co)
  | awaitPut (x : Item) (k : Co) (h : Exc → Co)
  /-- the head of a `for` loop (the next element is fetched or the loop is left): no effect; it only ENDS a
      synchronous segment, as an `await` does (the model's atomic actions are loop iterations) -/
  | iter (c : Co)

/-- `x is self.__flush` -/
def isFlush (x : Item) : Bool := x == Item.flush

/-- `self.__flush` -/
def flush : Item := Item.flush

/-- `max(a, b)` (the first maximal argument) -/
def max (a b : Int) : Int := if a < b then b else a

/-- number of iterations of `for _ in range(n)` -/
def rangeCount (n : Int) : Nat := n.toNat

/-- `self._closed = b`, with the model's ghost `preClose` (length of the put log at the first close) -/
def storeClosed (s : Sys) (b : Bool) : Sys :=
  { s with closed := b,
           preClose := if b then (match s.preClose with | none => some s.putLog.length | some n => some n)
                       else s.preClose }

/-- run the synchronous commands at the head of a program; stops at `ret`, `raise`, an `await` or a loop head -/
def runSync (s : Sys) : Co → Sys × Co
  | .getClosed k => runSync s (k s.closed)
  | .setClosed b k => runSync (storeClosed s b) k
  | .getFlushed k => runSync s (k s.flushed)
  | .setFlushed b k => runSync { s with flushed := b } k
  | .getWaiting k => runSync s (k (s.waiting : Int))
  | .setWaiting n k => runSync { s with waiting := n.toNat } k
  | .newQueue m k => runSync { s with maxsize := m.toNat, queue := [], getters := [], putters := [], unfinished := 0 } k
  | .qsize k => runSync s (k (s.queue.length : Int))
  | .taskDone k h =>
    if s.unfinished = 0 then runSync s (h .valueError) else runSync { s with unfinished := s.unfinished - 1 } k
  | .ensureFlush k => runSync { s with tasks := s.tasks ++ [flusherTask] } k
  | .ret v => (s, .ret v)
  | .raise e => (s, .raise e)
  | .awaitGet k h => (s, .awaitGet k h)
  | .awaitPut x k h => (s, .awaitPut x k h)
  | .iter c => (s, .iter c)

/-- go through a loop head -/
def unIter : Co → Co
  | .iter c => c
  | c => c

/-- one pass through `while self.empty(): …` / `return self.get_nowait()` of `Queue.get` -/
def tryGet (s : Sys) : Option (Item × Sys) :=
  match s.queue with
  | [] => none
  | it :: rest => some (it, popQ s rest)

/-- one pass through `while self.full(): …` / `return self.put_nowait(item)` of `Queue.put` -/
def tryPut (s : Sys) (it : Item) : Option Sys :=
  if s.full then none else some (putNowait s it)

/-- `getter = loop.create_future(); self._getters.append(getter)` (resp. `_putters`) for task `t` -/
def suspendOn (s : Sys) (t : Nat) (g : Bool) : Sys := s.setDq g (s.dq g ++ [t])

/-- the `except:` clause of `Queue.get` (`g`) / `Queue.put` when the exception is thrown in at `await getter`:
    `getter.cancel()`, remove the waiter, `if not self.empty() and not getter.cancelled(): self._wakeup_next(...)`
    (`f` is the state the future was in) -/
def cancelWaiter (s : Sys) (t : Nat) (g : Bool) (f : Fut) : Sys :=
  let s1 := s.setDq g ((s.dq g).erase t)
  if f ≠ .cancelled ∧ (if g then !s.queue.isEmpty else !s.full) then wake g s1 else s1

end Bp.PyChan
